#!/usr/bin/env python3
"""Regenerates MANIFEST.json from checks_config.py (run after editing the config)."""
import json, os, subprocess, sys
VERIF = os.path.dirname(os.path.abspath(__file__))
sys.path.insert(0, VERIF)
from checks_config import CHECKS, NOT_APPLICABLE, HOOK_COMMITS

props = [json.loads(l) for l in open(os.path.join(VERIF, "properties.jsonl")) if l.strip()]
ids = [p["id"] for p in props]

BASE_OFF = ("cd /repo && go build ./... && go test -json -vet=off -count=1 -timeout 25m ./...")

man = {
    "version": 1,
    "setup_cmd": "./check --setup",
    "hooks": {
        "guard": "verif",
        "enable": "go test -tags verif (harness module /verif/harness replaces github.com/elnosh/gonuts => /repo; hook files carry //go:build verif)",
        "baseline_off_cmd": BASE_OFF,
        "source_commits": HOOK_COMMITS,
        "add_only": True,
    },
    "engines": [
        {"name": "harness", "path": "harness", "serves_properties": sorted(CHECKS.keys()),
         "kind_free_text": "Go module: pgregory.net/rapid v1.3.0 property/state-machine tests, exhaustive fault/schedule enumerations driven through the same property functions, native go fuzzing on coverage-instrumented builds (byte-level parsers, request bodies at the HTTP surface, and the generated-input properties through rapid.MakeFuzz); independent reference implementations in harness/ref; in-process Lightning network model (also behind imitations of the CLN REST and LND rpc interfaces, so that the repository's own adapters run in the loop), storage proxies, cooperative scheduler and HTTP router"},
        {"name": "driver", "path": "check", "serves_properties": sorted(CHECKS.keys()),
         "kind_free_text": "python3 driver: rebuilds the test binary from /repo's working tree with -tags verif, shards rapid runs by seed derived from VERIF_SEED, merges evidence, maps outcomes to exit 0/1/2"},
    ],
    "checks": [],
    "not_applicable": [],
    "notes": "Technique family: property-based testing and fuzzing only. known_findings.jsonl lists recorded defects (status known) and repaired ones (status fixed). Exit 2 = inconclusive infrastructure outcome.",
}
for cid in ids:
    if cid in CHECKS:
        c = CHECKS[cid]
        man["checks"].append({
            "property_id": cid,
            "quick_cmd": "./check %s quick" % cid,
            "thorough_cmd": "./check %s thorough" % cid,
            "evidence_file": "/verif/evidence/%s.json" % cid,
            "replay_cmd_template": "./check --replay {path}",
            "engine": "harness",
            "level_claimed": {"category": c["level"], "text": c["level_text"], "design_ref": c.get("design_ref", "DESIGN.md section 4, " + cid)},
            "level_note": c["level_note"],
            "technique": c["technique"],
        })
    else:
        man["not_applicable"].append({"property_id": cid, "reason": NOT_APPLICABLE.get(cid, "check not built yet in this round; see DESIGN.md")})
json.dump(man, open(os.path.join(VERIF, "MANIFEST.json"), "w"), indent=1)
print("MANIFEST.json written: %d checks, %d not_applicable" % (len(man["checks"]), len(man["not_applicable"])))
