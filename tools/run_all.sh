#!/bin/bash
# usage: tools/run_all.sh quick|thorough [ids...]   - runs the checks one after the other, prints one line each
tier=${1:-quick}; shift
ids=${@:-C01 C02 C03 C04 C05 C06 C07 C08 C09 C10 C11 C12 C13 C14 C15 C16 C17 C18 C19 C20}
cd "$(dirname "$0")/.."
fail=0
for id in $ids; do
  t0=$(date +%s)
  out=$(./check $id $tier 2>&1); rc=$?
  t1=$(date +%s)
  echo "$id $tier exit=$rc $((t1-t0))s :: $(echo "$out" | grep -E "^$id $tier:" | cut -c1-140)"
  if [ $rc -ne 0 ]; then fail=1; echo "$out" | grep -E "^VIOLATION|^INCONCLUSIVE|BUILD FAILED" | head -5 | cut -c1-300; fi
done
exit $fail
