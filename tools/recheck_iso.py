#!/usr/bin/env python3
"""Re-run checks against a stored seeded change in an isolated copy of /verif and a patched clone of /repo
(neither working tree is touched), and update the seed's meta.json.
usage: recheck_iso.py <ID-n> [--checks "C01 C02"] [--tier quick] [--history "note"]"""
import json, os, re, shutil, subprocess, sys, time
name = sys.argv[1]
args = sys.argv[2:]
def opt(k, d=None):
    return args[args.index(k) + 1] if k in args else d
d = os.path.join("/verif/seeded", name)
meta = json.load(open(os.path.join(d, "meta.json")))
pid = meta["property"]
tier = opt("--tier", "quick")
checks = opt("--checks", pid).split()
iso = "/dev/shm/recheck-%d" % os.getpid()
os.makedirs(iso)
try:
    subprocess.run(["rsync", "-a", "--exclude", "replays", "--exclude", ".git", "--exclude", "seeded", "/verif/", iso + "/verif/"], check=True)
    subprocess.run(["git", "clone", "-q", "/repo", iso + "/repo"], check=True)
    subprocess.run("git -C %s/repo apply %s" % (iso, os.path.join(d, "patch.diff")), shell=True, check=True)
    for c in checks:
        t0 = time.time()
        p = subprocess.run("./check %s %s" % (c, tier), cwd=iso + "/verif", shell=True, env=dict(os.environ, VERIF_REPO=iso + "/repo"),
                           stdout=subprocess.PIPE, stderr=subprocess.STDOUT, text=True)
        v = [l for l in p.stdout.splitlines() if l.startswith("VIOLATION")]
        sigs = []
        for l in v[:3]:
            mm = re.search(r"replay=(\S+)", l)
            if mm and os.path.exists(mm.group(1)):
                for ln in open(mm.group(1), errors="replace"):
                    if "VIOLATION" in ln or '"signature"' in ln:
                        sigs.append(ln.strip()[:300]); break
        if not sigs:
            sigs = [l.strip()[:300] for l in p.stdout.splitlines() if l.strip().startswith("signature:")][:3]
        meta.setdefault("checks", {})[c] = {"tier": tier, "exit": p.returncode, "violation_lines": [x.replace(iso, "") for x in v[:3]],
                                            "first_signatures": sigs, "wall_s": round(time.time() - t0, 1)}
        print("  %s: ./check %s %s -> exit %d %s" % (name, c, tier, p.returncode, (sigs[0][:220] if sigs else (v[0][:160] if v else ""))))
        if p.returncode == 2:
            print(p.stdout[-1500:])
finally:
    shutil.rmtree(iso, ignore_errors=True)
if opt("--history"):
    meta["history"] = opt("--history")
meta["ran_at"] = time.strftime("%Y-%m-%dT%H:%M:%S")
json.dump(meta, open(os.path.join(d, "meta.json"), "w"), indent=1)
