#!/usr/bin/env python3
"""Triage one seeded change produced by a sub-agent.
usage: triage_seed.py <worktree> <n> <property id> [--pkgdir DIR] [--run REGEX] [--checks "C01 C02"]
Confirms in the scratch worktree: patch applies, build + baseline tests pass with it, demo fails with it and passes
without it. Then applies the patch to /repo, runs ./check <ID> quick (for each id), restores /repo, and stores
everything under /verif/seeded/<ID>-<n>/."""
import json, os, re, shutil, subprocess, sys, time

wt, n, pid = sys.argv[1], sys.argv[2], sys.argv[3]
args = sys.argv[4:]
def opt(name, default=None):
    if name in args:
        return args[args.index(name) + 1]
    return default
ENV = dict(os.environ, GOFLAGS="-mod=mod", GOPROXY="off")
def sh(cmd, cwd, timeout=1800):
    p = subprocess.run(cmd, cwd=cwd, shell=True, env=ENV, stdout=subprocess.PIPE, stderr=subprocess.STDOUT, text=True, timeout=timeout)
    return p.returncode, p.stdout

seed = os.path.join(wt, "_seeded")
patch = os.path.join(seed, "patch%s.diff" % n)
demos = [f for f in os.listdir(seed) if f.startswith("demo%s" % n)]
assert os.path.exists(patch), patch
demo = os.path.join(seed, demos[0])
res = {"property": pid, "n": int(n), "worktree": wt}
sh("git checkout -q -- . && git clean -fdq -e _seeded", wt)
# where does the demo go?
pkgdir = opt("--pkgdir")
src = open(demo).read() if os.path.isfile(demo) else ""
if pkgdir is None:
    m = re.search(r"^package (\w+)", src, re.M)
    pk = m.group(1) if m else ""
    base = pk[:-5] if pk.endswith("_test") else pk
    cands = {"mint": "mint", "wallet": "wallet", "cashu": "cashu", "crypto": "crypto", "sqlite": "mint/storage/sqlite", "nut11": "cashu/nuts/nut11",
             "nut14": "cashu/nuts/nut14", "nut12": "cashu/nuts/nut12", "nut13": "cashu/nuts/nut13", "storage": "wallet/storage", "client": "wallet/client", "nut20": "cashu/nuts/nut20", "nut10": "cashu/nuts/nut10"}
    pkgdir = cands.get(base)
    if pk == "main":
        pkgdir = "_demo%s" % n
if pkgdir is None:
    print("cannot determine package dir for demo; pass --pkgdir"); sys.exit(2)
res["demo_pkgdir"] = pkgdir
dst = os.path.join(wt, pkgdir)
os.makedirs(dst, exist_ok=True)
if os.path.isdir(demo):
    shutil.copytree(demo, os.path.join(wt, "_demo%s" % n), dirs_exist_ok=True)
    democmd = "go run ./_demo%s" % n
else:
    shutil.copy(demo, os.path.join(dst, os.path.basename(demo)))
    run = opt("--run")
    if run is None:
        tests = re.findall(r"^func (Test\w+)\(", src, re.M)
        run = "^(" + "|".join(tests) + ")$" if tests else "."
    tags = ("-tags %s " % opt("--demotags")) if opt("--demotags") else ""
    democmd = "go test -count=1 %s-run '%s' ./%s/" % (tags, run, pkgdir) if pk != "main" else "go run ./%s" % pkgdir
res["demo_cmd"] = democmd
# 1. demo on unchanged tree
rc0, out0 = sh(democmd, wt)
res["demo_unpatched_exit"] = rc0
# 2. apply patch
rca, outa = sh("git apply %s" % patch, wt)
res["patch_applies"] = rca == 0
if rca != 0:
    print("patch does not apply:", outa); print(json.dumps(res, indent=1)); sys.exit(1)
rcb, outb = sh("go build ./... && go vet ./mint/ ./wallet/ ./cashu/... ./crypto/ >/dev/null 2>&1; go build ./...", wt)
res["builds"] = rcb == 0
# baseline tests with the patch but without the demo
os.remove(os.path.join(dst, os.path.basename(demo))) if os.path.isfile(demo) else None
rct, outt = sh("go test -count=1 ./... 2>&1 | grep -v 'no test files'", wt)
res["baseline_with_patch_pass"] = ("FAIL" not in outt) and rct == 0
if os.path.isfile(demo):
    shutil.copy(demo, os.path.join(dst, os.path.basename(demo)))
rc1, out1 = sh(democmd, wt)
res["demo_patched_exit"] = rc1
sh("git checkout -q -- . && git clean -fdq -e _seeded", wt)
res["confirmed"] = bool(res["builds"] and res["baseline_with_patch_pass"] and rc0 == 0 and rc1 != 0)
print("confirmed=%s (unpatched demo exit %d, patched demo exit %d, baseline with patch ok=%s)" % (res["confirmed"], rc0, rc1, res["baseline_with_patch_pass"]))
if not res["confirmed"]:
    print(out0[-800:]); print(out1[-800:]); print(outt[-800:])
# 3. run my checks against it
checks = opt("--checks", pid).split()
tier = opt("--tier", "quick")
res["checks"] = {}
if res["confirmed"]:
    # run in an isolated copy of /verif against a clone of /repo with the patch: working copies stay untouched
    iso = "/dev/shm/triage-%d" % os.getpid()
    os.makedirs(iso)
    try:
        subprocess.run(["rsync", "-a", "--exclude", "replays", "--exclude", ".git", "/verif/", iso + "/verif/"], check=True)
        subprocess.run(["git", "clone", "-q", "/repo", iso + "/repo"], check=True)
        subprocess.run("git -C %s/repo apply %s" % (iso, patch), shell=True, check=True)
        for c in checks:
            t0 = time.time()
            p = subprocess.run("./check %s %s" % (c, tier), cwd=iso + "/verif", shell=True, env=dict(os.environ, VERIF_REPO=iso + "/repo"),
                               stdout=subprocess.PIPE, stderr=subprocess.STDOUT, text=True)
            v = [l for l in p.stdout.splitlines() if l.startswith("VIOLATION")]
            sigs = []
            for l in v[:3]:
                mm = re.search(r"replay=(\S+)", l)
                if mm and os.path.exists(mm.group(1)):
                    for ln in open(mm.group(1), errors="replace"):
                        if "VIOLATION" in ln:
                            sigs.append(ln.strip()[:300]); break
            res["checks"][c] = {"tier": tier, "exit": p.returncode, "violation_lines": [x.replace(iso, "") for x in v[:3]], "first_signatures": sigs, "wall_s": round(time.time() - t0, 1)}
            print("  ./check %s %s -> exit %d %s" % (c, tier, p.returncode, (sigs[0][:200] if sigs else (v[0][:160] if v else ""))))
    finally:
        shutil.rmtree(iso, ignore_errors=True)
out = os.path.join("/verif/seeded", "%s-%s" % (pid, opt("--as", n)))
res["n"] = int(opt("--as", n))
os.makedirs(out, exist_ok=True)
shutil.copy(patch, os.path.join(out, "patch.diff"))
if os.path.isfile(demo):
    shutil.copy(demo, os.path.join(out, os.path.basename(demo)))
for notes in (os.path.join(seed, "notes%s.md" % n), os.path.join(seed, "notes.md")):
    if os.path.exists(notes):
        shutil.copy(notes, os.path.join(out, "agent_notes.md"))
        break
res["ran_at"] = time.strftime("%Y-%m-%dT%H:%M:%S")
json.dump(res, open(os.path.join(out, "meta.json"), "w"), indent=1)
