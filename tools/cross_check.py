#!/usr/bin/env python3
"""Run another check than the owning one against a stored seeded change, in an isolated copy (like seed_matrix.py),
and record the outcome in the seed's meta.json.  usage: cross_check.py <ID-n> <check id> [--tier quick]"""
import json, os, re, shutil, subprocess, sys, time
name, cid = sys.argv[1], sys.argv[2]
tier = sys.argv[sys.argv.index("--tier") + 1] if "--tier" in sys.argv else "quick"
d = os.path.join("/verif/seeded", name)
root = "/dev/shm/crosscheck-%d" % os.getpid()
os.makedirs(root)
try:
    subprocess.run(["rsync", "-a", "--exclude", "replays", "--exclude", ".git", "/verif/", root + "/verif/"], check=True)
    subprocess.run(["git", "clone", "-q", "/repo", root + "/repo"], check=True)
    subprocess.run(["git", "apply", os.path.join(d, "patch.diff")], cwd=root + "/repo", check=True)
    t0 = time.time()
    p = subprocess.run([root + "/verif/check", cid, tier], cwd=root + "/verif", env=dict(os.environ, VERIF_REPO=root + "/repo"),
                       stdout=subprocess.PIPE, stderr=subprocess.STDOUT, text=True)
    viol = [l for l in p.stdout.splitlines() if l.startswith("VIOLATION")]
    sigs = []
    for l in viol[:3]:
        mm = re.search(r"replay=(\S+)", l)
        if mm and os.path.exists(mm.group(1)):
            for ln in open(mm.group(1), errors="replace"):
                if "VIOLATION" in ln:
                    sigs.append(ln.strip()[:300]); break
    meta = json.load(open(os.path.join(d, "meta.json")))
    meta["checks"][cid] = {"tier": tier, "exit": 1 if viol else p.returncode, "violation_lines": [v.replace(root, "") for v in viol[:3]], "first_signatures": sigs, "wall_s": round(time.time() - t0, 1)}
    json.dump(meta, open(os.path.join(d, "meta.json"), "w"), indent=1)
    print(name, cid, "CAUGHT" if viol else "missed exit=%d" % p.returncode, sigs[:1])
finally:
    shutil.rmtree(root, ignore_errors=True)
