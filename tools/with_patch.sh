#!/bin/bash
# usage: with_patch.sh <patch-file | -R:<commit>> <command...>
# Applies a patch (or the reverse of a commit) to /repo's working tree, runs the command, and always
# restores the working tree afterwards. Refuses to run if /repo has uncommitted changes.
set -u
spec="$1"; shift
if [ -n "$(git -C /repo status --porcelain)" ]; then echo "with_patch: /repo not clean" >&2; exit 3; fi
restore() { git -C /repo checkout -q -- . ; git -C /repo clean -fdq; }
trap restore EXIT
case "$spec" in
  -R:*) c="${spec#-R:}"; git -C /repo show "$c" | git -C /repo apply -R || { echo "reverse apply failed" >&2; exit 3; } ;;
  *) git -C /repo apply "$spec" || { echo "apply failed" >&2; exit 3; } ;;
esac
"$@"
rc=$?
exit $rc
