#!/usr/bin/env python3
"""Re-run the owning check against a stored seeded change and update its meta.json.
usage: recheck_seed.py <ID-n> [--history "note"] [--tier quick]"""
import json, os, re, subprocess, sys, time
name = sys.argv[1]
args = sys.argv[2:]
def opt(k, d=None):
    return args[args.index(k) + 1] if k in args else d
d = os.path.join("/verif/seeded", name)
meta = json.load(open(os.path.join(d, "meta.json")))
pid = meta["property"]
tier = opt("--tier", "quick")
t0 = time.time()
p = subprocess.run(["/verif/tools/with_patch.sh", os.path.join(d, "patch.diff"), "/verif/check", pid, tier], cwd="/verif",
                   stdout=subprocess.PIPE, stderr=subprocess.STDOUT, text=True)
out = p.stdout
m = re.search(r"^exit=(\d+)", out, re.M)
viol = [l for l in out.splitlines() if l.startswith("VIOLATION")]
sigs = []
for l in viol[:3]:
    mm = re.search(r"replay=(\S+)", l)
    if mm and os.path.exists(mm.group(1)):
        for ln in open(mm.group(1), errors="replace"):
            if "VIOLATION" in ln:
                sigs.append(ln.strip()[:300]); break
code = 1 if viol else 0
meta["checks"][pid] = {"tier": tier, "exit": code, "violation_lines": viol[:3], "first_signatures": sigs, "wall_s": round(time.time() - t0, 1)}
if opt("--history"):
    meta["history"] = opt("--history")
meta["ran_at"] = time.strftime("%Y-%m-%dT%H:%M:%S")
json.dump(meta, open(os.path.join(d, "meta.json"), "w"), indent=1)
print(name, "->", "CAUGHT" if viol else "missed", sigs[:1])
st = subprocess.run(["git", "-C", "/repo", "status", "--short"], stdout=subprocess.PIPE, text=True).stdout
if st.strip():
    print("WARNING /repo dirty:", st)
