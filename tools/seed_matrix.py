#!/usr/bin/env python3
"""Run the owning quick check against every stored seeded change, in an isolated copy of /verif and /repo
(so the working copies stay usable meanwhile). Writes /verif/seeded/MATRIX.json.
usage: seed_matrix.py [ID-n ...] [--tier quick]"""
import json, os, re, shutil, subprocess, sys, time
args = [a for a in sys.argv[1:] if not a.startswith("--")]
OUT = "/verif/seeded/MATRIX.json"
if "--out" in sys.argv:  # several instances can run side by side on disjoint subsets, each with its own result file
    OUT = sys.argv[sys.argv.index("--out") + 1]
    args = [a for a in args if a != OUT]
tier = "quick"
if "--tier" in sys.argv:
    tier = sys.argv[sys.argv.index("--tier") + 1]
    args = [a for a in args if a != tier]
root = "/dev/shm/seedmatrix-%d" % os.getpid()
os.makedirs(root)
try:
    subprocess.run(["rsync", "-a", "--exclude", "replays", "--exclude", ".git", "/verif/", root + "/verif/"], check=True)
    subprocess.run(["git", "clone", "-q", "/repo", root + "/repo"], check=True)
    names = args or sorted(d for d in os.listdir("/verif/seeded") if os.path.exists(os.path.join("/verif/seeded", d, "meta.json")))
    res = {}
    if os.path.exists(OUT) and args and "--out" not in sys.argv:
        res = json.load(open(OUT))
    for name in names:
        d = os.path.join("/verif/seeded", name)
        meta = json.load(open(os.path.join(d, "meta.json")))
        pid = meta["property"]
        r = subprocess.run(["git", "apply", os.path.join(d, "patch.diff")], cwd=root + "/repo", stdout=subprocess.PIPE, stderr=subprocess.STDOUT, text=True)
        if r.returncode != 0:
            res[name] = {"error": "patch does not apply: " + r.stdout[-300:]}
            print(name, "PATCH DOES NOT APPLY", r.stdout[-200:]); continue
        t0 = time.time()
        env = dict(os.environ, VERIF_REPO=root + "/repo")
        p = subprocess.run([root + "/verif/check", pid, tier], cwd=root + "/verif", env=env, stdout=subprocess.PIPE, stderr=subprocess.STDOUT, text=True)
        viol = [l for l in p.stdout.splitlines() if l.startswith("VIOLATION")]
        sigs = []
        for l in viol[:2]:
            mm = re.search(r"replay=(\S+)", l)
            if mm and os.path.exists(mm.group(1)):
                for ln in open(mm.group(1), errors="replace"):
                    if "VIOLATION" in ln:
                        sigs.append(re.sub(r"^.*VIOLATION ", "", ln.strip())[:160]); break
        res[name] = {"property": pid, "tier": tier, "exit": p.returncode, "caught": bool(viol) and p.returncode == 1, "signatures": sigs, "wall_s": round(time.time() - t0, 1),
                     "missed_first": "history" in meta}
        print(name, "CAUGHT" if res[name]["caught"] else "MISSED exit=%d" % p.returncode, sigs[:1], flush=True)
        subprocess.run("git checkout -q -- . && git clean -fdq", shell=True, cwd=root + "/repo")
        shutil.rmtree(root + "/verif/replays", ignore_errors=True)
        json.dump(res, open(OUT, "w"), indent=1, sort_keys=True)
    json.dump(res, open(OUT, "w"), indent=1, sort_keys=True)
    missed = [k for k, v in res.items() if not v.get("caught")]
    print("total", len(res), "missed", missed)
finally:
    shutil.rmtree(root, ignore_errors=True)
