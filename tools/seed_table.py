#!/usr/bin/env python3
"""Regenerate the seeded-change table of DESIGN.md (between the SEED_TABLE markers) from seeded/*/meta.json,
seeded/SUMMARY.json and seeded/MATRIX.json."""
import json, os, re
root = "/verif/seeded"
summ = json.load(open(os.path.join(root, "SUMMARY.json")))
matrix = json.load(open(os.path.join(root, "MATRIX.json"))) if os.path.exists(os.path.join(root, "MATRIX.json")) else {}
names = sorted(d for d in os.listdir(root) if os.path.exists(os.path.join(root, d, "meta.json")))
lines = ["| Seed | File | Change | Caught by (quick), first signature | First run |", "|---|---|---|---|---|"]
missed = []
for n in names:
    m = json.load(open(os.path.join(root, n, "meta.json")))
    pid = m["property"]
    sig = ""
    mx = matrix.get(n, {})
    for cand in (mx.get("signatures") or []) + (m["checks"].get(pid, {}).get("first_signatures") or []):
        mm = re.search(r"(C\d\d\|[^\s:]+)", cand)
        if mm:
            sig = mm.group(1); break
    if not sig:
        sig = "violation" if (mx.get("caught") or m["checks"].get(pid, {}).get("exit") == 1) else "MISSED"
    if sig == "MISSED":
        # not caught by the owning check: caught by the check of the property the change really breaks?
        for other, r in sorted(m["checks"].items()):
            if other != pid and r.get("exit") == 1:
                mm = re.search(r"(C\d\d\|[^\s:]+)", " ".join(r.get("first_signatures") or []))
                sig = "by %s: %s" % (other, mm.group(1) if mm else "violation")
                break
    if len(sig) > 72:
        sig = sig[:72] + "…"
    files = sorted({l[6:].strip() for l in open(os.path.join(root, n, "patch.diff")) if l.startswith("+++ b/")})
    first = "missed, then caught" if "history" in m else "caught"
    if "obsolete" in m:
        first += "; obsolete since " + re.search(r"fix (\w+)", m["obsolete"]).group(1)
        if sig == "MISSED":
            sig = "(" + ((m["checks"].get(pid, {}).get("first_signatures") or ["caught before the fix"])[0][:60]) + ")"
            mm2 = re.search(r"(C\d\d\|[^\s:]+)", sig)
            if mm2:
                sig = mm2.group(1)
    if "history" in m:
        missed.append((n, m["history"]))
    lines.append("| %s | `%s` | %s | `%s` | %s |" % (n, ", ".join(files), summ.get(n, ""), sig.replace("|", "\\|"), first))
total = len(names)
text = []
text.append("%d seeded changes (two per property and wave; wave 1+2 = `-1`/`-2`, wave 3 = `-3`/`-4`, wave 4 = `-5`/`-6`, wave 5 = `-7`/`-8`, wave 6 = `-9`/`-10`, wave 7 = `-11`/`-12` of ten properties, wave 8 = `-11`/`-12` of the other ten, wave 9 = `-13`/`-14` of the first ten; written by 130 independent\n"
            "sub-agents that saw only the property record and a scratch worktree; every one confirmed by me in that worktree: applies,\n"
            "builds, baseline suite passes, demonstration fails with it and passes without). `tools/triage_seed.py` does the\n"
            "confirmation and the first run of the owning quick check (in an isolated copy of /verif against a clone of /repo),\n"
            "`tools/recheck_seed.py` / `tools/seed_matrix.py` re-run stored patches (`seeded/MATRIX.json`). %d were caught by the\n"
            "quick tier as it was when the seed arrived, %d were missed and are caught after the check was strengthened - never by\n"
            "special-casing the seed: each change widened a generator or added an oracle that follows from the property text.\n"
            "Several agents arrived at the same change independently (marked \"same idea as\").\n" % (total, total - len(missed), len(missed)))
W7 = {"C01", "C02", "C03", "C04", "C05", "C07", "C12", "C13", "C16", "C20"}
def wave(n):
    pid, k = n.split("-")[0], int(n.split("-")[1])
    if k in (11, 12):
        return "7" if pid in W7 else "8"
    if k in (13, 14):
        return "9"
    return {1: "1+2", 2: "1+2", 3: "3", 4: "3", 5: "4", 6: "4", 7: "5", 8: "5", 9: "6", 10: "6"}[k]
per = {}
for n in names:
    per.setdefault(wave(n), [0, 0])[0] += 1
for n, _ in missed:
    per[wave(n)][1] += 1
text.append("Missed at first, per wave: " + ", ".join("wave %s: %d of %d" % (w, per[w][1], per[w][0]) for w in sorted(per)) +
            ". The prompts changed between waves (3: away from the obvious function; 4: helpers, storage, HTTP layer, faults and concurrency;\n"
            "5: same with a warning that the obvious sites were taken; 6: one data- / configuration-dependent change and one interaction of two\n"
            "features per agent; 7: one change in a file outside the anchors and one behind a rarely used request variant; 8 and 9: one change in a second-order place - helper, storage, serialisation, error or start-up path - that needs a multi-step history or an input class, and one made of two cooperating edits or an interaction of two features) - the miss rate follows the novelty of the prompt, not the age of the checks.\n")
text.append("\n".join(lines))
text.append("\nWhat the %d misses taught (the generator / oracle change is general, the seed only exposed the hole):\n" % len(missed))
text.append("\n".join("* **%s** - %s." % (n, h.rstrip(".")) for n, h in missed))
block = "<!-- SEED_TABLE_BEGIN -->\n" + "\n".join(text) + "\n<!-- SEED_TABLE_END -->"
p = "/verif/DESIGN.md"
s = open(p).read()
if "<!-- SEED_TABLE_BEGIN -->" in s:
    s = re.sub(r"<!-- SEED_TABLE_BEGIN -->.*<!-- SEED_TABLE_END -->", lambda _: block, s, flags=re.S)
else:
    a = s.index("40 seeded changes (two per property")
    b = s.index("---------------------------------------------------------------------------------------------", a)
    s = s[:a] + block + "\n\n" + s[b:]
open(p, "w").write(s)
print("table written:", total, "seeds,", len(missed), "missed first")
