#!/usr/bin/env python3
"""Revert every `fix:` commit listed as fixed in known_findings.jsonl (one at a time, in an isolated clone) and run
the owning quick check: each must report a violation. Writes /verif/seeded/FIX_MATRIX.json."""
import json, os, re, shutil, subprocess, sys, time
tier = "quick"
root = "/dev/shm/fixmatrix-%d" % os.getpid()
os.makedirs(root)
pairs = []
for l in open("/verif/known_findings.jsonl"):
    l = l.strip()
    if not l or l.startswith("#"):
        continue
    e = json.loads(l)
    if e.get("status") == "fixed" and (e["commit"], e["property"]) not in pairs:
        pairs.append((e["commit"], e["property"]))
only = sys.argv[1:]
try:
    subprocess.run(["rsync", "-a", "--exclude", "replays", "--exclude", ".git", "/verif/", root + "/verif/"], check=True)
    subprocess.run(["git", "clone", "-q", "/repo", root + "/repo"], check=True)
    res = {}
    for commit, pid in pairs:
        if only and commit not in only and pid not in only:
            continue
        manual = "/verif/seeded/reverts/%s.diff" % commit
        cmd = "git apply %s" % manual if os.path.exists(manual) else "git show %s | git apply -R" % commit
        r = subprocess.run(cmd, shell=True, cwd=root + "/repo", stdout=subprocess.PIPE, stderr=subprocess.STDOUT, text=True)
        if r.returncode != 0:
            res[commit + ":" + pid] = {"error": "does not revert cleanly: " + r.stdout[-200:]}
            print(commit, pid, "DOES NOT REVERT CLEANLY", r.stdout[-200:], flush=True)
            subprocess.run("git checkout -q -- . && git clean -fdq", shell=True, cwd=root + "/repo")
            continue
        t0 = time.time()
        p = subprocess.run([root + "/verif/check", pid, tier], cwd=root + "/verif", env=dict(os.environ, VERIF_REPO=root + "/repo"), stdout=subprocess.PIPE, stderr=subprocess.STDOUT, text=True)
        viol = [l for l in p.stdout.splitlines() if l.startswith("VIOLATION")]
        subj = subprocess.run(["git", "log", "-1", "--format=%s", commit], cwd="/repo", stdout=subprocess.PIPE, text=True).stdout.strip()
        res[commit + ":" + pid] = {"commit": commit, "property": pid, "subject": subj, "exit": p.returncode, "caught": bool(viol) and p.returncode == 1, "violations": len(viol), "wall_s": round(time.time() - t0, 1)}
        print(commit, pid, "CAUGHT" if res[commit + ":" + pid]["caught"] else "MISSED exit=%d" % p.returncode, subj[:70], flush=True)
        subprocess.run("git checkout -q -- . && git clean -fdq", shell=True, cwd=root + "/repo")
        shutil.rmtree(root + "/verif/replays", ignore_errors=True)
    if not only:
        json.dump(res, open("/verif/seeded/FIX_MATRIX.json", "w"), indent=1, sort_keys=True)
    print("missed", [k for k, v in res.items() if not v.get("caught")])
finally:
    shutil.rmtree(root, ignore_errors=True)
