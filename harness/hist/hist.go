// Package hist is the shared rapid state machine over a mint world: honest and adversarial mint /
// swap / melt / poll / check / rotate / restart operations with generated arguments. Check packages
// choose weights, own a subset of the model-conflict flags and add their own invariants.
package hist

import (
	"fmt"
	decodepay "github.com/nbd-wtf/ln-decodepay"
	"math/big"
	"sort"
	"strings"

	"verif/harness/lockgen"

	"github.com/elnosh/gonuts/cashu"
	"github.com/elnosh/gonuts/cashu/nuts/nut05"
	"github.com/elnosh/gonuts/mint"
	"pgregory.net/rapid"

	"verif/harness/dbproxy"
	"verif/harness/lnmodel"
	"verif/harness/rec"
	"verif/harness/world"
)

// Options selects and weights the operations of a history.
type Options struct {
	Weights map[string]int // op name -> weight (0/absent = disabled)
	// Owns lists the property prefixes whose flags fail the run in this check.
	Owns []string
	// PropID is the id under which "honest request rejected" conflicts are reported.
	PropID string
	// AfterStep runs after every step (extra invariants); may call t.Fatalf.
	AfterStep func(m *Machine, op string)
	// AfterRefusal runs right after a request that met a storage fault was refused, before anything else is asked of the
	// mint (in particular before restore hands out whatever the refused request left behind).
	AfterRefusal func(m *Machine, op string)
	// MaxProofs bounds the client's holdings (keeps histories fast).
	MaxProofs int
}

type Machine struct {
	fillerCtr   uint64
	refusedSeen int
	forceProbe  bool
	W           *world.World
	T           *rapid.T
	Opt         Options
	Trace       []string
	// Counters for evidence classification
	Count map[string]int
	ops   []string
}

var DefaultWeights = map[string]int{
	"fund": 6, "mintquote": 2, "pay": 2, "deliver": 1, "pollmint": 1, "mint": 3,
	"swap": 6, "swap_adv": 3, "meltquote": 3, "melt": 4, "melt_adv": 1, "resolve": 2, "pollmelt": 2,
	"checkstate": 2, "rotate": 1, "restart": 1, "replay": 0, "mint_fault": 1, "swap_fault": 1, "cancel_invoice": 1,
}

// GenConfig draws a mint configuration.
func GenConfig(t *rapid.T, fees []uint, limits bool) world.Config {
	cfg := world.Config{
		FeePpk:   rapid.SampledFrom(fees).Draw(t, "fee_ppk"),
		MPP:      rapid.Bool().Draw(t, "mpp"),
		FeeMode:  lnmodel.FeeMode(rapid.IntRange(0, 2).Draw(t, "fee_mode")),
		SeedIdx:  rapid.IntRange(0, 5).Draw(t, "mint_seed"),
		CaseSeed: rapid.Uint64().Draw(t, "case_seed"),
	}
	if cfg.FeeMode == lnmodel.FeeConst {
		cfg.FeeConst = rapid.Uint64Range(0, 20).Draw(t, "fee_const")
	}
	// two histories in five run with one of the repository's own backend adapters (Core Lightning over an imitation of
	// the node's REST interface, LND over imitations of its rpc clients) between the mint and the Lightning model
	switch rapid.SampledFrom([]string{"", "", "", "cln", "lnd"}).Draw(t, "via_adapter") {
	case "cln":
		cfg.ViaCLN = true
	case "lnd":
		cfg.ViaLND = true
	}
	if limits {
		cfg.Limits = mint.MintLimits{}
	}
	return cfg
}

func New(t *rapid.T, w *world.World, opt Options) *Machine {
	if opt.Weights == nil {
		opt.Weights = DefaultWeights
	}
	if opt.MaxProofs == 0 {
		opt.MaxProofs = 60
	}
	m := &Machine{W: w, T: t, Opt: opt, Count: map[string]int{}}
	m.refusedSeen = len(w.M.Refused)
	names := make([]string, 0, len(opt.Weights))
	for n := range opt.Weights {
		names = append(names, n)
	}
	sort.Strings(names)
	for _, n := range names {
		for i := 0; i < opt.Weights[n]; i++ {
			m.ops = append(m.ops, n)
		}
	}
	return m
}

func (m *Machine) logf(format string, a ...any) {
	s := fmt.Sprintf(format, a...)
	m.Trace = append(m.Trace, s)
}

func (m *Machine) TraceString() string { return strings.Join(m.Trace, "\n  ") }

// Step draws and executes one operation, then enforces owned flags.
func (m *Machine) Step(t *rapid.T) {
	m.T = t
	op := rapid.SampledFrom(m.ops).Draw(t, "op")
	done := m.exec(t, op)
	if !done {
		op = "fund"
		m.exec(t, op)
	}
	m.Count[op]++
	m.probeRefused(t, op)
	m.Enforce(op)
	if m.Opt.AfterStep != nil {
		m.Opt.AfterStep(m, op)
	}
}

// probeRefused: right after a request was refused, ask restore for its outputs (one time in three). A signature
// handed out for them is ecash that nothing paid for: it is booked as issued (C02 ledger) and flagged (C02, C15).
func (m *Machine) probeRefused(t *rapid.T, op string) {
	w := m.W
	from := m.refusedSeen
	m.refusedSeen = len(w.M.Refused)
	if from >= len(w.M.Refused) {
		return
	}
	if !m.forceProbe && rapid.IntRange(0, 2).Draw(t, "probe_refused") != 0 {
		return
	}
	m.forceProbe = false
	var asked []world.Out
	var msgs cashu.BlindedMessages
	seen := map[string]bool{}
	for _, o := range w.M.Refused[from:] {
		if _, ok := w.M.Signed[o.Msg.B_]; ok || seen[o.Msg.B_] || len(msgs) >= 16 {
			continue
		}
		seen[o.Msg.B_] = true
		asked = append(asked, o)
		msgs = append(msgs, o.Msg)
	}
	if len(msgs) == 0 {
		return
	}
	outs, sigs, err := w.Restore(msgs)
	issuedFor := map[int]bool{}
	m.Count["restore_probe_after_refusal"]++
	m.logf("restore of the %d outputs of the refused %s: %d signatures err=%v", len(msgs), op, len(sigs), err)
	for i := 0; i < len(outs) && i < len(sigs); i++ {
		for _, o := range asked {
			if o.Msg.B_ == outs[i].B_ {
				w.Flag("C02", "refused_request_left_restorable_signature", "restore returns a signature of %d for an output of the refused %s", sigs[i].Amount, op)
				w.Flag("C15", "restore_returns_signature_for_refused_output", "restore returns a signature of %d for an output of the refused %s", sigs[i].Amount, op)
				w.RecordSignatures("restore_refused", []world.Out{o}, cashu.BlindedSignatures{sigs[i]})
				// signatures for the outputs of a refused mint request are an issuance on that quote
				if qi, ok := w.M.RefusedQuote[o.Msg.B_]; ok && qi < len(w.M.MintQuotes) && !issuedFor[qi] {
					issuedFor[qi] = true
					q := w.M.MintQuotes[qi]
					q.Issuances++
					if q.Issuances > q.Payments() {
						w.Flag("C03", "issued_more_than_paid", "quote %d: the outputs of a refused mint request are restorable: %d issuances for %d payments", q.Idx, q.Issuances, q.Payments())
					}
				}
			}
		}
	}
}

// Enforce fails the run on owned flags unless they are listed as known findings.
func (m *Machine) Enforce(op string) {
	for _, f := range m.W.TakeFlags() {
		sig := f.Signature
		if f.Prop == "HONEST" {
			sig = m.Opt.PropID + "|" + strings.TrimPrefix(f.Signature, "HONEST|")
		} else {
			owned := false
			for _, o := range m.Opt.Owns {
				if o == f.Prop {
					owned = true
				}
			}
			if !owned {
				continue
			}
		}
		if rec.IsKnown(sig) {
			continue
		}
		m.T.Fatalf("VIOLATION %s\n  %s\n after op %q; history:\n  %s", sig, f.Detail, op, m.TraceString())
	}
}

func isLimitErr(err error) bool {
	if ce, ok := err.(cashu.Error); ok {
		return ce.Code == cashu.AmountLimitExceeded || ce.Code == cashu.MintingDisabledErrCode
	}
	return false
}

func (m *Machine) honestFail(what string, err error) {
	if isLimitErr(err) && (m.W.Cfg.Limits.MaxBalance > 0 || m.W.Cfg.Limits.MintingSettings.MaxAmount > 0 || m.W.Cfg.Limits.MeltingSettings.MaxAmount > 0) {
		// refusals by configured limits are judged by the C16 expectations in world
		return
	}
	m.W.Flag("HONEST", "honest_"+what+"_rejected", "%s failed: %v", what, err)
}

func (m *Machine) exec(t *rapid.T, op string) bool {
	switch op {
	case "fund":
		return m.opFund(t)
	case "mintquote":
		return m.opMintQuote(t)
	case "pay":
		return m.opPay(t)
	case "deliver":
		return m.opDeliver(t)
	case "pollmint":
		return m.opPollMint(t)
	case "mint":
		return m.opMint(t)
	case "swap":
		return m.opSwap(t, false)
	case "swap_adv":
		return m.opSwap(t, true)
	case "meltquote":
		return m.opMeltQuote(t)
	case "melt":
		return m.opMelt(t, false)
	case "melt_adv":
		return m.opMelt(t, true)
	case "resolve":
		return m.opResolve(t)
	case "pollmelt":
		return m.opPollMelt(t)
	case "checkstate":
		return m.opCheckState(t)
	case "rotate":
		return m.opRotate(t)
	case "restart":
		return m.opRestart(t)
	case "replay":
		return m.opReplay(t)
	case "restore":
		return m.opRestore(t)
	case "checkstate_adv":
		return m.opCheckStateAdv(t)
	case "mint_fault":
		return m.opMintFault(t)
	case "swap_fault":
		return m.opSwapFault(t)
	case "overlap_quotes":
		return m.opOverlapQuotes(t)
	case "mintquote_boundary":
		return m.opMintQuoteBoundary(t)
	case "meltquote_boundary":
		return m.opMeltQuoteBoundary(t)
	case "lockedmint":
		return m.opLockedMint(t)
	case "locked_spend":
		return m.opLockedSpend(t)
	case "old_keyset_fee":
		return m.opOldKeysetFee(t)
	case "cancel_invoice":
		return m.opCancelInvoice(t)
	}
	return false
}

// ---------------------------------------------------------------- generators

func genAmount(t *rapid.T, label string) uint64 {
	switch rapid.IntRange(0, 9).Draw(t, label+"_class") {
	case 0:
		return rapid.Uint64Range(1, 3).Draw(t, label)
	case 1:
		return rapid.Uint64Range(1000, 70000).Draw(t, label)
	default:
		return rapid.Uint64Range(1, 300).Draw(t, label)
	}
}

// pickProofs draws 1..max distinct proofs out of the given list.
func pickProofs(t *rapid.T, from []*world.MProof, max int, label string) []*world.MProof {
	if len(from) == 0 {
		return nil
	}
	n := rapid.IntRange(1, min(max, len(from))).Draw(t, label+"_n")
	idx := rapid.SliceOfNDistinct(rapid.IntRange(0, len(from)-1), n, n, func(i int) int { return i }).Draw(t, label+"_idx")
	out := make([]*world.MProof, len(idx))
	for i, j := range idx {
		out[i] = from[j]
	}
	return out
}

func proofsOf(mps []*world.MProof) cashu.Proofs {
	out := make(cashu.Proofs, len(mps))
	for i, mp := range mps {
		out[i] = mp.P
	}
	return out
}

func sumOf(mps []*world.MProof) uint64 {
	var s uint64
	for _, mp := range mps {
		s += mp.P.Amount
	}
	return s
}

// unlocked unspent proofs (plain secrets) the client holds
func (m *Machine) spendable() []*world.MProof {
	var out []*world.MProof
	for _, mp := range m.W.M.ProofsIn(world.Unspent) {
		if !mp.Locked {
			out = append(out, mp)
		}
	}
	return out
}

// ---------------------------------------------------------------- operations

func (m *Machine) opFund(t *rapid.T) bool {
	w := m.W
	if len(m.spendable()) > m.Opt.MaxProofs {
		return m.opSwap(t, false)
	}
	amount := genAmount(t, "fund_amount")
	q, err := w.RequestMintQuote(amount, nil)
	if err != nil {
		m.logf("fund: quote %d refused: %v", amount, err)
		m.honestFail("mint_quote", err)
		return true
	}
	w.PayInvoice(q)
	how := rapid.IntRange(0, 2).Draw(t, "fund_how")
	switch how {
	case 0:
		w.Deliver(q)
	case 1:
		w.PollMintQuote(q)
	}
	outs := w.MakeOutputs(world.Split(amount), w.ActiveID)
	_, err = w.MintTokens(q, outs, "")
	m.logf("fund %d sat (quote %d, how=%d): err=%v", amount, q.Idx, how, err)
	if err != nil {
		m.honestFail("mint", err)
	}
	return true
}

func (m *Machine) opMintQuote(t *rapid.T) bool {
	amount := genAmount(t, "mq_amount")
	var lock *big.Int
	if rapid.IntRange(0, 3).Draw(t, "mq_locked") == 0 {
		lock = new(big.Int).SetUint64(rapid.Uint64Range(2, 1<<40).Draw(t, "mq_key"))
	}
	q, err := m.W.RequestMintQuote(amount, lock)
	m.logf("mintquote %d locked=%v: err=%v", amount, lock != nil, err)
	if err != nil {
		m.honestFail("mint_quote", err)
	}
	_ = q
	return true
}

func (m *Machine) pickMintQuote(t *rapid.T, pred func(*world.MMintQuote) bool) *world.MMintQuote {
	var c []*world.MMintQuote
	for _, q := range m.W.M.MintQuotes {
		if pred(q) {
			c = append(c, q)
		}
	}
	if len(c) == 0 {
		return nil
	}
	return c[rapid.IntRange(0, len(c)-1).Draw(t, "mq_pick")]
}

func (m *Machine) opPay(t *rapid.T) bool {
	q := m.pickMintQuote(t, func(q *world.MMintQuote) bool { return !q.PaidExt && q.Internal == 0 })
	if q == nil {
		return false
	}
	ok := m.W.PayInvoice(q)
	m.logf("pay invoice of mint quote %d: %v", q.Idx, ok)
	return true
}

// opCancelInvoice: the node gives an unpaid invoice of a mint quote up (expired unpaid / canceled by the operator; the
// backends report such an invoice in a state of its own). Nothing was paid: polling the quote and asking for the
// tokens right afterwards must leave it unpaid - the model's issued-more-than-paid and ledger oracles judge that.
func (m *Machine) opCancelInvoice(t *rapid.T) bool {
	w := m.W
	q := m.pickMintQuote(t, func(q *world.MMintQuote) bool {
		return !q.PaidExt && q.Internal == 0 && q.Issuances == 0 && q.LockPriv == nil
	})
	if q == nil {
		return false
	}
	if !w.Net.CancelInvoice(q.Hash) {
		return false
	}
	m.Count["invoice_canceled_at_the_node"]++
	w.PollMintQuote(q)
	outs := w.MakeOutputs(world.Split(q.Amount), w.ActiveID)
	_, err := w.MintTokens(q, outs, "")
	m.logf("the node cancels the unpaid invoice of mint quote %d; poll, then mint request: err=%v", q.Idx, err)
	m.Count["adversarial_reached"]++
	return true
}

func (m *Machine) opDeliver(t *rapid.T) bool {
	q := m.pickMintQuote(t, func(q *world.MMintQuote) bool { return q.PaidExt && m.W.Net.Subscribers(q.Hash) > 0 })
	if q == nil {
		return false
	}
	// one delivery in four meets a failing storage: the k-th storage call of the watcher goroutine (and, for
	// "from", every later one) returns an error - whatever the watcher then does, it must not re-open the quote
	fault := ""
	if q.WatcherGid != 0 && m.W.DB.Hook == nil && rapid.IntRange(0, 3).Draw(t, "deliver_storage_fault") == 0 {
		k := rapid.IntRange(1, 3).Draw(t, "deliver_fault_call")
		from := rapid.Bool().Draw(t, "deliver_fault_from")
		fault = fmt.Sprintf(" with storage errors at watcher call %d (from=%v)", k, from)
		n := 0
		gid := q.WatcherGid
		m.W.DB.Hook = func(c *dbproxy.Call) error {
			if c.Gid != gid {
				return nil
			}
			n++
			if n == k || (from && n > k) {
				return fmt.Errorf("injected storage fault: database is locked")
			}
			return nil
		}
		defer func() { m.W.DB.Hook = nil }()
		m.Count["notification_with_storage_fault"]++
		if q.Issuances > 0 {
			m.Count["late_notification_with_storage_fault"]++
		}
	}
	ok := m.W.Deliver(q)
	m.logf("deliver notification for mint quote %d (issuances so far %d)%s: %v", q.Idx, q.Issuances, fault, ok)
	if q.Issuances > 0 {
		m.Count["late_notification"]++
	}
	return true
}

func (m *Machine) opPollMint(t *rapid.T) bool {
	q := m.pickMintQuote(t, func(*world.MMintQuote) bool { return true })
	if q == nil {
		return false
	}
	r, err := m.W.PollMintQuote(q)
	m.logf("poll mint quote %d: %s err=%v", q.Idx, r.State, err)
	return true
}

func (m *Machine) opMint(t *rapid.T) bool {
	w := m.W
	// half of the time aim at a quote that is paid and not yet issued (if there is one): that is where a request can
	// succeed, and where faults and retries matter
	openOnly := rapid.Bool().Draw(t, "mint_prefers_open_quote")
	q := m.pickMintQuote(t, func(q *world.MMintQuote) bool { return !openOnly || q.Payments() > q.Issuances })
	if q == nil {
		q = m.pickMintQuote(t, func(*world.MMintQuote) bool { return true })
	}
	if q == nil {
		return false
	}
	variant := rapid.SampledFrom([]string{"exact", "exact", "exact", "less", "over1", "dup_output", "unknown_keyset", "bad_amount", "overflow_wrap"}).Draw(t, "mint_variant")
	amounts := world.Split(q.Amount)
	keyset := w.ActiveID
	switch variant {
	case "less":
		if q.Amount > 1 {
			amounts = world.Split(rapid.Uint64Range(1, q.Amount-1).Draw(t, "mint_less"))
		}
	case "over1":
		amounts = world.Split(q.Amount + 1)
	case "unknown_keyset":
		keyset = "00ffffffffffffff"
	case "bad_amount":
		amounts = []uint64{3}
	case "overflow_wrap":
		// 32 outputs of the largest denomination sum to 2^64: the total wraps to the quote amount
		for i := 0; i < 32; i++ {
			amounts = append(amounts, 1<<59)
		}
	}
	outs := w.MakeOutputs(amounts, keyset)
	if variant == "dup_output" && len(outs) > 0 {
		outs = append(outs, outs[0])
	}
	sig := ""
	if q.LockPriv != nil {
		switch rapid.IntRange(0, 3).Draw(t, "mint_sig") {
		case 0:
			// no signature
		case 1:
			sig = world.SignNut20(new(big.Int).Add(q.LockPriv, big.NewInt(1)), q.ID, world.Msgs(outs))
		default:
			sig = world.SignNut20(q.LockPriv, q.ID, world.Msgs(outs))
		}
	}
	fault := ""
	_, err := w.MintTokens(q, outs, sig)
	m.logf("mint quote %d (amount %d, payments %d, issuances %d) variant=%s sig=%v%s: err=%v", q.Idx, q.Amount, q.Payments(), q.Issuances, variant, sig != "", fault, err)
	if q.Issuances > 0 && err != nil {
		m.Count["mint_after_issuance"]++
	}
	return true
}

// opMintFault: a fresh quote is paid, then the mint request meets a failing storage: its k-th storage call (and, for
// "from", every later one) returns an error. Adversarial follow-up: fetch whatever the failed request left behind
// (restore of its outputs), then ask again with fresh outputs - all of that together must not be worth more than
// the one payment.
func (m *Machine) opMintFault(t *rapid.T) bool {
	w := m.W
	if w.DB.Hook != nil || len(w.M.Order) > m.Opt.MaxProofs {
		return false
	}
	amount := rapid.Uint64Range(1, 64).Draw(t, "mf_amount")
	q, err := w.RequestMintQuote(amount, nil)
	if err != nil {
		return false
	}
	w.PayInvoice(q)
	if rapid.Bool().Draw(t, "mf_polled_first") {
		w.PollMintQuote(q)
	}
	k := rapid.IntRange(1, 6).Draw(t, "mf_call")
	from := rapid.Bool().Draw(t, "mf_from")
	n := 0
	self := dbproxy.Gid()
	w.DB.Hook = func(c *dbproxy.Call) error {
		if c.Gid != self {
			return nil
		}
		n++
		if n == k || (from && n > k) {
			return fmt.Errorf("injected storage fault: disk I/O error")
		}
		return nil
	}
	outs := w.MakeOutputs(world.Split(amount), w.ActiveID)
	_, err = w.MintTokens(q, outs, "")
	w.DB.Hook = nil
	m.Count["mint_with_storage_fault"]++
	m.logf("mint quote %d (amount %d) with a storage fault at call %d (from=%v): err=%v", q.Idx, amount, k, from, err)
	if err == nil {
		return true
	}
	m.Count["mint_failed_on_storage_fault"]++
	if m.Opt.AfterRefusal != nil {
		m.Opt.AfterRefusal(m, "mint_fault")
	}
	m.forceProbe = true
	m.probeRefused(t, "mint")
	outs2 := w.MakeOutputs(world.Split(amount), w.ActiveID)
	_, err2 := w.MintTokens(q, outs2, "")
	m.logf("  mint again with fresh outputs (payments %d, issuances %d): err=%v", q.Payments(), q.Issuances, err2)
	return true
}

// honestOutputs splits total into outputs on the active keyset.
func (m *Machine) honestOutputs(total uint64) []world.Out {
	outs := m.W.MakeOutputs(world.Split(total), m.W.ActiveID)
	// hex is case-insensitive: one request in eight spells (some of) its B_ in upper case. Whatever spelling the
	// client used is the one it will ask restore for.
	switch rapid.IntRange(0, 7).Draw(m.T, "b_hex_case") {
	case 0:
		for i := range outs {
			outs[i].Msg.B_ = strings.ToUpper(outs[i].Msg.B_)
		}
		m.Count["outputs_upper_case_hex"]++
	case 1:
		if len(outs) > 0 {
			b := outs[len(outs)-1].Msg.B_
			outs[len(outs)-1].Msg.B_ = b[:20] + strings.ToUpper(b[20:])
			m.Count["outputs_upper_case_hex"]++
		}
	}
	return outs
}

// opSwapFault: an honest swap meets a failing storage at its k-th storage call. Follow-up: the model re-reads what
// became of the inputs, the outputs of the failed request are asked back through restore (a signature handed out there
// is value, booked as issued), and the swap is tried again with fresh outputs if the inputs are still unspent.
func (m *Machine) opSwapFault(t *rapid.T) bool {
	w := m.W
	sp := m.spendable()
	if len(sp) == 0 || w.DB.Hook != nil {
		return false
	}
	ins := pickProofs(t, sp, 3, "sf_in")
	inputs := proofsOf(ins)
	total, fee := sumOf(ins), w.FeeFor(inputs)
	if total <= fee {
		return false
	}
	k := rapid.IntRange(1, 5).Draw(t, "sf_call")
	from := rapid.Bool().Draw(t, "sf_from")
	n := 0
	self := dbproxy.Gid()
	w.DB.Hook = func(c *dbproxy.Call) error {
		if c.Gid != self {
			return nil
		}
		n++
		if n == k || (from && n > k) {
			return fmt.Errorf("injected storage fault: disk I/O error")
		}
		return nil
	}
	outs := w.MakeOutputs(world.Split(total-fee), w.ActiveID)
	_, err := w.Swap(inputs, outs)
	w.DB.Hook = nil
	m.Count["swap_with_storage_fault"]++
	m.logf("swap %d inputs (%d sat) with a storage fault at call %d (from=%v): err=%v", len(inputs), total, k, from, err)
	if err == nil {
		return true
	}
	w.ResyncProofStates(inputs, nil)
	if m.Opt.AfterRefusal != nil {
		m.Opt.AfterRefusal(m, "swap_fault")
	}
	m.forceProbe = true
	m.probeRefused(t, "swap")
	for _, in := range inputs {
		if mp := w.M.Proofs[in.Secret]; mp == nil || mp.State != world.Unspent {
			m.logf("  inputs did not stay unspent: no retry")
			return true
		}
	}
	_, err2 := w.Swap(inputs, w.MakeOutputs(world.Split(total-fee), w.ActiveID))
	m.logf("  swap again with fresh outputs: err=%v", err2)
	return true
}

func (m *Machine) opSwap(t *rapid.T, adversarial bool) bool {
	w := m.W
	sp := m.spendable()
	if len(sp) == 0 {
		return false
	}
	maxIn := 5
	if len(sp) > m.Opt.MaxProofs {
		maxIn = 12 // consolidate
	}
	ins := pickProofs(t, sp, maxIn, "swap_in")
	inputs := proofsOf(ins)
	total := sumOf(ins)
	fee := w.FeeFor(inputs)
	if !adversarial {
		if total <= fee {
			return false
		}
		outs := m.honestOutputs(total - fee)
		_, err := w.Swap(inputs, outs)
		m.logf("swap %d inputs (%d sat, fee %d) -> %d outputs: err=%v", len(inputs), total, fee, len(outs), err)
		if err != nil {
			m.honestFail("swap", err)
		} else if fee > 0 {
			m.Count["swap_with_fee"]++
		}
		return true
	}
	variant := rapid.SampledFrom([]string{"over1", "overflow", "no_fee", "inflate_input", "inactive_out", "unknown_out", "dup_out", "resigned_out", "zero_out", "no_outputs", "dup_in_identical", "dup_in_witness", "dup_in_dleq"}).Draw(t, "swap_variant")
	var outs []world.Out
	switch variant {
	case "over1":
		if total < fee {
			return false
		}
		outs = m.honestOutputs(total - fee + 1)
	case "overflow":
		// valid denominations whose sum wraps around 2^64 to what the inputs can pay
		if total <= fee {
			return false
		}
		amts := world.Split(total - fee)
		for i := 0; i < 32; i++ {
			amts = append(amts, 1<<59)
		}
		outs = w.MakeOutputs(amts, w.ActiveID)
	case "no_fee":
		if fee == 0 {
			return false
		}
		outs = m.honestOutputs(total)
	case "inflate_input":
		i := rapid.IntRange(0, len(inputs)-1).Draw(t, "inflate_idx")
		inputs[i].Amount *= 2
		outs = m.honestOutputs(total + inputs[i].Amount/2 - min(fee, total))
	case "inactive_out":
		var other string
		for _, id := range w.KSOrder {
			if id != w.ActiveID {
				other = id
			}
		}
		if other == "" || total <= fee {
			return false
		}
		outs = w.MakeOutputs(world.Split(total-fee), other)
	case "unknown_out":
		if total <= fee {
			return false
		}
		outs = w.MakeOutputs(world.Split(total-fee), "00deadbeefdeadbe")
	case "dup_out":
		if total <= fee+1 {
			return false
		}
		outs = m.honestOutputs((total - fee) / 2)
		outs = append(outs, outs...)
		outs = outs[:min(len(outs), 8)]
	case "resigned_out":
		if len(w.M.SignedOrder) == 0 || total <= fee {
			return false
		}
		outs = m.honestOutputs(total - fee)
		b := w.M.SignedOrder[rapid.IntRange(0, len(w.M.SignedOrder)-1).Draw(t, "resigned_idx")]
		outs[0].Msg.B_ = b
	case "zero_out":
		outs = w.MakeOutputs([]uint64{0}, w.ActiveID)
	case "no_outputs":
		// a swap that asks for nothing: whatever the mint answers, an accepted one has consumed its (small) inputs
		if len(inputs) > 1 {
			inputs = inputs[:1]
		}
		if inputs[0].Amount > 16 {
			return false
		}
		outs = nil
	case "dup_in_identical", "dup_in_witness", "dup_in_dleq":
		d := inputs[0]
		if variant == "dup_in_witness" {
			d.Witness = `{"signatures":[]}`
		} else if variant == "dup_in_dleq" {
			d.DLEQ = &cashu.DLEQProof{E: "00", S: "00"}
		}
		inputs = append(inputs, d)
		f2 := w.FeeFor(inputs)
		if total+d.Amount <= f2 {
			return false
		}
		outs = m.honestOutputs(total + d.Amount - f2)
	}
	_, err := w.Swap(inputs, outs)
	m.logf("adversarial swap %s: %d inputs (%d sat, fee %d): err=%v", variant, len(inputs), total, fee, err)
	m.Count["adversarial_reached"]++
	return true
}

// respellInvoice: bech32 is valid in all lower and in all upper case (QR codes carry the latter); one time in three
// the client presents the mint's own invoice in upper case - the same invoice.
func (m *Machine) respellInvoice(t *rapid.T, request string) string {
	if rapid.IntRange(0, 2).Draw(t, "invoice_upper_case") == 0 {
		m.Count["own_invoice_in_upper_case"]++
		return strings.ToUpper(request)
	}
	return request
}

func (m *Machine) opMeltQuote(t *rapid.T) bool {
	w := m.W
	kind := rapid.SampledFrom([]string{"external", "external", "external_msat", "internal", "internal", "mpp", "internal_mpp", "internal_mpp", "same_hash_other_invoice"}).Draw(t, "mq_kind")
	switch kind {
	case "same_hash_other_invoice":
		// somebody else's invoice over a small amount that re-uses the payment hash of one of this mint's own
		// invoices (hashes are public): melting it must not count as a payment of that mint quote
		q := m.pickMintQuote(t, func(q *world.MMintQuote) bool {
			for _, mq := range w.M.MeltQuotes {
				if mq.Hash == q.Hash {
					return false
				}
			}
			return q.Amount >= 2 && q.Amount <= 1<<30
		})
		if q == nil {
			return false
		}
		small := rapid.Uint64Range(1, min(q.Amount-1, 64)).Draw(t, "forged_amount")
		inv := w.Net.ForgedInvoice(q.Hash, small*1000)
		mq, err := w.RequestMeltQuote(inv.Request, 0)
		m.logf("melt quote for a foreign invoice of %d sat with the payment hash of own mint quote %d (%d sat, payments %d, issuances %d): err=%v", small, q.Idx, q.Amount, q.Payments(), q.Issuances, err)
		if err == nil {
			mq.ForeignSameHash = true
			m.Count["melt_quote_same_hash_other_invoice"]++
		}
		m.Count["adversarial_reached"]++
		return true
	case "internal_mpp":
		// partial payment of an invoice of this very mint (any quote state): must be refused
		if !w.Cfg.MPP {
			return false
		}
		q := m.pickMintQuote(t, func(q *world.MMintQuote) bool {
			for _, mq := range w.M.MeltQuotes {
				if mq.Hash == q.Hash {
					return false
				}
			}
			return q.Amount >= 2
		})
		if q == nil {
			return false
		}
		part := rapid.Uint64Range(1000, q.Amount*1000-1).Draw(t, "internal_mpp_part")
		_, err := w.RequestMeltQuote(m.respellInvoice(t, q.Request), part)
		m.logf("mpp melt quote for own mint quote %d (payments %d, issuances %d), part %d msat: err=%v", q.Idx, q.Payments(), q.Issuances, part, err)
		m.Count["adversarial_reached"]++
		return true
	case "internal":
		q := m.pickMintQuote(t, func(q *world.MMintQuote) bool {
			for _, mq := range w.M.MeltQuotes {
				if mq.Hash == q.Hash {
					return false
				}
			}
			return true
		})
		if q == nil {
			return false
		}
		mq, err := w.RequestMeltQuote(m.respellInvoice(t, q.Request), 0)
		m.logf("melt quote for own mint quote %d (internal): err=%v", q.Idx, err)
		if err != nil {
			m.honestFail("melt_quote", err)
		} else if mq.FeeReserve != 0 {
			m.logf("  internal quote has fee reserve %d", mq.FeeReserve)
		}
		return true
	case "mpp":
		if !w.Cfg.MPP {
			return false
		}
		inv := w.Net.ExternalInvoice(rapid.Uint64Range(2000, 400000).Draw(t, "mpp_invoice_msat"))
		part := rapid.Uint64Range(1000, inv.AmountMsat-1).Draw(t, "mpp_part_msat")
		_, err := w.RequestMeltQuote(inv.Request, part)
		m.logf("mpp melt quote: invoice %d msat, part %d msat: err=%v", inv.AmountMsat, part, err)
		if err != nil {
			m.honestFail("melt_quote", err)
		}
		return true
	}
	msat := genAmount(t, "melt_amount") * 1000
	if kind == "external_msat" {
		msat += rapid.Uint64Range(1, 999).Draw(t, "melt_sub_sat")
	}
	inv := w.Net.ExternalInvoice(msat)
	_, err := w.RequestMeltQuote(inv.Request, 0)
	m.logf("melt quote for external invoice of %d msat: err=%v", msat, err)
	if err != nil {
		m.honestFail("melt_quote", err)
	}
	return true
}

func (m *Machine) pickMeltQuote(t *rapid.T, pred func(*world.MMeltQuote) bool) *world.MMeltQuote {
	var c []*world.MMeltQuote
	for _, q := range m.W.M.MeltQuotes {
		if pred(q) {
			c = append(c, q)
		}
	}
	if len(c) == 0 {
		return nil
	}
	return c[rapid.IntRange(0, len(c)-1).Draw(t, "meltq_pick")]
}

// cover picks proofs whose sum covers need(fee) if possible.
func (m *Machine) cover(t *rapid.T, q *world.MMeltQuote) ([]*world.MProof, bool) {
	sp := m.spendable()
	if len(sp) == 0 {
		return nil, false
	}
	// random order
	perm := rapid.Permutation(sp).Draw(t, "melt_perm")
	var chosen []*world.MProof
	for _, p := range perm {
		chosen = append(chosen, p)
		need := q.Amount + q.FeeReserve + m.W.FeeFor(proofsOf(chosen))
		if sumOf(chosen) >= need {
			return chosen, true
		}
		if len(chosen) >= 40 {
			break
		}
	}
	return chosen, false
}

func (m *Machine) opMelt(t *rapid.T, adversarial bool) bool {
	w := m.W
	q := m.pickMeltQuote(t, func(q *world.MMeltQuote) bool { return q.State == nut05.Unpaid })
	if q == nil {
		return false
	}
	ins, ok := m.cover(t, q)
	if !ok {
		return false
	}
	inputs := proofsOf(ins)
	if adversarial && rapid.Bool().Draw(t, "melt_adv_duplicate_input") {
		// one proof listed twice (the copies differ in a field the mint ignores) to pay an invoice of almost twice its
		// value, on a quote made for the purpose
		p := ins[0].P
		f2 := w.FeeFor(cashu.Proofs{p, p})
		if p.Amount < 2 || p.Amount > 1<<30 || 2*p.Amount <= f2 {
			return false
		}
		amt := 2*p.Amount - f2
		for amt > 0 && amt+w.ReserveFor(amt)+f2 > 2*p.Amount {
			amt--
		}
		if amt <= p.Amount || amt > 1<<30 {
			return false
		}
		dq, err := w.RequestMeltQuote(w.Net.ExternalInvoice(amt*1000).Request, 0)
		if err != nil {
			return false
		}
		d := p
		if rapid.Bool().Draw(t, "melt_dup_witness") {
			d.Witness = `{"signatures":[]}`
		} else {
			d.DLEQ = &cashu.DLEQProof{E: "00", S: "00"}
		}
		w.LN.PayScript = []lnmodel.PayAnswer{lnmodel.PaySuccess}
		r, err := w.MeltTokens(dq, cashu.Proofs{p, d})
		w.LN.PayScript = nil
		m.logf("adversarial melt: one %d sat proof listed twice for a quote of %d sat (reserve %d): state=%s err=%v", p.Amount, dq.Amount, dq.FeeReserve, r.State, err)
		m.Count["adversarial_reached"]++
		return true
	}
	if adversarial {
		// one unit short: drop inputs until just below the need
		need := q.Amount + q.FeeReserve + w.FeeFor(inputs)
		for len(ins) > 1 && sumOf(ins[:len(ins)-1]) >= need {
			ins = ins[:len(ins)-1]
		}
		ins = ins[:len(ins)-1]
		if len(ins) == 0 {
			return false
		}
		inputs = proofsOf(ins)
		_, err := w.MeltTokens(q, inputs)
		m.logf("adversarial melt (underfunded %d < %d) on quote %d: err=%v", sumOf(ins), need, q.Idx, err)
		m.Count["adversarial_reached"]++
		return true
	}
	plan := rapid.SampledFrom([]string{"success", "success", "pending", "failed", "error_none", "error_inflight", "error_succeeded", "error_succeeded_lookup_error", "error_inflight_lookup_error"}).Draw(t, "ln_plan")
	switch plan {
	case "success":
		w.LN.PayScript = []lnmodel.PayAnswer{lnmodel.PaySuccess}
	case "pending":
		w.LN.PayScript = []lnmodel.PayAnswer{lnmodel.PayPending}
	case "failed":
		w.LN.PayScript = []lnmodel.PayAnswer{lnmodel.PayFailed}
	case "error_none":
		w.LN.PayScript, w.LN.ErrTruth = []lnmodel.PayAnswer{lnmodel.PayError}, lnmodel.TruthNone
	case "error_inflight":
		w.LN.PayScript, w.LN.ErrTruth = []lnmodel.PayAnswer{lnmodel.PayError}, lnmodel.TruthInflight
	case "error_succeeded":
		w.LN.PayScript, w.LN.ErrTruth = []lnmodel.PayAnswer{lnmodel.PayError}, lnmodel.TruthSucceeded
	case "error_succeeded_lookup_error":
		// the reply to the pay call is lost although the payment went through, and the status lookup fails too
		w.LN.PayScript, w.LN.ErrTruth = []lnmodel.PayAnswer{lnmodel.PayError}, lnmodel.TruthSucceeded
		w.LN.StatusScript = []lnmodel.StatusAnswer{lnmodel.StError}
	case "error_inflight_lookup_error":
		w.LN.PayScript, w.LN.ErrTruth = []lnmodel.PayAnswer{lnmodel.PayError}, lnmodel.TruthInflight
		w.LN.StatusScript = []lnmodel.StatusAnswer{lnmodel.StError}
	}
	r, err := w.MeltTokens(q, inputs)
	w.LN.PayScript, w.LN.StatusScript = nil, nil
	m.logf("melt quote %d (amount %d, reserve %d, internal=%v, mpp=%v) with %d inputs (%d sat), ln=%s: state=%s err=%v",
		q.Idx, q.Amount, q.FeeReserve, q.InternalTo >= 0, q.IsMpp, len(inputs), sumOf(ins), plan, r.State, err)
	if err != nil {
		m.honestFail("melt", err)
	} else {
		m.Count["melt_"+r.State.String()]++
	}
	// a melt of an invoice of this very mint: follow up (one time in two) with a mint request on that mint quote,
	// fresh outputs for its full amount. Whether this is legitimate (the melt paid a so far unpaid quote) or not (the
	// quote was issued before, or the melt covered only a part) is judged by the model's payment / value accounting.
	if q.InternalTo >= 0 && q.InternalTo < len(w.M.MintQuotes) && rapid.Bool().Draw(t, "mint_after_internal_melt") {
		mq := w.M.MintQuotes[q.InternalTo]
		if mq.Amount <= 1<<20 && len(w.M.Order) <= m.Opt.MaxProofs+20 {
			sig := ""
			outs := w.MakeOutputs(world.Split(mq.Amount), w.ActiveID)
			if mq.LockPriv != nil {
				sig = world.SignNut20(mq.LockPriv, mq.ID, world.Msgs(outs))
			}
			_, e := w.MintTokens(mq, outs, sig)
			m.Count["mint_after_internal_melt"]++
			m.logf("  mint on the internally settled mint quote %d (payments %d, issuances %d): err=%v", mq.Idx, mq.Payments(), mq.Issuances, e)
		}
	}
	return true
}

func (m *Machine) opResolve(t *rapid.T) bool {
	w := m.W
	q := m.pickMeltQuote(t, func(q *world.MMeltQuote) bool {
		p := w.LN.Payment(q.Hash)
		return p != nil && p.Truth == lnmodel.TruthInflight
	})
	if q == nil {
		return false
	}
	success := rapid.Bool().Draw(t, "resolve_success")
	w.LN.Resolve(q.Hash, success)
	m.logf("lightning resolves payment of melt quote %d: success=%v", q.Idx, success)
	return true
}

func (m *Machine) opPollMelt(t *rapid.T) bool {
	q := m.pickMeltQuote(t, func(*world.MMeltQuote) bool { return true })
	if q == nil {
		return false
	}
	r, err := m.W.PollMeltQuote(q)
	m.logf("poll melt quote %d: %s err=%v", q.Idx, r.State, err)
	return true
}

func (m *Machine) opCheckState(t *rapid.T) bool {
	w := m.W
	if len(w.M.Order) == 0 {
		return false
	}
	n := rapid.IntRange(1, min(12, len(w.M.Order))).Draw(t, "cs_n")
	idx := rapid.SliceOfN(rapid.IntRange(0, len(w.M.Order)-1), n, n).Draw(t, "cs_idx")
	ys := make([]string, n)
	for i, j := range idx {
		ys[i] = w.M.Proofs[w.M.Order[j]].Y
	}
	got, err := w.CheckState(ys)
	if err != nil {
		m.logf("checkstate %d Ys: err=%v", n, err)
		m.honestFail("checkstate", err)
		return true
	}
	want := w.ExpectedStates(ys)
	states := map[string]bool{}
	for i := range want {
		states[want[i].State.String()] = true
		if i >= len(got) || got[i].Y != want[i].Y || got[i].State != want[i].State {
			w.Flag("C15", "checkstate_wrong_state|want="+want[i].State.String(), "Y #%d %s: mint says %v, model %v", i, short(ys[i]), got, want[i])
			break
		}
		if got[i].Witness != want[i].Witness {
			w.Flag("C15", "checkstate_wrong_witness", "Y #%d: witness %q, want %q", i, got[i].Witness, want[i].Witness)
		}
		if want[i].State.String() == "SPENT" {
			m.Count["spent_reported_spent"]++
		}
	}
	if len(got) != len(want) {
		w.Flag("C15", "checkstate_length", "asked %d got %d", len(want), len(got))
	}
	if len(states) >= 2 {
		m.Count["checkstate_mixed_states"]++
	}
	m.logf("checkstate %d Ys (%d distinct states): ok", n, len(states))
	return true
}

func short(s string) string {
	if len(s) > 14 {
		return s[:14] + ".."
	}
	return s
}

// opOldKeysetFee: a swap whose inputs all belong to retired keysets that charge a fee, paying that fee exactly (must
// be accepted) or one unit short of it (must be refused) - whatever the active keyset charges.
func (m *Machine) opOldKeysetFee(t *rapid.T) bool {
	w := m.W
	var old []*world.MProof
	for _, mp := range m.spendable() {
		if mp.P.Id != w.ActiveID && w.Keysets[mp.P.Id] != nil && w.Keysets[mp.P.Id].Fee > 0 {
			old = append(old, mp)
		}
	}
	if len(old) == 0 {
		return false
	}
	ins := pickProofs(t, old, 4, "okf_in")
	inputs := proofsOf(ins)
	total, fee := sumOf(ins), w.FeeFor(inputs)
	if fee == 0 || total <= fee {
		return false
	}
	m.Count["swap_of_retired_fee_keyset_inputs"]++
	if w.Keysets[w.ActiveID].Fee == 0 {
		m.Count["swap_of_retired_fee_keyset_inputs_active_free"]++
	}
	if rapid.Bool().Draw(t, "okf_short") {
		outs := m.honestOutputs(total - fee + 1)
		_, err := w.Swap(inputs, outs)
		m.logf("swap of %d inputs of retired keysets (%d sat, fee due %d) one unit short of the fee: err=%v", len(inputs), total, fee, err)
		m.Count["adversarial_reached"]++
		return true
	}
	outs := m.honestOutputs(total - fee)
	_, err := w.Swap(inputs, outs)
	m.logf("swap of %d inputs of retired keysets (%d sat, fee %d): err=%v", len(inputs), total, fee, err)
	if err != nil {
		m.honestFail("swap", err)
	} else {
		m.Count["swap_with_fee"]++
	}
	return true
}

func (m *Machine) opRotate(t *rapid.T) bool {
	w := m.W
	if len(w.KSOrder) >= 5 {
		return false
	}
	fee := rapid.SampledFrom([]uint{0, 1, 100, 999, 1000, 2500}).Draw(t, "rotate_fee")
	_, err := w.Mint.RotateKeyset(fee)
	m.logf("rotate keyset (fee %d): err=%v", fee, err)
	if err != nil {
		m.honestFail("rotate", err)
		return true
	}
	if err := w.RefreshKeysets(); err != nil {
		m.T.Fatalf("refresh keysets: %v", err)
	}
	m.Count["rotation"]++
	return true
}

func (m *Machine) opRestart(t *rapid.T) bool {
	w := m.W
	rotate := len(w.KSOrder) < 5 && rapid.IntRange(0, 3).Draw(t, "restart_rotate") == 0
	fee := uint(0)
	if rotate {
		fee = rapid.SampledFrom([]uint{0, 1, 100, 999, 1000, 2500}).Draw(t, "restart_fee")
	}
	err := w.Restart(rotate, fee)
	m.logf("restart (rotate=%v fee=%d): err=%v", rotate, fee, err)
	if err != nil {
		m.T.Fatalf("VIOLATION %s|restart_failed: LoadMint failed: %v\n  %s", m.Opt.PropID, err, m.TraceString())
	}
	m.Count["restart"]++
	if rotate {
		m.Count["rotation"]++
	}
	return true
}

// opReplay re-presents an already used (spent / pending) secret according to the C01 grammar.
func (m *Machine) opReplay(t *rapid.T) bool {
	w := m.W
	used := w.M.ProofsIn(world.Spent, world.Pending)
	if len(used) == 0 {
		return false
	}
	if pend := w.M.ProofsIn(world.Pending); len(pend) > 0 && rapid.Bool().Draw(t, "replay_prefer_pending") {
		used = pend
	}
	victim := used[rapid.IntRange(0, len(used)-1).Draw(t, "replay_victim")]
	p := victim.P
	shape := rapid.SampledFrom([]string{"alone", "with_fresh", "twice_identical", "twice_witness", "twice_dleq", "changed_witness", "changed_dleq", "changed_amount", "changed_C"}).Draw(t, "replay_shape")
	target := rapid.SampledFrom([]string{"swap", "swap", "melt"}).Draw(t, "replay_target")
	inputs := cashu.Proofs{p}
	switch shape {
	case "with_fresh":
		if sp := m.spendable(); len(sp) > 0 {
			inputs = append(inputs, pickProofs(t, sp, 2, "replay_fresh")[0].P)
		}
	case "twice_identical":
		inputs = append(inputs, p)
	case "twice_witness":
		p2 := p
		p2.Witness = `{"signatures":[]}`
		inputs = append(inputs, p2)
	case "twice_dleq":
		p2 := p
		p2.DLEQ = &cashu.DLEQProof{E: "00", S: "00"}
		inputs = append(inputs, p2)
	case "changed_witness":
		inputs[0].Witness = "x"
	case "changed_dleq":
		inputs[0].DLEQ = &cashu.DLEQProof{E: "01", S: "02", R: "03"}
	case "changed_amount":
		inputs[0].Amount = p.Amount * 2
	case "changed_C":
		if other := m.spendable(); len(other) > 0 {
			inputs[0].C = other[0].P.C
		}
	}
	var total uint64
	for _, in := range inputs {
		total += in.Amount
	}
	fee := w.FeeFor(inputs)
	var err error
	if target == "swap" {
		if total <= fee {
			return false
		}
		_, err = w.Swap(inputs, m.honestOutputs(total-fee))
	} else {
		q := m.pickMeltQuote(t, func(q *world.MMeltQuote) bool {
			return q.State == nut05.Unpaid && q.Amount+q.FeeReserve+fee <= total
		})
		if q == nil {
			return false
		}
		w.LN.PayScript = []lnmodel.PayAnswer{lnmodel.PaySuccess}
		_, err = w.MeltTokens(q, inputs)
		w.LN.PayScript = nil
	}
	m.logf("replay of %s secret (%s) shape=%s via %s: err=%v", victim.State, short(p.Secret), shape, target, err)
	m.Count["replay_"+strings.ToLower(victim.State.String())]++
	m.Count["replay_shape_"+shape]++
	if err == nil {
		// acceptInputs already flagged the double spend (C01)
		return true
	}
	return true
}

// ---------------------------------------------------------------- C15 queries

const hexdigits = "0123456789abcdef"

func (m *Machine) randomPointHex(t *rapid.T, label string) string {
	// a valid curve point that the mint has never seen: hash_to_curve of a fresh label
	_, y := world.Y("never-seen-" + m.W.NewSecret())
	return y
}

func (m *Machine) opRestore(t *rapid.T) bool {
	w := m.W
	n := rapid.IntRange(1, 14).Draw(t, "rs_n")
	var msgs cashu.BlindedMessages
	var want []world.SignedRec
	kinds := map[string]int{}
	refusedAsked := map[string]world.Out{}
	for i := 0; i < n; i++ {
		kind := rapid.SampledFrom([]string{"signed", "signed", "signed_wrong_fields", "unsigned", "refused", "repeat", "malformed"}).Draw(t, "rs_kind")
		if (kind == "signed" || kind == "signed_wrong_fields" || kind == "repeat") && len(w.M.SignedOrder) == 0 {
			kind = "unsigned"
		}
		switch kind {
		case "signed", "signed_wrong_fields":
			b := w.M.SignedOrder[rapid.IntRange(0, len(w.M.SignedOrder)-1).Draw(t, "rs_idx")]
			r := w.M.Signed[b]
			bm := cashu.BlindedMessage{Amount: r.Amount, B_: b, Id: r.Keyset}
			if kind == "signed_wrong_fields" {
				bm.Amount = r.Amount*2 + 1
				bm.Id = "00ffffffffffffff"
			}
			msgs = append(msgs, bm)
			want = append(want, r)
		case "repeat":
			if len(msgs) == 0 {
				continue
			}
			prev := msgs[rapid.IntRange(0, len(msgs)-1).Draw(t, "rs_rep")]
			msgs = append(msgs, prev)
			if r, ok := w.M.Signed[prev.B_]; ok {
				want = append(want, r)
			}
		case "refused":
			// an output of a request the mint refused: nothing was handed out for it, so nothing may be restorable
			var cand []world.Out
			for _, o := range w.M.Refused {
				if _, ok := w.M.Signed[o.Msg.B_]; !ok {
					cand = append(cand, o)
				}
			}
			if len(cand) == 0 {
				kind = "unsigned"
				msgs = append(msgs, cashu.BlindedMessage{Amount: 1, B_: m.randomPointHex(t, "rs_pt"), Id: w.ActiveID})
				break
			}
			ro := cand[rapid.IntRange(0, len(cand)-1).Draw(t, "rs_refused")]
			msgs = append(msgs, ro.Msg)
			refusedAsked[ro.Msg.B_] = ro
		case "unsigned":
			msgs = append(msgs, cashu.BlindedMessage{Amount: 1, B_: m.randomPointHex(t, "rs_pt"), Id: w.ActiveID})
		case "malformed":
			bad := rapid.SampledFrom([]string{"", "zz", "02", "02abc", "0x02", strings.Repeat("f", 66), "not hex at all"}).Draw(t, "rs_bad")
			msgs = append(msgs, cashu.BlindedMessage{Amount: 1, B_: bad, Id: w.ActiveID})
		}
		kinds[kind]++
	}
	if len(msgs) == 0 {
		return false
	}
	// one request in twelve is a bulk request: hundreds of never-signed outputs in front of, between or behind the
	// drawn ones (wallets restore in batches of a hundred; nothing says a client may not send more)
	if rapid.IntRange(0, 11).Draw(t, "rs_bulk") == 0 {
		k := rapid.SampledFrom([]int{150, 400, 1100}).Draw(t, "rs_bulk_n")
		at := rapid.IntRange(0, len(msgs)).Draw(t, "rs_bulk_at")
		filler := make(cashu.BlindedMessages, k)
		for i := range filler {
			m.fillerCtr++
			filler[i] = cashu.BlindedMessage{Amount: 1, B_: fmt.Sprintf("02%064x", 0xf111e5<<32+m.fillerCtr), Id: w.ActiveID}
		}
		msgs = append(msgs[:at:at], append(filler, msgs[at:]...)...)
		m.Count["restore_bulk_request"]++
		kinds[fmt.Sprintf("bulk_filler_%d", k)] = k
	}
	outs, sigs, err := w.Restore(msgs)
	if err != nil {
		m.logf("restore %d outputs: err=%v", len(msgs), err)
		m.honestFail("restore", err)
		return true
	}
	if len(outs) != len(sigs) {
		w.Flag("C15", "restore_outputs_signatures_length_differ", "%d outputs %d signatures", len(outs), len(sigs))
	}
	// a signature handed out by restore for an output of a refused request is ecash the client can unblind: book it
	// (C02's ledger then sees value that nothing paid for)
	for i := 0; i < len(outs) && i < len(sigs); i++ {
		if ro, ok := refusedAsked[outs[i].B_]; ok {
			if _, known := w.M.Signed[ro.Msg.B_]; !known {
				w.Flag("C02", "refused_request_left_restorable_signature", "restore returns a signature of %d for an output of a request the mint refused", sigs[i].Amount)
				w.RecordSignatures("restore_refused", []world.Out{ro}, cashu.BlindedSignatures{sigs[i]})
			}
		}
	}
	if len(sigs) != len(want) {
		w.Flag("C15", "restore_wrong_count", "asked %d (%v) expected %d signed, got %d", len(msgs), kinds, len(want), len(sigs))
	} else {
		for i, r := range want {
			sg := sigs[i]
			e, s := "", ""
			if sg.DLEQ != nil {
				e, s = sg.DLEQ.E, sg.DLEQ.S
			}
			if i < len(outs) && outs[i].B_ != r.B_ {
				w.Flag("C15", "restore_wrong_order", "position %d: output %s want %s", i, short(outs[i].B_), short(r.B_))
				break
			}
			if sg.Amount != r.Amount || sg.Id != r.Keyset || sg.C_ != r.C_ || e != r.E || s != r.S {
				w.Flag("C15", "restore_signature_differs", "position %d: got (%d,%s,%s,%s,%s) originally (%d,%s,%s,%s,%s)", i, sg.Amount, sg.Id, short(sg.C_), short(e), short(s), r.Amount, r.Keyset, short(r.C_), short(r.E), short(r.S))
				break
			}
		}
	}
	if kinds["signed"]+kinds["signed_wrong_fields"] > 0 && kinds["unsigned"]+kinds["malformed"] > 0 {
		m.Count["restore_mixed"]++
	}
	if kinds["refused"] > 0 {
		m.Count["restore_of_refused_output"]++
	}
	m.logf("restore %d outputs %v: %d signatures", len(msgs), kinds, len(sigs))
	return true
}

func (m *Machine) opCheckStateAdv(t *rapid.T) bool {
	w := m.W
	n := rapid.IntRange(1, 40).Draw(t, "csa_n")
	var ys []string
	kinds := map[string]int{}
	for i := 0; i < n; i++ {
		kind := rapid.SampledFrom([]string{"known", "known", "known", "unknown_point", "repeat", "malformed"}).Draw(t, "csa_kind")
		if kind == "known" && len(w.M.Order) == 0 {
			kind = "unknown_point"
		}
		switch kind {
		case "known":
			ys = append(ys, w.M.Proofs[w.M.Order[rapid.IntRange(0, len(w.M.Order)-1).Draw(t, "csa_idx")]].Y)
		case "unknown_point":
			ys = append(ys, m.randomPointHex(t, "csa_pt"))
		case "repeat":
			if len(ys) == 0 {
				continue
			}
			ys = append(ys, ys[rapid.IntRange(0, len(ys)-1).Draw(t, "csa_rep")])
		case "malformed":
			ys = append(ys, rapid.SampledFrom([]string{"", "zz", "02", "04" + strings.Repeat("a", 128), "0x02aa", strings.Repeat("f", 66), "' OR 1=1 --"}).Draw(t, "csa_bad"))
		}
		kinds[kind]++
	}
	if len(ys) == 0 {
		return false
	}
	// one query in twelve is a bulk query: hundreds of unknown Ys in front of, between or behind the drawn ones
	if rapid.IntRange(0, 11).Draw(t, "csa_bulk") == 0 {
		// (33000: a wallet's whole history in one question - more Ys than one SQL statement takes variables)
		k := rapid.SampledFrom([]int{150, 400, 1100, 150, 400, 1100, 33000}).Draw(t, "csa_bulk_n")
		at := rapid.IntRange(0, len(ys)).Draw(t, "csa_bulk_at")
		filler := make([]string, k)
		for i := range filler {
			m.fillerCtr++
			filler[i] = fmt.Sprintf("02%064x", 0xf111e5<<32+m.fillerCtr)
		}
		ys = append(ys[:at:at], append(filler, ys[at:]...)...)
		m.Count["checkstate_bulk_query"]++
		kinds[fmt.Sprintf("bulk_filler_%d", k)] = k
	}
	got, err := w.CheckState(ys)
	if err != nil {
		m.logf("checkstate(adv) %d Ys: err=%v", len(ys), err)
		m.honestFail("checkstate", err)
		return true
	}
	want := w.ExpectedStates(ys)
	states := map[string]bool{}
	if len(got) != len(want) {
		w.Flag("C15", "checkstate_length", "asked %d got %d", len(want), len(got))
	} else {
		for i := range want {
			states[want[i].State.String()] = true
			if got[i].Y != want[i].Y {
				w.Flag("C15", "checkstate_wrong_order", "position %d: Y %s want %s", i, short(got[i].Y), short(want[i].Y))
				break
			}
			if got[i].State != want[i].State {
				w.Flag("C15", "checkstate_wrong_state|want="+want[i].State.String(), "position %d Y %s: mint %s, model %s", i, short(ys[i]), got[i].State, want[i].State)
				break
			}
			if got[i].Witness != want[i].Witness {
				w.Flag("C15", "checkstate_wrong_witness", "position %d: witness %q want %q", i, got[i].Witness, want[i].Witness)
				break
			}
		}
	}
	if len(states) >= 2 {
		m.Count["checkstate_mixed_states"]++
	}
	m.logf("checkstate(adv) %d Ys %v, %d distinct states: ok", len(ys), kinds, len(states))
	return true
}

// ---------------------------------------------------------------- C16 boundary requests

func (m *Machine) balance() uint64 { return m.W.M.IssuedTotal() - m.W.M.RedeemedTotal() }

func (m *Machine) opMintQuoteBoundary(t *rapid.T) bool {
	w := m.W
	lim := w.Cfg.Limits
	cands := []uint64{1<<63 - 1, 1 << 63, ^uint64(0), ^uint64(0) - 1}
	if lim.MintingSettings.MaxAmount > 0 {
		x := lim.MintingSettings.MaxAmount
		cands = append(cands, x, x+1, x-1, x, x+1)
	}
	if lim.MaxBalance > 0 {
		b := m.balance()
		if lim.MaxBalance >= b {
			d := lim.MaxBalance - b
			cands = append(cands, d, d+1, d, d+1)
			if d > 1 {
				cands = append(cands, d-1)
			}
		}
		// wrap-around candidates: balance + amount overflows uint64
		cands = append(cands, ^uint64(0)-b+1, ^uint64(0)-b, ^uint64(0)-b+2)
	}
	amount := rapid.SampledFrom(cands).Draw(t, "mqb_amount")
	if amount == 0 {
		return false
	}
	q, err := w.RequestMintQuote(amount, nil)
	m.Count["boundary_request"]++
	m.logf("boundary mint quote %d (balance %d, limits %+v): err=%v", amount, m.balance(), lim, err)
	if err == nil && amount <= 1<<20 {
		// use it so that the balance moves towards the limit
		w.PayInvoice(q)
		if _, e := w.MintTokens(q, w.MakeOutputs(world.Split(amount), w.ActiveID), ""); e != nil {
			m.honestFail("mint", e)
		}
	}
	return true
}

// opOverlapQuotes: two quotes requested while the balance still has room for each of them, but not for both, are
// both paid and minted - the balance ends above the maximum. From then on every mint quote must be refused (and
// the info endpoint shows minting disabled) until the balance has come down again.
func (m *Machine) opOverlapQuotes(t *rapid.T) bool {
	w := m.W
	lim := w.Cfg.Limits
	if lim.MaxBalance == 0 || lim.MaxBalance <= m.balance() {
		return false
	}
	room := lim.MaxBalance - m.balance()
	d := room
	if lim.MintingSettings.MaxAmount > 0 {
		d = min(d, lim.MintingSettings.MaxAmount)
	}
	if d > 1<<16 || len(w.M.Order) > m.Opt.MaxProofs {
		return false
	}
	a1 := rapid.Uint64Range(1, d).Draw(t, "overlap_first")
	if room-a1+1 > d {
		return false
	}
	a2 := rapid.Uint64Range(room-a1+1, d).Draw(t, "overlap_second")
	q1, err1 := w.RequestMintQuote(a1, nil)
	q2, err2 := w.RequestMintQuote(a2, nil)
	m.logf("overlapping mint quotes %d and %d (balance %d, max balance %d): err=%v / %v", a1, a2, m.balance(), lim.MaxBalance, err1, err2)
	if err1 != nil || err2 != nil {
		return true
	}
	for _, q := range []*world.MMintQuote{q1, q2} {
		w.PayInvoice(q)
		if _, e := w.MintTokens(q, w.MakeOutputs(world.Split(q.Amount), w.ActiveID), ""); e != nil {
			m.honestFail("mint", e)
			return true
		}
	}
	if m.balance() > lim.MaxBalance {
		m.Count["balance_above_maximum"]++
	}
	probe := rapid.Uint64Range(1, 5).Draw(t, "overlap_probe")
	_, err := w.RequestMintQuote(probe, nil)
	m.logf("  balance now %d; mint quote for %d: err=%v", m.balance(), probe, err)
	return true
}

func (m *Machine) opMeltQuoteBoundary(t *rapid.T) bool {
	w := m.W
	x := w.Cfg.Limits.MeltingSettings.MaxAmount
	if x == 0 {
		return false
	}
	sat := rapid.SampledFrom([]uint64{x, x + 1, x - 1, x, x + 1}).Draw(t, "meltb_amount")
	if sat == 0 {
		return false
	}
	msat := sat * 1000
	if rapid.Bool().Draw(t, "meltb_submsat") {
		msat -= rapid.Uint64Range(1, 999).Draw(t, "meltb_sub")
	}
	if rapid.IntRange(0, 3).Draw(t, "meltb_huge") == 0 {
		// invoices anybody can write: amounts at the top of the 64-bit range (rounding up to whole sats must not wrap)
		// (multiples of 100 msat: BOLT11 writes those in nano-bitcoin; the encoder's pico-bitcoin path wraps up there)
		msat = rapid.SampledFrom([]uint64{1<<64 - 16, 1<<64 - 116, 1<<64 - 616, 1<<64 - 916, 1<<64 - 1016, 1<<64 - 1616, 1<<63 + 92, 1<<63 - 8, 1<<63 - 808}).Draw(t, "meltb_huge_msat")
		m.Count["boundary_request_huge_melt"]++
	}
	inv := w.Net.ExternalInvoice(msat)
	if d, err := decodepay.Decodepay(inv.Request); err != nil || uint64(d.MSatoshi) != msat {
		// the invoice does not say what was asked for (encoder limits): not a case
		return false
	}
	_, err := w.RequestMeltQuote(inv.Request, 0)
	m.Count["boundary_request"]++
	m.logf("boundary melt quote %d msat (melt max %d): err=%v", msat, x, err)
	return true
}

// ---------------------------------------------------------------- C03 NUT-20 tampering

func (m *Machine) opLockedMint(t *rapid.T) bool {
	w := m.W
	q := m.pickMintQuote(t, func(q *world.MMintQuote) bool { return q.LockPriv != nil })
	if q == nil {
		return false
	}
	if q.Payments() == 0 && rapid.IntRange(0, 3).Draw(t, "locked_pay_first") > 0 {
		w.PayInvoice(q)
		m.logf("pay invoice of locked mint quote %d", q.Idx)
	}
	outs := w.MakeOutputs(world.Split(q.Amount), w.ActiveID)
	msgs := world.Msgs(outs)
	tamper := rapid.SampledFrom([]string{"honest", "honest_lib", "none", "non_hex", "wrong_length", "other_key", "reordered", "added", "removed", "replaced", "other_quote", "outputs_changed_after"}).Draw(t, "nut20_tamper")
	sig := ""
	signOver := func(id string, ms cashu.BlindedMessages) string { return world.SignNut20(q.LockPriv, id, ms) }
	switch tamper {
	case "honest":
		sig = signOver(q.ID, msgs)
	case "honest_lib":
		sig = world.SignNut20Lib(q.LockPriv, q.ID, msgs)
	case "none":
	case "non_hex":
		sig = strings.Repeat("zz", 64)
	case "wrong_length":
		sig = signOver(q.ID, msgs)[:126]
	case "other_key":
		sig = world.SignNut20(new(big.Int).Add(q.LockPriv, big.NewInt(1)), q.ID, msgs)
	case "reordered":
		if len(msgs) < 2 {
			return false
		}
		r := append(cashu.BlindedMessages{}, msgs...)
		r[0], r[len(r)-1] = r[len(r)-1], r[0]
		sig = signOver(q.ID, r)
	case "added":
		extra := w.MakeOutputs([]uint64{1}, w.ActiveID)
		sig = signOver(q.ID, append(append(cashu.BlindedMessages{}, msgs...), extra[0].Msg))
	case "removed":
		if len(msgs) < 2 {
			return false
		}
		sig = signOver(q.ID, msgs[:len(msgs)-1])
	case "replaced":
		other := w.MakeOutputs([]uint64{outs[0].Amount}, w.ActiveID)
		r := append(cashu.BlindedMessages{}, msgs...)
		r[0] = other[0].Msg
		sig = signOver(q.ID, r)
	case "other_quote":
		sig = signOver(q.ID+"00", msgs)
	case "outputs_changed_after":
		sig = signOver(q.ID, msgs)
		repl := w.MakeOutputs([]uint64{outs[0].Amount}, w.ActiveID)
		outs[0] = repl[0]
	}
	payments, issuances := q.Payments(), q.Issuances
	_, err := w.MintTokens(q, outs, sig)
	m.logf("locked mint quote %d (payments %d, issuances %d) nut20=%s: err=%v", q.Idx, payments, issuances, tamper, err)
	if payments > issuances {
		m.Count["nut20_on_paid_"+tamper]++
		if strings.HasPrefix(tamper, "honest") {
			// a quote that was paid twice (externally and by an internal melt) need not issue twice
			if err != nil && issuances == 0 {
				m.honestFail("locked_mint_"+tamper, err)
			}
		} else {
			m.Count["nut20_tampered_on_paid"]++
		}
	}
	return true
}

// Weights returns a copy of the default weights with overrides applied.
func Weights(over map[string]int) map[string]int {
	w := map[string]int{}
	for k, v := range DefaultWeights {
		w[k] = v
	}
	for k, v := range over {
		w[k] = v
	}
	return w
}

// Run executes one generated history on a fresh world and returns the machine (world already closed).
func Run(t *rapid.T, cfg world.Config, opt Options) *Machine {
	w := world.New(t, cfg)
	defer w.Close()
	m := New(t, w, opt)
	rec.Eval()
	t.Repeat(map[string]func(*rapid.T){"step": m.Step})
	rec.ClassN("steps", w.M.Steps)
	return m
}

// opLockedSpend swaps plain value into a P2PK-locked proof and spends that with a valid witness (swap, or melt
// with a drawn Lightning outcome): the witness must be stored and reported by checkstate (C15), and a replay
// of the locked secret with another witness must be refused (C01).
func (m *Machine) opLockedSpend(t *rapid.T) bool {
	w := m.W
	sp := m.spendable()
	var src *world.MProof
	for _, p := range sp {
		if p.P.Amount >= 8 {
			src = p
			break
		}
	}
	if src == nil {
		return false
	}
	fee := w.FeeFor(cashu.Proofs{src.P})
	if src.P.Amount <= fee+2 {
		return false
	}
	cfg := lockgen.Config{Kind: "P2PK", NSigs: -1, Locktime: "absent", Sigflag: "absent", Nonce: w.NewSecret()}
	secret := cfg.Secret()
	amts := world.Split(src.P.Amount - fee)
	outs := w.MakeOutputs(amts, w.ActiveID)
	last := len(outs) - 1
	outs[last] = w.BlindSecret(secret, amts[last], w.ActiveID)
	if _, err := w.Swap(cashu.Proofs{src.P}, outs); err != nil {
		m.honestFail("swap", err)
		return true
	}
	lp := w.M.Proofs[secret]
	if lp == nil {
		return true
	}
	in := lp.P
	in.Witness = lockgen.WitnessJSON("object", []string{lockgen.Sign(lockgen.LockKey, []byte(secret), 0)}, "", false)
	f2 := w.FeeFor(cashu.Proofs{in})
	if in.Amount <= f2 {
		return true
	}
	how := rapid.SampledFrom([]string{"swap", "swap", "melt_success", "melt_pending"}).Draw(t, "locked_spend_how")
	var err error
	if how == "swap" {
		_, err = w.Swap(cashu.Proofs{in}, m.honestOutputs(in.Amount-f2))
	} else {
		amt := in.Amount - f2
		for amt > 0 && amt+w.ReserveFor(amt)+f2 > in.Amount {
			amt--
		}
		if amt == 0 {
			return true
		}
		inv := w.Net.ExternalInvoice(amt * 1000)
		q, qerr := w.RequestMeltQuote(inv.Request, 0)
		if qerr != nil {
			m.honestFail("melt_quote", qerr)
			return true
		}
		if how == "melt_success" {
			w.LN.PayScript = []lnmodel.PayAnswer{lnmodel.PaySuccess}
		} else {
			w.LN.PayScript = []lnmodel.PayAnswer{lnmodel.PayPending}
		}
		_, err = w.MeltTokens(q, cashu.Proofs{in})
		w.LN.PayScript = nil
	}
	m.logf("spend of a P2PK-locked proof (%d sat) with its witness via %s: err=%v", in.Amount, how, err)
	if err != nil {
		m.honestFail("locked_spend", err)
	} else {
		m.Count["spend_with_witness"]++
	}
	return true
}
