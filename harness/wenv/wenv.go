// Package wenv is the wallet environment: 1..2 real mints (world.World with HTTP handler) on one Lightning
// network, real wallet.Wallet instances on fresh directories, and an in-process HTTP transport installed as
// http.DefaultTransport that routes http://mintA, http://mintB to the mint handlers and records every request.
package wenv

import (
	"bytes"
	"fmt"
	"io"
	"net/http"
	"os"
	"strings"

	"github.com/elnosh/gonuts/wallet"
	"github.com/elnosh/gonuts/wallet/storage"

	"verif/harness/dbproxy"
	"verif/harness/httpx"
	"verif/harness/lnmodel"
	"verif/harness/world"
)

type Req struct {
	Seq    int
	Wallet string
	Method string
	Host   string
	Path   string
	Body   []byte
	Status int
	Resp   []byte
	Panic  any
}

type WalletH struct {
	Name     string
	Dir      string
	W        *wallet.Wallet
	Proxy    *dbproxy.WalletProxy
	Default  string // default mint URL
	Mnemonic string
	Hook     func(c *dbproxy.Call) error
}

type Env struct {
	T       world.T
	Net     *lnmodel.Network
	Mints   []*world.World
	Wallets []*WalletH
	Reqs    []Req
	Cur     string
	// HTTPHook is called with phase "before" (request not sent yet) and "after" (mint processed it, response
	// not yet delivered); it may panic(dbproxy.Crash{}) to kill the wallet process at that point.
	HTTPHook func(phase string, r *Req)
	prev     http.RoundTripper
	seq      int
	closed   bool
}

func URL(w *world.World) string { return "http://" + w.LN.Name }

// New creates the environment with len(fees) mints named mintA, mintB, ...
// adapters (optional, per mint): "" = the Lightning model is the mint's backend, "cln" / "lnd" = one of the repository's
// own backend adapters sits in between (world.Config.ViaCLN / ViaLND).
func New(t world.T, caseSeed uint64, fees []uint, feeModes []lnmodel.FeeMode, adapters ...string) *Env {
	e := &Env{T: t, Net: lnmodel.NewNetwork([]byte(fmt.Sprint("wenv", caseSeed)))}
	for i, f := range fees {
		fm := lnmodel.FeeZero
		if i < len(feeModes) {
			fm = feeModes[i]
		}
		cfg := world.Config{FeePpk: f, FeeMode: fm, WithServer: true, SeedIdx: i, CaseSeed: caseSeed + uint64(i), Name: "mint" + string(rune('A'+i))}
		if i < len(adapters) {
			cfg.ViaCLN, cfg.ViaLND = adapters[i] == "cln", adapters[i] == "lnd"
		}
		w := world.NewOn(t, cfg, e.Net)
		e.Mints = append(e.Mints, w)
	}
	e.prev = http.DefaultTransport
	http.DefaultTransport = e
	return e
}

func (e *Env) Close() {
	if e.closed {
		return
	}
	e.closed = true
	for _, h := range e.Wallets {
		if h.W != nil {
			h.W.Shutdown()
		}
		os.RemoveAll(h.Dir)
	}
	for _, m := range e.Mints {
		m.Close()
	}
	http.DefaultTransport = e.prev
}

func (e *Env) MintByURL(u string) *world.World {
	for _, m := range e.Mints {
		if strings.EqualFold(URL(m), strings.TrimRight(u, "/.")) {
			return m
		}
	}
	return nil
}

// RoundTrip serves the request in-process.
func (e *Env) RoundTrip(req *http.Request) (*http.Response, error) {
	var body []byte
	if req.Body != nil {
		body, _ = io.ReadAll(req.Body)
		req.Body.Close()
	}
	var m *world.World
	for _, x := range e.Mints {
		if strings.EqualFold(x.LN.Name, strings.TrimSuffix(req.URL.Host, ".")) { // host names: case-insensitive, a trailing dot is the same name
			m = x
		}
	}
	if m == nil {
		// not a mint of this environment (e.g. the node imitation behind a mint's CLN adapter): the real transport
		if strings.HasPrefix(req.URL.Host, "127.0.0.1:") && e.prev != nil {
			if body != nil {
				req.Body = io.NopCloser(bytes.NewReader(body))
			}
			return e.prev.RoundTrip(req)
		}
		return nil, fmt.Errorf("wenv: no such host %q", req.URL.Host)
	}
	e.seq++
	r := Req{Seq: e.seq, Wallet: e.Cur, Method: req.Method, Host: req.URL.Host, Path: req.URL.RequestURI(), Body: body}
	if e.HTTPHook != nil {
		e.HTTPHook("before", &r)
	}
	resp := httpx.Do(m.Handler(), req.Method, req.URL.RequestURI(), body, req.Header.Get("Content-Type"))
	r.Status, r.Resp, r.Panic = resp.Status, resp.Body, resp.Panic
	e.Reqs = append(e.Reqs, r)
	if e.HTTPHook != nil {
		e.HTTPHook("after", &e.Reqs[len(e.Reqs)-1])
	}
	if resp.Panic != nil {
		return nil, fmt.Errorf("wenv: mint handler panicked: %v", resp.Panic)
	}
	return &http.Response{
		StatusCode:    resp.Status,
		Status:        fmt.Sprintf("%d", resp.Status),
		Body:          io.NopCloser(bytes.NewReader(resp.Body)),
		Header:        resp.Header,
		ContentLength: int64(len(resp.Body)),
		Request:       req,
		Proto:         "HTTP/1.1", ProtoMajor: 1, ProtoMinor: 1,
	}, nil
}

func (e *Env) wrap(h *WalletH) {
	h.W.VerifWrapDB(func(inner storage.WalletDB) storage.WalletDB {
		var old cashu_proofs
		if h.Proxy != nil {
			old = h.Proxy.Stored
		}
		h.Proxy = dbproxy.WrapWallet(inner)
		h.Proxy.Stored = old
		h.Proxy.Hook = h.Hook
		return h.Proxy
	})
}

// NewWallet creates a wallet on a fresh directory with the given default mint.
func (e *Env) NewWallet(name, defaultMint string) (*WalletH, error) {
	dir, err := os.MkdirTemp(world.ScratchBase(), "wallet")
	if err != nil {
		return nil, err
	}
	h := &WalletH{Name: name, Dir: dir, Default: defaultMint}
	e.Cur = name
	w, err := wallet.LoadWallet(wallet.Config{WalletPath: dir, CurrentMintURL: defaultMint})
	if err != nil {
		os.RemoveAll(dir)
		return nil, err
	}
	h.W = w
	h.Mnemonic = w.Mnemonic()
	e.wrap(h)
	e.Wallets = append(e.Wallets, h)
	return h, nil
}

// Adopt registers an already existing wallet directory (e.g. created by wallet.Restore) and loads it.
func (e *Env) Adopt(name, dir, defaultMint string) (*WalletH, error) {
	h := &WalletH{Name: name, Dir: dir, Default: defaultMint}
	e.Cur = name
	w, err := wallet.LoadWallet(wallet.Config{WalletPath: dir, CurrentMintURL: defaultMint})
	if err != nil {
		return nil, err
	}
	h.W = w
	h.Mnemonic = w.Mnemonic()
	e.wrap(h)
	e.Wallets = append(e.Wallets, h)
	return h, nil
}

// Restart shuts the wallet down and loads it again from its directory.
func (e *Env) Restart(h *WalletH) error { return e.RestartAs(h, h.Default) }

// RestartAs loads the wallet again with its default mint written as currentMint (another spelling of the same URL).
func (e *Env) RestartAs(h *WalletH, currentMint string) error {
	e.Cur = h.Name
	if h.W != nil {
		h.W.Shutdown()
		h.W = nil
	}
	w, err := wallet.LoadWallet(wallet.Config{WalletPath: h.Dir, CurrentMintURL: currentMint})
	if err != nil {
		return err
	}
	h.W = w
	e.wrap(h)
	return nil
}

// Inner returns the wallet's real storage handle.
func (h *WalletH) Inner() storage.WalletDB { return h.Proxy.Inner() }
