package wenv

import "github.com/elnosh/gonuts/cashu"

type cashu_proofs = cashu.Proofs
