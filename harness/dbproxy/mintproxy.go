// Package dbproxy wraps the real storage handles of mint and wallet. Every call is logged and passed
// to an optional hook before it executes; the hook can park the caller (scheduler), kill the
// "process" (panic with Crash) or inject an error. The inner handle stays reachable so that oracles
// read storage without going through mint / wallet logic.
package dbproxy

import (
	"bytes"
	"fmt"
	"reflect"
	"runtime"
	"strconv"
	"sync"
	"time"

	"github.com/elnosh/gonuts/cashu"
	"github.com/elnosh/gonuts/cashu/nuts/nut04"
	"github.com/elnosh/gonuts/cashu/nuts/nut05"
	"github.com/elnosh/gonuts/mint/storage"
)

// Crash is the panic value used to simulate process death at a call boundary.
type Crash struct{ At string }

func (c Crash) String() string { return "simulated crash before " + c.At }

// Call is one logged storage call.
type Call struct {
	Seq    int
	Gid    int64
	Method string
	Occ    int    // occurrence number of Method since the last ResetLog (1-based)
	Arg    string // short digest of the arguments that matter (ids, states, counts)
	Err    bool
	Done   bool
}

func (c Call) Pos() string { return fmt.Sprintf("%s#%d", c.Method, c.Occ) }

// Gid returns the current goroutine id.
func Gid() int64 {
	var buf [64]byte
	n := runtime.Stack(buf[:], false)
	// "goroutine 123 [running]:"
	b := buf[:n]
	b = b[len("goroutine "):]
	i := bytes.IndexByte(b, ' ')
	id, _ := strconv.ParseInt(string(b[:i]), 10, 64)
	return id
}

// GoroutineAlive reports whether a goroutine with the given id exists.
func GoroutineAlive(gid int64) bool {
	buf := make([]byte, 1<<18)
	for {
		n := runtime.Stack(buf, true)
		if n < len(buf) {
			buf = buf[:n]
			break
		}
		buf = make([]byte, 2*len(buf))
	}
	return bytes.Contains(buf, []byte(fmt.Sprintf("goroutine %d [", gid)))
}

// GoroutineWaitReason returns the scheduler state of a goroutine as printed in a stack dump
// ("running", "sync.Mutex.Lock", "chan receive", ...), or "" if it does not exist.
func GoroutineWaitReason(gid int64) string {
	buf := make([]byte, 1<<18)
	for {
		n := runtime.Stack(buf, true)
		if n < len(buf) {
			buf = buf[:n]
			break
		}
		buf = make([]byte, 2*len(buf))
	}
	key := []byte(fmt.Sprintf("goroutine %d [", gid))
	i := bytes.Index(buf, key)
	if i < 0 {
		return ""
	}
	rest := buf[i+len(key):]
	j := bytes.IndexByte(rest, ']')
	if j < 0 {
		return ""
	}
	return string(rest[:j])
}

type MintProxy struct {
	storage.MintDB // inner handle (embedded: unknown future methods pass through)

	mu   sync.Mutex
	cond *sync.Cond
	log  []Call
	occ  map[string]int
	seq  int
	dead bool

	// Hook runs before the call executes. It may block, panic(Crash{...}) or return an error that is
	// returned to the caller instead of executing the call.
	Hook func(c *Call) error
}

func WrapMint(inner storage.MintDB) *MintProxy {
	p := &MintProxy{MintDB: inner, occ: map[string]int{}}
	p.cond = sync.NewCond(&p.mu)
	return p
}

func (p *MintProxy) Inner() storage.MintDB { return p.MintDB }

// Kill marks the proxy dead: every later call panics with Crash (the process is gone).
func (p *MintProxy) Kill() { p.mu.Lock(); p.dead = true; p.mu.Unlock() }

func (p *MintProxy) Dead() bool { p.mu.Lock(); defer p.mu.Unlock(); return p.dead }

func (p *MintProxy) ResetLog() {
	p.mu.Lock()
	p.log = nil
	p.occ = map[string]int{}
	p.mu.Unlock()
}

func (p *MintProxy) Log() []Call {
	p.mu.Lock()
	defer p.mu.Unlock()
	return append([]Call(nil), p.log...)
}

func (p *MintProxy) LogLen() int { p.mu.Lock(); defer p.mu.Unlock(); return len(p.log) }

// WaitFor blocks until a completed call satisfying pred exists at log index >= from, or the timeout expires.
func (p *MintProxy) WaitFor(from int, pred func(Call) bool, timeout time.Duration) bool {
	deadline := time.Now().Add(timeout)
	for {
		p.mu.Lock()
		for i := from; i < len(p.log); i++ {
			if p.log[i].Done && pred(p.log[i]) {
				p.mu.Unlock()
				return true
			}
		}
		p.mu.Unlock()
		if time.Now().After(deadline) {
			return false
		}
		time.Sleep(100 * time.Microsecond)
	}
}

func (p *MintProxy) before(method, arg string) (int, error) {
	p.mu.Lock()
	if p.dead {
		p.mu.Unlock()
		panic(Crash{At: method + " (dead instance)"})
	}
	p.seq++
	p.occ[method]++
	c := Call{Seq: p.seq, Gid: Gid(), Method: method, Occ: p.occ[method], Arg: arg}
	p.log = append(p.log, c)
	idx := len(p.log) - 1
	hook := p.Hook
	p.mu.Unlock()
	if hook != nil {
		if err := hook(&c); err != nil {
			p.mu.Lock()
			if idx < len(p.log) {
				p.log[idx].Err = true
				p.log[idx].Done = true
			}
			p.cond.Broadcast()
			p.mu.Unlock()
			return idx, err
		}
	}
	return idx, nil
}

func (p *MintProxy) after(idx int, err error) {
	p.mu.Lock()
	if idx < len(p.log) {
		p.log[idx].Done = true
		p.log[idx].Err = err != nil
	}
	p.cond.Broadcast()
	p.mu.Unlock()
}

func (p *MintProxy) SaveSeed(s []byte) error {
	i, err := p.before("SaveSeed", "")
	if err != nil {
		return err
	}
	err = p.MintDB.SaveSeed(s)
	p.after(i, err)
	return err
}

func (p *MintProxy) GetSeed() ([]byte, error) {
	i, err := p.before("GetSeed", "")
	if err != nil {
		return nil, err
	}
	r, err := p.MintDB.GetSeed()
	p.after(i, err)
	return r, err
}

func (p *MintProxy) SaveKeyset(k storage.DBKeyset) error {
	i, err := p.before("SaveKeyset", k.Id)
	if err != nil {
		return err
	}
	err = p.MintDB.SaveKeyset(k)
	p.after(i, err)
	return err
}

func (p *MintProxy) GetKeysets() ([]storage.DBKeyset, error) {
	i, err := p.before("GetKeysets", "")
	if err != nil {
		return nil, err
	}
	r, err := p.MintDB.GetKeysets()
	p.after(i, err)
	return r, err
}

func (p *MintProxy) UpdateKeysetActive(id string, active bool) error {
	i, err := p.before("UpdateKeysetActive", fmt.Sprintf("%s,%v", id, active))
	if err != nil {
		return err
	}
	err = p.MintDB.UpdateKeysetActive(id, active)
	p.after(i, err)
	return err
}

func (p *MintProxy) SaveProofs(ps cashu.Proofs) error {
	i, err := p.before("SaveProofs", fmt.Sprintf("n=%d", len(ps)))
	if err != nil {
		return err
	}
	err = p.MintDB.SaveProofs(ps)
	p.after(i, err)
	return err
}

func (p *MintProxy) GetProofsUsed(ys []string) ([]storage.DBProof, error) {
	i, err := p.before("GetProofsUsed", fmt.Sprintf("n=%d", len(ys)))
	if err != nil {
		return nil, err
	}
	r, err := p.MintDB.GetProofsUsed(ys)
	p.after(i, err)
	return r, err
}

func (p *MintProxy) AddPendingProofs(ps cashu.Proofs, q string) error {
	i, err := p.before("AddPendingProofs", fmt.Sprintf("n=%d", len(ps)))
	if err != nil {
		return err
	}
	err = p.MintDB.AddPendingProofs(ps, q)
	p.after(i, err)
	return err
}

func (p *MintProxy) GetPendingProofs(ys []string) ([]storage.DBProof, error) {
	i, err := p.before("GetPendingProofs", fmt.Sprintf("n=%d", len(ys)))
	if err != nil {
		return nil, err
	}
	r, err := p.MintDB.GetPendingProofs(ys)
	p.after(i, err)
	return r, err
}

func (p *MintProxy) GetPendingProofsByQuote(q string) ([]storage.DBProof, error) {
	i, err := p.before("GetPendingProofsByQuote", "")
	if err != nil {
		return nil, err
	}
	r, err := p.MintDB.GetPendingProofsByQuote(q)
	p.after(i, err)
	return r, err
}

func (p *MintProxy) RemovePendingProofs(ys []string) error {
	i, err := p.before("RemovePendingProofs", fmt.Sprintf("n=%d", len(ys)))
	if err != nil {
		return err
	}
	err = p.MintDB.RemovePendingProofs(ys)
	p.after(i, err)
	return err
}

func (p *MintProxy) SaveMintQuote(q storage.MintQuote) error {
	i, err := p.before("SaveMintQuote", q.Id)
	if err != nil {
		return err
	}
	err = p.MintDB.SaveMintQuote(q)
	p.after(i, err)
	return err
}

func (p *MintProxy) GetMintQuote(id string) (storage.MintQuote, error) {
	i, err := p.before("GetMintQuote", id)
	if err != nil {
		return storage.MintQuote{}, err
	}
	r, err := p.MintDB.GetMintQuote(id)
	p.after(i, err)
	return r, err
}

func (p *MintProxy) GetMintQuoteByPaymentHash(h string) (storage.MintQuote, error) {
	i, err := p.before("GetMintQuoteByPaymentHash", h)
	if err != nil {
		return storage.MintQuote{}, err
	}
	r, err := p.MintDB.GetMintQuoteByPaymentHash(h)
	p.after(i, err)
	return r, err
}

func (p *MintProxy) UpdateMintQuoteState(id string, st nut04.State) error {
	i, err := p.before("UpdateMintQuoteState", id+","+st.String())
	if err != nil {
		return err
	}
	err = p.MintDB.UpdateMintQuoteState(id, st)
	p.after(i, err)
	return err
}

func (p *MintProxy) SaveMeltQuote(q storage.MeltQuote) error {
	i, err := p.before("SaveMeltQuote", q.Id)
	if err != nil {
		return err
	}
	err = p.MintDB.SaveMeltQuote(q)
	p.after(i, err)
	return err
}

func (p *MintProxy) GetMeltQuote(id string) (storage.MeltQuote, error) {
	i, err := p.before("GetMeltQuote", id)
	if err != nil {
		return storage.MeltQuote{}, err
	}
	r, err := p.MintDB.GetMeltQuote(id)
	p.after(i, err)
	return r, err
}

func (p *MintProxy) GetMeltQuoteByPaymentRequest(r string) (*storage.MeltQuote, error) {
	i, err := p.before("GetMeltQuoteByPaymentRequest", "")
	if err != nil {
		return nil, err
	}
	q, err := p.MintDB.GetMeltQuoteByPaymentRequest(r)
	p.after(i, err)
	return q, err
}

func (p *MintProxy) UpdateMeltQuote(id, preimage string, st nut05.State) error {
	i, err := p.before("UpdateMeltQuote", id+","+st.String())
	if err != nil {
		return err
	}
	err = p.MintDB.UpdateMeltQuote(id, preimage, st)
	p.after(i, err)
	return err
}

func (p *MintProxy) SaveBlindSignatures(bs []string, sigs cashu.BlindedSignatures) error {
	i, err := p.before("SaveBlindSignatures", fmt.Sprintf("n=%d", len(bs)))
	if err != nil {
		return err
	}
	err = p.MintDB.SaveBlindSignatures(bs, sigs)
	p.after(i, err)
	return err
}

func (p *MintProxy) GetBlindSignature(b string) (cashu.BlindedSignature, error) {
	i, err := p.before("GetBlindSignature", "")
	if err != nil {
		return cashu.BlindedSignature{}, err
	}
	r, err := p.MintDB.GetBlindSignature(b)
	p.after(i, err)
	return r, err
}

func (p *MintProxy) GetBlindSignatures(bs []string) (cashu.BlindedSignatures, error) {
	i, err := p.before("GetBlindSignatures", fmt.Sprintf("n=%d", len(bs)))
	if err != nil {
		return nil, err
	}
	r, err := p.MintDB.GetBlindSignatures(bs)
	p.after(i, err)
	return r, err
}

func (p *MintProxy) GetIssuedEcash() (map[string]uint64, error) {
	i, err := p.before("GetIssuedEcash", "")
	if err != nil {
		return nil, err
	}
	r, err := p.MintDB.GetIssuedEcash()
	p.after(i, err)
	return r, err
}

func (p *MintProxy) GetRedeemedEcash() (map[string]uint64, error) {
	i, err := p.before("GetRedeemedEcash", "")
	if err != nil {
		return nil, err
	}
	r, err := p.MintDB.GetRedeemedEcash()
	p.after(i, err)
	return r, err
}

func (p *MintProxy) Close() error {
	// closing is not a fault position: pass through (also when dead, so the harness can release the file)
	return p.MintDB.Close()
}

// UninstrumentedMintMethods lists methods of storage.MintDB that the proxy does not override (they pass
// through un-logged). Empty on the current tree; a non-empty result is reported by the self-test.
func UninstrumentedMintMethods() []string {
	it := reflect.TypeOf((*storage.MintDB)(nil)).Elem()
	pt := reflect.TypeOf(&MintProxy{})
	var missing []string
	for i := 0; i < it.NumMethod(); i++ {
		name := it.Method(i).Name
		m, ok := pt.MethodByName(name)
		if !ok {
			missing = append(missing, name)
			continue
		}
		// a promoted method's function lives in the embedded interface: detect via its package path
		if fn := runtime.FuncForPC(m.Func.Pointer()); fn != nil && !bytes.Contains([]byte(fn.Name()), []byte("dbproxy.(*MintProxy)."+name)) {
			missing = append(missing, name)
		} else if fn != nil && bytes.HasSuffix([]byte(fn.Name()), []byte("-fm")) {
			missing = append(missing, name)
		}
	}
	return missing
}
