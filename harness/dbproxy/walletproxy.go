package dbproxy

import (
	"sync"

	"github.com/elnosh/gonuts/cashu"
	"github.com/elnosh/gonuts/crypto"
	"github.com/elnosh/gonuts/wallet/storage"
)

// WalletProxy wraps the wallet's storage handle (bbolt). Every call is logged; Hook runs before the call
// executes and may panic(Crash{...}) (process death) or return an error (methods that return one).
type WalletProxy struct {
	storage.WalletDB

	mu   sync.Mutex
	log  []Call
	occ  map[string]int
	seq  int
	Hook func(c *Call) error
	// Stored collects every proof ever passed to SaveProofs / AddPendingProofs* (incl. its DLEQ with r)
	Stored cashu.Proofs
}

func WrapWallet(inner storage.WalletDB) *WalletProxy {
	return &WalletProxy{WalletDB: inner, occ: map[string]int{}}
}

func (p *WalletProxy) Inner() storage.WalletDB { return p.WalletDB }

func (p *WalletProxy) Log() []Call {
	p.mu.Lock()
	defer p.mu.Unlock()
	return append([]Call(nil), p.log...)
}

func (p *WalletProxy) ResetLog() {
	p.mu.Lock()
	p.log, p.occ = nil, map[string]int{}
	p.mu.Unlock()
}

func (p *WalletProxy) before(method string) error {
	p.mu.Lock()
	p.seq++
	p.occ[method]++
	c := Call{Seq: p.seq, Gid: Gid(), Method: method, Occ: p.occ[method]}
	p.log = append(p.log, c)
	hook := p.Hook
	p.mu.Unlock()
	if hook != nil {
		return hook(&c)
	}
	return nil
}

func (p *WalletProxy) keep(ps cashu.Proofs) {
	p.mu.Lock()
	p.Stored = append(p.Stored, ps...)
	p.mu.Unlock()
}

func (p *WalletProxy) Close() error { return p.WalletDB.Close() }

func (p *WalletProxy) SaveMnemonicSeed(m string, s []byte) {
	p.before("SaveMnemonicSeed")
	p.WalletDB.SaveMnemonicSeed(m, s)
}

func (p *WalletProxy) GetSeed() []byte {
	p.before("GetSeed")
	return p.WalletDB.GetSeed()
}

func (p *WalletProxy) GetMnemonic() string {
	p.before("GetMnemonic")
	return p.WalletDB.GetMnemonic()
}

func (x *WalletProxy) SaveProofs(p cashu.Proofs) error {
	x.keep(p)
	if err := x.before("SaveProofs"); err != nil {
		return err
	}
	return x.WalletDB.SaveProofs(p)
}

func (p *WalletProxy) GetProofs() cashu.Proofs {
	p.before("GetProofs")
	return p.WalletDB.GetProofs()
}

func (p *WalletProxy) GetProofsByKeysetId(id string) cashu.Proofs {
	p.before("GetProofsByKeysetId")
	return p.WalletDB.GetProofsByKeysetId(id)
}

func (p *WalletProxy) DeleteProof(s string) error {
	if err := p.before("DeleteProof"); err != nil {
		return err
	}
	return p.WalletDB.DeleteProof(s)
}

func (x *WalletProxy) AddPendingProofs(p cashu.Proofs) error {
	x.keep(p)
	if err := x.before("AddPendingProofs"); err != nil {
		return err
	}
	return x.WalletDB.AddPendingProofs(p)
}

func (x *WalletProxy) AddPendingProofsByQuoteId(p cashu.Proofs, q string) error {
	x.keep(p)
	if err := x.before("AddPendingProofsByQuoteId"); err != nil {
		return err
	}
	return x.WalletDB.AddPendingProofsByQuoteId(p, q)
}

func (p *WalletProxy) GetPendingProofs() []storage.DBProof {
	p.before("GetPendingProofs")
	return p.WalletDB.GetPendingProofs()
}

func (p *WalletProxy) GetPendingProofsByQuoteId(q string) []storage.DBProof {
	p.before("GetPendingProofsByQuoteId")
	return p.WalletDB.GetPendingProofsByQuoteId(q)
}

func (p *WalletProxy) DeletePendingProofs(ys []string) error {
	if err := p.before("DeletePendingProofs"); err != nil {
		return err
	}
	return p.WalletDB.DeletePendingProofs(ys)
}

func (p *WalletProxy) DeletePendingProofsByQuoteId(q string) error {
	if err := p.before("DeletePendingProofsByQuoteId"); err != nil {
		return err
	}
	return p.WalletDB.DeletePendingProofsByQuoteId(q)
}

func (p *WalletProxy) SaveKeyset(k *crypto.WalletKeyset) error {
	if err := p.before("SaveKeyset"); err != nil {
		return err
	}
	return p.WalletDB.SaveKeyset(k)
}

func (p *WalletProxy) GetKeysets() crypto.KeysetsMap {
	p.before("GetKeysets")
	return p.WalletDB.GetKeysets()
}

func (p *WalletProxy) GetKeyset(id string) *crypto.WalletKeyset {
	p.before("GetKeyset")
	return p.WalletDB.GetKeyset(id)
}

func (p *WalletProxy) IncrementKeysetCounter(id string, n uint32) error {
	if err := p.before("IncrementKeysetCounter"); err != nil {
		return err
	}
	return p.WalletDB.IncrementKeysetCounter(id, n)
}

func (p *WalletProxy) GetKeysetCounter(id string) uint32 {
	p.before("GetKeysetCounter")
	return p.WalletDB.GetKeysetCounter(id)
}

func (p *WalletProxy) UpdateKeysetMintURL(a, b string) error {
	if err := p.before("UpdateKeysetMintURL"); err != nil {
		return err
	}
	return p.WalletDB.UpdateKeysetMintURL(a, b)
}

func (p *WalletProxy) SaveMintQuote(q storage.MintQuote) error {
	if err := p.before("SaveMintQuote"); err != nil {
		return err
	}
	return p.WalletDB.SaveMintQuote(q)
}

func (p *WalletProxy) GetMintQuotes() []storage.MintQuote {
	p.before("GetMintQuotes")
	return p.WalletDB.GetMintQuotes()
}

func (p *WalletProxy) GetMintQuoteById(id string) *storage.MintQuote {
	p.before("GetMintQuoteById")
	return p.WalletDB.GetMintQuoteById(id)
}

func (p *WalletProxy) SaveMeltQuote(q storage.MeltQuote) error {
	if err := p.before("SaveMeltQuote"); err != nil {
		return err
	}
	return p.WalletDB.SaveMeltQuote(q)
}

func (p *WalletProxy) GetMeltQuotes() []storage.MeltQuote {
	p.before("GetMeltQuotes")
	return p.WalletDB.GetMeltQuotes()
}

func (p *WalletProxy) GetMeltQuoteById(id string) *storage.MeltQuote {
	p.before("GetMeltQuoteById")
	return p.WalletDB.GetMeltQuoteById(id)
}
