package ref

import (
	"crypto/hmac"
	"crypto/sha256"
	"crypto/sha512"
	"encoding/binary"
	"encoding/hex"
	"errors"
	"math/big"
	"sort"
)

// ---------------------------------------------------------------- BIP-32 (private derivation)

type XKey struct {
	Key   *big.Int // private key
	Chain []byte   // 32 bytes
}

var ErrInvalidChild = errors.New("ref: BIP32 invalid child")

const Hardened = uint32(0x80000000)

func Master(seed []byte) (XKey, error) {
	m := hmac.New(sha512.New, []byte("Bitcoin seed"))
	m.Write(seed)
	I := m.Sum(nil)
	k := new(big.Int).SetBytes(I[:32])
	if k.Sign() == 0 || k.Cmp(N) >= 0 {
		return XKey{}, ErrInvalidChild
	}
	return XKey{k, I[32:]}, nil
}

func (x XKey) Child(i uint32) (XKey, error) {
	data := make([]byte, 0, 37)
	if i >= Hardened {
		kb := make([]byte, 32)
		x.Key.FillBytes(kb)
		data = append(data, 0)
		data = append(data, kb...)
	} else {
		data = append(data, BaseMul(x.Key).Compressed()...)
	}
	var ib [4]byte
	binary.BigEndian.PutUint32(ib[:], i)
	data = append(data, ib[:]...)
	m := hmac.New(sha512.New, x.Chain)
	m.Write(data)
	I := m.Sum(nil)
	il := new(big.Int).SetBytes(I[:32])
	if il.Cmp(N) >= 0 {
		return XKey{}, ErrInvalidChild
	}
	k := new(big.Int).Add(il, x.Key)
	k.Mod(k, N)
	if k.Sign() == 0 {
		return XKey{}, ErrInvalidChild
	}
	return XKey{k, I[32:]}, nil
}

func (x XKey) Path(idx ...uint32) (XKey, error) {
	cur := x
	var err error
	for _, i := range idx {
		cur, err = cur.Child(i)
		if err != nil {
			return XKey{}, err
		}
	}
	return cur, nil
}

// ---------------------------------------------------------------- NUT-00 hash_to_curve

const domainSeparator = "Secp256k1_HashToCurve_Cashu_"

// HashToCurve returns the point and the counter value that produced it.
func HashToCurve(msg []byte) (Point, uint32, error) {
	h0 := sha256.Sum256(append([]byte(domainSeparator), msg...))
	for ctr := uint32(0); ctr < 1<<16; ctr++ {
		var c [4]byte
		binary.LittleEndian.PutUint32(c[:], ctr)
		h := sha256.Sum256(append(append([]byte{}, h0[:]...), c[:]...))
		if p, ok := LiftX(new(big.Int).SetBytes(h[:]), false); ok {
			return p, ctr, nil
		}
	}
	return Point{}, 0, errors.New("ref: no valid point found")
}

// ---------------------------------------------------------------- NUT-02 keyset id

// KeysetID computes "00" + hex(sha256(concat(compressed keys sorted by amount)))[:14].
func KeysetID(keys map[uint64]Point) string {
	amts := make([]uint64, 0, len(keys))
	for a := range keys {
		amts = append(amts, a)
	}
	sort.Slice(amts, func(i, j int) bool { return amts[i] < amts[j] })
	h := sha256.New()
	for _, a := range amts {
		h.Write(keys[a].Compressed())
	}
	return "00" + hex.EncodeToString(h.Sum(nil))[:14]
}

// ---------------------------------------------------------------- NUT-13

// Nut13 derives (secret hex, blinding factor r) for (seed, keyset id, counter).
func Nut13(seed []byte, keysetIDHex string, counter uint32) (secret string, r *big.Int, err error) {
	idb, err := hex.DecodeString(keysetIDHex)
	if err != nil {
		return "", nil, err
	}
	idInt := new(big.Int).SetBytes(idb)
	idInt.Mod(idInt, big.NewInt(1<<31-1))
	m, err := Master(seed)
	if err != nil {
		return "", nil, err
	}
	base, err := m.Path(Hardened+129372, Hardened+0, Hardened+uint32(idInt.Uint64()), Hardened+counter)
	if err != nil {
		return "", nil, err
	}
	s, err := base.Child(0)
	if err != nil {
		return "", nil, err
	}
	rk, err := base.Child(1)
	if err != nil {
		return "", nil, err
	}
	sb := make([]byte, 32)
	s.Key.FillBytes(sb)
	return hex.EncodeToString(sb), rk.Key, nil
}

// ---------------------------------------------------------------- mint keys m/0'/0'/idx'/i'

// MintKeys returns the 60 private keys of derivation index idx: amount 2^i -> key.
func MintKeys(seed []byte, idx uint32) (map[uint64]*big.Int, error) {
	m, err := Master(seed)
	if err != nil {
		return nil, err
	}
	base, err := m.Path(Hardened+0, Hardened+0, Hardened+idx)
	if err != nil {
		return nil, err
	}
	out := make(map[uint64]*big.Int, 60)
	for i := uint32(0); i < 60; i++ {
		c, err := base.Child(Hardened + i)
		if err != nil {
			return nil, err
		}
		out[uint64(1)<<i] = c.Key
	}
	return out, nil
}

// PubKeys maps private keys to their public points.
func PubKeys(priv map[uint64]*big.Int) map[uint64]Point {
	out := make(map[uint64]Point, len(priv))
	for a, k := range priv {
		out[a] = BaseMul(k)
	}
	return out
}

// ---------------------------------------------------------------- NUT-02 fees

// Fee = ceil(sum ppk / 1000).
func Fee(ppks []uint64) uint64 {
	var s uint64
	for _, p := range ppks {
		s += p
	}
	return (s + 999) / 1000
}

// ---------------------------------------------------------------- NUT-12 DLEQ

// HashE = sha256 over the concatenated hex of the uncompressed points.
func HashE(pts ...Point) []byte {
	var s string
	for _, p := range pts {
		s += hex.EncodeToString(p.Uncompressed())
	}
	h := sha256.Sum256([]byte(s))
	return h[:]
}

// DLEQProve creates (e, s) for private key a, blinded message B_, with the chosen nonce.
func DLEQProve(a *big.Int, B_ Point, nonce *big.Int) (e, s *big.Int, C_ Point) {
	C_ = Mul(a, B_)
	R1 := BaseMul(nonce)
	R2 := Mul(nonce, B_)
	eb := HashE(R1, R2, BaseMul(a), C_)
	e = new(big.Int).SetBytes(eb)
	s = new(big.Int).Mul(new(big.Int).Mod(e, N), a)
	s.Add(s, nonce)
	s.Mod(s, N)
	return e, s, C_
}

// DLEQVerify checks (e,s) for A, B_, C_. e is the raw 32-byte hash value.
func DLEQVerify(e, s *big.Int, A, B_, C_ Point) bool {
	en := new(big.Int).Mod(e, N)
	R1 := Add(BaseMul(s), Neg(Mul(en, A)))
	R2 := Add(Mul(s, B_), Neg(Mul(en, C_)))
	if R1.Inf || R2.Inf {
		return false
	}
	return new(big.Int).SetBytes(HashE(R1, R2, A, C_)).Cmp(e) == 0
}
