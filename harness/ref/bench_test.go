package ref

import (
	"math/big"
	"testing"
)

func BenchmarkMul256(b *testing.B) {
	k, _ := new(big.Int).SetString("a1b2c3d4e5f60718293a4b5c6d7e8f90123456789abcdef0fedcba9876543210", 16)
	p := BaseMul(big.NewInt(12345))
	for i := 0; i < b.N; i++ {
		Mul(k, p)
	}
}
func BenchmarkMul64(b *testing.B) {
	k := new(big.Int).SetUint64(0xa1b2c3d4e5f60718)
	p := BaseMul(big.NewInt(12345))
	for i := 0; i < b.N; i++ {
		Mul(k, p)
	}
}
func BenchmarkH2C(b *testing.B) {
	for i := 0; i < b.N; i++ {
		HashToCurve([]byte{byte(i), byte(i >> 8)})
	}
}
