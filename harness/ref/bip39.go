package ref

import (
	"crypto/hmac"
	"crypto/sha512"
	"encoding/binary"
)

// bip39Seed = PBKDF2-HMAC-SHA512(mnemonic, "mnemonic"+passphrase, 2048 rounds, 64 bytes).
func bip39Seed(mnemonic, passphrase string) []byte {
	salt := []byte("mnemonic" + passphrase)
	prf := hmac.New(sha512.New, []byte(mnemonic))
	var blk [4]byte
	binary.BigEndian.PutUint32(blk[:], 1)
	prf.Write(salt)
	prf.Write(blk[:])
	u := prf.Sum(nil)
	out := append([]byte{}, u...)
	for i := 1; i < 2048; i++ {
		prf.Reset()
		prf.Write(u)
		u = prf.Sum(nil)
		for j := range out {
			out[j] ^= u[j]
		}
	}
	return out
}

// Bip39Seed is exported for checks that start from a wallet mnemonic.
func Bip39Seed(mnemonic, passphrase string) []byte { return bip39Seed(mnemonic, passphrase) }
