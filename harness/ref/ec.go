// Package ref holds reference implementations written from the specifications
// (SEC2 secp256k1, BIP-32, BIP-340, NUT-00/02/11/13/14) that share no code with
// btcec, dcrec, hdkeychain or gonuts. They are the oracles of the checks.
package ref

import (
	"crypto/sha256"
	"encoding/hex"
	"errors"
	"math/big"
)

var (
	P, _  = new(big.Int).SetString("FFFFFFFFFFFFFFFFFFFFFFFFFFFFFFFFFFFFFFFFFFFFFFFFFFFFFFFEFFFFFC2F", 16)
	N, _  = new(big.Int).SetString("FFFFFFFFFFFFFFFFFFFFFFFFFFFFFFFEBAAEDCE6AF48A03BBFD25E8CD0364141", 16)
	Gx, _ = new(big.Int).SetString("79BE667EF9DCBBAC55A06295CE870B07029BFCDB2DCE28D959F2815B16F81798", 16)
	Gy, _ = new(big.Int).SetString("483ADA7726A3C4655DA4FBFC0E1108A8FD17B448A68554199C47D08FFB10D4B8", 16)
	seven = big.NewInt(7)
	// (P+1)/4 for square roots, P ≡ 3 mod 4
	sqrtExp = new(big.Int).Rsh(new(big.Int).Add(P, big.NewInt(1)), 2)
)

// Point is an affine point; Inf marks the point at infinity.
type Point struct {
	X, Y *big.Int
	Inf  bool
}

func G() Point { return Point{new(big.Int).Set(Gx), new(big.Int).Set(Gy), false} }

func Infinity() Point { return Point{Inf: true} }

func (p Point) Equal(q Point) bool {
	if p.Inf || q.Inf {
		return p.Inf == q.Inf
	}
	return p.X.Cmp(q.X) == 0 && p.Y.Cmp(q.Y) == 0
}

func (p Point) OnCurve() bool {
	if p.Inf {
		return false
	}
	if p.X.Sign() < 0 || p.X.Cmp(P) >= 0 || p.Y.Sign() < 0 || p.Y.Cmp(P) >= 0 {
		return false
	}
	l := new(big.Int).Mul(p.Y, p.Y)
	l.Mod(l, P)
	r := new(big.Int).Mul(p.X, p.X)
	r.Mul(r, p.X)
	r.Add(r, seven)
	r.Mod(r, P)
	return l.Cmp(r) == 0
}

func mod(x *big.Int) *big.Int { return x.Mod(x, P) }

// Add returns p+q (affine, complete).
func Add(p, q Point) Point {
	if p.Inf {
		return q
	}
	if q.Inf {
		return p
	}
	if p.X.Cmp(q.X) == 0 {
		if p.Y.Cmp(q.Y) != 0 || p.Y.Sign() == 0 {
			return Infinity()
		}
		return Double(p)
	}
	// lambda = (y2-y1)/(x2-x1)
	num := new(big.Int).Sub(q.Y, p.Y)
	den := new(big.Int).Sub(q.X, p.X)
	den.Mod(den, P)
	den.ModInverse(den, P)
	lam := mod(num.Mul(num, den))
	x3 := new(big.Int).Mul(lam, lam)
	x3.Sub(x3, p.X)
	x3.Sub(x3, q.X)
	mod(x3)
	y3 := new(big.Int).Sub(p.X, x3)
	y3.Mul(y3, lam)
	y3.Sub(y3, p.Y)
	mod(y3)
	return Point{x3, y3, false}
}

func Double(p Point) Point {
	if p.Inf || p.Y.Sign() == 0 {
		return Infinity()
	}
	num := new(big.Int).Mul(p.X, p.X)
	num.Mul(num, big.NewInt(3))
	den := new(big.Int).Lsh(p.Y, 1)
	den.Mod(den, P)
	den.ModInverse(den, P)
	lam := mod(num.Mul(num, den))
	x3 := new(big.Int).Mul(lam, lam)
	x3.Sub(x3, new(big.Int).Lsh(p.X, 1))
	mod(x3)
	y3 := new(big.Int).Sub(p.X, x3)
	y3.Mul(y3, lam)
	y3.Sub(y3, p.Y)
	mod(y3)
	return Point{x3, y3, false}
}

func Neg(p Point) Point {
	if p.Inf {
		return p
	}
	y := new(big.Int).Sub(P, p.Y)
	y.Mod(y, P)
	return Point{new(big.Int).Set(p.X), y, false}
}

// jacobian arithmetic for the scalar multiplication (a = 0 curve)
type jac struct{ x, y, z *big.Int }

func (j jac) isInf() bool { return j.z.Sign() == 0 }

func toJac(p Point) jac {
	if p.Inf {
		return jac{big.NewInt(1), big.NewInt(1), big.NewInt(0)}
	}
	return jac{new(big.Int).Set(p.X), new(big.Int).Set(p.Y), big.NewInt(1)}
}

func (j jac) affine() Point {
	if j.isInf() {
		return Infinity()
	}
	zi := new(big.Int).ModInverse(j.z, P)
	zi2 := new(big.Int).Mul(zi, zi)
	zi2.Mod(zi2, P)
	x := new(big.Int).Mul(j.x, zi2)
	x.Mod(x, P)
	zi3 := zi2.Mul(zi2, zi)
	zi3.Mod(zi3, P)
	y := new(big.Int).Mul(j.y, zi3)
	y.Mod(y, P)
	return Point{x, y, false}
}

func jdouble(p jac) jac {
	if p.isInf() || p.y.Sign() == 0 {
		return jac{big.NewInt(1), big.NewInt(1), big.NewInt(0)}
	}
	// dbl-2009-l for a=0
	a := new(big.Int).Mul(p.x, p.x)
	a.Mod(a, P)
	b := new(big.Int).Mul(p.y, p.y)
	b.Mod(b, P)
	c := new(big.Int).Mul(b, b)
	c.Mod(c, P)
	d := new(big.Int).Add(p.x, b)
	d.Mul(d, d)
	d.Sub(d, a)
	d.Sub(d, c)
	d.Lsh(d, 1)
	d.Mod(d, P)
	e := new(big.Int).Mul(a, big.NewInt(3))
	f := new(big.Int).Mul(e, e)
	x3 := new(big.Int).Sub(f, new(big.Int).Lsh(d, 1))
	x3.Mod(x3, P)
	y3 := new(big.Int).Sub(d, x3)
	y3.Mul(y3, e)
	y3.Sub(y3, new(big.Int).Lsh(c, 3))
	y3.Mod(y3, P)
	z3 := new(big.Int).Mul(p.y, p.z)
	z3.Lsh(z3, 1)
	z3.Mod(z3, P)
	return jac{x3, y3, z3}
}

func jadd(p, q jac) jac {
	if p.isInf() {
		return q
	}
	if q.isInf() {
		return p
	}
	z1z1 := new(big.Int).Mul(p.z, p.z)
	z1z1.Mod(z1z1, P)
	z2z2 := new(big.Int).Mul(q.z, q.z)
	z2z2.Mod(z2z2, P)
	u1 := new(big.Int).Mul(p.x, z2z2)
	u1.Mod(u1, P)
	u2 := new(big.Int).Mul(q.x, z1z1)
	u2.Mod(u2, P)
	s1 := new(big.Int).Mul(p.y, q.z)
	s1.Mul(s1, z2z2)
	s1.Mod(s1, P)
	s2 := new(big.Int).Mul(q.y, p.z)
	s2.Mul(s2, z1z1)
	s2.Mod(s2, P)
	if u1.Cmp(u2) == 0 {
		if s1.Cmp(s2) != 0 {
			return jac{big.NewInt(1), big.NewInt(1), big.NewInt(0)}
		}
		return jdouble(p)
	}
	h := new(big.Int).Sub(u2, u1)
	h.Mod(h, P)
	r := new(big.Int).Sub(s2, s1)
	r.Mod(r, P)
	h2 := new(big.Int).Mul(h, h)
	h2.Mod(h2, P)
	h3 := new(big.Int).Mul(h2, h)
	h3.Mod(h3, P)
	u1h2 := new(big.Int).Mul(u1, h2)
	u1h2.Mod(u1h2, P)
	x3 := new(big.Int).Mul(r, r)
	x3.Sub(x3, h3)
	x3.Sub(x3, new(big.Int).Lsh(u1h2, 1))
	x3.Mod(x3, P)
	y3 := new(big.Int).Sub(u1h2, x3)
	y3.Mul(y3, r)
	y3.Sub(y3, new(big.Int).Mul(s1, h3))
	y3.Mod(y3, P)
	z3 := new(big.Int).Mul(p.z, q.z)
	z3.Mul(z3, h)
	z3.Mod(z3, P)
	return jac{x3, y3, z3}
}

// Mul returns k*p with k reduced mod N (k may be any non-negative integer).
func Mul(k *big.Int, p Point) Point {
	kk := new(big.Int).Mod(k, N)
	if kk.Sign() == 0 || p.Inf {
		return Infinity()
	}
	acc := jac{big.NewInt(1), big.NewInt(1), big.NewInt(0)}
	base := toJac(p)
	for i := kk.BitLen() - 1; i >= 0; i-- {
		acc = jdouble(acc)
		if kk.Bit(i) == 1 {
			acc = jadd(acc, base)
		}
	}
	return acc.affine()
}

// BaseMul returns k*G.
func BaseMul(k *big.Int) Point { return Mul(k, G()) }

// Compressed returns the 33-byte SEC1 compressed encoding.
func (p Point) Compressed() []byte {
	out := make([]byte, 33)
	if p.Inf {
		return out
	}
	out[0] = 2 + byte(p.Y.Bit(0))
	p.X.FillBytes(out[1:])
	return out
}

// Uncompressed returns the 65-byte SEC1 uncompressed encoding.
func (p Point) Uncompressed() []byte {
	out := make([]byte, 65)
	out[0] = 4
	p.X.FillBytes(out[1:33])
	p.Y.FillBytes(out[33:])
	return out
}

func (p Point) Hex() string { return hex.EncodeToString(p.Compressed()) }

// LiftX returns the point with the given x and the requested y parity, if x is on the curve.
func LiftX(x *big.Int, odd bool) (Point, bool) {
	if x.Sign() < 0 || x.Cmp(P) >= 0 {
		return Point{}, false
	}
	c := new(big.Int).Mul(x, x)
	c.Mul(c, x)
	c.Add(c, seven)
	c.Mod(c, P)
	y := new(big.Int).Exp(c, sqrtExp, P)
	chk := new(big.Int).Mul(y, y)
	chk.Mod(chk, P)
	if chk.Cmp(c) != 0 {
		return Point{}, false
	}
	if (y.Bit(0) == 1) != odd {
		y.Sub(P, y)
		y.Mod(y, P)
	}
	return Point{new(big.Int).Set(x), y, false}, true
}

// ParseCompressed parses a 33-byte compressed point (02/03 prefix only).
func ParseCompressed(b []byte) (Point, error) {
	if len(b) != 33 || (b[0] != 2 && b[0] != 3) {
		return Point{}, errors.New("ref: not a compressed point")
	}
	p, ok := LiftX(new(big.Int).SetBytes(b[1:]), b[0] == 3)
	if !ok {
		return Point{}, errors.New("ref: x not on curve")
	}
	return p, nil
}

func ParseHex(s string) (Point, error) {
	b, err := hex.DecodeString(s)
	if err != nil {
		return Point{}, err
	}
	return ParseCompressed(b)
}

// Scalar helpers (mod N).
func ScalarFromBytes(b []byte) *big.Int { return new(big.Int).Mod(new(big.Int).SetBytes(b), N) }

func Scalar32(k *big.Int) []byte {
	out := make([]byte, 32)
	new(big.Int).Mod(k, N).FillBytes(out)
	return out
}

// taggedHash is the BIP-340 tagged hash.
func taggedHash(tag string, parts ...[]byte) []byte {
	th := sha256.Sum256([]byte(tag))
	h := sha256.New()
	h.Write(th[:])
	h.Write(th[:])
	for _, p := range parts {
		h.Write(p)
	}
	return h.Sum(nil)
}

// SchnorrVerify is BIP-340 verification of a 64-byte signature over a 32-byte message
// under the x-only key of pub.
func SchnorrVerify(pub Point, msg32 []byte, sig []byte) bool {
	if len(sig) != 64 || len(msg32) != 32 || pub.Inf {
		return false
	}
	pk, ok := LiftX(pub.X, false)
	if !ok {
		return false
	}
	r := new(big.Int).SetBytes(sig[:32])
	s := new(big.Int).SetBytes(sig[32:])
	if r.Cmp(P) >= 0 || s.Cmp(N) >= 0 {
		return false
	}
	px := make([]byte, 32)
	pk.X.FillBytes(px)
	e := new(big.Int).SetBytes(taggedHash("BIP0340/challenge", sig[:32], px, msg32))
	e.Mod(e, N)
	// R = s*G - e*P
	R := Add(BaseMul(s), Neg(Mul(e, pk)))
	if R.Inf || R.Y.Bit(0) == 1 || R.X.Cmp(r) != 0 {
		return false
	}
	return true
}

// SchnorrSign is BIP-340 signing with a caller-chosen auxiliary value (32 bytes): different aux
// values give different valid signatures by the same key over the same message.
func SchnorrSign(priv *big.Int, msg32 []byte, aux []byte) []byte {
	d := new(big.Int).Mod(priv, N)
	Pp := BaseMul(d)
	if Pp.Y.Bit(0) == 1 {
		d.Sub(N, d)
	}
	px := make([]byte, 32)
	Pp.X.FillBytes(px)
	db := make([]byte, 32)
	d.FillBytes(db)
	ah := taggedHash("BIP0340/aux", aux)
	t := make([]byte, 32)
	for i := range t {
		t[i] = db[i] ^ ah[i]
	}
	k := new(big.Int).SetBytes(taggedHash("BIP0340/nonce", t, px, msg32))
	k.Mod(k, N)
	if k.Sign() == 0 {
		k.SetInt64(1)
	}
	R := BaseMul(k)
	if R.Y.Bit(0) == 1 {
		k.Sub(N, k)
	}
	rx := make([]byte, 32)
	R.X.FillBytes(rx)
	e := new(big.Int).SetBytes(taggedHash("BIP0340/challenge", rx, px, msg32))
	e.Mod(e, N)
	s := new(big.Int).Mul(e, d)
	s.Add(s, k)
	s.Mod(s, N)
	sig := make([]byte, 64)
	copy(sig, rx)
	s.FillBytes(sig[32:])
	return sig
}
