package ref

import (
	"crypto/sha256"
	"encoding/hex"
	"encoding/json"
	"strconv"
	"strings"
	"time"
)

// Independent evaluator of NUT-10/11/14 spending conditions, written from the property statements
// (C12, C13). It produces a *necessary* condition (accepted => Necessary) for every input and a
// *sufficient* condition (Sufficient => must be accepted) on the clean-witness domain, where the
// statements promise acceptance: canonical witnesses holding only valid signatures by distinct
// authorised keys (what the library's helpers produce, generalised to thresholds).

type SigVerifier func(pubCompressedHex string, msg32 []byte, sigHex string) bool

type Lock struct {
	IsLock    bool   // secret is a NUT-10 P2PK/HTLC secret
	Kind      string // "P2PK" | "HTLC"
	Data      string
	Malformed bool // tags / keys malformed: the statement only keeps its core (see EvalInput)
	// LocktimeUnknown: a locktime tag is present but cannot be read (no value, not a number)
	LocktimeUnknown bool
	SigAll          bool
	NSigs           int
	HasNSigs        bool
	Pubkeys         []string
	Locktime        int64
	HasLock         bool
	Refund          []string
}

// ParseLock parses a secret the way NUT-10 defines it: ["KIND", {"nonce":..,"data":..,"tags":[[..]]}].
func ParseLock(secret string) Lock {
	var raw []json.RawMessage
	if json.Unmarshal([]byte(secret), &raw) != nil || len(raw) < 2 {
		return Lock{}
	}
	var kind string
	if json.Unmarshal(raw[0], &kind) != nil {
		return Lock{}
	}
	var body struct {
		Nonce string     `json:"nonce"`
		Data  string     `json:"data"`
		Tags  [][]string `json:"tags"`
	}
	if json.Unmarshal(raw[1], &body) != nil {
		return Lock{}
	}
	if kind != "P2PK" && kind != "HTLC" {
		return Lock{}
	}
	l := Lock{IsLock: true, Kind: kind, Data: body.Data}
	if len(body.Tags) > 5 {
		l.Malformed = true
	}
	for _, tag := range body.Tags {
		if len(tag) < 2 {
			l.Malformed = true
			if len(tag) == 1 && tag[0] == "locktime" {
				l.LocktimeUnknown = true
			}
			continue
		}
		switch tag[0] {
		case "sigflag":
			switch tag[1] {
			case "SIG_ALL":
				l.SigAll = len(tag) == 2
				if len(tag) != 2 {
					l.Malformed = true
				}
			case "SIG_INPUTS":
			default:
				l.Malformed = true
			}
		case "n_sigs":
			n, err := strconv.ParseInt(tag[1], 10, 8)
			if err != nil || n < 0 {
				l.Malformed = true
			} else {
				l.NSigs, l.HasNSigs = int(n), true
			}
		case "pubkeys":
			for _, k := range tag[1:] {
				if !validKey(k) {
					l.Malformed = true
				}
			}
			l.Pubkeys = append([]string{}, tag[1:]...)
		case "locktime":
			n, err := strconv.ParseInt(tag[1], 10, 64)
			if err != nil {
				l.Malformed, l.LocktimeUnknown = true, true
			} else {
				l.Locktime, l.HasLock = n, n > 0
			}
		case "refund":
			for _, k := range tag[1:] {
				if !validKey(k) {
					l.Malformed = true
				}
			}
			l.Refund = append([]string{}, tag[1:]...)
		}
	}
	if kind == "P2PK" && !validKey(l.Data) {
		l.Malformed = true
	}
	return l
}

func validKey(h string) bool {
	b, err := hex.DecodeString(h)
	if err != nil || len(b) != 33 {
		return false
	}
	_, err = ParseCompressed(b)
	return err == nil
}

type Witness struct {
	Signatures []string `json:"signatures"`
	Preimage   string   `json:"preimage"`
	parsed     bool
}

func ParseWitness(w string) Witness {
	var x Witness
	if json.Unmarshal([]byte(w), &x) == nil {
		x.parsed = true
	}
	return x
}

// distinctValid counts the distinct keys (by x coordinate) among `keys` that have a valid signature over msg.
func distinctValid(keys []string, msg []byte, sigs []string, verify SigVerifier) int {
	seen := map[string]bool{}
	for _, k := range keys {
		if len(k) != 66 {
			continue
		}
		x := strings.ToLower(k[2:])
		if seen[x] {
			continue
		}
		for _, s := range sigs {
			if verify(k, msg, s) {
				seen[x] = true
				break
			}
		}
	}
	return len(seen)
}

// clean reports whether every signature string is valid for some key in keys, all strings are distinct and
// no two signatures are by the same key.
func clean(keys []string, msg []byte, sigs []string, verify SigVerifier) bool {
	str := map[string]bool{}
	byKey := map[string]int{}
	for _, s := range sigs {
		if str[s] {
			return false
		}
		str[s] = true
		found := false
		for _, k := range keys {
			if verify(k, msg, s) {
				found = true
				byKey[strings.ToLower(k[2:])]++
				break
			}
		}
		if !found {
			return false
		}
	}
	for _, n := range byKey {
		if n > 1 {
			return false
		}
	}
	// keys with equal x (02X / 03X) make distinctness ambiguous
	xs := map[string]bool{}
	for _, k := range keys {
		if len(k) == 66 {
			x := strings.ToLower(k[2:])
			if xs[x] {
				return false
			}
			xs[x] = true
		}
	}
	return true
}

type Verdict struct {
	Necessary  bool   // must hold if the implementation accepts
	Sufficient bool   // if true the implementation must accept
	Why        string // which rule decided
	Silent     bool   // statement silent (malformed): only "no panic" is demanded
}

// EvalInput evaluates one proof (secret, witness) at time now for the per-input conditions.
func EvalInput(secret, witness string, now int64, verify SigVerifier) Verdict {
	l := ParseLock(secret)
	if !l.IsLock {
		return Verdict{Necessary: true, Sufficient: true, Why: "plain"}
	}
	w := ParseWitness(witness)
	h := sha256.Sum256([]byte(secret))
	msg := h[:]
	if l.Malformed {
		// How a verifier treats a lock with malformed tags (refuse it, or ignore the tag) is its own business. What no
		// reading allows is to drop the lock altogether: unless the lock may have expired into "anyone can spend", an
		// accepted witness holds the core of the condition - the preimage of the hash (HTLC), or at least one valid
		// signature by a key named anywhere in the secret (P2PK: lock key, pubkeys, refund keys).
		if l.LocktimeUnknown || (l.HasLock && now > l.Locktime) {
			return Verdict{Necessary: true, Silent: true, Why: "malformed_lock"}
		}
		keys := append(append([]string{}, l.Pubkeys...), l.Refund...)
		if l.Kind == "P2PK" {
			keys = append(keys, l.Data)
			return Verdict{Necessary: distinctValid(keys, msg, w.Signatures, verify) >= 1, Why: "malformed_lock_core"}
		}
		if len(l.Data) != 64 {
			return Verdict{Necessary: true, Silent: true, Why: "malformed_lock"}
		}
		pre, err := hex.DecodeString(w.Preimage)
		hp := sha256.Sum256(pre)
		return Verdict{Necessary: err == nil && strings.EqualFold(hex.EncodeToString(hp[:]), l.Data), Why: "malformed_lock_core"}
	}
	if l.HasLock && now > l.Locktime {
		if len(l.Refund) == 0 {
			return Verdict{Necessary: true, Sufficient: true, Why: "expired_no_refund_anyone"}
		}
		n := distinctValid(l.Refund, msg, w.Signatures, verify)
		return Verdict{Necessary: n >= 1, Sufficient: n >= 1 && clean(l.Refund, msg, w.Signatures, verify), Why: "expired_refund"}
	}
	switch l.Kind {
	case "P2PK":
		need := 1
		auth := []string{l.Data}
		if l.NSigs > 0 {
			need = l.NSigs
			auth = append(auth, l.Pubkeys...)
		}
		n := distinctValid(auth, msg, w.Signatures, verify)
		v := Verdict{Necessary: n >= need, Why: "p2pk"}
		// sufficiency only where the statement is explicit: threshold with co-signers listed, clean witness
		if n >= need && clean(auth, msg, w.Signatures, verify) && !(l.NSigs > 0 && len(l.Pubkeys) == 0) {
			v.Sufficient = true
		}
		return v
	default: // HTLC
		pre, err := hex.DecodeString(w.Preimage)
		okPre := false
		// an unparsable witness carries no preimage, i.e. the empty preimage
		if err == nil {
			hp := sha256.Sum256(pre)
			okPre = len(l.Data) == 64 && strings.EqualFold(hex.EncodeToString(hp[:]), l.Data)
		}
		n := 0
		if l.NSigs > 0 {
			n = distinctValid(l.Pubkeys, msg, w.Signatures, verify)
		}
		v := Verdict{Necessary: okPre && n >= l.NSigs, Why: "htlc"}
		lower := l.Data == strings.ToLower(l.Data)
		if v.Necessary && lower {
			if l.NSigs == 0 {
				// signatures are not required; any list is fine as long as it is not malformed by duplicates
				v.Sufficient = len(w.Signatures) == 0 || clean(append(append([]string{}, l.Pubkeys...), l.Refund...), msg, w.Signatures, verify)
			} else {
				v.Sufficient = clean(l.Pubkeys, msg, w.Signatures, verify)
			}
		}
		return v
	}
}

// SigAllCondition is the shared condition of SIG_ALL inputs as far as the statement defines it.
type SigAllCondition struct {
	Kind     string
	Keys     string // canonical rendering of data key + pubkeys
	NSigs    int
	Data     string // the lock value itself: the P2PK key, the HTLC hash
	Locktime int64
	Refund   string
}

func (l Lock) cond() SigAllCondition {
	keys := append([]string{}, l.Pubkeys...)
	if l.Kind == "P2PK" {
		keys = append(keys, l.Data)
	}
	need := 1
	if l.NSigs > 0 {
		need = l.NSigs
	}
	// "all inputs share the same condition": the same kind, the same lock value (key / hash), the same signers and
	// threshold, the same locktime and the same refund keys - everything of a lock but its nonce
	return SigAllCondition{Kind: l.Kind, Keys: strings.Join(keys, ","), NSigs: need, Data: strings.ToLower(l.Data),
		Locktime: l.Locktime, Refund: strings.Join(l.Refund, ",")}
}

// EvalSwapSigAll evaluates the swap-level SIG_ALL rule. anySigAll reports whether the rule applies.
// necessary: every input is a SIG_ALL lock with the same condition and every output carries >= need valid
// signatures over sha256(bytes of B_) by listed keys (lock key, pubkeys or refund keys), plus (HTLC) the preimage.
func EvalSwapSigAll(secrets []string, outputsB []string, outputWitness []string, verify SigVerifier) (anySigAll bool, necessary bool, why string) {
	return EvalSwapSigAllAt(secrets, outputsB, outputWitness, time.Now().Unix(), verify)
}

// EvalSwapSigAllAt: as EvalSwapSigAll at a given time. After the locktime only the refund rule applies - to the
// outputs as to the inputs: no refund key, nothing is required of the outputs; otherwise every output carries a valid
// signature by a refund key (no preimage).
func EvalSwapSigAllAt(secrets []string, outputsB []string, outputWitness []string, now int64, verify SigVerifier) (anySigAll bool, necessary bool, why string) {
	locks := make([]Lock, len(secrets))
	for i, s := range secrets {
		locks[i] = ParseLock(s)
		if locks[i].IsLock && locks[i].SigAll {
			anySigAll = true
		}
	}
	if !anySigAll {
		return false, true, ""
	}
	var first *Lock
	for i := range locks {
		l := &locks[i]
		if !l.IsLock || !l.SigAll {
			return true, false, "not_all_inputs_sig_all"
		}
		if l.Malformed {
			return true, true, "malformed" // silent
		}
		if first == nil {
			first = l
		} else if l.cond() != first.cond() {
			return true, false, "conditions_differ"
		}
	}
	if first.HasLock && now > first.Locktime {
		if len(first.Refund) == 0 {
			return true, true, "expired_no_refund"
		}
		for i, b := range outputsB {
			raw, err := hex.DecodeString(b)
			if err != nil {
				return true, false, "output_B_not_hex"
			}
			h := sha256.Sum256(raw)
			if distinctValid(first.Refund, h[:], ParseWitness(outputWitness[i]).Signatures, verify) < 1 {
				return true, false, "expired_output_not_signed_by_refund_key"
			}
		}
		return true, true, "expired_refund"
	}
	need := 1
	if first.NSigs > 0 {
		need = first.NSigs
	}
	listed := append(append([]string{}, first.Pubkeys...), first.Refund...)
	if first.Kind == "P2PK" {
		listed = append(listed, first.Data)
	}
	for i, b := range outputsB {
		raw, err := hex.DecodeString(b)
		if err != nil {
			return true, false, "output_B_not_hex"
		}
		h := sha256.Sum256(raw)
		w := ParseWitness(outputWitness[i])
		if first.Kind == "HTLC" {
			pre, err := hex.DecodeString(w.Preimage)
			hp := sha256.Sum256(pre)
			if err != nil || !strings.EqualFold(hex.EncodeToString(hp[:]), first.Data) {
				return true, false, "output_without_preimage"
			}
			if first.NSigs <= 0 {
				// "when a signature threshold is set": without one an HTLC asks for the preimage only - of its outputs
				// as of its inputs
				continue
			}
		}
		if distinctValid(listed, h[:], w.Signatures, verify) < need {
			return true, false, "output_not_signed"
		}
	}
	return true, true, "ok"
}
