package ref

import (
	"crypto/sha256"
	"encoding/hex"
	"math/big"
	"testing"
)

func mustHex(s string) []byte {
	b, err := hex.DecodeString(s)
	if err != nil {
		panic(err)
	}
	return b
}

// Pin the reference to published vectors so that a wrong reference cannot silently agree
// with a wrong implementation.
func TestRefVectors(t *testing.T) {
	// secp256k1: 2G, 3G known x coordinates
	two := BaseMul(big.NewInt(2))
	if two.Hex() != "02c6047f9441ed7d6d3045406e95c07cd85c778e4b8cef3ca7abac09b95c709ee5" {
		t.Fatalf("2G = %s", two.Hex())
	}
	three := Add(two, G())
	if three.Hex() != "02f9308a019258c31049344f85f89d5229b531c845836f99b08601f113bce036f9" {
		t.Fatalf("3G = %s", three.Hex())
	}
	if !Mul(big.NewInt(3), G()).Equal(three) || !Double(G()).Equal(two) {
		t.Fatal("mul/add/double disagree")
	}
	nm1 := new(big.Int).Sub(N, big.NewInt(1))
	if !BaseMul(nm1).Equal(Neg(G())) {
		t.Fatal("(n-1)G != -G")
	}
	if !BaseMul(N).Inf {
		t.Fatal("nG != inf")
	}

	// NUT-00 hash_to_curve vectors
	for _, v := range [][2]string{
		{"0000000000000000000000000000000000000000000000000000000000000000", "024cce997d3b518f739663b757deaec95bcd9473c30a14ac2fd04023a739d1a725"},
		{"0000000000000000000000000000000000000000000000000000000000000001", "022e7158e11c9506f1aa4248bf531298daa7febd6194f003edcd9b93ade6253acf"},
		{"0000000000000000000000000000000000000000000000000000000000000002", "026cdbe15362df59cd1dd3c9c11de8aedac2106eca69236ecd9fbe117af897be4f"},
	} {
		p, _, err := HashToCurve(mustHex(v[0]))
		if err != nil || p.Hex() != v[1] {
			t.Fatalf("h2c(%s) = %s, %v", v[0], p.Hex(), err)
		}
	}
	// NUT-00 blinding vector: B_ = Y + rG for secret test_message, r = 1
	y, _, _ := HashToCurve([]byte("test_message"))
	if Add(y, BaseMul(big.NewInt(1))).Hex() != "025cc16fe33b953e2ace39653efb3e7a7049711ae1d8a2f7a9108753f1cdea742b" {
		t.Fatal("blind vector")
	}

	// BIP-32 test vector 1: seed 000102..0f, m/0' private key
	m, err := Master(mustHex("000102030405060708090a0b0c0d0e0f"))
	if err != nil {
		t.Fatal(err)
	}
	if hex.EncodeToString(Scalar32(m.Key)) != "e8f32e723decf4051aefac8e2c93c9c5b214313817cdb01a1494b917c8436b35" {
		t.Fatalf("bip32 master %x", Scalar32(m.Key))
	}
	c, _ := m.Child(Hardened + 0)
	if hex.EncodeToString(Scalar32(c.Key)) != "edb2e14f9ee77d26dd93b4ecede8d16ed408ce149b6cd80b0715a2d911a0afea" {
		t.Fatalf("bip32 m/0' %x", Scalar32(c.Key))
	}
	c2, _ := c.Child(1)
	if hex.EncodeToString(Scalar32(c2.Key)) != "3c6cb8d0f6a264c91ea8b5030fadaa8e538b020f0a387421a12de9319dc93368" {
		t.Fatalf("bip32 m/0'/1 %x", Scalar32(c2.Key))
	}

	// NUT-13 vectors (seed = bip39 seed of the spec mnemonic, computed once with PBKDF2 below)
	seed := bip39Seed("half depart obvious quality work element tank gorilla view sugar picture humble", "")
	wantS := []string{
		"485875df74771877439ac06339e284c3acfcd9be7abf3bc20b516faeadfe77ae",
		"8f2b39e8e594a4056eb1e6dbb4b0c38ef13b1b2c751f64f810ec04ee35b77270",
		"bc628c79accd2364fd31511216a0fab62afd4a18ff77a20deded7b858c9860c8",
	}
	wantR := []string{
		"ad00d431add9c673e843d4c2bf9a778a5f402b985b8da2d5550bf39cda41d679",
		"967d5232515e10b81ff226ecf5a9e2e2aff92d66ebc3edf0987eb56357fd6248",
		"b20f47bb6ae083659f3aa986bfa0435c55c6d93f687d51a01f26862d9b9a4899",
	}
	for i := range wantS {
		s, r, err := Nut13(seed, "009a1f293253e41e", uint32(i))
		if err != nil || s != wantS[i] || hex.EncodeToString(Scalar32(r)) != wantR[i] {
			t.Fatalf("nut13 %d: %s %x %v", i, s, Scalar32(r), err)
		}
	}

	// NUT-02 keyset id vector
	keys := map[uint64]Point{}
	for a, h := range map[uint64]string{
		1: "03a40f20667ed53513075dc51e715ff2046cad64eb68960632269ba7f0210e38bc",
		2: "03fd4ce5a16b65576145949e6f99f445f8249fee17c606b688b504a849cdc452de",
		4: "02648eccfa4c026960966276fa5a4cae46ce0fd432211a4f449bf84f13aa5f8303",
		8: "02fdfd6796bfeac490cbee12f778f867f0a2c68f6508d17c649759ea0dc3547528",
	} {
		p, err := ParseHex(h)
		if err != nil {
			t.Fatal(err)
		}
		keys[a] = p
	}
	if id := KeysetID(keys); id != "00456a94ab4e1c46" {
		t.Fatalf("keyset id %s", id)
	}

	// BIP-340 vector 0 and sign/verify round trip with two aux values
	pk, _ := LiftX(new(big.Int).SetBytes(mustHex("F9308A019258C31049344F85F89D5229B531C845836F99B08601F113BCE036F9")), false)
	sig := mustHex("E907831F80848D1069A5371B402410364BDF1C5F8307B0084C55F1CE2DCA821525F66A4A85EA8B71E482A74F382D2CE5EBEEE8FDB2172F477DF4900D310536C0")
	if !SchnorrVerify(pk, make([]byte, 32), sig) {
		t.Fatal("bip340 vector 0 rejected")
	}
	if got := SchnorrSign(big.NewInt(3), make([]byte, 32), make([]byte, 32)); hex.EncodeToString(got) != hex.EncodeToString(sig) {
		t.Fatalf("bip340 sign vector 0: %x", got)
	}
	msg := sha256.Sum256([]byte("x"))
	d := big.NewInt(123456789)
	s1 := SchnorrSign(d, msg[:], []byte{1})
	s2 := SchnorrSign(d, msg[:], []byte{2})
	if hex.EncodeToString(s1) == hex.EncodeToString(s2) || !SchnorrVerify(BaseMul(d), msg[:], s1) || !SchnorrVerify(BaseMul(d), msg[:], s2) {
		t.Fatal("schnorr sign/verify")
	}
	s1[40] ^= 1
	if SchnorrVerify(BaseMul(d), msg[:], s1) {
		t.Fatal("tampered sig accepted")
	}

	// DLEQ reference round trip
	a := big.NewInt(7)
	B_ := BaseMul(big.NewInt(99))
	e, s, C_ := DLEQProve(a, B_, big.NewInt(424242))
	if !DLEQVerify(e, s, BaseMul(a), B_, C_) || DLEQVerify(e, new(big.Int).Add(s, big.NewInt(1)), BaseMul(a), B_, C_) {
		t.Fatal("dleq ref")
	}
}
