// Package lndfacade puts the Lightning model (harness/lnmodel) behind LND's rpc client interfaces, so that the
// repository's own LND adapter (mint/lightning/lnd.go, built through the verif hook VerifNewLndClient) runs between
// the mint and the model: amounts cross as int64 satoshi / msat, payment outcomes as SendResponse / HTLCAttempt /
// Payment messages and grpc status errors, a payment that stays in flight as a context deadline. The model keeps the
// ground truth, scripts and msat ledger.
package lndfacade

import (
	"context"
	"encoding/hex"
	"errors"
	"strings"

	"github.com/elnosh/gonuts/mint/lightning"
	"github.com/lightningnetwork/lnd/lnrpc"
	"github.com/lightningnetwork/lnd/lnrpc/invoicesrpc"
	"github.com/lightningnetwork/lnd/lnrpc/routerrpc"
	decodepay "github.com/nbd-wtf/ln-decodepay"
	"google.golang.org/grpc"
	"google.golang.org/grpc/codes"
	"google.golang.org/grpc/status"

	"verif/harness/lnmodel"
)

// Client returns the repository's LND adapter on top of the model.
func Client(b *lnmodel.Backend) lightning.Client {
	return lightning.VerifNewLndClient(&ln{b: b}, &router{b: b}, &invoices{b: b})
}

func rpcErr(err error) error {
	switch {
	case err == nil:
		return nil
	case strings.Contains(err.Error(), "MARKER-LN-INTERNAL"):
		return status.Error(codes.Unavailable, "connection error: "+err.Error())
	default:
		return status.Error(codes.Unknown, err.Error())
	}
}

type ln struct {
	lnrpc.LightningClient // unimplemented methods panic: the adapter must not need them
	b                     *lnmodel.Backend
}

func (l *ln) WalletBalance(ctx context.Context, in *lnrpc.WalletBalanceRequest, opts ...grpc.CallOption) (*lnrpc.WalletBalanceResponse, error) {
	return &lnrpc.WalletBalanceResponse{}, nil
}

// maxPaymentMsat: the largest invoice the node imitation creates (10 BTC, lnd's limit with large channels enabled)
const maxPaymentMsat = 1_000_000_000_000

func (l *ln) AddInvoice(ctx context.Context, in *lnrpc.Invoice, opts ...grpc.CallOption) (*lnrpc.AddInvoiceResponse, error) {
	if in.Value < 0 || in.ValueMsat < 0 {
		return nil, status.Error(codes.Unknown, "payments of negative value are not allowed")
	}
	if in.Value == 0 {
		return nil, status.Error(codes.Unknown, "zero value invoices are not created by this node imitation")
	}
	// lnd turns the sat value into msat with its own helper (an unchecked multiplication of 64-bit integers) and only
	// then looks at the size: what it invoices is that msat amount
	msat, err := lnrpc.UnmarshallAmt(in.Value, in.ValueMsat)
	if err != nil {
		return nil, status.Error(codes.Unknown, err.Error())
	}
	if uint64(msat) > maxPaymentMsat {
		return nil, status.Error(codes.Unknown, "invoice amount exceeds the maximum payment size of this node")
	}
	inv, err := l.b.CreateInvoiceMsat(uint64(msat))
	if err != nil {
		return nil, rpcErr(err)
	}
	h, _ := hex.DecodeString(inv.PaymentHash)
	return &lnrpc.AddInvoiceResponse{RHash: h, PaymentRequest: inv.PaymentRequest}, nil
}

func invoiceMsg(b *lnmodel.Backend, hash string, inv lightning.Invoice) *lnrpc.Invoice {
	out := &lnrpc.Invoice{PaymentRequest: inv.PaymentRequest, Value: int64(inv.Amount), Expiry: int64(inv.Expiry), State: lnrpc.Invoice_OPEN}
	if mi := b.Net.InvoiceByHash(hash); mi != nil {
		out.PaymentRequest = mi.Request
		out.Value = int64(mi.AmountMsat / 1000)
		out.ValueMsat = int64(mi.AmountMsat)
		if mi.Canceled && !inv.Settled {
			out.State = lnrpc.Invoice_CANCELED // what lnd reports for an invoice that expired unpaid or was canceled
		}
	}
	out.RHash, _ = hex.DecodeString(hash)
	if inv.Settled {
		out.State = lnrpc.Invoice_SETTLED
		out.RPreimage, _ = hex.DecodeString(inv.Preimage)
	}
	return out
}

func (l *ln) LookupInvoice(ctx context.Context, in *lnrpc.PaymentHash, opts ...grpc.CallOption) (*lnrpc.Invoice, error) {
	hash := hex.EncodeToString(in.RHash)
	inv, err := l.b.InvoiceStatus(hash)
	if err != nil {
		if strings.Contains(err.Error(), "does not exist") {
			return nil, status.Error(codes.NotFound, "there are no existing invoices")
		}
		return nil, rpcErr(err)
	}
	return invoiceMsg(l.b, hash, inv), nil
}

func (l *ln) SendPaymentSync(ctx context.Context, in *lnrpc.SendRequest, opts ...grpc.CallOption) (*lnrpc.SendResponse, error) {
	var maxFee uint64
	if f, ok := in.FeeLimit.GetLimit().(*lnrpc.FeeLimit_Fixed); ok && f.Fixed > 0 {
		maxFee = uint64(f.Fixed)
	}
	st, err := l.b.SendPayment(ctx, in.PaymentRequest, maxFee)
	switch {
	case err != nil:
		return nil, rpcErr(err)
	case st.PaymentStatus == lightning.Succeeded:
		pre, _ := hex.DecodeString(st.Preimage)
		return &lnrpc.SendResponse{PaymentPreimage: pre}, nil
	case st.PaymentStatus == lightning.Pending:
		// the synchronous call does not return while the payment is in flight: the caller's deadline ends the wait
		return nil, status.FromContextError(context.DeadlineExceeded).Err()
	default:
		return &lnrpc.SendResponse{PaymentError: "unable to find a path to destination"}, nil
	}
}

func (l *ln) DecodePayReq(ctx context.Context, in *lnrpc.PayReqString, opts ...grpc.CallOption) (*lnrpc.PayReq, error) {
	d, err := decodepay.Decodepay(in.PayReq)
	if err != nil {
		return nil, status.Error(codes.Unknown, err.Error())
	}
	return &lnrpc.PayReq{Destination: d.Payee, PaymentHash: d.PaymentHash, NumMsat: d.MSatoshi, NumSatoshis: d.MSatoshi / 1000, PaymentAddr: []byte("payment-address-of-the-invoice--")}, nil
}

func (l *ln) QueryRoutes(ctx context.Context, in *lnrpc.QueryRoutesRequest, opts ...grpc.CallOption) (*lnrpc.QueryRoutesResponse, error) {
	var feeMsat int64
	if f, ok := in.FeeLimit.GetLimit().(*lnrpc.FeeLimit_Fixed); ok && f.Fixed > 0 {
		feeMsat = f.Fixed * 1000
	}
	// one route; the amount and the fee limit travel with it to SendToRouteV2
	return &lnrpc.QueryRoutesResponse{Routes: []*lnrpc.Route{{TotalAmtMsat: in.AmtMsat, TotalFeesMsat: feeMsat, Hops: []*lnrpc.Hop{{PubKey: in.PubKey, AmtToForwardMsat: in.AmtMsat}}}}}, nil
}

type router struct {
	routerrpc.RouterClient
	b            *lnmodel.Backend
	inflightSeen int // in-flight answers given so far (the mint serialises its status lookups per request; races only shift the parity)
}

func (r *router) SendToRouteV2(ctx context.Context, in *routerrpc.SendToRouteRequest, opts ...grpc.CallOption) (*lnrpc.HTLCAttempt, error) {
	hash := hex.EncodeToString(in.PaymentHash)
	inv := r.b.Net.InvoiceByHash(hash)
	if inv == nil || in.Route == nil {
		return nil, status.Error(codes.Unknown, "unknown payment hash")
	}
	st, err := r.b.PayPartialAmount(ctx, inv.Request, uint64(in.Route.TotalAmtMsat), uint64(in.Route.TotalFeesMsat/1000))
	switch {
	case err != nil:
		return nil, rpcErr(err)
	case st.PaymentStatus == lightning.Succeeded:
		pre, _ := hex.DecodeString(st.Preimage)
		return &lnrpc.HTLCAttempt{Status: lnrpc.HTLCAttempt_SUCCEEDED, Preimage: pre}, nil
	case st.PaymentStatus == lightning.Pending:
		return &lnrpc.HTLCAttempt{Status: lnrpc.HTLCAttempt_IN_FLIGHT}, nil
	default:
		return &lnrpc.HTLCAttempt{Status: lnrpc.HTLCAttempt_FAILED, Failure: &lnrpc.Failure{Code: lnrpc.Failure_TEMPORARY_CHANNEL_FAILURE}}, nil
	}
}

type trackStream struct {
	grpc.ClientStream
	ctx  context.Context
	b    *lnmodel.Backend
	r    *router
	hash string
}

func (s *trackStream) Recv() (*lnrpc.Payment, error) {
	st, err := s.b.OutgoingPaymentStatus(s.ctx, s.hash)
	switch {
	case errors.Is(err, lightning.OutgoingPaymentNotFound):
		return nil, status.Error(codes.NotFound, "payment isn't initiated")
	case err != nil:
		return nil, rpcErr(err)
	case st.PaymentStatus == lightning.Succeeded:
		return &lnrpc.Payment{PaymentHash: s.hash, Status: lnrpc.Payment_SUCCEEDED, PaymentPreimage: st.Preimage}, nil
	case st.PaymentStatus == lightning.Pending:
		// LND records a failure reason (time-out, no further route) as soon as it gives up starting new attempts, while
		// the payment stays IN_FLIGHT for as long as one HTLC is out - and that HTLC can still settle. Of every three
		// in-flight answers of this imitation the first carries such a reason, the second says INITIATED, the third is bare.
		p := &lnrpc.Payment{PaymentHash: s.hash, Status: lnrpc.Payment_IN_FLIGHT}
		if s.r != nil {
			s.r.inflightSeen++
			switch s.r.inflightSeen % 3 {
			case 1:
				p.FailureReason = lnrpc.PaymentFailureReason_FAILURE_REASON_TIMEOUT
			case 2:
				// registered, no HTLC sent yet (lnd >= 0.16 reports this as a status of its own): as undecided as IN_FLIGHT
				p.Status = lnrpc.Payment_INITIATED
			}
		}
		return p, nil
	default:
		return &lnrpc.Payment{PaymentHash: s.hash, Status: lnrpc.Payment_FAILED, FailureReason: lnrpc.PaymentFailureReason_FAILURE_REASON_NO_ROUTE}, nil
	}
}

func (r *router) TrackPaymentV2(ctx context.Context, in *routerrpc.TrackPaymentRequest, opts ...grpc.CallOption) (routerrpc.Router_TrackPaymentV2Client, error) {
	return &trackStream{ctx: ctx, b: r.b, r: r, hash: hex.EncodeToString(in.PaymentHash)}, nil
}

type invoices struct {
	invoicesrpc.InvoicesClient
	b *lnmodel.Backend
}

type invoiceStream struct {
	grpc.ClientStream
	b    *lnmodel.Backend
	hash string
	sub  lightning.InvoiceSubscriptionClient
}

func (s *invoiceStream) Recv() (*lnrpc.Invoice, error) {
	inv, err := s.sub.Recv()
	if err != nil {
		return nil, status.FromContextError(err).Err()
	}
	return invoiceMsg(s.b, s.hash, inv), nil
}

func (i *invoices) SubscribeSingleInvoice(ctx context.Context, in *invoicesrpc.SubscribeSingleInvoiceRequest, opts ...grpc.CallOption) (invoicesrpc.Invoices_SubscribeSingleInvoiceClient, error) {
	hash := hex.EncodeToString(in.RHash)
	sub, err := i.b.SubscribeInvoice(ctx, hash)
	if err != nil {
		return nil, rpcErr(err)
	}
	return &invoiceStream{b: i.b, hash: hash, sub: sub}, nil
}
