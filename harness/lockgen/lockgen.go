// Package lockgen generates NUT-11 / NUT-14 lock configurations and witnesses for C12 / C13.
package lockgen

import (
	"crypto/sha256"
	"encoding/hex"
	"encoding/json"
	"fmt"
	"math/big"
	"strconv"
	"strings"
	"sync/atomic"
	"time"

	"github.com/btcsuite/btcd/btcec/v2"
	"github.com/btcsuite/btcd/btcec/v2/schnorr"
	"pgregory.net/rapid"

	"verif/harness/ref"
)

// Key pool: deterministic private keys 1001.. ; roles index into it.
type Key struct {
	Priv *btcec.PrivateKey
	Hex  string
	D    *big.Int
}

var pool = func() []Key {
	var out []Key
	for i := 0; i < 12; i++ {
		h := sha256.Sum256([]byte(fmt.Sprintf("lockgen key %d", i)))
		priv, pub := btcec.PrivKeyFromBytes(h[:])
		out = append(out, Key{Priv: priv, Hex: hex.EncodeToString(pub.SerializeCompressed()), D: new(big.Int).SetBytes(h[:])})
	}
	return out
}()

// Twin+i refers to pool key i in its other parity encoding (02||X <-> 03||X): a different 33-byte string, the same
// BIP-340 signing key.
const Twin = 100

func K(i int) Key {
	if i >= Twin {
		k := pool[i-Twin]
		if k.Hex[1] == '2' {
			k.Hex = "03" + k.Hex[2:]
		} else {
			k.Hex = "02" + k.Hex[2:]
		}
		return k
	}
	return pool[i]
}

func base(i int) int {
	if i >= Twin {
		return i - Twin
	}
	return i
}

// roles: 0 = lock key, 1..3 co-signers, 4..5 refund keys, 6..7 foreign keys
const (
	LockKey  = 0
	Cosign0  = 1
	Refund0  = 4
	Foreign0 = 6
)

type Config struct {
	Kind      string // P2PK | HTLC
	NSigs     int    // -1 absent
	NCosign   int
	DupLockInPubkeys bool
	LockIdx          int // pool index of the P2PK lock key (default LockKey)
	// PubkeyOrder, when set, is the pubkeys tag as pool indexes in order (a permutation of the co-signers and, with
	// DupLockInPubkeys, the lock key; possibly with one entry repeated anywhere in the list)
	PubkeyOrder []int
	Locktime  string // "absent" | "past" | "future"
	NRefund   int
	Sigflag   string // "absent" | "SIG_INPUTS" | "SIG_ALL"
	Malformed string // "" or a malformation kind
	// HTLC
	Preimage string
	HashKind string // "ok" | "upper" | "short" | "long" | "non_hex" | "empty"
	Nonce    string
	// Form: how the JSON of the secret is written. "" = as the library's SerializeSecret writes it; the others are the
	// same JSON value in another spelling (white space around or inside, escaped characters, other member order)
	Form string
}

// epoch: the reference time of every locktime this process writes (a day before / after it). One value per process:
// two secrets that are meant to carry the same locktime must not differ because a second passed between rendering them.
var epoch = time.Now().Unix()

var nonceCtr uint64

func GenConfig(t *rapid.T, kind string) Config {
	c := Config{Kind: kind}
	c.NSigs = rapid.SampledFrom([]int{-1, -1, 0, 1, 1, 2, 2, 3, 4}).Draw(t, "n_sigs")
	c.NCosign = rapid.IntRange(0, 3).Draw(t, "n_cosigners")
	c.DupLockInPubkeys = kind == "P2PK" && rapid.IntRange(0, 7).Draw(t, "dup_lock_key") == 0
	if n := c.NCosign + b2i(c.DupLockInPubkeys); n >= 2 && rapid.IntRange(0, 2).Draw(t, "reorder_pubkeys") == 0 {
		var base []int
		for i := 0; i < c.NCosign; i++ {
			base = append(base, Cosign0+i)
		}
		if c.DupLockInPubkeys {
			base = append(base, LockKey)
			if rapid.IntRange(0, 3).Draw(t, "lock_key_as_parity_twin") == 0 {
				base[len(base)-1] = Twin + LockKey
			}
		}
		order := rapid.Permutation(base).Draw(t, "pubkey_order")
		if rapid.Bool().Draw(t, "repeat_pubkey") {
			rep := order[rapid.IntRange(0, len(order)-1).Draw(t, "repeat_which")]
			if rapid.IntRange(0, 2).Draw(t, "repeat_as_parity_twin") == 0 {
				rep += Twin
			}
			at := rapid.IntRange(0, len(order)).Draw(t, "repeat_at")
			order = append(order[:at:at], append([]int{rep}, order[at:]...)...)
		}
		c.PubkeyOrder = order
	}
	c.Locktime = rapid.SampledFrom([]string{"absent", "absent", "past", "future"}).Draw(t, "locktime")
	c.NRefund = rapid.IntRange(0, 2).Draw(t, "n_refund")
	c.Sigflag = rapid.SampledFrom([]string{"absent", "absent", "SIG_INPUTS", "SIG_ALL"}).Draw(t, "sigflag")
	if rapid.IntRange(0, 9).Draw(t, "malformed") == 0 {
		c.Malformed = rapid.SampledFrom([]string{"bad_n_sigs", "negative_n_sigs", "huge_n_sigs", "bad_key_hex", "unknown_sigflag", "too_many_tags", "short_tag", "bad_locktime", "bad_data_key"}).Draw(t, "malformation")
	}
	if kind == "HTLC" {
		c.Preimage = hex.EncodeToString(rapid.SliceOfN(rapid.Byte(), 0, 40).Draw(t, "preimage"))
		c.HashKind = rapid.SampledFrom([]string{"ok", "ok", "ok", "ok", "upper", "short", "long", "non_hex", "empty"}).Draw(t, "hash_kind")
	}
	if rapid.IntRange(0, 5).Draw(t, "secret_respelled") == 0 {
		c.Form = rapid.SampledFrom(Forms).Draw(t, "secret_form")
	}
	n := atomic.AddUint64(&nonceCtr, 1)
	h := sha256.Sum256([]byte(fmt.Sprintf("nonce %d %d", n, rapid.Uint64().Draw(t, "nonce"))))
	c.Nonce = hex.EncodeToString(h[:])
	return c
}

// FocusThreshold rewrites c into a configuration that is all about counting distinct signers: a threshold of 2..3
// over 2..3 co-signers whose list names one of them twice (anywhere in the list, possibly as its parity twin), and
// nothing else that could decide the verdict (well-formed, not expired, hash well-formed).
func FocusThreshold(t *rapid.T, c Config) Config {
	c.Malformed = ""
	if c.Locktime == "past" {
		c.Locktime = "future"
	}
	c.NCosign = rapid.IntRange(2, 3).Draw(t, "focus_cosigners")
	c.NSigs = rapid.IntRange(2, c.NCosign+b2i(c.Kind == "P2PK")).Draw(t, "focus_n_sigs")
	c.DupLockInPubkeys = false
	var base []int
	for i := 0; i < c.NCosign; i++ {
		base = append(base, Cosign0+i)
	}
	order := rapid.Permutation(base).Draw(t, "focus_pubkey_order")
	rep := order[rapid.IntRange(0, len(order)-1).Draw(t, "focus_repeat_which")]
	if rapid.IntRange(0, 2).Draw(t, "focus_repeat_as_parity_twin") == 0 {
		rep += Twin
	}
	at := rapid.IntRange(0, len(order)).Draw(t, "focus_repeat_at")
	c.PubkeyOrder = append(order[:at:at], append([]int{rep}, order[at:]...)...)
	if c.Kind == "HTLC" {
		c.HashKind = "ok"
	}
	return c
}

// orderConsistent: PubkeyOrder is honoured only while it still lists exactly the configured keys (callers adjust
// NCosign / DupLockInPubkeys after generation)
func (c Config) orderConsistent() bool {
	if c.PubkeyOrder == nil {
		return false
	}
	seen := map[int]bool{}
	for _, k := range c.PubkeyOrder {
		seen[base(k)] = true
	}
	for i := 0; i < c.NCosign; i++ {
		if !seen[Cosign0+i] {
			return false
		}
	}
	return len(seen) == c.NCosign+b2i(c.DupLockInPubkeys) && seen[c.LockIdx] == c.DupLockInPubkeys
}

func b2i(b bool) int {
	if b {
		return 1
	}
	return 0
}

func (c Config) Now() int64 { return time.Now().Unix() }

// Secret renders the NUT-10 secret string exactly as a wallet would serialise it.
func (c Config) Secret() string {
	data := K(c.LockIdx).Hex
	if c.Kind == "HTLC" {
		pre, _ := hex.DecodeString(c.Preimage)
		h := sha256.Sum256(pre)
		hh := hex.EncodeToString(h[:])
		switch c.HashKind {
		case "upper":
			hh = strings.ToUpper(hh)
			if hh == strings.ToLower(hh) {
				hh = "AB" + hh[2:]
			}
		case "short":
			hh = hh[:63]
		case "long":
			hh = hh + "0"
		case "non_hex":
			hh = "zz" + hh[2:]
		case "empty":
			hh = ""
		}
		data = hh
	}
	var tags [][]string
	if c.Sigflag != "absent" {
		tags = append(tags, []string{"sigflag", c.Sigflag})
	}
	if c.NSigs >= 0 {
		tags = append(tags, []string{"n_sigs", strconv.Itoa(c.NSigs)})
	}
	if c.orderConsistent() {
		pk := []string{"pubkeys"}
		for _, i := range c.PubkeyOrder {
			pk = append(pk, K(i).Hex)
		}
		tags = append(tags, pk)
	} else if c.NCosign > 0 || c.DupLockInPubkeys {
		pk := []string{"pubkeys"}
		for i := 0; i < c.NCosign; i++ {
			pk = append(pk, K(Cosign0+i).Hex)
		}
		if c.DupLockInPubkeys {
			pk = append(pk, K(c.LockIdx).Hex)
		}
		tags = append(tags, pk)
	}
	switch c.Locktime {
	case "past":
		tags = append(tags, []string{"locktime", strconv.FormatInt(epoch-86400, 10)})
	case "future":
		tags = append(tags, []string{"locktime", strconv.FormatInt(epoch+86400, 10)})
	case "future2":
		tags = append(tags, []string{"locktime", strconv.FormatInt(epoch+2*86400, 10)})
	}
	if c.NRefund > 0 {
		rf := []string{"refund"}
		for i := 0; i < c.NRefund; i++ {
			rf = append(rf, K(Refund0+i).Hex)
		}
		tags = append(tags, rf)
	}
	switch c.Malformed {
	case "bad_n_sigs":
		tags = append(tags, []string{"n_sigs", "two"})
	case "negative_n_sigs":
		tags = append(tags, []string{"n_sigs", "-1"})
	case "huge_n_sigs":
		tags = append(tags, []string{"n_sigs", "300"})
	case "bad_key_hex":
		tags = append(tags, []string{"pubkeys", "02zz"})
	case "unknown_sigflag":
		tags = append(tags, []string{"sigflag", "SIG_NONE"})
	case "too_many_tags":
		for i := 0; i < 6; i++ {
			tags = append(tags, []string{"x" + strconv.Itoa(i), "y"})
		}
	case "short_tag":
		tags = append(tags, []string{"locktime"})
	case "bad_locktime":
		tags = append(tags, []string{"locktime", "tomorrow"})
	case "bad_data_key":
		if c.Kind == "P2PK" {
			data = "02" + strings.Repeat("0", 63) + "5"
		}
	}
	body := map[string]any{"nonce": c.Nonce, "data": data, "tags": tags}
	if tags == nil {
		body["tags"] = [][]string{}
	}
	b, _ := json.Marshal(body)
	return respell(c.Form, c.Kind, string(b), body)
}

// Forms lists the non-canonical spellings of a secret's JSON.
var Forms = []string{"leading_space", "leading_newline", "leading_tab_crlf", "trailing_space", "inner_spaces", "escaped_kind", "escaped_member_name", "members_reordered", "compact"}

func respell(form, kind, obj string, body map[string]any) string {
	canon := fmt.Sprintf("[\"%s\", %s]", kind, obj)
	switch form {
	case "leading_space":
		return " " + canon
	case "leading_newline":
		return "\n" + canon
	case "leading_tab_crlf":
		return "\t\r\n" + canon
	case "trailing_space":
		return canon + " \n"
	case "inner_spaces":
		return fmt.Sprintf("[ \"%s\" ,\n %s ]", kind, strings.Replace(obj, "\":", "\" : ", 1))
	case "escaped_kind":
		// "P2PK" / "HTLC" with the first letter as a \u escape: the same JSON string
		return fmt.Sprintf("[\"\\u%04x%s\", %s]", kind[0], kind[1:], obj)
	case "escaped_member_name":
		return fmt.Sprintf("[\"%s\", %s]", kind, strings.Replace(obj, "\"data\":", "\"d\\u0061ta\":", 1))
	case "members_reordered":
		d, _ := json.Marshal(body["data"])
		n, _ := json.Marshal(body["nonce"])
		tg, _ := json.Marshal(body["tags"])
		return fmt.Sprintf("[\"%s\", {\"tags\":%s,\"nonce\":%s,\"data\":%s}]", kind, tg, n, d)
	case "compact":
		return fmt.Sprintf("[\"%s\",%s]", kind, obj)
	}
	return canon
}

// Sign produces a BIP-340 signature (hex) by pool key i over sha256(msg) with nonce variant v.
func Sign(i int, msg []byte, variant int) string {
	h := sha256.Sum256(msg)
	var opts []schnorr.SignOption
	if variant > 0 {
		var aux [32]byte
		aux[0] = byte(variant)
		opts = append(opts, schnorr.CustomNonce(aux))
	}
	s, err := schnorr.Sign(K(base(i)).Priv, h[:], opts...)
	if err != nil {
		panic(err)
	}
	return hex.EncodeToString(s.Serialize())
}

// SigElem is one entry of a generated signature list.
type SigElem struct {
	Kind string // valid | valid2 (second signature by the same key) | dup | wrong_msg | wrong_msg_hex | non_hex | short | empty
	Key  int
}

// GenSigList draws a list of signature elements over the given candidate keys.
func GenSigList(t *rapid.T, keys []int, label string) []SigElem {
	n := rapid.IntRange(0, 5).Draw(t, label+"_n")
	var out []SigElem
	for i := 0; i < n; i++ {
		kind := rapid.SampledFrom([]string{"valid", "valid", "valid", "valid", "valid2", "dup", "wrong_msg", "wrong_msg_hex", "non_hex", "short", "empty"}).Draw(t, label+"_kind")
		k := keys[rapid.IntRange(0, len(keys)-1).Draw(t, label+"_key")]
		out = append(out, SigElem{kind, k})
	}
	return out
}

// Render turns the elements into signature strings over msg.
func Render(elems []SigElem, msg []byte) []string {
	var out []string
	for _, e := range elems {
		switch e.Kind {
		case "valid":
			out = append(out, Sign(e.Key, msg, 0))
		case "valid2":
			out = append(out, Sign(e.Key, msg, 1+len(out)))
		case "dup":
			if len(out) > 0 {
				out = append(out, out[len(out)-1])
			}
		case "wrong_msg":
			out = append(out, Sign(e.Key, append([]byte("other"), msg...), 0))
		case "wrong_msg_hex":
			out = append(out, Sign(e.Key, []byte(hex.EncodeToString(msg)), 0))
		case "non_hex":
			out = append(out, strings.Repeat("zz", 64))
		case "short":
			out = append(out, Sign(e.Key, msg, 0)[:100])
		case "empty":
			out = append(out, "")
		}
	}
	return out
}

// P2PKWitness renders a witness JSON in one of several shapes.
func WitnessJSON(shape string, sigs []string, preimage string, htlc bool) string {
	switch shape {
	case "none":
		return ""
	case "empty_object":
		return "{}"
	case "garbage":
		return "{signatures:"
	case "not_object":
		return `["` + strings.Join(sigs, `","`) + `"]`
	case "null_sigs":
		if htlc {
			b, _ := json.Marshal(map[string]any{"preimage": preimage, "signatures": nil})
			return string(b)
		}
		return `{"signatures":null}`
	}
	if htlc {
		b, _ := json.Marshal(map[string]any{"preimage": preimage, "signatures": sigs})
		return string(b)
	}
	b, _ := json.Marshal(map[string]any{"signatures": sigs})
	return string(b)
}

var verifyCount uint64

// Verify is the oracle's signature verifier: btcec's BIP-340 verification, cross-checked against the
// independent reference implementation on every 8th call (disagreement panics).
func Verify(pubHex string, msg32 []byte, sigHex string) bool {
	pb, err := hex.DecodeString(pubHex)
	if err != nil || len(pb) != 33 {
		return false
	}
	pk, err := btcec.ParsePubKey(pb)
	if err != nil {
		return false
	}
	sb, err := hex.DecodeString(sigHex)
	if err != nil || len(sb) != 64 {
		return false
	}
	sig, err := schnorr.ParseSignature(sb)
	ok := err == nil && sig.Verify(msg32, pk)
	if atomic.AddUint64(&verifyCount, 1)%8 == 0 {
		rp, perr := ref.ParseCompressed(pb)
		rok := perr == nil && ref.SchnorrVerify(rp, msg32, sb)
		if rok != ok {
			panic(fmt.Sprintf("lockgen: btcec and reference BIP-340 verification disagree on pub %s sig %s", pubHex, sigHex))
		}
	}
	return ok
}

// AuthKeys returns the pool indexes of the keys that may sign before the locktime (lock key for P2PK plus the
// listed co-signers) and the threshold.
func (c Config) AuthKeys() (keys []int, need int) {
	need = 1
	if c.NSigs > 0 {
		need = c.NSigs
	}
	if c.Kind == "P2PK" {
		keys = append(keys, c.LockIdx)
	}
	for i := 0; i < c.NCosign; i++ {
		keys = append(keys, Cosign0+i)
	}
	return keys, need
}

// GenWitnessElems draws a signature list aimed at the configuration: besides fully random lists it produces
// threshold attempts - a subset of the authorised keys signing once, padded with further (different) valid
// signatures by one of those keys up to around the threshold, in a drawn order.
func GenWitnessElems(t *rapid.T, c Config, candidates []int, label string) ([]SigElem, string) {
	mode := rapid.SampledFrom([]string{"random", "random", "threshold_attempt", "threshold_attempt", "pad_same_key", "pad_same_key", "one_short_padded", "one_short_padded", "refund_signed"}).Draw(t, label+"_mode")
	auth, need := c.AuthKeys()
	switch mode {
	case "threshold_attempt", "pad_same_key":
		if len(auth) == 0 {
			return GenSigList(t, candidates, label), "random"
		}
		k := rapid.IntRange(1, len(auth)).Draw(t, label+"_subset")
		perm := rapid.Permutation(auth).Draw(t, label+"_perm")
		var out []SigElem
		for _, key := range perm[:k] {
			out = append(out, SigElem{"valid", key})
		}
		if mode == "pad_same_key" {
			total := need + rapid.IntRange(-1, 1).Draw(t, label+"_total")
			padKey := perm[rapid.IntRange(0, k-1).Draw(t, label+"_padkey")]
			for len(out) < total && len(out) < 6 {
				out = append(out, SigElem{"valid2", padKey})
			}
			if rapid.Bool().Draw(t, label+"_shuffle") {
				out = rapid.Permutation(out).Draw(t, label+"_order")
			}
		}
		return out, mode
	case "one_short_padded":
		// one distinct signer short of the threshold, padded to exactly the threshold with a second (different)
		// signature by a key that already signed - preferably one that is listed more than once
		if need < 2 || need-1 > len(auth) {
			return GenSigList(t, candidates, label), "random"
		}
		perm := rapid.Permutation(auth).Draw(t, label+"_perm")
		if rep := c.RepeatedKeys(); len(rep) > 0 && rapid.IntRange(0, 3).Draw(t, label+"_use_repeated") > 0 {
			r := rep[rapid.IntRange(0, len(rep)-1).Draw(t, label+"_repeated")]
			for i, k := range perm {
				if k == r {
					perm[0], perm[i] = perm[i], perm[0]
				}
			}
		}
		var out []SigElem
		for _, key := range perm[:need-1] {
			out = append(out, SigElem{"valid", key})
		}
		out = append(out, SigElem{"valid2", perm[0]})
		if rapid.Bool().Draw(t, label+"_shuffle") {
			out = rapid.Permutation(out).Draw(t, label+"_order")
		}
		return out, mode
	case "refund_signed":
		var out []SigElem
		n := rapid.IntRange(1, 2).Draw(t, label+"_nref")
		for i := 0; i < n; i++ {
			out = append(out, SigElem{"valid", Refund0 + i})
		}
		return out, mode
	}
	return GenSigList(t, candidates, label), "random"
}

// RepeatedKeys returns the pool indexes of keys that occur more than once in the authorised list (lock key
// followed by the pubkeys tag).
func (c Config) RepeatedKeys() []int {
	var list []int
	if c.Kind == "P2PK" {
		list = append(list, c.LockIdx)
	}
	if c.orderConsistent() {
		list = append(list, c.PubkeyOrder...)
	} else {
		for i := 0; i < c.NCosign; i++ {
			list = append(list, Cosign0+i)
		}
		if c.DupLockInPubkeys {
			list = append(list, c.LockIdx)
		}
	}
	n := map[int]int{}
	var out []int
	for _, k := range list {
		n[base(k)]++
		if n[base(k)] == 2 {
			out = append(out, base(k))
		}
	}
	return out
}

// PubkeysClass classifies the shape of the authorised-key list (lock key followed by the pubkeys tag).
func PubkeysClass(c Config) string {
	if !c.orderConsistent() {
		if c.DupLockInPubkeys {
			if c.NCosign == 0 {
				return "lock_key_repeated_adjacent"
			}
			return "lock_key_repeated_nonadjacent"
		}
		return ""
	}
	list := c.PubkeyOrder
	if c.Kind == "P2PK" {
		list = append([]int{c.LockIdx}, list...)
	}
	last := map[int]int{}
	out := "permuted"
	twin := false
	for i, k := range list {
		if k >= Twin {
			twin = true
		}
		k = base(k)
		if j, ok := last[k]; ok {
			if i-j == 1 && out != "repeat_nonadjacent" {
				out = "repeat_adjacent"
			} else if i-j > 1 {
				out = "repeat_nonadjacent"
			}
		}
		last[k] = i
	}
	if twin && strings.HasPrefix(out, "repeat") {
		out += "_as_parity_twin"
	}
	return out
}
