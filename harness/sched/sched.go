// Package sched is a cooperative scheduler: the harness owns the schedule. Every storage-proxy and
// Lightning-model call of a registered task is a yield point where the task parks until it is granted.
// Exactly one task runs between yield points, so an execution is determined by the sequence of grants,
// which comes from a Chooser (rapid draws, or an enumerated choice vector).
package sched

import (
	"fmt"
	"strings"
	"sync"
	"time"

	"verif/harness/dbproxy"
)

type state int

const (
	stNew state = iota
	stRunning
	stParked
	stBlocked // running but stuck between yield points (e.g. on a mutex held by a parked task)
	stDone
	stDormant
)

type Task struct {
	// IdleOnIO: an external task whose goroutine does not exit; it counts as dormant again whenever it waits for
	// network input
	IdleOnIO bool
	ID     int
	Name   string
	gid    int64
	st     state
	at     string // call it is parked before
	grant  chan struct{}
	Result any
	Err    error
	Panic  any
	Calls  int
	fn     func() (any, error)

	external bool
}

// Chooser picks the index of the next task among the enabled ones. cur is the index (in enabled) of the
// task that ran last if it is still enabled, else -1.
type Chooser func(step int, enabled []*Task, cur int) int

type Step struct {
	Task int
	At   string
	Opts int
}

type Sched struct {
	mu       sync.Mutex
	tasks    []*Task
	byGid    map[int64]*Task
	event    chan struct{}
	Trace    []Step
	Switches int // context switches away from a task that could have continued
	Watchdog time.Duration
	Blocked  int
}

func New() *Sched {
	return &Sched{byGid: map[int64]*Task{}, event: make(chan struct{}, 1024), Watchdog: 150 * time.Millisecond}
}

// Go registers a task; it starts parked at a virtual yield point "start".
func (s *Sched) Go(name string, fn func() (any, error)) *Task {
	t := &Task{ID: len(s.tasks), Name: name, st: stNew, grant: make(chan struct{}, 1), fn: fn, at: "start"}
	s.tasks = append(s.tasks, t)
	return t
}

// External registers a goroutine that already exists (e.g. the mint's background invoice watcher, whose id
// is known from the storage log). It is dormant until it reaches a yield point; once granted it runs until
// its next yield point or until the goroutine exits.
func (s *Sched) External(name string, gid int64) *Task {
	t := &Task{ID: len(s.tasks), Name: name, st: stDormant, grant: make(chan struct{}, 1), at: "dormant", external: true, gid: gid}
	s.tasks = append(s.tasks, t)
	s.byGid[gid] = t
	return t
}

// WaitExternalSettled blocks until the external task has parked at a yield point or its goroutine is gone.
// Called from inside another task right after it woke the external goroutine.
func (s *Sched) WaitExternalSettled(t *Task, timeout time.Duration) bool {
	deadline := time.Now().Add(timeout)
	for time.Now().Before(deadline) {
		s.mu.Lock()
		st := t.st
		s.mu.Unlock()
		if st == stParked || st == stDone {
			return true
		}
		if !dbproxy.GoroutineAlive(t.gid) {
			s.mu.Lock()
			t.st = stDone
			s.mu.Unlock()
			return true
		}
		// woken, but stuck on a lock that a parked task holds: it will get to its yield point once that task moves on
		if r := dbproxy.GoroutineWaitReason(t.gid); strings.Contains(r, "Mutex") || strings.HasPrefix(r, "semacquire") || strings.HasPrefix(r, "sync.") {
			s.mu.Lock()
			if t.st == stDormant || t.st == stRunning {
				t.st = stBlocked
				s.Blocked++
			}
			s.mu.Unlock()
			return true
		}
		time.Sleep(50 * time.Microsecond)
	}
	return false
}

func (s *Sched) notify() {
	select {
	case s.event <- struct{}{}:
	default:
	}
}

// Yield is called from the storage / Lightning hooks.
func (s *Sched) Yield(at string) {
	gid := dbproxy.Gid()
	s.mu.Lock()
	t := s.byGid[gid]
	if t == nil {
		s.mu.Unlock()
		return
	}
	t.st = stParked
	t.at = at
	t.Calls++
	s.mu.Unlock()
	s.notify()
	<-t.grant
}

func (s *Sched) start(t *Task) {
	go func() {
		gid := dbproxy.Gid()
		s.mu.Lock()
		t.gid = gid
		s.byGid[gid] = t
		s.mu.Unlock()
		defer func() {
			if p := recover(); p != nil {
				t.Panic = p
			}
			s.mu.Lock()
			t.st = stDone
			s.mu.Unlock()
			s.notify()
		}()
		t.Result, t.Err = t.fn()
	}()
}

// Run executes all tasks under the chooser until every task is done (or blocked forever).
func (s *Sched) Run(choose Chooser) error {
	// every task is "parked at start"
	for _, t := range s.tasks {
		if !t.external {
			t.st = stParked
		}
	}
	last := -1
	started := map[int]bool{}
	for step := 0; step < 10000; step++ {
		// wait until nothing is running
		deadline := time.Now().Add(s.Watchdog)
		lastProbe := time.Now()
		for {
			probed := false
			s.mu.Lock()
			running := 0
			for _, t := range s.tasks {
				if t.st == stRunning && t.external && !dbproxy.GoroutineAlive(t.gid) {
					t.st = stDone
				}
				if t.st == stRunning && t.gid != 0 && time.Since(lastProbe) > 300*time.Microsecond {
					// a task stuck on a lock held by a parked task is not going to reach a yield point
					if r := dbproxy.GoroutineWaitReason(t.gid); strings.Contains(r, "Mutex") || strings.HasPrefix(r, "semacquire") || strings.HasPrefix(r, "sync.") {
						t.st = stBlocked
						s.Blocked++
					} else if t.external && t.IdleOnIO && strings.HasPrefix(r, "IO wait") {
						// a long-lived external goroutine (a connection reader) is back waiting for input: dormant
						// until its next yield point
						t.st = stDormant
					}
					probed = true
				}
				if t.st == stRunning {
					running++
				}
			}
			s.mu.Unlock()
			if probed {
				lastProbe = time.Now()
			}
			if running == 0 {
				break
			}
			select {
			case <-s.event:
			case <-time.After(200 * time.Microsecond):
			}
			if time.Now().After(deadline) {
				s.mu.Lock()
				for _, t := range s.tasks {
					if t.st == stRunning {
						t.st = stBlocked
						s.Blocked++
					}
				}
				s.mu.Unlock()
				break
			}
		}
		s.mu.Lock()
		var enabled []*Task
		alive := 0
		for _, t := range s.tasks {
			if t.st == stParked {
				enabled = append(enabled, t)
			}
			if t.st != stDone && t.st != stDormant {
				alive++
			}
		}
		s.mu.Unlock()
		if len(enabled) == 0 {
			if alive == 0 {
				return nil
			}
			// only blocked tasks remain: wait for them to move
			select {
			case <-s.event:
				s.mu.Lock()
				for _, t := range s.tasks {
					if t.st == stBlocked {
						t.st = stRunning
					}
				}
				s.mu.Unlock()
				continue
			case <-time.After(20 * time.Second):
				return fmt.Errorf("sched: deadlock: %d tasks blocked", alive)
			}
		}
		cur := -1
		for i, t := range enabled {
			if t.ID == last {
				cur = i
			}
		}
		idx := 0
		if len(enabled) > 1 {
			idx = choose(step, enabled, cur)
			if idx < 0 || idx >= len(enabled) {
				idx = 0
			}
		}
		t := enabled[idx]
		if cur >= 0 && idx != cur && started[last] {
			s.Switches++
		}
		s.Trace = append(s.Trace, Step{Task: t.ID, At: t.at, Opts: len(enabled)})
		last = t.ID
		s.mu.Lock()
		t.st = stRunning
		// a blocked task may now be able to continue
		for _, o := range s.tasks {
			if o.st == stBlocked {
				o.st = stRunning
			}
		}
		s.mu.Unlock()
		if !started[t.ID] && !t.external {
			started[t.ID] = true
			s.start(t)
		} else {
			started[t.ID] = true
			t.grant <- struct{}{}
		}
	}
	return fmt.Errorf("sched: step limit reached")
}

// TraceString renders the grant sequence.
func (s *Sched) TraceString() string {
	out := ""
	for i, st := range s.Trace {
		if i > 0 {
			out += " "
		}
		out += fmt.Sprintf("%s@%s", s.tasks[st.Task].Name, st.At)
	}
	return out
}

func (s *Sched) Tasks() []*Task { return s.tasks }

// At names the call the task is parked before (for choosers that steer by position).
func (t *Task) At() string { return t.at }
