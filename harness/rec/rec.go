// Package rec is the evidence recorder shared by all check packages.
//
// One Recorder per test process. The property functions report evaluations, the
// canonical rendering of every non-trivial case (hashed -> distinct count), class
// counters (the measured generator distribution), samples, known findings that were
// hit and violations. Flush writes one shard file into $VERIF_OUT; the driver merges
// the shards of a run into /verif/evidence/<ID>.json.
package rec

import (
	"bufio"
	"encoding/json"
	"fmt"
	"hash/fnv"
	"os"
	"path/filepath"
	"sort"
	"strings"
	"sync"
)

type Violation struct {
	Signature string `json:"signature"`
	Detail    string `json:"detail"`
	Replay    any    `json:"replay,omitempty"`
}

type shard struct {
	Evaluations int64            `json:"evaluations"`
	Distinct    []uint64         `json:"distinct"`
	Classes     map[string]int64 `json:"classes"`
	Samples     []any            `json:"samples"`
	KnownHit    map[string]int64 `json:"known_hit"`
	KnownWhat   map[string]string `json:"known_what"`
	Violations  []Violation      `json:"violations"`
	Exhaustive  map[string]int64 `json:"exhaustive,omitempty"`
	Inconclusive int64           `json:"inconclusive"`
	Notes       []string         `json:"notes,omitempty"`
}

type Recorder struct {
	mu          sync.Mutex
	evals       int64
	distinct    map[uint64]struct{}
	classes     map[string]int64
	samples     []any
	sampleKeys  map[string]int
	knownHit    map[string]int64
	knownWhat   map[string]string
	violations  []Violation
	exhaustive  map[string]int64
	inconcl     int64
	notes       []string
	known       map[string]knownEntry
	knownLoaded bool
	maxSamples  int
}

type knownEntry struct {
	Property  string `json:"property"`
	Status    string `json:"status"`
	Signature string `json:"signature"`
	What      string `json:"what"`
	Commit    string `json:"commit,omitempty"`
}

var global = &Recorder{
	distinct:   map[uint64]struct{}{},
	classes:    map[string]int64{},
	sampleKeys: map[string]int{},
	knownHit:   map[string]int64{},
	knownWhat:  map[string]string{},
	exhaustive: map[string]int64{},
	maxSamples: 12,
}

func Get() *Recorder { return global }

// Eval counts one evaluation (one generated case / one execution).
func Eval() { global.mu.Lock(); global.evals++; global.mu.Unlock() }

// EvalN counts n evaluations.
func EvalN(n int) { global.mu.Lock(); global.evals += int64(n); global.mu.Unlock() }

// NonTrivial records the canonical rendering of a non-trivial case.
func NonTrivial(canonical string) {
	h := fnv.New64a()
	h.Write([]byte(canonical))
	global.mu.Lock()
	global.distinct[h.Sum64()] = struct{}{}
	global.mu.Unlock()
}

// Class bumps a class counter (generator distribution).
func Class(name string) { global.mu.Lock(); global.classes[name]++; global.mu.Unlock() }

// ClassN bumps a class counter by n.
func ClassN(name string, n int) {
	global.mu.Lock()
	global.classes[name] += int64(n)
	global.mu.Unlock()
}

// Sample keeps at most 2 samples per kind and maxSamples in total.
func Sample(kind string, v any) {
	global.mu.Lock()
	defer global.mu.Unlock()
	if global.sampleKeys[kind] >= 2 || len(global.samples) >= global.maxSamples {
		return
	}
	global.sampleKeys[kind]++
	global.samples = append(global.samples, map[string]any{"kind": kind, "case": v})
}

// Note attaches a free-text note to the evidence.
func Note(format string, a ...any) {
	global.mu.Lock()
	if len(global.notes) < 20 {
		global.notes = append(global.notes, fmt.Sprintf(format, a...))
	}
	global.mu.Unlock()
}

// Exhaustive records that a finite space named `space` was enumerated completely with n members.
func Exhaustive(space string, n int) {
	global.mu.Lock()
	global.exhaustive[space] = int64(n)
	global.mu.Unlock()
}

// Inconclusive counts a case that could not be decided for infrastructure reasons.
func Inconclusive() { global.mu.Lock(); global.inconcl++; global.mu.Unlock() }

func (r *Recorder) loadKnown() {
	if r.knownLoaded {
		return
	}
	r.knownLoaded = true
	r.known = map[string]knownEntry{}
	path := os.Getenv("VERIF_KNOWN")
	if path == "" {
		path = "/verif/known_findings.jsonl"
	}
	f, err := os.Open(path)
	if err != nil {
		return
	}
	defer f.Close()
	sc := bufio.NewScanner(f)
	sc.Buffer(make([]byte, 1<<20), 1<<20)
	for sc.Scan() {
		line := strings.TrimSpace(sc.Text())
		if line == "" || strings.HasPrefix(line, "#") {
			continue
		}
		var e knownEntry
		if json.Unmarshal([]byte(line), &e) == nil && e.Status == "known" {
			r.known[e.Signature] = e
		}
	}
}

// IsKnown reports whether a violation signature is listed as a known finding. If so it is
// counted (KNOWN-FINDING line printed by the driver) and the caller must NOT fail the run.
func IsKnown(signature string) bool {
	global.mu.Lock()
	defer global.mu.Unlock()
	global.loadKnown()
	e, ok := global.known[signature]
	if ok {
		global.knownHit[signature]++
		global.knownWhat[signature] = e.What
	}
	return ok
}

// Violate records a violation (used by enumeration checks that keep going; rapid checks
// additionally fail the test so that the case is shrunk and a fail file is written).
func Violate(signature, detail string, replay any) {
	global.mu.Lock()
	defer global.mu.Unlock()
	if len(global.violations) < 200 {
		global.violations = append(global.violations, Violation{signature, detail, replay})
	}
}

// Violations returns the number of recorded violations.
func Violations() int { global.mu.Lock(); defer global.mu.Unlock(); return len(global.violations) }

// Flush writes the shard file. Call from TestMain after m.Run().
func Flush() {
	dir := os.Getenv("VERIF_OUT")
	if dir == "" {
		return
	}
	global.mu.Lock()
	defer global.mu.Unlock()
	s := shard{
		Evaluations:  global.evals,
		Classes:      global.classes,
		Samples:      global.samples,
		KnownHit:     global.knownHit,
		KnownWhat:    global.knownWhat,
		Violations:   global.violations,
		Exhaustive:   global.exhaustive,
		Inconclusive: global.inconcl,
		Notes:        global.notes,
	}
	for h := range global.distinct {
		s.Distinct = append(s.Distinct, h)
	}
	sort.Slice(s.Distinct, func(i, j int) bool { return s.Distinct[i] < s.Distinct[j] })
	b, err := json.Marshal(s)
	if err != nil {
		fmt.Fprintf(os.Stderr, "rec: marshal: %v\n", err)
		return
	}
	os.MkdirAll(dir, 0o755)
	name := filepath.Join(dir, fmt.Sprintf("shard-%d.json", os.Getpid()))
	if err := os.WriteFile(name, b, 0o644); err != nil {
		fmt.Fprintf(os.Stderr, "rec: write: %v\n", err)
	}
}
