package world

import (
	"fmt"
	"sort"
	"strings"
)

// Snapshot is the externally meaningful persistent state of the mint, read through the inner storage
// handle (no mint logic involved): proof states of a set of Ys, all known quote rows, stored signatures of a
// set of B_s and the issued/redeemed sums.
type Snapshot struct {
	Parts map[string]string
}

// TakeSnapshot reads the state for all model objects plus the extra Ys / B_s / quote ids given.
func (w *World) TakeSnapshot(extraYs, extraBs, extraMintQ, extraMeltQ []string) Snapshot {
	in := w.Inner()
	sn := Snapshot{Parts: map[string]string{}}
	ys := append([]string{}, extraYs...)
	for _, s := range w.M.Order {
		ys = append(ys, w.M.Proofs[s].Y)
	}
	if len(ys) > 0 {
		used, err := in.GetProofsUsed(ys)
		var l []string
		for _, u := range used {
			l = append(l, u.Y+":"+u.Witness)
		}
		sort.Strings(l)
		sn.Parts["spent_proofs"] = fmt.Sprintf("%v|%v", l, err)
		pend, err := in.GetPendingProofs(ys)
		l = nil
		for _, u := range pend {
			l = append(l, u.Y+":"+u.MeltQuoteId)
		}
		sort.Strings(l)
		sn.Parts["pending_proofs"] = fmt.Sprintf("%v|%v", l, err)
	}
	bs := append([]string{}, extraBs...)
	bs = append(bs, w.M.SignedOrder...)
	if len(bs) > 0 {
		var l []string
		for _, b := range bs {
			sg, err := in.GetBlindSignature(b)
			if err == nil {
				e := ""
				if sg.DLEQ != nil {
					e = sg.DLEQ.E + sg.DLEQ.S
				}
				l = append(l, fmt.Sprintf("%s:%d:%s:%s:%s", b, sg.Amount, sg.Id, sg.C_, e))
			}
		}
		sort.Strings(l)
		l = dedup(l)
		sn.Parts["signatures"] = strings.Join(l, ",")
	}
	var l []string
	ids := append([]string{}, extraMintQ...)
	for _, q := range w.M.MintQuotes {
		ids = append(ids, q.ID)
	}
	for _, id := range ids {
		if r, err := in.GetMintQuote(id); err == nil {
			l = append(l, fmt.Sprintf("%s:%s:%d", id, r.State, r.Amount))
		}
	}
	sort.Strings(l)
	sn.Parts["mint_quotes"] = strings.Join(dedup(l), ",")
	l = nil
	ids = append([]string{}, extraMeltQ...)
	for _, q := range w.M.MeltQuotes {
		ids = append(ids, q.ID)
	}
	for _, id := range ids {
		if r, err := in.GetMeltQuote(id); err == nil {
			l = append(l, fmt.Sprintf("%s:%s:%s:%d:%d", id, r.State, r.Preimage, r.Amount, r.FeeReserve))
		}
	}
	sort.Strings(l)
	sn.Parts["melt_quotes"] = strings.Join(dedup(l), ",")
	iss, e1 := in.GetIssuedEcash()
	red, e2 := in.GetRedeemedEcash()
	sn.Parts["issued"] = fmt.Sprintf("%v|%v", sortedMap(iss), e1)
	sn.Parts["redeemed"] = fmt.Sprintf("%v|%v", sortedMap(red), e2)
	ks, _ := in.GetKeysets()
	l = nil
	for _, k := range ks {
		l = append(l, fmt.Sprintf("%s:%v:%d:%d", k.Id, k.Active, k.DerivationPathIdx, k.InputFeePpk))
	}
	sort.Strings(l)
	sn.Parts["keysets"] = strings.Join(l, ",")
	return sn
}

func dedup(l []string) []string {
	var out []string
	for i, s := range l {
		if i == 0 || l[i-1] != s {
			out = append(out, s)
		}
	}
	return out
}

func sortedMap(m map[string]uint64) []string {
	var l []string
	for k, v := range m {
		l = append(l, fmt.Sprintf("%s=%d", k, v))
	}
	sort.Strings(l)
	return l
}

// Diff returns the names of the parts that differ, and a description.
func (a Snapshot) Diff(b Snapshot) ([]string, string) {
	var names []string
	var desc []string
	for k, v := range a.Parts {
		if b.Parts[k] != v {
			names = append(names, k)
			desc = append(desc, fmt.Sprintf("%s: before %q after %q", k, trunc(v), trunc(b.Parts[k])))
		}
	}
	for k := range b.Parts {
		if _, ok := a.Parts[k]; !ok {
			names = append(names, k)
		}
	}
	sort.Strings(names)
	sort.Strings(desc)
	return names, strings.Join(desc, "; ")
}

func trunc(s string) string {
	if len(s) > 400 {
		return s[:200] + " ... " + s[len(s)-200:]
	}
	return s
}
