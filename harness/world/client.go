package world

import (
	"crypto/sha256"
	"encoding/binary"
	"encoding/hex"
	"fmt"

	"github.com/decred/dcrd/dcrec/secp256k1/v4"
	"github.com/elnosh/gonuts/cashu"

	"verif/harness/ref"
)

// Out is one output prepared by the client helper.
type Out struct {
	Secret string
	R      *secp256k1.ModNScalar
	Amount uint64
	Keyset string
	Msg    cashu.BlindedMessage
}

// Y returns hash_to_curve(secret) via the reference, as a dcrec key and hex string.
func Y(secret string) (*secp256k1.PublicKey, string) {
	p, _, err := ref.HashToCurve([]byte(secret))
	if err != nil {
		panic(err)
	}
	c := p.Compressed()
	pk, err := secp256k1.ParsePubKey(c)
	if err != nil {
		panic(err)
	}
	return pk, hex.EncodeToString(c)
}

func (w *World) nextRand(tag string) [32]byte {
	w.ctr++
	var b [16]byte
	binary.BigEndian.PutUint64(b[:8], w.Cfg.CaseSeed)
	binary.BigEndian.PutUint64(b[8:], w.ctr)
	return sha256.Sum256(append([]byte(tag), b[:]...))
}

// NewSecret returns a fresh 64-hex secret (deterministic per case).
func (w *World) NewSecret() string {
	h := w.nextRand("secret")
	return hex.EncodeToString(h[:])
}

func (w *World) newScalar() *secp256k1.ModNScalar {
	h := w.nextRand("r")
	var s secp256k1.ModNScalar
	s.SetByteSlice(h[:])
	if s.IsZero() {
		s.SetInt(1)
	}
	return &s
}

// BlindSecret builds the blinded message for a given secret with a fresh blinding factor.
func (w *World) BlindSecret(secret string, amount uint64, keyset string) Out {
	r := w.newScalar()
	yk, _ := Y(secret)
	var yj, rj, bj secp256k1.JacobianPoint
	yk.AsJacobian(&yj)
	secp256k1.ScalarBaseMultNonConst(r, &rj)
	secp256k1.AddNonConst(&yj, &rj, &bj)
	bj.ToAffine()
	B := secp256k1.NewPublicKey(&bj.X, &bj.Y)
	return Out{Secret: secret, R: r, Amount: amount, Keyset: keyset,
		Msg: cashu.BlindedMessage{Amount: amount, B_: hex.EncodeToString(B.SerializeCompressed()), Id: keyset}}
}

// MakeOutputs prepares outputs with fresh random secrets.
func (w *World) MakeOutputs(amounts []uint64, keyset string) []Out {
	outs := make([]Out, len(amounts))
	for i, a := range amounts {
		outs[i] = w.BlindSecret(w.NewSecret(), a, keyset)
	}
	return outs
}

func Msgs(outs []Out) cashu.BlindedMessages {
	m := make(cashu.BlindedMessages, len(outs))
	for i, o := range outs {
		m[i] = o.Msg
	}
	return m
}

// Unblind turns signature i into a proof for output i: C = C_ - r*K with K from the reference derivation of
// the keyset named in the signature. It returns an error if the signature does not parse or names an unknown
// keyset/amount.
func (w *World) Unblind(o Out, sig cashu.BlindedSignature) (cashu.Proof, error) {
	ks := w.Keysets[sig.Id]
	if ks == nil {
		return cashu.Proof{}, fmt.Errorf("signature names unknown keyset %q", sig.Id)
	}
	Kref, ok := ks.Pub(sig.Amount)
	if !ok {
		return cashu.Proof{}, fmt.Errorf("signature amount %d is not a key of keyset %s", sig.Amount, sig.Id)
	}
	K, err := secp256k1.ParsePubKey(Kref.Compressed())
	if err != nil {
		return cashu.Proof{}, err
	}
	cb, err := hex.DecodeString(sig.C_)
	if err != nil {
		return cashu.Proof{}, err
	}
	C_, err := secp256k1.ParsePubKey(cb)
	if err != nil {
		return cashu.Proof{}, err
	}
	var kj, rk, cj, out secp256k1.JacobianPoint
	K.AsJacobian(&kj)
	var rneg secp256k1.ModNScalar
	rneg.NegateVal(o.R)
	secp256k1.ScalarMultNonConst(&rneg, &kj, &rk)
	C_.AsJacobian(&cj)
	secp256k1.AddNonConst(&cj, &rk, &out)
	out.ToAffine()
	C := secp256k1.NewPublicKey(&out.X, &out.Y)
	return cashu.Proof{Amount: sig.Amount, Id: sig.Id, Secret: o.Secret, C: hex.EncodeToString(C.SerializeCompressed())}, nil
}

// GenuineRef reports, with the independent reference only, whether C == k*H(secret) for the key the
// keyset `id` holds for `amount`.
func (w *World) GenuineRef(p cashu.Proof) bool {
	ks := w.Keysets[p.Id]
	if ks == nil {
		return false
	}
	k := ks.Priv(p.Amount)
	if k == nil {
		return false
	}
	c, err := ref.ParseHex(p.C)
	if err != nil {
		return false
	}
	y, _, err := ref.HashToCurve([]byte(p.Secret))
	if err != nil {
		return false
	}
	return ref.Mul(k, y).Equal(c)
}

// Split returns the binary decomposition of amount (ascending).
func Split(amount uint64) []uint64 {
	var out []uint64
	for i := uint(0); i < 64; i++ {
		if amount&(1<<i) != 0 {
			out = append(out, 1<<i)
		}
	}
	return out
}

func sha256Sum(b []byte) [32]byte { return sha256.Sum256(b) }
