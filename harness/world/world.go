// Package world runs a real mint.Mint on a fresh data directory against the Lightning network
// model and the storage proxy, together with an adversarial client-side helper (not the
// repository's wallet) and a reference model updated only from responses and LN ground truth.
package world

import (
	"crypto/sha256"
	"encoding/hex"
	"fmt"
	"math"
	"math/big"
	"net/http"
	"os"
	"path/filepath"
	"sort"
	"sync"

	"github.com/elnosh/gonuts/mint"
	"github.com/elnosh/gonuts/mint/lightning"
	"github.com/elnosh/gonuts/mint/storage"
	"github.com/elnosh/gonuts/mint/storage/sqlite"

	"verif/harness/clnfacade"
	"verif/harness/dbproxy"
	"verif/harness/lndfacade"
	"verif/harness/lnmodel"
	"verif/harness/ref"
)

// T is the subset of testing.T / rapid.T the world needs.
type T interface {
	Fatalf(format string, args ...any)
	Logf(format string, args ...any)
}

type Config struct {
	FeePpk   uint
	Limits   mint.MintLimits
	MPP      bool
	FeeMode  lnmodel.FeeMode
	FeeConst uint64
	// LNPermissive: the Lightning backend answers invoice requests for absurd amounts instead of refusing them
	LNPermissive bool
	WithServer   bool
	// ReadsViaHTTP (with WithServer): state checks and restores go through the HTTP handler instead of the Go API
	ReadsViaHTTP bool
	// ViaCLN: the mint talks to the Lightning model through the repository's Core Lightning adapter and an
	// imitation of the node's REST interface (harness/clnfacade) instead of using the model as its backend directly
	ViaCLN bool
	// ViaLND: likewise through the repository's LND adapter on imitations of LND's rpc clients (harness/lndfacade)
	ViaLND bool
	// SeedIdx selects one of a small pool of fixed mint seeds (reference keys are cached per seed).
	SeedIdx int
	// CaseSeed makes client secrets / LN preimages a function of the case.
	CaseSeed uint64
	Name     string
}

// KS is what the harness knows about one keyset, computed independently of the mint.
type KS struct {
	ID     string
	Idx    uint32
	Fee    uint
	Active bool
	seed   []byte
}

type World struct {
	T   T
	Cfg Config
	Dir string
	Net *lnmodel.Network
	LN  *lnmodel.Backend
	// Facade is set for ViaCLN worlds
	Facade *clnfacade.Facade
	Mint   *mint.Mint
	Srv    *mint.MintServer
	DB     *dbproxy.MintProxy

	MintSeed []byte
	Keysets  map[string]*KS
	KSOrder  []string // in order of derivation index
	ActiveID string

	ctr uint64
	M   *Model

	Flags []Flag
	// DBHook / LNHook are re-installed on every (re)start.
	DBHook func(c *dbproxy.Call) error

	closed bool
}

// Flag is a model conflict attributed to a property; check packages enforce the ones they own.
type Flag struct {
	Prop      string
	Signature string
	Detail    string
}

func (w *World) Flag(prop, sig, format string, args ...any) {
	w.Flags = append(w.Flags, Flag{prop, prop + "|" + sig, fmt.Sprintf(format, args...)})
}

// TakeFlags returns and clears the accumulated flags.
func (w *World) TakeFlags() []Flag {
	f := w.Flags
	w.Flags = nil
	return f
}

var seedPool = func() [][]byte {
	var out [][]byte
	for i := 0; i < 6; i++ {
		h := sha256.Sum256([]byte(fmt.Sprintf("verif mint seed %d", i)))
		out = append(out, h[:])
	}
	return out
}()

// ScratchBase returns the directory under which case directories are created.
func ScratchBase() string {
	if d := os.Getenv("VERIF_SCRATCH"); d != "" {
		os.MkdirAll(d, 0o755)
		return d
	}
	if st, err := os.Stat("/dev/shm"); err == nil && st.IsDir() {
		d := filepath.Join("/dev/shm", fmt.Sprintf("verif-adhoc-%d", os.Getpid()))
		os.MkdirAll(d, 0o755)
		return d
	}
	return os.TempDir()
}

// New creates a world with a freshly initialised mint.
func New(t T, cfg Config) *World {
	return NewOn(t, cfg, lnmodel.NewNetwork([]byte(fmt.Sprint(cfg.CaseSeed))))
}

// NewOn creates a world whose mint is attached to an existing Lightning network.
func NewOn(t T, cfg Config, net *lnmodel.Network) *World {
	dir, err := os.MkdirTemp(ScratchBase(), "mint")
	if err != nil {
		t.Fatalf("mkdir: %v", err)
	}
	w := &World{T: t, Cfg: cfg, Dir: dir, Net: net, Keysets: map[string]*KS{}}
	name := cfg.Name
	if name == "" {
		name = "mintA"
	}
	w.LN = net.NewBackend(name)
	w.LN.FeeMode, w.LN.FeeConst = cfg.FeeMode, cfg.FeeConst
	w.LN.Permissive = cfg.LNPermissive
	w.M = newModel()

	// pre-seed the database with a fixed seed so that reference keys can be cached across cases
	w.MintSeed = seedPool[cfg.SeedIdx%len(seedPool)]
	db, err := sqlite.InitSQLite(dir)
	if err != nil {
		t.Fatalf("init sqlite: %v", err)
	}
	if err := db.SaveSeed(w.MintSeed); err != nil {
		t.Fatalf("save seed: %v", err)
	}
	db.Close()

	if err := w.start(false, cfg.FeePpk); err != nil {
		t.Fatalf("LoadMint: %v", err)
	}
	return w
}

func (w *World) start(rotate bool, fee uint) error {
	var client lightning.Client = w.LN
	if w.Cfg.ViaCLN {
		if w.Facade == nil {
			w.Facade = clnfacade.New(w.LN)
		}
		c, err := w.Facade.Client()
		if err != nil {
			return err
		}
		client = c
	}
	if w.Cfg.ViaLND {
		client = lndfacade.Client(w.LN)
	}
	mc := mint.Config{
		RotateKeyset:    rotate,
		MintPath:        w.Dir,
		InputFeePpk:     fee,
		Limits:          w.Cfg.Limits,
		LightningClient: client,
		EnableMPP:       w.Cfg.MPP,
		LogLevel:        mint.Disable,
		MintInfo:        mint.MintInfo{Name: "verif mint"},
	}
	m, err := mint.LoadMint(mc)
	if err != nil {
		return err
	}
	w.Mint = m
	m.VerifWrapDB(func(inner storage.MintDB) storage.MintDB {
		w.DB = dbproxy.WrapMint(inner)
		w.DB.Hook = w.DBHook
		return w.DB
	})
	if w.Cfg.WithServer {
		w.Srv = mint.SetupMintServer(m, mint.ServerConfig{Port: 0})
	}
	return w.RefreshKeysets()
}

// ReserveFor is the fee reserve the mint will quote for a melt of amount sat: the Lightning model's policy, or - with
// one of the repository's adapters in between - the adapter's own (1 % rounded up).
func (w *World) ReserveFor(amount uint64) uint64 {
	if w.Cfg.ViaCLN || w.Cfg.ViaLND {
		return uint64(math.Ceil(float64(amount) * lightning.FeePercent))
	}
	return w.LN.FeeFor(amount)
}

// Handler returns the in-process HTTP handler (WithServer only).
func (w *World) Handler() http.Handler { return w.Srv.VerifHandler() }

// Inner returns the real storage handle.
func (w *World) Inner() storage.MintDB { return w.DB.Inner() }

// RefreshKeysets re-reads the keyset table through the inner handle. Keysets already known keep their
// first-observed record (C09 compares against it).
func (w *World) RefreshKeysets() error {
	rows, err := w.Inner().GetKeysets()
	if err != nil {
		return err
	}
	sort.Slice(rows, func(i, j int) bool { return rows[i].DerivationPathIdx < rows[j].DerivationPathIdx })
	w.KSOrder = nil
	w.ActiveID = ""
	for _, r := range rows {
		ks, ok := w.Keysets[r.Id]
		if !ok {
			ks = &KS{ID: r.Id, Idx: r.DerivationPathIdx, Fee: r.InputFeePpk, seed: w.MintSeed}
			w.Keysets[r.Id] = ks
		}
		ks.Active = r.Active
		w.KSOrder = append(w.KSOrder, r.Id)
		if r.Active {
			w.ActiveID = r.Id
		}
	}
	return nil
}

// Shutdown stops the mint (cancels watchers, closes the database).
func (w *World) Shutdown() {
	if w.Mint != nil {
		w.Mint.Shutdown()
		w.Mint = nil
	}
}

// Restart shuts the mint down and loads it again from the same directory.
func (w *World) Restart(rotate bool, fee uint) error {
	w.Shutdown()
	return w.start(rotate, fee)
}

// CrashRestart is used after a simulated crash: the dead instance's database handle is closed directly,
// its context is cancelled and a new instance is loaded from the same directory.
func (w *World) CrashRestart() error {
	if w.Mint != nil {
		// Shutdown = cancel + db.Close(); the proxy's Close passes through also when dead
		w.Mint.Shutdown()
		w.Mint = nil
	}
	return w.start(false, 0)
}

func (w *World) Close() {
	if w.closed {
		return
	}
	w.closed = true
	w.Shutdown()
	if w.Facade != nil {
		w.Facade.Close()
	}
	os.RemoveAll(w.Dir)
}

// ---------------------------------------------------------------- reference keys (cached per seed)

type keyCacheKey struct {
	seed string
	idx  uint32
}

var (
	keyMu    sync.Mutex
	keyCache = map[keyCacheKey]map[uint64]*big.Int{}
	pubCache = map[string]ref.Point{}
)

// Priv returns the mint's private key for (keyset, amount) from the independent derivation, or nil.
func (ks *KS) Priv(amount uint64) *big.Int {
	keyMu.Lock()
	defer keyMu.Unlock()
	k := keyCacheKey{hex.EncodeToString(ks.seed), ks.Idx}
	m, ok := keyCache[k]
	if !ok {
		var err error
		m, err = ref.MintKeys(ks.seed, ks.Idx)
		if err != nil {
			return nil
		}
		keyCache[k] = m
	}
	return m[amount]
}

// Pub returns the reference public key for (keyset, amount).
func (ks *KS) Pub(amount uint64) (ref.Point, bool) {
	p := ks.Priv(amount)
	if p == nil {
		return ref.Point{}, false
	}
	keyMu.Lock()
	defer keyMu.Unlock()
	key := fmt.Sprintf("%x/%d/%d", ks.seed[:4], ks.Idx, amount)
	if pt, ok := pubCache[key]; ok {
		return pt, true
	}
	pt := ref.BaseMul(p)
	pubCache[key] = pt
	return pt, true
}

// AllPub returns the 60 reference public keys of the keyset.
func (ks *KS) AllPub() map[uint64]ref.Point {
	out := map[uint64]ref.Point{}
	for i := 0; i < 60; i++ {
		a := uint64(1) << uint(i)
		p, _ := ks.Pub(a)
		out[a] = p
	}
	return out
}
