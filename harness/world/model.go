package world

import (
	"context"
	"encoding/hex"
	"encoding/json"
	"fmt"
	"math/big"
	"strings"
	"time"

	"github.com/decred/dcrd/dcrec/secp256k1/v4"
	"github.com/elnosh/gonuts/cashu"
	"github.com/elnosh/gonuts/cashu/nuts/nut04"
	"github.com/elnosh/gonuts/cashu/nuts/nut05"
	"github.com/elnosh/gonuts/cashu/nuts/nut07"
	"github.com/elnosh/gonuts/cashu/nuts/nut09"
	"github.com/elnosh/gonuts/cashu/nuts/nut20"
	"github.com/elnosh/gonuts/mint/storage"

	"verif/harness/dbproxy"
	"verif/harness/httpx"
	"verif/harness/lnmodel"
	"verif/harness/ref"
)

type PState int

const (
	Unspent PState = iota
	Pending
	Spent
)

func (s PState) String() string { return [...]string{"UNSPENT", "PENDING", "SPENT"}[s] }

type MProof struct {
	P            cashu.Proof // genuine proof as unblinded by the client (no witness)
	Y            string
	State        PState
	PendingQ     int
	SpentWitness string
	SpentBy      string
	Locked       bool // NUT-10 secret: needs a witness
}

type MMintQuote struct {
	Idx           int
	ID            string
	Amount        uint64
	Request, Hash string
	LockPriv      *big.Int // NUT-20 key (nil: unlocked)
	PaidExt       bool
	Internal      int
	Issuances     int
	IssuedAmounts []uint64
	Delivered     int
	Reported      nut04.State
	WatcherGid    int64
}

func (q *MMintQuote) Payments() int {
	n := q.Internal
	if q.PaidExt {
		n++
	}
	return n
}

type MMeltQuote struct {
	Idx           int
	ID            string
	Amount        uint64
	FeeReserve    uint64
	Request, Hash string
	IsMpp         bool
	AmountMsat    uint64 // partial amount for MPP
	InvoiceMsat   uint64
	State         nut05.State
	Inputs        []string
	InternalTo    int // index of the mint quote with the same invoice, -1 if none
	// ForeignSameHash: the invoice is somebody else's; it only shares the payment hash with the mint quote InternalTo
	ForeignSameHash bool
	Preimage        string
}

type SignedRec struct {
	B_     string
	Amount uint64
	Keyset string
	C_     string
	E, S   string
	Seq    int
}

type Model struct {
	Proofs      map[string]*MProof
	Order       []string
	MintQuotes  []*MMintQuote
	MeltQuotes  []*MMeltQuote
	Signed      map[string]SignedRec
	SignedOrder []string
	// outputs of requests the mint refused (never handed a signature, unless a later request got them signed)
	Refused []Out
	// mint quote (index) of the refused mint request an output belonged to, by B_
	RefusedQuote map[string]int
	Issued       map[string]uint64 // per keyset: sum of signatures handed out
	Redeemed     map[string]uint64 // per keyset: sum of proofs consumed
	Steps        int
}

func newModel() *Model {
	return &Model{Proofs: map[string]*MProof{}, Signed: map[string]SignedRec{}, Issued: map[string]uint64{}, Redeemed: map[string]uint64{}}
}

func sumMap(m map[string]uint64) uint64 {
	var s uint64
	for _, v := range m {
		s += v
	}
	return s
}

func (m *Model) IssuedTotal() uint64   { return sumMap(m.Issued) }
func (m *Model) RedeemedTotal() uint64 { return sumMap(m.Redeemed) }

// ProofsIn returns the model proofs in the given state, in creation order.
func (m *Model) ProofsIn(states ...PState) MProofs {
	var out []*MProof
	for _, s := range m.Order {
		p := m.Proofs[s]
		for _, st := range states {
			if p.State == st {
				out = append(out, p)
				break
			}
		}
	}
	return out
}

// ---------------------------------------------------------------- fees

// FeeFor computes the NUT-02 fee of the inputs from the keyset table as first observed (reference formula).
func (w *World) FeeFor(inputs cashu.Proofs) uint64 {
	var ppks []uint64
	for _, p := range inputs {
		if ks := w.Keysets[p.Id]; ks != nil {
			ppks = append(ppks, uint64(ks.Fee))
		}
	}
	return ref.Fee(ppks)
}

// ---------------------------------------------------------------- mint quotes

func (w *World) RequestMintQuote(amount uint64, lockPriv *big.Int) (*MMintQuote, error) {
	req := nut04.PostMintQuoteBolt11Request{Amount: amount, Unit: "sat"}
	if lockPriv != nil {
		req.Pubkey = ref.BaseMul(lockPriv).Hex()
	}
	q, err := w.Mint.RequestMintQuote(req)
	w.M.Steps++
	w.checkMintLimits(amount, err)
	if err != nil {
		return nil, err
	}
	mq := &MMintQuote{Idx: len(w.M.MintQuotes), ID: q.Id, Amount: q.Amount, Request: q.PaymentRequest, Hash: q.PaymentHash,
		LockPriv: lockPriv, Reported: q.State}
	w.M.MintQuotes = append(w.M.MintQuotes, mq)
	if q.Amount != amount {
		w.Flag("C02", "mintquote_amount_differs", "requested %d got quote for %d", amount, q.Amount)
	}
	if inv := w.Net.InvoiceByHash(q.PaymentHash); inv == nil || inv.AmountMsat != amount*1000 {
		w.Flag("C02", "mintquote_invoice_amount", "quote %d sat but invoice is %v", amount, inv)
	}
	if q.State != nut04.Unpaid {
		w.Flag("C03", "fresh_quote_not_unpaid", "state %s", q.State)
	}
	// wait until the watcher goroutine has subscribed so that histories are deterministic
	w.waitSubscribed(q.PaymentHash)
	me := dbproxy.Gid()
	for _, c := range w.DB.Log() {
		if c.Method == "GetMintQuote" && c.Arg == q.Id && c.Gid != me {
			mq.WatcherGid = c.Gid
		}
	}
	return mq, nil
}

// checkMintLimits compares the accept/refuse decision with the configured limits (C16), using big integers.
func (w *World) checkMintLimits(amount uint64, err error) {
	lim := w.Cfg.Limits
	mustRefuse, why := false, ""
	if lim.MintingSettings.MaxAmount > 0 && amount > lim.MintingSettings.MaxAmount {
		mustRefuse, why = true, "over_mint_max"
	}
	if lim.MaxBalance > 0 {
		bal := new(big.Int).SetUint64(w.M.IssuedTotal())
		bal.Sub(bal, new(big.Int).SetUint64(w.M.RedeemedTotal()))
		bal.Add(bal, new(big.Int).SetUint64(amount))
		if bal.Cmp(new(big.Int).SetUint64(lim.MaxBalance)) > 0 {
			mustRefuse = true
			if why == "" {
				why = "over_max_balance"
				if new(big.Int).Rsh(bal, 64).Sign() != 0 {
					why = "over_max_balance_with_uint64_wrap"
				}
			}
		}
	}
	if mustRefuse && err == nil {
		w.Flag("C16", "mint_quote_accepted|"+why, "amount %d accepted with limits %+v, issued %d redeemed %d", amount, lim, w.M.IssuedTotal(), w.M.RedeemedTotal())
	}
	if !mustRefuse && err != nil && amount <= 1<<30 {
		if ce, ok := err.(cashu.Error); ok && (ce.Code == cashu.AmountLimitExceeded || ce.Code == cashu.MintingDisabledErrCode) {
			w.Flag("C16", "mint_quote_refused_within_limits", "amount %d refused (%v) with limits %+v, issued %d redeemed %d", amount, err, lim, w.M.IssuedTotal(), w.M.RedeemedTotal())
		}
	}
}

// WaitSubscribed waits until the background watcher of a freshly created mint quote has subscribed.
func (w *World) WaitSubscribed(hash string) { w.waitSubscribed(hash) }

func (w *World) waitSubscribed(hash string) {
	deadline := time.Now().Add(3 * time.Second)
	for w.Net.Subscribers(hash) == 0 && time.Now().Before(deadline) {
		time.Sleep(200 * time.Microsecond)
	}
}

// PayInvoice settles the quote's invoice externally (a user paid it over Lightning).
func (w *World) PayInvoice(q *MMintQuote) bool {
	if w.Net.PayExternally(q.Hash) {
		q.PaidExt = true
		return true
	}
	return false
}

// Deliver hands the settlement notification to the watcher goroutine and waits until that goroutine has
// finished (it exits after its last storage write). Returns false if no watcher was listening.
func (w *World) Deliver(q *MMintQuote) bool {
	if w.Net.Subscribers(q.Hash) == 0 {
		return false
	}
	from := w.DB.LogLen()
	if w.Net.Deliver(q.Hash) == 0 {
		return false
	}
	deadline := time.Now().Add(3 * time.Second)
	if q.WatcherGid != 0 {
		for dbproxy.GoroutineAlive(q.WatcherGid) {
			if time.Now().After(deadline) {
				w.T.Logf("watcher goroutine %d still alive after 3s", q.WatcherGid)
				break
			}
			time.Sleep(100 * time.Microsecond)
		}
	} else {
		w.DB.WaitFor(from, func(c dbproxy.Call) bool {
			return c.Method == "UpdateMintQuoteState" && strings.HasPrefix(c.Arg, q.ID+",")
		}, 500*time.Millisecond)
	}
	q.Delivered++
	return true
}

func (w *World) PollMintQuote(q *MMintQuote) (storage.MintQuote, error) {
	r, err := w.Mint.GetMintQuoteState(q.ID)
	w.M.Steps++
	if err == nil {
		q.Reported = r.State
		w.checkMintQuoteState(q, r.State, "poll")
	}
	return r, err
}

func (w *World) checkMintQuoteState(q *MMintQuote, st nut04.State, where string) {
	switch st {
	case nut04.Paid, nut04.Issued, nut04.Pending:
		if q.Payments() == 0 {
			w.Flag("C03", "state_"+st.String()+"_without_payment|"+where, "quote %d reported %s but was never paid", q.Idx, st)
		}
	}
}

// SignNut20 produces the honest NUT-20 signature (reference BIP-340 signer) over id || B_...
func SignNut20(priv *big.Int, quoteID string, outs cashu.BlindedMessages) string {
	msg := quoteID
	for _, o := range outs {
		msg += o.B_
	}
	h := sha256sum([]byte(msg))
	return hex.EncodeToString(ref.SchnorrSign(priv, h, []byte{7}))
}

// Nut20Valid reports (reference) whether sig is a valid signature by the quote key over exactly these outputs.
func Nut20Valid(priv *big.Int, quoteID string, outs cashu.BlindedMessages, sigHex string) bool {
	sig, err := hex.DecodeString(sigHex)
	if err != nil || len(sig) != 64 {
		return false
	}
	msg := quoteID
	for _, o := range outs {
		msg += o.B_
	}
	return ref.SchnorrVerify(ref.BaseMul(priv), sha256sum([]byte(msg)), sig)
}

// SignNut20Lib signs with the repository's own helper nut20.SignMintQuote (sufficiency direction).
func SignNut20Lib(priv *big.Int, quoteID string, outs cashu.BlindedMessages) string {
	k := secp256k1.PrivKeyFromBytes(ref.Scalar32(priv))
	sig, err := nut20.SignMintQuote(k, quoteID, outs)
	if err != nil {
		return ""
	}
	return hex.EncodeToString(sig.Serialize())
}

// MintTokens submits outputs for a quote. The model is updated from the response.
func (w *World) MintTokens(q *MMintQuote, outs []Out, signature string) (cashu.BlindedSignatures, error) {
	msgs := Msgs(outs)
	sigs, err := w.Mint.MintTokens(nut04.PostMintBolt11Request{Quote: q.ID, Outputs: msgs, Signature: signature})
	w.M.Steps++
	if err != nil {
		w.noteRefused(outs)
		if w.M.RefusedQuote == nil {
			w.M.RefusedQuote = map[string]int{}
		}
		for _, o := range outs {
			w.M.RefusedQuote[o.Msg.B_] = q.Idx
		}
		return nil, err
	}
	var total uint64
	for _, o := range outs {
		total = satAdd(total, o.Amount)
	}
	q.Issuances++
	q.IssuedAmounts = append(q.IssuedAmounts, total)
	if q.Issuances > q.Payments() {
		sig := "issued_more_than_paid"
		if q.Payments() == 0 {
			sig = "issued_unpaid"
		} else if q.Delivered > 0 {
			sig = "reissued_after_late_notification"
		}
		w.Flag("C03", sig, "quote %d: %d issuances for %d payments (delivered=%d)", q.Idx, q.Issuances, q.Payments(), q.Delivered)
	}
	if total > q.Amount {
		w.Flag("C03", "issued_over_amount", "quote %d of %d issued %d", q.Idx, q.Amount, total)
		w.Flag("C02", "mint_over_amount", "quote %d of %d issued %d", q.Idx, q.Amount, total)
	}
	if q.LockPriv != nil && !Nut20Valid(q.LockPriv, q.ID, msgs, signature) {
		w.Flag("C03", "nut20_invalid_signature_accepted", "quote %d locked; signature %q not valid for outputs", q.Idx, signature)
	}
	w.RecordSignatures("mint", outs, sigs)
	return sigs, nil
}

// recordSignatures books returned signatures and adds the unblinded proofs to the client's holdings.
func (w *World) RecordSignatures(op string, outs []Out, sigs cashu.BlindedSignatures) {
	if len(sigs) != len(outs) {
		w.Flag("C20", "signature_count|"+op, "%d outputs, %d signatures", len(outs), len(sigs))
	}
	for i := 0; i < len(sigs) && i < len(outs); i++ {
		s, o := sigs[i], outs[i]
		if s.Amount != o.Amount {
			w.Flag("C02", "signature_amount_differs|"+op, "output %d amount %d signed as %d", i, o.Amount, s.Amount)
		}
		if s.Id != w.ActiveID && !strings.HasPrefix(op, "restore") {
			w.Flag("C09", "signed_on_non_active_keyset|"+op, "signature id %s, active %s", s.Id, w.ActiveID)
		}
		if _, dup := w.M.Signed[o.Msg.B_]; dup {
			w.Flag("C15", "blinded_message_signed_twice|"+op, "B_ %s", o.Msg.B_)
		} else {
			rec := SignedRec{B_: o.Msg.B_, Amount: s.Amount, Keyset: s.Id, C_: s.C_, Seq: len(w.M.SignedOrder)}
			if s.DLEQ != nil {
				rec.E, rec.S = s.DLEQ.E, s.DLEQ.S
			}
			w.M.Signed[o.Msg.B_] = rec
			w.M.SignedOrder = append(w.M.SignedOrder, o.Msg.B_)
		}
		w.M.Issued[s.Id] += s.Amount
		p, err := w.Unblind(o, s)
		if err != nil {
			w.Flag("C10", "signature_not_unblindable|"+op, "%v", err)
			continue
		}
		if _, exists := w.M.Proofs[p.Secret]; exists {
			// same secret signed again (client reused a secret on purpose): keep the first record
			continue
		}
		_, yhex := Y(p.Secret)
		w.M.Proofs[p.Secret] = &MProof{P: p, Y: yhex, State: Unspent, PendingQ: -1, Locked: strings.HasPrefix(strings.TrimSpace(p.Secret), "[")}
		w.M.Order = append(w.M.Order, p.Secret)
	}
}

// ---------------------------------------------------------------- swap

// acceptInputs books inputs that a successful operation consumed (or locked) and flags conflicts.
func (w *World) AcceptInputs(op string, inputs cashu.Proofs, to PState, quote int) {
	seen := map[string]bool{}
	for _, in := range inputs {
		mp := w.M.Proofs[in.Secret]
		if seen[in.Secret] {
			// (the value of a secret is redeemed once, however often the request lists it)
			w.Flag("C01", "duplicate_secret_in_request_accepted|"+op, "secret %s counted twice in one %s", short(in.Secret), op)
			continue
		}
		seen[in.Secret] = true
		if mp == nil {
			w.Flag("C04", "forged_proof_accepted|"+op, "secret %s amount %d id %s C %s", short(in.Secret), in.Amount, in.Id, short(in.C))
			if to == Spent {
				w.M.Redeemed[in.Id] += in.Amount
			}
			continue
		}
		if in.Amount != mp.P.Amount || in.Id != mp.P.Id || !strings.EqualFold(in.C, mp.P.C) {
			field := "C"
			if in.Amount != mp.P.Amount {
				field = "amount"
			} else if in.Id != mp.P.Id {
				field = "id"
			}
			w.Flag("C04", "mutated_proof_accepted|"+op+"|"+field, "genuine (%d,%s,%s) presented as (%d,%s,%s)", mp.P.Amount, mp.P.Id, short(mp.P.C), in.Amount, in.Id, short(in.C))
		}
		if mp.State != Unspent {
			w.Flag("C01", "accepted_"+strings.ToLower(mp.State.String())+"_secret|"+op+"|prev="+mp.SpentBy, "secret %s was %s (by %s) and was accepted again by %s", short(in.Secret), mp.State, mp.SpentBy, op)
		}
		mp.State = to
		mp.SpentBy = op
		mp.PendingQ = quote
		mp.SpentWitness = in.Witness
		if to == Spent {
			w.M.Redeemed[in.Id] += in.Amount
		}
	}
}

func short(s string) string {
	if len(s) > 16 {
		return s[:16] + ".."
	}
	return s
}

func (w *World) Swap(inputs cashu.Proofs, outs []Out) (cashu.BlindedSignatures, error) {
	sigs, err := w.Mint.Swap(inputs, Msgs(outs))
	w.M.Steps++
	if err != nil {
		w.noteRefused(outs)
		return nil, err
	}
	var inSum, outSum uint64
	counted := map[string]bool{}
	for _, in := range inputs {
		if mp := w.M.Proofs[in.Secret]; mp != nil && !counted[in.Secret] {
			counted[in.Secret] = true
			inSum += mp.P.Amount // true value, each secret once
		}
	}
	for _, o := range outs {
		outSum = satAdd(outSum, o.Amount)
	}
	fee := w.FeeFor(inputs)
	if satAdd(outSum, fee) > inSum {
		w.Flag("C02", "swap_outputs_exceed_inputs_minus_fee", "inputs %d (true value), fee %d, outputs %d", inSum, fee, outSum)
		if fee > 0 && satAdd(outSum, 0) <= inSum && w.anyOldKeyset(inputs) {
			// the value is covered, only the input fee is not, and inputs of a retired keyset are among them
			w.Flag("C09", "old_keyset_inputs_not_charged_their_fee|swap", "inputs %d incl. proofs of a retired keyset, fee due %d, outputs %d (active keyset %s fee %d)", inSum, fee, outSum, w.ActiveID, w.Keysets[w.ActiveID].Fee)
		}
	}
	w.AcceptInputs("swap", inputs, Spent, -1)
	w.RecordSignatures("swap", outs, sigs)
	return sigs, nil
}

func (w *World) noteRefused(outs []Out) {
	for _, o := range outs {
		if len(w.M.Refused) < 256 {
			w.M.Refused = append(w.M.Refused, o)
		}
	}
}

// ---------------------------------------------------------------- melt

func (w *World) RequestMeltQuote(request string, mppMsat uint64) (*MMeltQuote, error) {
	req := nut05.PostMeltQuoteBolt11Request{Request: request, Unit: "sat"}
	if mppMsat > 0 {
		req.Options = map[string]nut05.MppOption{"mpp": {AmountMsat: mppMsat}}
	}
	q, err := w.Mint.RequestMeltQuote(req)
	w.M.Steps++
	if x := w.Cfg.Limits.MeltingSettings.MaxAmount; x > 0 {
		if inv := w.Net.InvoiceByRequest(request); inv != nil {
			msat := inv.AmountMsat
			if mppMsat > 0 {
				msat = mppMsat
			}
			// the quote amount is the number of whole sats needed to cover msat
			need := msat / 1000
			if msat%1000 != 0 {
				need++
			}
			over := need > x
			if over && err == nil {
				w.Flag("C16", "melt_quote_accepted_over_melt_max", "%d msat accepted with melt max %d (quote amount %d)", msat, x, q.Amount)
			}
			if !over && err != nil {
				if ce, ok := err.(cashu.Error); ok && ce.Code == cashu.AmountLimitExceeded {
					w.Flag("C16", "melt_quote_refused_within_melt_max", "%d msat refused with melt max %d", msat, x)
				}
			}
		}
	}
	if err != nil {
		return nil, err
	}
	mq := &MMeltQuote{Idx: len(w.M.MeltQuotes), ID: q.Id, Amount: q.Amount, FeeReserve: q.FeeReserve, Request: request,
		Hash: q.PaymentHash, IsMpp: q.IsMpp, AmountMsat: q.AmountMsat, State: q.State, InternalTo: -1}
	if inv := w.Net.InvoiceByRequest(request); inv != nil {
		mq.InvoiceMsat = inv.AmountMsat
		if inv.Owner == w.LN {
			for _, m := range w.M.MintQuotes {
				if m.Hash == inv.Hash {
					mq.InternalTo = m.Idx
				}
			}
		}
	}
	w.M.MeltQuotes = append(w.M.MeltQuotes, mq)
	if q.State != nut05.Unpaid {
		w.Flag("C05", "fresh_melt_quote_not_unpaid", "state %s", q.State)
	}
	return mq, nil
}

// payCallsSince returns the pay calls logged by the backend from index `from`.
func (w *World) payCallsSince(from int) []lnmodel.Call {
	var out []lnmodel.Call
	log := w.LN.Log()
	for i := from; i < len(log); i++ {
		if log[i].Method == "SendPayment" || log[i].Method == "PayPartialAmount" {
			out = append(out, log[i])
		}
	}
	return out
}

func (w *World) MeltTokens(q *MMeltQuote, inputs cashu.Proofs) (storage.MeltQuote, error) {
	lnFrom := w.LN.LogLen()
	ctx, cancel := context.WithTimeout(context.Background(), 10*time.Second)
	defer cancel()
	r, err := w.Mint.MeltTokens(ctx, nut05.PostMeltBolt11Request{Quote: q.ID, Inputs: inputs})
	w.M.Steps++
	pays := w.payCallsSince(lnFrom)
	for _, c := range pays {
		if c.MaxFeeSat > q.FeeReserve {
			w.Flag("C02", "fee_limit_exceeds_fee_reserve", "melt quote amount %d fee_reserve %d: %s called with fee limit %d", q.Amount, q.FeeReserve, c.Method, c.MaxFeeSat)
		}
		if c.AmountMsat > q.Amount*1000 {
			w.Flag("C02", "pays_more_msat_than_quoted", "melt quote amount %d sat but %s pays %d msat", q.Amount, c.Method, c.AmountMsat)
		}
		if c.Hash != q.Hash {
			w.Flag("C02", "paid_other_invoice", "quote hash %s paid %s", short(q.Hash), short(c.Hash))
		}
	}
	if err != nil {
		if len(pays) > 0 {
			// a payment attempt was made although the request is answered with an error
			w.noteMeltErrorAfterPay(q, inputs, pays, err)
		}
		return r, err
	}
	var inSum uint64
	counted := map[string]bool{}
	for _, in := range inputs {
		if mp := w.M.Proofs[in.Secret]; mp != nil && !counted[in.Secret] {
			counted[in.Secret] = true
			inSum += mp.P.Amount
		}
	}
	fee := w.FeeFor(inputs)
	switch r.State {
	case nut05.Paid:
		if inSum < q.Amount+q.FeeReserve+fee {
			w.Flag("C02", "melt_underfunded", "inputs %d < amount %d + fee_reserve %d + fee %d", inSum, q.Amount, q.FeeReserve, fee)
			if fee > 0 && inSum >= q.Amount+q.FeeReserve && w.anyOldKeyset(inputs) {
				w.Flag("C09", "old_keyset_inputs_not_charged_their_fee|melt", "inputs %d incl. proofs of a retired keyset < amount %d + fee_reserve %d + fee %d", inSum, q.Amount, q.FeeReserve, fee)
			}
		}
		w.AcceptInputs("melt", inputs, Spent, q.Idx)
		q.State, q.Preimage = nut05.Paid, r.Preimage
		q.Inputs = secretsOf(inputs)
		w.checkPaidTruth(q, "melt")
		if q.InternalTo >= 0 && len(pays) == 0 {
			if q.ForeignSameHash {
				// nothing was paid to anybody: the melt's invoice is not the mint quote's invoice
				mq := w.M.MintQuotes[q.InternalTo]
				w.Flag("C02", "melt_of_foreign_invoice_settled_internally", "melt of a foreign invoice of %d sat settled without any payment against own mint quote %d of %d sat (same payment hash)", q.Amount, mq.Idx, mq.Amount)
				w.Flag("C03", "mint_quote_settled_by_melt_of_foreign_invoice", "mint quote %d of %d sat marked paid by a melt of %d sat of somebody else's invoice", mq.Idx, mq.Amount, q.Amount)
			} else if mq := w.M.MintQuotes[q.InternalTo]; q.Amount < mq.Amount {
				// a melt worth less than the invoice (a partial payment of the mint's own invoice) is not a payment of it
				w.Flag("C02", "mint_quote_settled_by_smaller_melt", "melt of %d sat (mpp=%v, %d msat) settled without any payment against own mint quote %d of %d sat", q.Amount, q.IsMpp, q.AmountMsat, mq.Idx, mq.Amount)
				w.Flag("C03", "mint_quote_settled_by_smaller_melt", "mint quote %d of %d sat marked paid by a melt of %d sat (mpp=%v)", mq.Idx, mq.Amount, q.Amount, q.IsMpp)
			} else {
				mq.Internal++
			}
		}
	case nut05.Pending:
		if inSum < q.Amount+q.FeeReserve+fee {
			w.Flag("C02", "melt_underfunded", "inputs %d < amount %d + fee_reserve %d + fee %d", inSum, q.Amount, q.FeeReserve, fee)
		}
		w.AcceptInputs("melt", inputs, Pending, q.Idx)
		q.State = nut05.Pending
		q.Inputs = secretsOf(inputs)
	case nut05.Unpaid:
		// payment failed definitively: inputs released
		q.State = nut05.Unpaid
		if t := w.payTruth(q); t == lnmodel.TruthSucceeded || t == lnmodel.TruthInflight {
			w.Flag("C05", "released_while_payment_"+t.String()+"|melt", "quote %d reported UNPAID but payment is %s", q.Idx, t)
			// by the ground truth the inputs are paid for / locked: keep them so in the model, so that a later
			// acceptance elsewhere is seen as the double spend it is
			for _, in := range inputs {
				if mp := w.M.Proofs[in.Secret]; mp != nil && mp.State == Unspent {
					mp.State, mp.PendingQ, mp.SpentBy, mp.SpentWitness = Pending, q.Idx, "melt(payment "+t.String()+")", in.Witness
				}
			}
			q.State = nut05.Pending
			q.Inputs = secretsOf(inputs)
		}
	}
	return r, nil
}

func (w *World) noteMeltErrorAfterPay(q *MMeltQuote, inputs cashu.Proofs, pays []lnmodel.Call, err error) {
	// The model cannot know what the mint did with the inputs; resynchronise from the mint's own state
	// and let the ledger decide. Flag for C06 (error answer after a side effect).
	w.Flag("C06", "melt_error_after_payment_attempt", "melt answered %v after %d pay call(s)", err, len(pays))
	w.ResyncProofStates(inputs, q)
	// by the ground truth the inputs are paid for (or locked by a payment in flight), whatever the mint's tables say
	// after its error: keep them so in the model, so that a state report of UNSPENT or a later acceptance elsewhere is
	// seen as the double spend it is
	if t := w.payTruth(q); t == lnmodel.TruthSucceeded || t == lnmodel.TruthInflight {
		for _, in := range inputs {
			if mp := w.M.Proofs[in.Secret]; mp != nil && mp.State == Unspent {
				if t == lnmodel.TruthSucceeded {
					mp.State = Spent
					w.M.Redeemed[mp.P.Id] += mp.P.Amount
				} else {
					mp.State, mp.PendingQ = Pending, q.Idx
				}
				mp.SpentBy, mp.SpentWitness = "melt(answered with an error, payment "+t.String()+")", in.Witness
			}
		}
	}
}

// anyOldKeyset reports whether one of the proofs belongs to a keyset that is no longer active.
func (w *World) anyOldKeyset(ps cashu.Proofs) bool {
	for _, p := range ps {
		if p.Id != w.ActiveID {
			return true
		}
	}
	return false
}

func secretsOf(ps cashu.Proofs) []string {
	out := make([]string, len(ps))
	for i, p := range ps {
		out[i] = p.Secret
	}
	return out
}

func (w *World) payTruth(q *MMeltQuote) lnmodel.Truth {
	p := w.LN.Payment(q.Hash)
	if p == nil {
		return lnmodel.TruthNone
	}
	return p.Truth
}

// checkPaidTruth: a quote reported PAID must correspond to a payment that really succeeded (or an internal
// settlement), and carry its preimage.
func (w *World) checkPaidTruth(q *MMeltQuote, where string) {
	inv := w.Net.InvoiceByHash(q.Hash)
	if q.InternalTo >= 0 && w.payTruth(q) == lnmodel.TruthNone {
		if inv != nil && q.Preimage != inv.Preimage {
			w.Flag("C05", "internal_settlement_wrong_preimage|"+where, "got %q", q.Preimage)
		}
		return
	}
	if t := w.payTruth(q); t != lnmodel.TruthSucceeded {
		w.Flag("C05", "paid_without_successful_payment|"+where, "quote %d PAID but payment truth is %s", q.Idx, t)
	}
	if inv != nil && q.Preimage != inv.Preimage {
		w.Flag("C05", "paid_wrong_preimage|"+where, "quote %d preimage %q want %q", q.Idx, q.Preimage, inv.Preimage)
	}
}

// adoptMeltState moves the model of a PENDING quote to what the mint now reports, if the LN ground truth permits it.
func (w *World) AdoptMeltState(q *MMeltQuote, st nut05.State, preimage, where string) {
	if q.State != nut05.Pending || st == nut05.Pending {
		if q.State != st && !(q.State == nut05.Pending) {
			w.Flag("C05", "final_state_changed|"+where, "quote %d was %s now %s", q.Idx, q.State, st)
		}
		return
	}
	t := w.payTruth(q)
	switch st {
	case nut05.Paid:
		q.State, q.Preimage = nut05.Paid, preimage
		for _, s := range q.Inputs {
			if mp := w.M.Proofs[s]; mp != nil && mp.State == Pending && mp.PendingQ == q.Idx {
				mp.State = Spent
				w.M.Redeemed[mp.P.Id] += mp.P.Amount
			}
		}
		w.checkPaidTruth(q, where)
	case nut05.Unpaid:
		if t == lnmodel.TruthSucceeded || t == lnmodel.TruthInflight {
			w.Flag("C05", "released_while_payment_"+t.String()+"|"+where, "quote %d reported UNPAID but payment is %s", q.Idx, t)
			// the model follows the ground truth: the inputs stay locked
			return
		}
		q.State = nut05.Unpaid
		for _, s := range q.Inputs {
			if mp := w.M.Proofs[s]; mp != nil && mp.State == Pending && mp.PendingQ == q.Idx {
				mp.State = Unspent
				mp.PendingQ = -1
				mp.SpentBy = ""
			}
		}
		q.Inputs = nil
	}
}

func (w *World) PollMeltQuote(q *MMeltQuote) (storage.MeltQuote, error) {
	ctx, cancel := context.WithTimeout(context.Background(), 5*time.Second)
	defer cancel()
	before := w.payTruth(q)
	wasPending := q.State == nut05.Pending
	stFrom := w.LN.LogLen()
	r, err := w.Mint.GetMeltQuoteState(ctx, q.ID)
	w.M.Steps++
	if err != nil {
		return r, err
	}
	w.AdoptMeltState(q, r.State, r.Preimage, "poll")
	// liveness half of C05 (consistent truth only): once the backend knows the final outcome the next poll adopts it
	if wasPending && w.statusAnsweredTruth(stFrom) {
		if before == lnmodel.TruthSucceeded && r.State != nut05.Paid {
			w.Flag("C05", "poll_did_not_adopt_success", "quote %d still %s", q.Idx, r.State)
		}
		if before == lnmodel.TruthFailed && r.State != nut05.Unpaid {
			w.Flag("C05", "poll_did_not_adopt_failure", "quote %d still %s", q.Idx, r.State)
		}
	}
	return r, nil
}

// statusAnsweredTruth reports whether a status lookup logged since `from` was answered from the ground
// truth with a definitive answer (no scripted override, no injected error).
func (w *World) statusAnsweredTruth(from int) bool {
	log := w.LN.Log()
	for i := from; i < len(log); i++ {
		if log[i].Method == "OutgoingPaymentStatus" && (log[i].Answer == "succeeded" || log[i].Answer == "failed") {
			return true
		}
	}
	return false
}

// ---------------------------------------------------------------- state check / restore

// CheckState queries proof states and reconciles the model of pending melts with what the mint resolved.
func (w *World) CheckState(ys []string) ([]nut07.ProofState, error) {
	st, err := w.proofsStateCheck(ys)
	w.M.Steps++
	if err != nil {
		return nil, err
	}
	// the call may have resolved pending quotes: adopt through the quote rows (inner handle, no mint logic)
	for _, q := range w.M.MeltQuotes {
		if q.State == nut05.Pending {
			if row, e := w.Inner().GetMeltQuote(q.ID); e == nil && row.State != nut05.Pending {
				w.AdoptMeltState(q, row.State, row.Preimage, "checkstate")
			}
		}
	}
	return st, nil
}

// ExpectedStates returns the model's answer for a checkstate query (unknown / malformed => UNSPENT).
func (w *World) ExpectedStates(ys []string) []nut07.ProofState {
	byY := map[string]*MProof{}
	for _, p := range w.M.Proofs {
		byY[p.Y] = p
	}
	out := make([]nut07.ProofState, len(ys))
	for i, y := range ys {
		ps := nut07.ProofState{Y: y, State: nut07.Unspent}
		if mp := byY[y]; mp != nil {
			switch mp.State {
			case Pending:
				ps.State, ps.Witness = nut07.Pending, mp.SpentWitness
			case Spent:
				ps.State, ps.Witness = nut07.Spent, mp.SpentWitness
			}
		}
		out[i] = ps
	}
	return out
}

// ResyncProofStates re-reads the states of the given proofs from the mint's tables through the inner
// handle and overwrites the model (used only after outcomes the model cannot predict, e.g. faults).
func (w *World) ResyncProofStates(inputs cashu.Proofs, q *MMeltQuote) {
	ys := make([]string, 0, len(inputs))
	for _, in := range inputs {
		if mp := w.M.Proofs[in.Secret]; mp != nil {
			ys = append(ys, mp.Y)
		}
	}
	if len(ys) == 0 {
		return
	}
	used, _ := w.Inner().GetProofsUsed(ys)
	pend, _ := w.Inner().GetPendingProofs(ys)
	usedY, pendY := map[string]bool{}, map[string]bool{}
	for _, u := range used {
		usedY[u.Y] = true
	}
	for _, p := range pend {
		pendY[p.Y] = true
	}
	for _, in := range inputs {
		mp := w.M.Proofs[in.Secret]
		if mp == nil {
			continue
		}
		old := mp.State
		switch {
		case usedY[mp.Y]:
			mp.State = Spent
			if old != Spent {
				w.M.Redeemed[mp.P.Id] += mp.P.Amount
				mp.SpentBy, mp.SpentWitness = "resync", in.Witness
			}
		case pendY[mp.Y]:
			mp.State = Pending
			if q != nil {
				mp.PendingQ = q.Idx
			}
			mp.SpentBy, mp.SpentWitness = "resync", in.Witness
		default:
			if old == Spent {
				w.Flag("C01", "spent_proof_became_unspent|resync", "secret %s", short(in.Secret))
			}
			mp.State = Unspent
		}
	}
	if q != nil {
		if row, e := w.Inner().GetMeltQuote(q.ID); e == nil {
			q.State, q.Preimage = row.State, row.Preimage
			if row.State == nut05.Pending {
				q.Inputs = secretsOf(inputs)
			}
		}
	}
}

func (w *World) Restore(msgs cashu.BlindedMessages) (cashu.BlindedMessages, cashu.BlindedSignatures, error) {
	if w.Cfg.ReadsViaHTTP && w.Srv != nil {
		body, _ := json.Marshal(nut09.PostRestoreRequest{Outputs: msgs})
		r := httpx.Do(w.Handler(), "POST", "/v1/restore", body, "application/json")
		w.M.Steps++
		if r.Panic != nil {
			return nil, nil, fmt.Errorf("handler panic: %v", r.Panic)
		}
		if r.Status != 200 {
			return nil, nil, fmt.Errorf("HTTP %d %s", r.Status, r.Body)
		}
		var resp nut09.PostRestoreResponse
		if err := json.Unmarshal(r.Body, &resp); err != nil {
			return nil, nil, fmt.Errorf("undecodable restore response: %v", err)
		}
		return resp.Outputs, resp.Signatures, nil
	}
	o, s, err := w.Mint.RestoreSignatures(msgs)
	w.M.Steps++
	return o, s, err
}

// proofsStateCheck asks the mint for proof states, through the HTTP handler when the configuration says so (what
// wallets see; the handler layer may keep answers).
func (w *World) proofsStateCheck(ys []string) ([]nut07.ProofState, error) {
	if w.Cfg.ReadsViaHTTP && w.Srv != nil {
		body, _ := json.Marshal(nut07.PostCheckStateRequest{Ys: ys})
		r := httpx.Do(w.Handler(), "POST", "/v1/checkstate", body, "application/json")
		if r.Panic != nil {
			return nil, fmt.Errorf("handler panic: %v", r.Panic)
		}
		if r.Status != 200 {
			return nil, fmt.Errorf("HTTP %d %s", r.Status, r.Body)
		}
		var resp nut07.PostCheckStateResponse
		if err := json.Unmarshal(r.Body, &resp); err != nil {
			return nil, fmt.Errorf("undecodable checkstate response: %v", err)
		}
		return resp.States, nil
	}
	return w.Mint.ProofsStateCheck(ys)
}

// ---------------------------------------------------------------- ledger (C02)

// Ledger evaluates the money inequality in msat:
//
//	1000*(outstanding ecash) + outflow <= inflow
//
// outstanding = issued - redeemed - (proofs locked by a melt whose payment has really succeeded).
func (w *World) Ledger() (outstandingMsat, outflow, inflow *big.Int, ok bool) {
	out := new(big.Int).SetUint64(w.M.IssuedTotal())
	out.Sub(out, new(big.Int).SetUint64(w.M.RedeemedTotal()))
	for _, mp := range w.M.Proofs {
		if mp.State == Pending && mp.PendingQ >= 0 && mp.PendingQ < len(w.M.MeltQuotes) {
			if w.payTruth(w.M.MeltQuotes[mp.PendingQ]) == lnmodel.TruthSucceeded {
				out.Sub(out, new(big.Int).SetUint64(mp.P.Amount))
			}
		}
	}
	out.Mul(out, big.NewInt(1000))
	of := new(big.Int).SetUint64(w.LN.OutflowMsat)
	in := new(big.Int).SetUint64(w.LN.InflowMsat)
	lhs := new(big.Int).Add(out, of)
	return out, of, in, lhs.Cmp(in) <= 0
}

// CheckLedger flags a C02 violation if the inequality does not hold.
func (w *World) CheckLedger(where string) {
	o, of, in, ok := w.Ledger()
	if !ok {
		w.Flag("C02", "ledger_inequality", "%s: outstanding %s msat + outflow %s msat > inflow %s msat", where, o, of, in)
	}
}

func sha256sum(b []byte) []byte {
	h := sha256Sum(b)
	return h[:]
}

func (w *World) String() string {
	return fmt.Sprintf("world{mintq=%d meltq=%d proofs=%d signed=%d}", len(w.M.MintQuotes), len(w.M.MeltQuotes), len(w.M.Proofs), len(w.M.Signed))
}

// MProofs is a list of model proofs.
type MProofs []*MProof

func (l MProofs) Proofs() cashu.Proofs {
	out := make(cashu.Proofs, len(l))
	for i, p := range l {
		out[i] = p.P
	}
	return out
}

// RecordSignaturesKnown books signatures for outputs of which some may lack a blinding factor (R == nil):
// those are booked as issued value only.
func (w *World) RecordSignaturesKnown(op string, outs []Out, sigs cashu.BlindedSignatures) {
	var known []Out
	var ksigs cashu.BlindedSignatures
	for i := 0; i < len(outs) && i < len(sigs); i++ {
		if outs[i].R == nil {
			w.M.Issued[sigs[i].Id] += sigs[i].Amount
			if _, dup := w.M.Signed[outs[i].Msg.B_]; !dup {
				rec := SignedRec{B_: outs[i].Msg.B_, Amount: sigs[i].Amount, Keyset: sigs[i].Id, C_: sigs[i].C_, Seq: len(w.M.SignedOrder)}
				if sigs[i].DLEQ != nil {
					rec.E, rec.S = sigs[i].DLEQ.E, sigs[i].DLEQ.S
				}
				w.M.Signed[outs[i].Msg.B_] = rec
				w.M.SignedOrder = append(w.M.SignedOrder, outs[i].Msg.B_)
			}
			continue
		}
		known = append(known, outs[i])
		ksigs = append(ksigs, sigs[i])
	}
	w.RecordSignatures(op, known, ksigs)
}

// satAdd adds with saturation at 2^64-1 (the model must not wrap where the code under test might).
func satAdd(a, b uint64) uint64 {
	if a+b < a {
		return ^uint64(0)
	}
	return a + b
}
