// Package race runs small sets of concurrent mint requests under the cooperative scheduler (storage / Lightning
// call granularity) and reports everything the per-property oracles need: what each request was answered, the final
// state of every proof involved, what the mint's own accounting says and what the Lightning model saw.
// It is shared by the schedule units of C01 (double spend), C02 (ledger), C06 (refused requests change nothing)
// and C16 (reported totals); each of them applies its own oracle to the Result.
package race

import (
	"context"
	"fmt"
	"math/big"
	"sync"
	"time"

	"github.com/elnosh/gonuts/cashu"
	"github.com/elnosh/gonuts/cashu/nuts/nut04"
	"github.com/elnosh/gonuts/cashu/nuts/nut05"
	"pgregory.net/rapid"

	"verif/harness/dbproxy"
	"verif/harness/lnmodel"
	"verif/harness/sched"
	"verif/harness/world"
)

// Req is one request of the race.
type Req struct {
	Kind   string `json:"kind"`             // swap | melt | check | pollmelt | mint
	Inputs []int  `json:"inputs,omitempty"` // swap / melt / check: indices into the four funded 8-sat proofs
	LN     string `json:"ln,omitempty"`     // melt: success | pending | failed | error
	// Outs > 0 (swap / mint): requests with the same id submit the very same outputs (one output of 4 sat, valid for
	// every request of a case); 0: fresh outputs for the full value
	Outs int `json:"outs,omitempty"`
	// Quote: mint: which of the paid mint quotes of the case (0, 1); pollmelt: -1 = the quote of the pre-melt,
	// i >= 0 = the quote of request i (a melt)
	Quote int `json:"quote,omitempty"`
	// SameQuote (melt, only with Pre = melt_failed): the melt is a new attempt on the quote of the pre-melt (whose
	// payment has failed, which the mint finds out in a poll or state check of this very race) with other inputs -
	// what a wallet does after a failed payment
	SameQuote bool `json:"same_quote,omitempty"`
}

// Case is a set of requests plus what happens before they start.
type Case struct {
	Reqs []Req  `json:"reqs"`
	Fee  uint   `json:"fee_ppk"`
	Seed uint64 `json:"seed"`
	// Pre: a melt of proof 0 that the backend left pending before the race starts, and what has become of its payment
	// since (unknown to the mint): "" | melt_inflight | melt_succeeded | melt_failed
	Pre    string `json:"pre,omitempty"`
	Choice []int  `json:"choice,omitempty"` // grant vector (enumeration / replay)
}

type Outcome struct {
	Spec     Req
	Err      error
	Accepted bool // swap / mint returned signatures; melt: a pay call for its invoice was issued and that payment is in flight or succeeded
	State    string
	Sigs     cashu.BlindedSignatures
	Outs     []world.Out
	QuoteID  string
	Hash     string
	PayTruth lnmodel.Truth // melt: what has really become of its payment (none if no pay call was issued)
}

type Result struct {
	Outs      []Outcome
	Pre       *Outcome // the pre-melt, if any
	Trace     string
	Opts      []int
	Choices   []int
	Switches  int
	Blocked   int
	SchedErr  error
	Panic     string // "task: value" of the first panicking task
	Funded    world.MProofs
	States    []string // final state per funded proof, by the mint's state check after all requests returned
	StatesErr error
	// accounting
	HandedOutSat   uint64 // sum over every signature any client was handed (funding, accepted swaps and mints)
	IssuedByMint   uint64 // what the mint reports as issued
	RedeemedByMint uint64
	InflowMsat     uint64
	OutflowMsat    uint64
}

var lnAns = map[string]lnmodel.PayAnswer{"success": lnmodel.PaySuccess, "pending": lnmodel.PayPending, "failed": lnmodel.PayFailed, "error": lnmodel.PayError}

// Run executes the case under the chooser. `after` (optional) runs with the world still open, after the Result is
// complete - for follow-up probes of the caller's oracle.
func Run(t world.T, cs Case, choose sched.Chooser, after func(w *world.World, r *Result)) Result {
	w := world.New(t, world.Config{CaseSeed: 100 + cs.Seed, FeePpk: cs.Fee, FeeMode: lnmodel.FeeZero})
	defer w.Close()
	var res Result
	fund := func(amounts []uint64) (*world.MMintQuote, []world.Out) {
		var total uint64
		for _, a := range amounts {
			total += a
		}
		q, err := w.RequestMintQuote(total, nil)
		if err != nil {
			t.Fatalf("setup: %v", err)
		}
		w.PayInvoice(q)
		return q, w.MakeOutputs(amounts, w.ActiveID)
	}
	// four proofs of 8 sat
	q, outs := fund([]uint64{8, 8, 8, 8})
	if _, err := w.MintTokens(q, outs, ""); err != nil {
		t.Fatalf("setup: %v", err)
	}
	res.HandedOutSat += 32
	res.Funded = w.M.ProofsIn(world.Unspent)
	funded := res.Funded
	// paid mint quotes for mint requests (polled once, so that minting does not need the Lightning lookup)
	var mintQuotes []*world.MMintQuote
	for _, r := range cs.Reqs {
		for r.Kind == "mint" && len(mintQuotes) <= r.Quote {
			mq, _ := fund([]uint64{8})
			w.PollMintQuote(mq)
			mintQuotes = append(mintQuotes, mq)
		}
	}
	w.LN.PayByHash = map[string]lnmodel.PayAnswer{}
	w.LN.ErrTruth = lnmodel.TruthNone
	// pre-melt
	var preQuote *world.MMeltQuote
	if cs.Pre != "" {
		in := cashu.Proofs{funded[0].P}
		fee := w.FeeFor(in)
		inv := w.Net.ExternalInvoice((8 - fee) * 1000)
		mq, err := w.RequestMeltQuote(inv.Request, 0)
		if err != nil {
			t.Fatalf("setup: %v", err)
		}
		w.LN.PayByHash[mq.Hash] = lnmodel.PayPending
		r, err := w.Mint.MeltTokens(context.Background(), nut05.PostMeltBolt11Request{Quote: mq.ID, Inputs: in})
		if err != nil || r.State != nut05.Pending {
			t.Fatalf("setup: pre-melt did not stay pending: %v %v", r.State, err)
		}
		switch cs.Pre {
		case "melt_succeeded":
			w.LN.Resolve(mq.Hash, true)
		case "melt_failed":
			w.LN.Resolve(mq.Hash, false)
		}
		res.Pre = &Outcome{Spec: Req{Kind: "melt", Inputs: []int{0}, LN: cs.Pre}, State: r.State.String(), QuoteID: mq.ID, Hash: mq.Hash}
		preQuote = mq
	}
	s := sched.New()
	hook := func(pos string) { s.Yield(pos) }
	w.DB.Hook = func(c *dbproxy.Call) error { hook(c.Method); return nil }
	// which request issued a pay call (several requests of a case may pay on one payment hash: retries on one quote)
	var payMu sync.Mutex
	paidByGid := map[int64]int{}
	reqGid := make([]int64, len(cs.Reqs))
	w.LN.Hook = func(c *lnmodel.Call) error {
		if c.Method == "SendPayment" || c.Method == "PayPartialAmount" {
			payMu.Lock()
			paidByGid[dbproxy.Gid()]++
			payMu.Unlock()
		}
		hook("LN." + c.Method)
		return nil
	}
	res.Outs = make([]Outcome, len(cs.Reqs))
	type prepared struct {
		inputs cashu.Proofs
		outs   []world.Out
		quote  *world.MMeltQuote
		mintQ  *world.MMintQuote
		ys     []string
	}
	preps := make([]prepared, len(cs.Reqs))
	shared := map[int][]world.Out{}
	// preparation (quotes, outputs) happens before the scheduler is armed: hooks ignore the harness goroutine
	for i, r := range cs.Reqs {
		var p prepared
		var total uint64
		for _, ix := range r.Inputs {
			p.inputs = append(p.inputs, funded[ix].P)
			p.ys = append(p.ys, funded[ix].Y)
			total += funded[ix].P.Amount
		}
		fee := w.FeeFor(p.inputs)
		mkOuts := func(value uint64) []world.Out {
			if r.Outs > 0 {
				if shared[r.Outs] == nil {
					shared[r.Outs] = w.MakeOutputs([]uint64{4}, w.ActiveID)
				}
				return shared[r.Outs]
			}
			return w.MakeOutputs(world.Split(value), w.ActiveID)
		}
		switch r.Kind {
		case "swap":
			p.outs = mkOuts(total - fee)
		case "mint":
			p.mintQ = mintQuotes[r.Quote]
			p.outs = mkOuts(8)
		case "melt":
			if r.SameQuote && preQuote != nil && cs.Pre == "melt_failed" {
				p.quote = preQuote
				w.LN.PayByHash[preQuote.Hash] = lnAns[r.LN]
				res.Outs[i].QuoteID, res.Outs[i].Hash = preQuote.ID, preQuote.Hash
				break
			}
			inv := w.Net.ExternalInvoice((total - fee) * 1000)
			mq, err := w.RequestMeltQuote(inv.Request, 0)
			if err != nil {
				t.Fatalf("setup: %v", err)
			}
			p.quote = mq
			w.LN.PayByHash[mq.Hash] = lnAns[r.LN]
			res.Outs[i].QuoteID, res.Outs[i].Hash = mq.ID, mq.Hash
		}
		preps[i] = p
	}
	for i, r := range cs.Reqs {
		i, r, p := i, r, preps[i]
		res.Outs[i].Spec = r
		res.Outs[i].Outs = p.outs
		s.Go(fmt.Sprintf("%s%d", r.Kind, i), func() (any, error) {
			reqGid[i] = dbproxy.Gid()
			switch r.Kind {
			case "swap":
				sigs, err := w.Mint.Swap(p.inputs, world.Msgs(p.outs))
				res.Outs[i].Err, res.Outs[i].Sigs = err, sigs
				res.Outs[i].Accepted = err == nil && len(sigs) == len(p.outs)
			case "mint":
				sigs, err := w.Mint.MintTokens(nut04.PostMintBolt11Request{Quote: p.mintQ.ID, Outputs: world.Msgs(p.outs)})
				res.Outs[i].Err, res.Outs[i].Sigs = err, sigs
				res.Outs[i].Accepted = err == nil && len(sigs) == len(p.outs)
			case "melt":
				ctx, cancel := context.WithTimeout(context.Background(), 20*time.Second)
				defer cancel()
				mq, err := w.Mint.MeltTokens(ctx, nut05.PostMeltBolt11Request{Quote: p.quote.ID, Inputs: p.inputs})
				res.Outs[i].Err = err
				res.Outs[i].State = mq.State.String()
			case "check":
				_, err := w.Mint.ProofsStateCheck(p.ys)
				res.Outs[i].Err = err
			case "pollmelt":
				id := ""
				if r.Quote < 0 && res.Pre != nil {
					id = res.Pre.QuoteID
				} else if r.Quote >= 0 && r.Quote < len(preps) && preps[r.Quote].quote != nil {
					id = preps[r.Quote].quote.ID
				}
				if id != "" {
					mq, err := w.Mint.GetMeltQuoteState(context.Background(), id)
					res.Outs[i].Err, res.Outs[i].State = err, mq.State.String()
				}
			}
			return nil, nil
		})
	}
	var choices []int
	err := s.Run(func(step int, enabled []*sched.Task, cur int) int {
		c := choose(step, enabled, cur)
		choices = append(choices, c)
		return c
	})
	w.DB.Hook, w.LN.Hook = nil, nil
	res.Trace = s.TraceString()
	res.Switches, res.Blocked, res.Choices = s.Switches, s.Blocked, choices
	for _, st := range s.Trace {
		if st.Opts > 1 {
			res.Opts = append(res.Opts, st.Opts)
		}
	}
	res.SchedErr = err
	for _, tk := range s.Tasks() {
		if tk.Panic != nil && res.Panic == "" {
			res.Panic = fmt.Sprintf("%s: %v", tk.Name, tk.Panic)
		}
	}
	if res.SchedErr != nil || res.Panic != "" {
		return res
	}
	// a melt "accepted" its inputs from the moment a pay call for its invoice was issued - unless that payment
	// definitively failed (then the inputs were legitimately released and may be used again)
	paying := func(hash string) bool {
		for _, c := range w.LN.Log() {
			if (c.Method == "SendPayment" || c.Method == "PayPartialAmount") && c.Hash == hash {
				if p := w.LN.Payment(c.Hash); p != nil && (p.Truth == lnmodel.TruthSucceeded || p.Truth == lnmodel.TruthInflight) {
					return true
				}
			}
		}
		return false
	}
	truth := func(hash string) lnmodel.Truth {
		if p := w.LN.Payment(hash); p != nil {
			return p.Truth
		}
		return lnmodel.TruthNone
	}
	payCalls := func(hash string) (n int) {
		for _, c := range w.LN.Log() {
			if (c.Method == "SendPayment" || c.Method == "PayPartialAmount") && c.Hash == hash {
				n++
			}
		}
		return n
	}
	retried := false
	for i, r := range cs.Reqs {
		if r.Kind == "melt" {
			res.Outs[i].Accepted = paying(res.Outs[i].Hash)
			res.Outs[i].PayTruth = truth(res.Outs[i].Hash)
			if r.SameQuote && res.Pre != nil && res.Outs[i].Hash == res.Pre.Hash {
				// a new attempt on the pre-melt's quote: the first pay call for that hash was the pre-melt's
				retried = true
				payMu.Lock()
				paidItself := paidByGid[reqGid[i]] > 0
				payMu.Unlock()
				if payCalls(res.Pre.Hash) < 2 || !paidItself {
					// refused before it paid: whatever the payment record says belongs to another attempt
					res.Outs[i].Accepted, res.Outs[i].PayTruth = false, lnmodel.TruthNone
				}
			}
		}
	}
	if res.Pre != nil {
		res.Pre.Accepted = paying(res.Pre.Hash)
		res.Pre.PayTruth = truth(res.Pre.Hash)
		if retried {
			// the pre-melt's own payment had definitively failed before the race began; what the payment record says
			// now belongs to the new attempt
			res.Pre.Accepted, res.Pre.PayTruth = false, lnmodel.TruthFailed
		}
	}
	for i := range res.Outs {
		if res.Outs[i].Accepted {
			for _, sg := range res.Outs[i].Sigs {
				res.HandedOutSat += sg.Amount
			}
		}
	}
	var ys []string
	for _, fp := range funded {
		ys = append(ys, fp.Y)
	}
	st, err := w.Mint.ProofsStateCheck(ys)
	res.StatesErr = err
	for _, x := range st {
		res.States = append(res.States, x.State.String())
	}
	if iss, e := w.Inner().GetIssuedEcash(); e == nil {
		for _, v := range iss {
			res.IssuedByMint += v
		}
	}
	if red, e := w.Inner().GetRedeemedEcash(); e == nil {
		for _, v := range red {
			res.RedeemedByMint += v
		}
	}
	res.InflowMsat, res.OutflowMsat = w.LN.InflowMsat, w.LN.OutflowMsat
	if after != nil {
		after(w, &res)
	}
	return res
}

// AcceptedBy lists, per funded proof, the kinds of the requests (incl. the pre-melt) that accepted it.
func (r *Result) AcceptedBy(cs Case) [][]string {
	out := make([][]string, len(r.Funded))
	add := func(o Outcome) {
		if !o.Accepted {
			return
		}
		for _, j := range o.Spec.Inputs {
			name := o.Spec.Kind
			if name == "melt" {
				name += "_" + o.Spec.LN
				if o.Spec.SameQuote {
					name += "_retry_on_failed_quote"
				}
			}
			out[j] = append(out[j], name)
		}
	}
	if r.Pre != nil {
		add(*r.Pre)
	}
	for _, o := range r.Outs {
		if o.Spec.Kind == "swap" || o.Spec.Kind == "melt" {
			add(o)
		}
	}
	return out
}

// OutstandingSat is the value of the ecash that clients hold and the mint still honours after the race: everything
// handed out, minus what is spent, minus what is locked by a melt whose payment has really succeeded.
func (r *Result) OutstandingSat(paidLocked func(i int) bool) uint64 {
	out := r.HandedOutSat
	for i, st := range r.States {
		if st == "SPENT" || (st == "PENDING" && paidLocked(i)) {
			out -= r.Funded[i].P.Amount
		}
	}
	return out
}

// LedgerOK evaluates 1000*outstanding + outflow <= inflow in msat.
func (r *Result) LedgerOK(cs Case) (ok bool, outstandingMsat, outflow, inflow *big.Int) {
	locked := func(i int) bool {
		// proof i is PENDING, i.e. locked by a melt: its value is gone once that melt's payment has really succeeded
		paid := func(o Outcome) bool {
			if o.Spec.Kind != "melt" || o.PayTruth != lnmodel.TruthSucceeded {
				return false
			}
			for _, j := range o.Spec.Inputs {
				if j == i {
					return true
				}
			}
			return false
		}
		if r.Pre != nil && paid(*r.Pre) {
			return true
		}
		for _, o := range r.Outs {
			if paid(o) {
				return true
			}
		}
		return false
	}
	out := new(big.Int).SetUint64(r.OutstandingSat(locked))
	out.Mul(out, big.NewInt(1000))
	of := new(big.Int).SetUint64(r.OutflowMsat)
	in := new(big.Int).SetUint64(r.InflowMsat)
	return new(big.Int).Add(out, of).Cmp(in) <= 0, out, of, in
}

func (r *Result) FmtOutcomes() string {
	s := ""
	if r.Pre != nil {
		s += fmt.Sprintf("pre-melt{%s accepted=%v} ", r.Pre.Spec.LN, r.Pre.Accepted)
	}
	for i, x := range r.Outs {
		if i > 0 {
			s += " "
		}
		s += fmt.Sprintf("%s%d{accepted=%v state=%s err=%v}", x.Spec.Kind, i, x.Accepted, x.State, x.Err)
	}
	return s
}

// GenCase draws a case: 2..3 requests that share proof 0 (and sometimes outputs), with or without a pre-melt.
func GenCase(t *rapid.T, kinds []string) Case {
	n := rapid.IntRange(2, 3).Draw(t, "n_requests")
	cs := Case{Fee: rapid.SampledFrom([]uint{0, 100}).Draw(t, "fee"), Seed: rapid.Uint64Range(0, 1000).Draw(t, "seed")}
	cs.Pre = rapid.SampledFrom([]string{"", "", "", "melt_inflight", "melt_succeeded", "melt_succeeded", "melt_failed"}).Draw(t, "pre")
	sharedOuts := rapid.IntRange(0, 3).Draw(t, "shared_outputs") == 0
	mints := 0
	for i := 0; i < n; i++ {
		r := Req{Kind: rapid.SampledFrom(kinds).Draw(t, "kind")}
		switch r.Kind {
		case "swap", "melt", "check":
			// all requests contain proof 0 (the shared secret) plus optionally others - unless they share outputs:
			// then each brings its own input
			r.Inputs = []int{0}
			if sharedOuts && r.Kind == "swap" {
				r.Inputs = []int{i + 1}
				if cs.Pre == "" && rapid.Bool().Draw(t, "also_shared_input") {
					r.Inputs = []int{0}
				}
			} else if rapid.Bool().Draw(t, "more_inputs") {
				r.Inputs = append(r.Inputs, 1+rapid.IntRange(0, 2).Draw(t, "extra_input"))
			}
			if r.Kind == "melt" {
				r.LN = rapid.SampledFrom([]string{"success", "pending", "failed", "error"}).Draw(t, "ln")
				if cs.Pre == "melt_failed" && rapid.Bool().Draw(t, "retry_on_pre_quote") {
					// a new attempt on the failed pre-melt's quote brings other inputs (proof 0 is still locked)
					r.SameQuote = true
					r.Inputs = []int{1}
				}
			}
		case "pollmelt":
			r.Quote = -1
			if cs.Pre == "" {
				// poll the quote of an earlier melt of this case, if any
				r.Quote = -2
				for j := 0; j < i; j++ {
					if cs.Reqs[j].Kind == "melt" {
						r.Quote = j
					}
				}
				if r.Quote == -2 {
					r.Kind, r.Inputs = "check", []int{0}
				}
			}
		case "mint":
			r.Quote = mints
			mints++
		}
		if sharedOuts && (r.Kind == "swap" || r.Kind == "mint") {
			r.Outs = 1
		}
		cs.Reqs = append(cs.Reqs, r)
	}
	return cs
}

// Enumerate explores schedules of cs depth-first below the subtree given by `fixed` (option values of the first
// decisions, never backtracked). maxPreempt < 0: unbounded (complete). Option v at a decision means "the
// (def+v)-th enabled task" where def continues the current task, so option 0 never pre-empts.
//
// LeafCap (0 = none) bounds the number of schedules explored below one `fixed` subtree; Truncated counts the subtrees
// that were cut off by it (a bound on the exploration, reported as such - never a verdict).
var (
	LeafCap   int
	Truncated int
)

func Enumerate(t world.T, cs Case, maxPreempt int, fixed []int, after func(w *world.World, r *Result), onResult func(Result)) int {
	count := 0
	prefix := append([]int{}, fixed...)
	var known []int // branching at the positions of prefix, from the run that produced it
	first, retries := true, 0
	for {
		var branching []int
		var taken []int
		preempts := 0
		invalid := false
		r := Run(t, cs, func(step int, enabled []*sched.Task, cur int) int {
			k := len(taken)
			def := 0
			if cur >= 0 {
				def = cur
			}
			b := len(enabled)
			v := 0
			if k < len(prefix) {
				v = prefix[k]
			}
			if maxPreempt >= 0 && preempts >= maxPreempt && cur >= 0 {
				if k < len(prefix) && v != 0 {
					invalid = true
				}
				taken = append(taken, 0)
				branching = append(branching, 1)
				return cur
			}
			if v >= b {
				invalid = true
				v = 0
			}
			if cur >= 0 && v != 0 {
				preempts++
			}
			taken = append(taken, v)
			branching = append(branching, b)
			return (def + v) % b
		}, after)
		if invalid || len(taken) < len(prefix) {
			if first {
				return count // this subtree does not exist
			}
			// the prefix did not replay the way it was recorded (which task is seen blocked on a lock first is a matter
			// of timing): try again, then give the prefix up as if it were a leaf and move on to its siblings
			if retries < 2 {
				retries++
				continue
			}
			taken, branching = append([]int{}, prefix...), append([]int{}, known...)
			for len(branching) < len(taken) {
				branching = append(branching, 1)
			}
		} else {
			count++
			onResult(r)
			if LeafCap > 0 && count >= LeafCap {
				Truncated++
				return count
			}
		}
		first, retries = false, 0
		i := len(taken) - 1
		for ; i >= len(fixed); i-- {
			if taken[i]+1 < branching[i] {
				break
			}
		}
		if i < len(fixed) {
			return count
		}
		prefix = append(append([]int{}, taken[:i]...), taken[i]+1)
		known = append([]int{}, branching[:i+1]...)
	}
}

// SchedErrReproduces re-runs the case twice with the recorded grant sequence: a scheduler error (tasks blocked for
// good) that shows every time is a property of the code under test (a real deadlock); one that does not is the
// machine being too busy for the watchdog - inconclusive, never a violation.
func SchedErrReproduces(t world.T, cs Case, choices []int) bool {
	for try := 0; try < 2; try++ {
		k := 0
		r := Run(t, cs, func(step int, enabled []*sched.Task, cur int) int {
			c := 0
			if k < len(choices) {
				c = choices[k]
			}
			k++
			if c >= len(enabled) {
				c = 0
			}
			return c
		}, nil)
		if r.SchedErr == nil {
			return false
		}
	}
	return true
}
