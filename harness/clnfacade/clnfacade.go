// Package clnfacade puts the Lightning model (harness/lnmodel) behind an imitation of Core Lightning's REST
// interface, so that the repository's own adapter (mint/lightning/cln.go) runs between the mint and the model:
// amounts cross as msat integers in JSON, pay / listpays / listinvoices / waitinvoice answers are rendered the way
// the adapter expects them from a node, transport errors are real (the connection is dropped without an answer).
// The model keeps the ground truth, scripts and msat ledger; every check that runs a world "via CLN" judges the
// mint *and* the adapter against it.
package clnfacade

import (
	"encoding/json"
	"fmt"
	"io"
	"math/big"
	"net/http"
	"net/http/httptest"
	"strings"
	"sync"

	"github.com/elnosh/gonuts/mint/lightning"

	"verif/harness/lnmodel"
)

type Facade struct {
	B   *lnmodel.Backend
	Srv *httptest.Server

	mu     sync.Mutex
	labels map[string]string // label -> payment hash
	n      int
	// Requested records, per payment hash, the msat amount exactly as the adapter asked for it
	Requested map[string]*big.Int
}

func New(b *lnmodel.Backend) *Facade {
	f := &Facade{B: b, labels: map[string]string{}, Requested: map[string]*big.Int{}}
	f.Srv = httptest.NewServer(http.HandlerFunc(f.serve))
	return f
}

func (f *Facade) Close() {
	f.Srv.CloseClientConnections()
	f.Srv.Close()
}

// Client returns the repository's CLN adapter pointed at the facade.
func (f *Facade) Client() (lightning.Client, error) {
	return lightning.SetupCLNClient(lightning.CLNConfig{RestURL: f.Srv.URL, Rune: "verif"})
}

func fail(rw http.ResponseWriter, code int, msg string) {
	rw.Header().Set("Content-Type", "application/json")
	rw.WriteHeader(code)
	json.NewEncoder(rw).Encode(map[string]any{"code": -1, "message": msg})
}

func ok(rw http.ResponseWriter, v any) {
	rw.Header().Set("Content-Type", "application/json")
	rw.WriteHeader(201)
	json.NewEncoder(rw).Encode(v)
}

// drop closes the connection without an answer: what a network failure looks like to the adapter
func drop(rw http.ResponseWriter) {
	if hj, ok := rw.(http.Hijacker); ok {
		if c, _, err := hj.Hijack(); err == nil {
			c.Close()
			return
		}
	}
	panic(http.ErrAbortHandler)
}

func uintOf(v any) (uint64, *big.Int, bool) {
	num, ok := v.(json.Number)
	if !ok {
		return 0, nil, false
	}
	x, ok := new(big.Int).SetString(num.String(), 10)
	if !ok || x.Sign() < 0 {
		return 0, nil, false
	}
	if !x.IsUint64() {
		return ^uint64(0), x, true
	}
	return x.Uint64(), x, true
}

func (f *Facade) invoiceJSON(hash string) map[string]any {
	inv := f.B.Net.InvoiceByHash(hash)
	if inv == nil {
		return nil
	}
	status := "unpaid"
	if inv.Settled {
		status = "paid"
	} else if inv.Canceled {
		status = "expired" // what Core Lightning reports for an invoice that was not paid in time
	}
	f.mu.Lock()
	label := ""
	for l, h := range f.labels {
		if h == hash {
			label = l
		}
	}
	f.mu.Unlock()
	out := map[string]any{"label": label, "bolt11": inv.Request, "payment_hash": inv.Hash, "status": status,
		"amount_msat": inv.AmountMsat, "expires_at": 4102444800}
	if inv.Settled {
		out["payment_preimage"] = inv.Preimage
	}
	return out
}

func (f *Facade) serve(rw http.ResponseWriter, req *http.Request) {
	raw, _ := io.ReadAll(req.Body)
	dec := json.NewDecoder(strings.NewReader(string(raw)))
	dec.UseNumber()
	var body map[string]any
	dec.Decode(&body)
	str := func(k string) string { s, _ := body[k].(string); return s }
	switch req.URL.Path {
	case "/v1/getinfo":
		ok(rw, map[string]any{"id": "02verif"})
	case "/v1/invoice":
		msat, exact, good := uintOf(body["amount_msat"])
		if !good || !exact.IsUint64() {
			fail(rw, 400, "amount_msat: should be a positive msat amount")
			return
		}
		inv, err := f.B.CreateInvoiceMsat(msat)
		if err != nil {
			if strings.Contains(err.Error(), "MARKER-LN-INTERNAL") {
				drop(rw)
				return
			}
			fail(rw, 400, err.Error())
			return
		}
		f.mu.Lock()
		f.n++
		label := fmt.Sprint(body["label"])
		if label == "" || label == "<nil>" {
			label = fmt.Sprintf("label-%d", f.n)
		}
		f.labels[label] = inv.PaymentHash
		f.Requested[inv.PaymentHash] = exact
		f.mu.Unlock()
		ok(rw, map[string]any{"bolt11": inv.PaymentRequest, "payment_hash": inv.PaymentHash, "expires_at": 4102444800})
	case "/v1/listinvoices":
		hash := str("payment_hash")
		if _, err := f.B.InvoiceStatus(hash); err != nil {
			if strings.Contains(err.Error(), "MARKER-LN-INTERNAL") {
				drop(rw)
				return
			}
			ok(rw, map[string]any{"invoices": []any{}})
			return
		}
		ok(rw, map[string]any{"invoices": []any{f.invoiceJSON(hash)}})
	case "/v1/waitinvoice":
		f.mu.Lock()
		hash := f.labels[str("label")]
		f.mu.Unlock()
		if hash == "" {
			fail(rw, 400, "label not found")
			return
		}
		sub, err := f.B.SubscribeInvoice(req.Context(), hash)
		if err != nil {
			fail(rw, 400, err.Error())
			return
		}
		if _, err := sub.Recv(); err != nil {
			drop(rw)
			return
		}
		ok(rw, f.invoiceJSON(hash))
	case "/v1/pay":
		maxfeeMsat, _, _ := uintOf(body["maxfee"])
		var st lightning.PaymentStatus
		var err error
		if pm, _, partial := uintOf(body["partial_msat"]); partial {
			st, err = f.B.PayPartialAmount(req.Context(), str("bolt11"), pm, maxfeeMsat/1000)
		} else {
			st, err = f.B.SendPayment(req.Context(), str("bolt11"), maxfeeMsat/1000)
		}
		f.mu.Lock()
		f.n++
		alt := f.n%2 == 0
		f.mu.Unlock()
		switch {
		case err != nil && strings.Contains(err.Error(), "transport error"):
			drop(rw) // whatever became of the payment, the adapter gets no answer
		case err != nil:
			fail(rw, 400, err.Error())
		case st.PaymentStatus == lightning.Succeeded:
			ok(rw, map[string]any{"status": "complete", "payment_preimage": st.Preimage})
		case st.PaymentStatus == lightning.Pending:
			ok(rw, map[string]any{"status": "pending"})
		default:
			// a node reports a failed payment either as an error of the pay command or as a result with status failed
			if alt {
				fail(rw, 400, "Ran out of routes to try")
			} else {
				ok(rw, map[string]any{"status": "failed"})
			}
		}
	case "/v1/listpays":
		hash := str("payment_hash")
		st, err := f.B.OutgoingPaymentStatus(req.Context(), hash)
		// the node lists one entry per attempt on a payment hash, oldest first: attempts that failed before the
		// invoice was tried again stay in the list in front of the current one
		var earlier []any
		if p := f.B.Payment(hash); p != nil {
			for i := 0; i < p.FailedBefore; i++ {
				earlier = append(earlier, map[string]any{"payment_hash": hash, "status": "failed"})
			}
		}
		switch {
		case err == lightning.OutgoingPaymentNotFound:
			ok(rw, map[string]any{"pays": []any{}})
		case err != nil:
			drop(rw)
		case st.PaymentStatus == lightning.Succeeded:
			ok(rw, map[string]any{"pays": append(earlier, map[string]any{"payment_hash": hash, "status": "complete", "preimage": st.Preimage})})
		case st.PaymentStatus == lightning.Pending:
			ok(rw, map[string]any{"pays": append(earlier, map[string]any{"payment_hash": hash, "status": "pending"})})
		default:
			ok(rw, map[string]any{"pays": append(earlier, map[string]any{"payment_hash": hash, "status": "failed"})})
		}
	default:
		fail(rw, 404, "unknown command")
	}
}
