// Package httpx serves requests in-process through the mint's real HTTP handler. A handler panic is
// returned to the caller instead of being swallowed by net/http.
package httpx

import (
	"bytes"
	"fmt"
	"net/http"
	"net/http/httptest"
	"runtime/debug"
)

type Response struct {
	Status int
	Body   []byte
	Header http.Header
	Panic  any
	Stack  string
}

// Do serves one request. contentType "" means no Content-Type header.
func Do(h http.Handler, method, path string, body []byte, contentType string) (resp Response) {
	var rd *bytes.Reader
	if body == nil {
		rd = bytes.NewReader(nil)
	} else {
		rd = bytes.NewReader(body)
	}
	req := httptest.NewRequest(method, "http://mint.test"+path, rd)
	if contentType != "" {
		req.Header.Set("Content-Type", contentType)
	}
	rw := httptest.NewRecorder()
	defer func() {
		if r := recover(); r != nil {
			resp.Panic = r
			resp.Stack = string(debug.Stack())
			resp.Status = -1
		}
	}()
	h.ServeHTTP(rw, req)
	resp.Status = rw.Code
	resp.Body = rw.Body.Bytes()
	resp.Header = rw.Header()
	return resp
}

// PanicSite extracts a short description of where a panic happened (first gonuts frame).
func PanicSite(stack string) string {
	lines := bytes.Split([]byte(stack), []byte("\n"))
	for i, l := range lines {
		if bytes.Contains(l, []byte("github.com/elnosh/gonuts/")) && !bytes.Contains(l, []byte("verif")) {
			fn := string(bytes.TrimSpace(l))
			if j := bytes.IndexByte([]byte(fn), '('); j > 0 {
				fn = fn[:j]
			}
			_ = i
			return fmt.Sprintf("%s", lastSegments(fn))
		}
	}
	return "unknown"
}

func lastSegments(fn string) string {
	// github.com/elnosh/gonuts/mint/storage/sqlite.(*SQLiteDB).GetPendingProofs -> sqlite.(*SQLiteDB).GetPendingProofs
	for i := len(fn) - 1; i >= 0; i-- {
		if fn[i] == '/' {
			return fn[i+1:]
		}
	}
	return fn
}
