package c15

import (
	"context"
	"fmt"
	"sort"
	"strings"
	"testing"
	"time"

	"github.com/elnosh/gonuts/cashu"
	"github.com/elnosh/gonuts/cashu/nuts/nut05"
	"github.com/elnosh/gonuts/cashu/nuts/nut07"
	"pgregory.net/rapid"

	"verif/harness/dbproxy"
	"verif/harness/lnmodel"
	"verif/harness/rec"
	"verif/harness/world"
)

// State reports after a melt that met a failing storage.
//
// One melt (each Lightning outcome, incl. a payment that stays in flight and is resolved later) runs against a storage
// whose k-th call - of the melt request itself or of the poll that resolves the pending payment - returns an error.
// Afterwards the storage works again, the payment (if in flight) is resolved, the quote is polled twice, and the state
// of every input is asked. The oracle relates three reports about the same melt: the Lightning ground truth, the
// quote state the mint reports and the proof states the mint reports:
//   - a proof reported PENDING must be locked by a melt that the mint itself reports in flight (quote PENDING),
//   - the inputs of a quote reported PAID are SPENT,
//   - the inputs of a quote reported UNPAID whose payment was never made are not SPENT.
func propFaultStates(t *rapid.T) {
	cfg := world.Config{
		CaseSeed: rapid.Uint64().Draw(t, "case_seed"),
		FeePpk:   rapid.SampledFrom([]uint{0, 100, 1000}).Draw(t, "fee_ppk"),
		FeeMode:  lnmodel.FeePercent,
	}
	w := world.New(t, cfg)
	defer w.Close()
	rec.Eval()
	amounts := []uint64{64, 32, 16, 8, 8, 4, 2, 1}
	fq, err := w.RequestMintQuote(135, nil)
	if err != nil {
		t.Fatalf("setup: %v", err)
	}
	w.PayInvoice(fq)
	if _, err := w.MintTokens(fq, w.MakeOutputs(amounts, w.ActiveID), ""); err != nil {
		t.Fatalf("setup: %v", err)
	}
	amount := rapid.Uint64Range(1, 90).Draw(t, "amount")
	inv := w.Net.ExternalInvoice(amount * 1000)
	q, err := w.RequestMeltQuote(inv.Request, 0)
	if err != nil {
		t.Fatalf("setup melt quote: %v", err)
	}
	var inputs cashu.Proofs
	var sum uint64
	for _, mp := range rapid.Permutation(w.M.ProofsIn(world.Unspent)).Draw(t, "inputs_order") {
		inputs = append(inputs, mp.P)
		sum += mp.P.Amount
		if sum >= q.Amount+q.FeeReserve+w.FeeFor(inputs) {
			break
		}
	}
	if sum < q.Amount+q.FeeReserve+w.FeeFor(inputs) {
		t.Skip("not enough funds")
	}
	var ys []string
	for _, in := range inputs {
		_, y := world.Y(in.Secret)
		ys = append(ys, y)
	}
	plan := rapid.SampledFrom([]string{"success", "success", "failed", "pending_then_success", "pending_then_failed", "error_succeeded", "error_none"}).Draw(t, "ln_plan")
	phase := "melt"
	if strings.HasPrefix(plan, "pending") && rapid.Bool().Draw(t, "fault_in_resolving_poll") {
		phase = "poll"
	}
	switch plan {
	case "success":
		w.LN.PayScript = []lnmodel.PayAnswer{lnmodel.PaySuccess}
	case "failed":
		w.LN.PayScript = []lnmodel.PayAnswer{lnmodel.PayFailed}
	case "pending_then_success", "pending_then_failed":
		w.LN.PayScript = []lnmodel.PayAnswer{lnmodel.PayPending}
	case "error_succeeded":
		w.LN.PayScript, w.LN.ErrTruth = []lnmodel.PayAnswer{lnmodel.PayError}, lnmodel.TruthSucceeded
	case "error_none":
		w.LN.PayScript, w.LN.ErrTruth = []lnmodel.PayAnswer{lnmodel.PayError}, lnmodel.TruthNone
	}
	k := rapid.IntRange(1, 9).Draw(t, "fault_call")
	from := rapid.Bool().Draw(t, "fault_from")
	n, at := 0, ""
	self := dbproxy.Gid()
	hook := func(c *dbproxy.Call) error {
		if c.Gid != self {
			return nil
		}
		n++
		if n == k || (from && n > k) {
			if at == "" {
				at = c.Method
			}
			return fmt.Errorf("injected storage fault: disk I/O error")
		}
		return nil
	}
	ctx, cancel := context.WithTimeout(context.Background(), 20*time.Second)
	defer cancel()
	if phase == "melt" {
		w.DB.Hook = hook
	}
	r, merr := w.Mint.MeltTokens(ctx, nut05.PostMeltBolt11Request{Quote: q.ID, Inputs: inputs})
	w.DB.Hook = nil
	w.LN.PayScript, w.LN.ErrTruth = nil, lnmodel.TruthNone
	if p := w.LN.Payment(q.Hash); p != nil && p.Truth == lnmodel.TruthInflight {
		w.LN.Resolve(q.Hash, plan == "pending_then_success")
	}
	var perr error
	if phase == "poll" {
		w.DB.Hook = hook
		_, perr = w.Mint.GetMeltQuoteState(ctx, q.ID)
		w.DB.Hook = nil
	}
	var st nut05.State
	for i := 0; i < 2; i++ {
		pr, err := w.Mint.GetMeltQuoteState(ctx, q.ID)
		if err != nil {
			t.Fatalf("VIOLATION C15|fault|melt_quote_poll_failed_on_working_storage: %v", err)
		}
		st = pr.State
	}
	states, err := w.Mint.ProofsStateCheck(ys)
	if err != nil || len(states) != len(ys) {
		t.Fatalf("VIOLATION C15|fault|state_check_failed_on_working_storage: %d states, err %v", len(states), err)
	}
	truth := lnmodel.TruthNone
	if p := w.LN.Payment(q.Hash); p != nil {
		truth = p.Truth
	}
	set := map[string]bool{}
	for i, s := range states {
		if s.Y != ys[i] {
			t.Fatalf("VIOLATION C15|fault|states_out_of_request_order: position %d", i)
		}
		set[s.State.String()] = true
	}
	var reported []string
	for s := range set {
		reported = append(reported, s)
	}
	sort.Strings(reported)
	rep := strings.Join(reported, "+")
	what := ""
	switch {
	case set[nut07.Pending.String()] && st != nut05.Pending:
		what = "inputs_reported_pending_without_a_melt_in_flight"
	case st == nut05.Paid && rep != nut07.Spent.String():
		what = "inputs_of_a_paid_melt_not_reported_spent"
	case st == nut05.Unpaid && (truth == lnmodel.TruthNone || truth == lnmodel.TruthFailed) && set[nut07.Spent.String()]:
		what = "inputs_of_an_unpaid_melt_reported_spent"
	case len(set) > 1:
		what = "inputs_of_one_melt_in_different_states"
	}
	fired := at != ""
	if fired {
		rec.NonTrivial(fmt.Sprintf("%s|%s|%s|%d|%v|%d", plan, phase, at, k, from, cfg.FeePpk))
		rec.Class("fault_in_" + phase + "_at_" + at)
		rec.Class("fault_case_plan=" + plan)
		rec.Class(fmt.Sprintf("fault_case_quote=%s_inputs=%s", st, rep))
		rec.Sample("melt_with_storage_fault", map[string]any{"plan": plan, "phase": phase, "fault_at": at, "call": k, "every_later_call_too": from,
			"melt_err": fmt.Sprint(merr), "melt_state": r.State.String(), "poll_err": fmt.Sprint(perr), "payment_truth": truth.String(), "quote": st.String(), "inputs": rep})
	} else {
		rec.Class("fault_never_reached")
	}
	if what == "" {
		return
	}
	pos := at
	if pos == "" {
		pos = "none"
	}
	sig := fmt.Sprintf("C15|fault|%s|in=%s|at=%s|quote=%s|inputs=%s", what, phase, pos, st, rep)
	if rec.IsKnown(sig) {
		return
	}
	t.Fatalf("VIOLATION %s\n  melt of %d sat with %d inputs, ln plan %s, storage fault at call %d (%s, every later call too: %v) of the %s\n  melt answered state=%s err=%v; faulted poll err=%v; payment truth %s\n  after two polls on a working storage the quote is %s and the inputs are reported %v",
		sig, amount, len(inputs), plan, k, pos, from, phase, r.State, merr, perr, truth, st, states)
}

func TestFaultStates(t *testing.T) { rapid.Check(t, propFaultStates) }
