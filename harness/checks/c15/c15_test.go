// C15 — state check and restore tell the truth about everything the mint ever did.
package c15

import (
	"os"
	"strings"
	"testing"

	"pgregory.net/rapid"

	"verif/harness/hist"
	"verif/harness/rec"
)

func TestMain(m *testing.M) {
	code := m.Run()
	rec.Flush()
	os.Exit(code)
}

func propTruth(t *rapid.T) {
	cfg := hist.GenConfig(t, []uint{0, 100, 1000}, false)
	// one history in three asks through the HTTP handler (what wallets see) instead of the Go API
	if rapid.IntRange(0, 2).Draw(t, "reads_via_http") == 0 {
		cfg.WithServer, cfg.ReadsViaHTTP = true, true
	}
	m := hist.Run(t, cfg, hist.Options{
		Weights: hist.Weights(map[string]int{"checkstate": 3, "checkstate_adv": 6, "restore": 6, "locked_spend": 4, "restart": 2, "rotate": 1, "swap_adv": 1, "melt": 5, "meltquote": 4, "resolve": 2, "mint": 1}),
		Owns:    []string{"C15"},
		PropID:  "C15",
	})
	if m.Count["checkstate_mixed_states"] > 0 || m.Count["restore_mixed"] > 0 {
		rec.NonTrivial(strings.Join(m.Trace, "|"))
		if cfg.ReadsViaHTTP {
			rec.Class("history_read_through_http_handler")
		}
		for _, k := range []string{"checkstate_mixed_states", "restore_mixed", "restart", "rotation", "melt_PENDING", "melt_UNPAID", "melt_PAID", "spend_with_witness", "outputs_upper_case_hex", "restore_of_refused_output", "restore_probe_after_refusal", "restore_bulk_request", "checkstate_bulk_query"} {
			if m.Count[k] > 0 {
				rec.Class("history_with_" + k)
			}
		}
		rec.ClassN("queries_mixed_states", m.Count["checkstate_mixed_states"])
		rec.ClassN("restores_mixed", m.Count["restore_mixed"])
		rec.Sample("history", map[string]any{"fee_ppk": cfg.FeePpk, "trace": m.Trace})
	}
}

func TestTruth(t *testing.T) { rapid.Check(t, propTruth) }
