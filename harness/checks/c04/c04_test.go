// C04 — only genuine mint signatures are honoured, at exactly their signed amount.
package c04

import (
	"context"
	"fmt"
	"os"
	"strings"
	"testing"

	"github.com/elnosh/gonuts/cashu"
	"github.com/elnosh/gonuts/cashu/nuts/nut05"
	"pgregory.net/rapid"

	"verif/harness/lnmodel"
	"verif/harness/rec"
	"verif/harness/world"
)

func TestMain(m *testing.M) {
	code := m.Run()
	rec.Flush()
	os.Exit(code)
}

var mutations = []string{
	"none", "none",
	"amount_other_denomination", "amount_other_denomination", "amount_zero", "amount_three", "amount_2^60", "amount_max",
	"id_other_keyset", "id_unknown", "id_non_hex", "id_empty",
	"C_nibble_flip", "C_nibble_flip", "C_negated", "C_negated", "C_other_proof", "C_not_on_curve", "C_wrong_length", "C_non_hex", "C_empty", "C_zero_bytes", "C_uppercase",
	"secret_edit", "secret_other_proof", "secret_append",
	"oversize_secret_genuine", "secret_512_genuine",
	"forged_random_point", "forged_hash_point", "forged_pubkey_as_C",
}

func fund(t *rapid.T, w *world.World, amount uint64) {
	q, err := w.RequestMintQuote(amount, nil)
	if err != nil {
		t.Fatalf("setup mint quote: %v", err)
	}
	w.PayInvoice(q)
	if _, err := w.MintTokens(q, w.MakeOutputs(world.Split(amount), w.ActiveID), ""); err != nil {
		t.Fatalf("setup mint: %v", err)
	}
}

// signedWithSecret gets a proof with a chosen secret blind-signed by spending `from`.
func signedWithSecret(t *rapid.T, w *world.World, from *world.MProof, secret string) (cashu.Proof, bool) {
	fee := w.FeeFor(cashu.Proofs{from.P})
	if from.P.Amount <= fee {
		return cashu.Proof{}, false
	}
	amts := world.Split(from.P.Amount - fee)
	outs := w.MakeOutputs(amts, w.ActiveID)
	last := len(amts) - 1
	outs[last] = w.BlindSecret(secret, amts[last], w.ActiveID)
	if _, err := w.Swap(cashu.Proofs{from.P}, outs); err != nil {
		t.Fatalf("VIOLATION C04|honest_swap_rejected: %v", err)
	}
	mp := w.M.Proofs[secret]
	if mp == nil {
		return cashu.Proof{}, false
	}
	return mp.P, true
}

func flipNibble(s string, i int) string {
	b := []byte(s)
	const hexd = "0123456789abcdef"
	idx := strings.IndexByte(hexd, b[i])
	b[i] = hexd[(idx+1+i%14)%16]
	return string(b)
}

func propGenuine(t *rapid.T) {
	cfg := world.Config{
		FeePpk:   rapid.SampledFrom([]uint{0, 100, 1000}).Draw(t, "fee"),
		SeedIdx:  rapid.IntRange(0, 5).Draw(t, "mint_seed"),
		CaseSeed: rapid.Uint64().Draw(t, "case_seed"),
		FeeMode:  lnmodel.FeeZero,
	}
	w := world.New(t, cfg)
	defer w.Close()
	// 1..3 keysets with proofs on each
	nks := rapid.IntRange(1, 3).Draw(t, "keysets")
	for i := 0; i < nks; i++ {
		if i > 0 {
			if _, err := w.Mint.RotateKeyset(rapid.SampledFrom([]uint{0, 100, 1000}).Draw(t, "rot_fee")); err != nil {
				t.Fatalf("rotate: %v", err)
			}
			w.RefreshKeysets()
		}
		fund(t, w, rapid.Uint64Range(40, 1023).Draw(t, "fund"))
		// a second funding on the same keyset so that denominations occur twice (same key, different proofs)
		fund(t, w, rapid.Uint64Range(40, 1023).Draw(t, "fund2"))
	}
	if rapid.Bool().Draw(t, "restart") {
		if err := w.Restart(false, 0); err != nil {
			t.Fatalf("restart: %v", err)
		}
	}
	trials := rapid.IntRange(3, 8).Draw(t, "trials")
	for n := 0; n < trials; n++ {
		unspent := w.M.ProofsIn(world.Unspent)
		var cands world.MProofs
		for _, p := range unspent {
			// genuinely signed proofs with an over-long secret (left over from an earlier trial) are unspendable by rule
			if p.P.Amount >= 4 && len(p.P.Secret) <= 512 {
				cands = append(cands, p)
			}
		}
		if len(cands) < 2 {
			break
		}
		victim := cands[rapid.IntRange(0, len(cands)-1).Draw(t, "victim")]
		other := cands[rapid.IntRange(0, len(cands)-1).Draw(t, "other")]
		if rapid.Bool().Draw(t, "other_same_key") {
			// prefer a different proof signed with the very same key (same keyset, same denomination)
			for _, c := range cands {
				if c.P.Secret != victim.P.Secret && c.P.Id == victim.P.Id && c.P.Amount == victim.P.Amount {
					other = c
					rec.Class("companion_same_key_available")
					break
				}
			}
		}
		mut := rapid.SampledFrom(mutations).Draw(t, "mutation")
		p := victim.P
		switch mut {
		case "none":
		case "amount_other_denomination":
			e := rapid.IntRange(0, 59).Draw(t, "denom")
			if uint64(1)<<uint(e) == p.Amount {
				e = (e + 1) % 60
			}
			p.Amount = 1 << uint(e)
		case "amount_zero":
			p.Amount = 0
		case "amount_three":
			p.Amount = 3
		case "amount_2^60":
			p.Amount = 1 << 60
		case "amount_max":
			p.Amount = ^uint64(0)
		case "id_other_keyset":
			var o string
			for _, id := range w.KSOrder {
				if id != p.Id {
					o = id
				}
			}
			if o == "" {
				continue
			}
			p.Id = o
		case "id_unknown":
			p.Id = "00ffeeddccbbaa99"
		case "id_non_hex":
			p.Id = "zzzzzzzzzzzzzzzz"
		case "id_empty":
			p.Id = ""
		case "C_nibble_flip":
			p.C = flipNibble(p.C, rapid.IntRange(2, 65).Draw(t, "nibble"))
		case "C_negated":
			// -C: the same x coordinate with the other parity byte
			if p.C[1] == '2' {
				p.C = "03" + p.C[2:]
			} else {
				p.C = "02" + p.C[2:]
			}
		case "C_other_proof":
			if other.P.Secret == victim.P.Secret {
				continue
			}
			p.C = other.P.C
		case "C_not_on_curve":
			p.C = "02" + strings.Repeat("0", 63) + "5" // x=5: 5^3+7=132 is not a square mod p
		case "C_wrong_length":
			p.C = p.C[:64]
		case "C_non_hex":
			p.C = "zz" + p.C[2:]
		case "C_empty":
			p.C = ""
		case "C_zero_bytes":
			p.C = strings.Repeat("00", 33)
		case "C_uppercase":
			p.C = strings.ToUpper(p.C)
		case "secret_edit":
			p.Secret = flipNibble(p.Secret, rapid.IntRange(0, len(p.Secret)-1).Draw(t, "snib"))
		case "secret_other_proof":
			if other.P.Secret == victim.P.Secret {
				continue
			}
			p.Secret = other.P.Secret
		case "secret_append":
			p.Secret += "0"
		case "oversize_secret_genuine", "secret_512_genuine":
			l := 512
			if mut == "oversize_secret_genuine" {
				l = rapid.IntRange(513, 2000).Draw(t, "secret_len")
			}
			// filler of 1-, 2-, 3- or 4-byte characters: the limit is in bytes, whatever the text
			unit := rapid.SampledFrom([]string{"s", "s", "\u00e9", "\u4e16", "\U0001F95C", "\x00"}).Draw(t, "secret_filler")
			sec := w.NewSecret()[:16]
			for len(sec)+len(unit) <= l {
				sec = unit + sec
			}
			for len(sec) < l {
				sec = "s" + sec
			}
			if len(unit) > 1 {
				rec.Class(fmt.Sprintf("secret_%s_multibyte_filler", map[bool]string{true: "over_512_bytes", false: "of_512_bytes"}[l > 512]))
			}
			np, ok := signedWithSecret(t, w, victim, sec)
			if !ok {
				continue
			}
			p = np
		case "forged_random_point":
			_, y := world.Y("forged" + w.NewSecret())
			p = cashu.Proof{Amount: p.Amount, Id: p.Id, Secret: w.NewSecret(), C: y}
		case "forged_hash_point":
			s := w.NewSecret()
			_, y := world.Y(s)
			p = cashu.Proof{Amount: p.Amount, Id: p.Id, Secret: s, C: y}
		case "forged_pubkey_as_C":
			pk, _ := w.Keysets[p.Id].Pub(p.Amount)
			p = cashu.Proof{Amount: p.Amount, Id: p.Id, Secret: w.NewSecret(), C: pk.Hex()}
		}
		// independent verdict
		genuine := len(p.Secret) <= 512 && w.GenuineRef(p)
		if mp := w.M.Proofs[p.Secret]; mp != nil && mp.State != world.Unspent {
			continue
		}
		target := rapid.SampledFrom([]string{"swap", "swap", "melt"}).Draw(t, "target")
		inputs := cashu.Proofs{p}
		claimed := p.Amount
		// optionally present the proof together with a genuine unspent companion, before or after it
		companion := rapid.SampledFrom([]string{"none", "none", "before", "after"}).Draw(t, "companion")
		if companion != "none" && other.P.Secret != victim.P.Secret && other.P.Secret != p.Secret && claimed < 1<<40 {
			if companion == "before" {
				inputs = cashu.Proofs{other.P, p}
			} else {
				inputs = cashu.Proofs{p, other.P}
			}
			claimed += other.P.Amount
			rec.Class("companion=" + companion)
		}
		fee := w.FeeFor(inputs)
		var err error
		reached := true
		if target == "swap" {
			var outs []world.Out
			switch {
			case claimed > fee && claimed-fee < 1<<59:
				outs = w.MakeOutputs(world.Split(claimed-fee), w.ActiveID)
			default:
				outs = w.MakeOutputs([]uint64{1}, w.ActiveID)
				if claimed <= fee {
					reached = false // refused for balance reasons before proof verification
				}
			}
			_, err = w.Swap(inputs, outs)
		} else {
			amt := uint64(1)
			if claimed > fee+1 && claimed < 1<<40 {
				amt = claimed - fee
			}
			if claimed < amt+fee {
				reached = false
			}
			inv := w.Net.ExternalInvoice(amt * 1000)
			q, qerr := w.RequestMeltQuote(inv.Request, 0)
			if qerr != nil {
				t.Fatalf("setup melt quote: %v", qerr)
			}
			var r any
			mq, merr := w.MeltTokens(q, inputs)
			r, err = mq, merr
			if merr == nil && mq.State != nut05.Paid {
				t.Fatalf("VIOLATION C04|melt_not_paid: state %v", r)
			}
			if merr == nil {
				// the quote is paid: presenting it once more with inputs the reference does not find genuine (a forged
				// proof, the spent proof with another amount) must be refused like any other request
				forged := cashu.Proof{Amount: p.Amount, Id: p.Id, Secret: w.NewSecret(), C: "02" + strings.Repeat("cd", 32)}
				changed := p
				changed.Amount *= 2
				for _, bad := range []cashu.Proof{forged, changed} {
					if r2, err2 := w.Mint.MeltTokens(context.Background(), nut05.PostMeltBolt11Request{Quote: q.ID, Inputs: cashu.Proofs{bad}}); err2 == nil {
						t.Fatalf("VIOLATION C04|melt_of_paid_quote_accepts_any_input: quote %s already paid; a melt request with input {amount %d secret %.16q C %.20s} was answered without error (state %s)", q.ID, bad.Amount, bad.Secret, bad.C, r2.State)
					}
				}
				rec.Class("melt_retry_on_paid_quote_with_bad_inputs")
			}
		}
		accepted := err == nil
		rec.Eval()
		if !reached && !accepted {
			// the claimed amount cannot even cover the fee: refused for balance reasons, no verdict on the proof
			rec.Class("not_reached_balance")
			w.TakeFlags()
			continue
		}
		canon := fmt.Sprintf("%s|%s|ks=%d|amt=%d|genuine=%v", mut, target, len(w.KSOrder), victim.P.Amount, genuine)
		if mut != "none" && reached {
			rec.NonTrivial(canon + "|" + p.Secret[:min(8, len(p.Secret))] + p.C[:min(10, len(p.C))])
		}
		rec.Class("mutation=" + mut)
		rec.Class("target=" + target)
		if accepted != genuine {
			sig := fmt.Sprintf("C04|%s|%s|accepted=%v|genuine=%v", mut, target, accepted, genuine)
			if !rec.IsKnown(sig) {
				t.Fatalf("VIOLATION %s: proof {amount %d id %q secret %q(len %d) C %q} presented to %s: mint err=%v, reference says genuine=%v (victim was amount %d id %s)",
					sig, p.Amount, p.Id, p.Secret[:min(40, len(p.Secret))], len(p.Secret), p.C, target, err, genuine, victim.P.Amount, victim.P.Id)
			}
		}
		// drop model conflicts already covered by the verdict comparison
		w.TakeFlags()
		rec.Sample("mutation_"+mut, map[string]any{"mutation": mut, "target": target, "accepted": accepted, "genuine_by_reference": genuine, "error": fmt.Sprint(err), "keysets": len(w.KSOrder)})
	}
}

func TestGenuine(t *testing.T) { rapid.Check(t, propGenuine) }
