package c04

import (
	"encoding/json"
	"fmt"
	"strings"
	"testing"

	"github.com/elnosh/gonuts/cashu"
	"github.com/elnosh/gonuts/cashu/nuts/nut03"
	"pgregory.net/rapid"

	"verif/harness/httpx"
	"verif/harness/lnmodel"
	"verif/harness/rec"
	"verif/harness/world"
)

// The same verdicts through POST /v1/swap, where a response cache sits in front of the verification: an honest swap
// is accepted, then requests that re-use its outputs (or its inputs) with inputs the reference does not find genuine
// and unspent are sent - each must be refused, whatever the handler remembers of the accepted request.
func propGenuineHTTP(t *rapid.T) {
	cfg := world.Config{
		FeePpk:     rapid.SampledFrom([]uint{0, 100, 1000}).Draw(t, "fee"),
		SeedIdx:    rapid.IntRange(0, 5).Draw(t, "mint_seed"),
		CaseSeed:   rapid.Uint64().Draw(t, "case_seed"),
		FeeMode:    lnmodel.FeeZero,
		WithServer: true,
	}
	w := world.New(t, cfg)
	defer w.Close()
	fund(t, w, rapid.Uint64Range(100, 1023).Draw(t, "fund"))
	fund(t, w, rapid.Uint64Range(100, 1023).Draw(t, "fund2"))
	post := func(inputs cashu.Proofs, msgs cashu.BlindedMessages) (int, []byte) {
		body, _ := json.Marshal(nut03.PostSwapRequest{Inputs: inputs, Outputs: msgs})
		r := httpx.Do(w.Handler(), "POST", "/v1/swap", body, "application/json")
		if r.Panic != nil {
			t.Fatalf("VIOLATION C04|http|panic: %v\n%s", r.Panic, r.Stack[:min(len(r.Stack), 1200)])
		}
		rec.Eval()
		return r.Status, r.Body
	}
	var cands world.MProofs
	for _, p := range w.M.ProofsIn(world.Unspent) {
		if p.P.Amount >= 4 {
			cands = append(cands, p)
		}
	}
	if len(cands) < 3 {
		t.Skip("too few proofs")
	}
	perm := rapid.Permutation(cands).Draw(t, "proofs")
	honest, spare := perm[0], perm[1]
	inputs := cashu.Proofs{honest.P}
	fee := w.FeeFor(inputs)
	if honest.P.Amount <= fee {
		t.Skip("fee eats the proof")
	}
	outs := w.MakeOutputs(world.Split(honest.P.Amount-fee), w.ActiveID)
	msgs := world.Msgs(outs)
	st, body := post(inputs, msgs)
	if st != 200 {
		t.Fatalf("VIOLATION C04|http|honest_swap_refused: %d %s", st, body)
	}
	var resp nut03.PostSwapResponse
	json.Unmarshal(body, &resp)
	w.AcceptInputs("swap", inputs, world.Spent, -1)
	w.RecordSignatures("swap", outs, resp.Signatures)
	w.TakeFlags()
	n := rapid.IntRange(2, 5).Draw(t, "followups")
	for i := 0; i < n; i++ {
		how := rapid.SampledFrom([]string{"same_outputs_amount_changed", "same_outputs_secret_changed", "same_outputs_other_C", "same_outputs_unknown_keyset", "same_outputs_forged", "same_outputs_spare_proof", "same_inputs_new_outputs", "same_outputs_C_upper_case", "omitted_members_after_refused_request", "omitted_members_after_refused_request"}).Draw(t, "followup")
		p := honest.P
		useMsgs := msgs
		if how == "omitted_members_after_refused_request" {
			// a request with a genuine unspent proof is refused for its outputs (they ask for one unit too much); the next
			// request names no proof at all - its input objects leave members out - and asks for that proof's value
			var gen *world.MProof
			for _, c := range perm[1:] {
				if c.State == world.Unspent && c.P.Amount > w.FeeFor(cashu.Proofs{c.P}) {
					gen = c
					break
				}
			}
			if gen == nil {
				continue
			}
			gfee := w.FeeFor(cashu.Proofs{gen.P})
			over := world.Msgs(w.MakeOutputs(world.Split(gen.P.Amount-gfee+1), w.ActiveID))
			if st, body := post(cashu.Proofs{gen.P}, over); st == 200 {
				t.Fatalf("VIOLATION C04|http|swap_for_more_than_the_inputs_accepted: %.200s", body)
			}
			fresh := world.Msgs(w.MakeOutputs(world.Split(gen.P.Amount-gfee), w.ActiveID))
			outsJSON, _ := json.Marshal(fresh)
			shape := rapid.SampledFrom([]string{`{}`, `{"amount":%d}`, `{"amount":%d,"id":"%s"}`, `{"secret":"%s"}`}).Draw(t, "omitted_shape")
			in := shape
			switch strings.Count(shape, "%") {
			case 1:
				if strings.Contains(shape, "secret") {
					in = fmt.Sprintf(shape, gen.P.Secret)
				} else {
					in = fmt.Sprintf(shape, gen.P.Amount)
				}
			case 2:
				in = fmt.Sprintf(shape, gen.P.Amount, gen.P.Id)
			}
			raw := []byte(`{"inputs":[` + in + `],"outputs":` + string(outsJSON) + `}`)
			r := httpx.Do(w.Handler(), "POST", "/v1/swap", raw, "application/json")
			rec.Eval()
			rec.Class("http_followup=" + how)
			rec.NonTrivial(fmt.Sprintf("http|%s|%s|%d", how, shape, cfg.FeePpk))
			if r.Panic != nil {
				t.Fatalf("VIOLATION C04|http|panic: %v", r.Panic)
			}
			if r.Status == 200 {
				t.Fatalf("VIOLATION C04|http|input_with_omitted_members_accepted: after a refused swap of proof {amount %d secret %.16s} the request %.300s was answered 200 %.200s", gen.P.Amount, gen.P.Secret, raw, r.Body)
			}
			if sts, err := w.Mint.ProofsStateCheck([]string{gen.Y}); err != nil || len(sts) != 1 || sts[0].State.String() != "UNSPENT" {
				t.Fatalf("VIOLATION C04|http|refused_genuine_proof_changed_state: %v %v", sts, err)
			}
			continue
		}
		switch how {
		case "same_outputs_amount_changed":
			p.Amount *= 2
		case "same_outputs_secret_changed":
			p.Secret += "x"
		case "same_outputs_other_C":
			p.C = spare.P.C
		case "same_outputs_unknown_keyset":
			p.Id = "00ffeeddccbbaa99"
		case "same_outputs_forged":
			p = cashu.Proof{Amount: honest.P.Amount, Id: honest.P.Id, Secret: w.NewSecret(), C: "02" + strings.Repeat("ab", 32)}
		case "same_outputs_spare_proof":
			// a genuine unspent proof of the same value, asking for the outputs that were signed already: refused, and the
			// proof must stay unspent
			var same *world.MProof
			for _, c := range perm[1:] {
				if c.P.Amount == honest.P.Amount && c.P.Id == honest.P.Id && c.State == world.Unspent {
					same = c
					break
				}
			}
			if same == nil {
				continue
			}
			p = same.P
		case "same_inputs_new_outputs":
			useMsgs = world.Msgs(w.MakeOutputs(world.Split(honest.P.Amount-fee), w.ActiveID))
		case "same_outputs_C_upper_case":
			p.C = strings.ToUpper(p.C)
		}
		st, body := post(cashu.Proofs{p}, useMsgs)
		rec.Class("http_followup=" + how)
		rec.NonTrivial(fmt.Sprintf("http|%s|%d|%d", how, honest.P.Amount, cfg.FeePpk))
		if st == 200 {
			sig := "C04|http|accepted_after_cached_swap|" + how
			if !rec.IsKnown(sig) {
				t.Fatalf("VIOLATION %s: after the accepted swap of proof {amount %d id %s secret %.16s} the request with input {amount %d id %q secret %.16q C %.20q} and %d outputs was answered 200 %.200s",
					sig, honest.P.Amount, honest.P.Id, honest.P.Secret, p.Amount, p.Id, p.Secret, p.C, len(useMsgs), body)
			}
		}
		if how == "same_outputs_spare_proof" {
			if sts, err := w.Mint.ProofsStateCheck([]string{w.M.Proofs[p.Secret].Y}); err != nil || len(sts) != 1 || sts[0].State.String() != "UNSPENT" {
				t.Fatalf("VIOLATION C04|http|refused_genuine_proof_changed_state: %v %v", sts, err)
			}
		}
		rec.Sample("http_followup", map[string]any{"how": how, "status": st, "body": string(body[:min(len(body), 120)])})
	}
}

func TestGenuineHTTP(t *testing.T) { rapid.Check(t, propGenuineHTTP) }
