// C08 — unlinkability: the mint never receives a blinding factor.
package c08

import (
	"os"
	"strings"
	"testing"

	"pgregory.net/rapid"

	"verif/harness/rec"
	"verif/harness/whist"
)

func TestMain(m *testing.M) {
	code := m.Run()
	rec.Flush()
	os.Exit(code)
}

func weights() map[string]int {
	w := map[string]int{}
	for k, v := range whist.DefaultWeights {
		w[k] = v
	}
	w["restore"] = 1
	w["send_p2pk"] = 3
	w["send_htlc"] = 2
	w["mintswap"] = 2
	w["reclaim"] = 2
	return w
}

func propHistory(t *rapid.T) {
	m := whist.New(t, whist.Options{
		Weights: weights(),
		Owns:    map[string]bool{"C08": true},
		Wallets: rapid.IntRange(2, 3).Draw(t, "wallets"),
		Mints:   rapid.IntRange(1, 2).Draw(t, "mints"),
		Fees:    []uint{0, 100, 1000},
	})
	defer m.Close()
	rec.Eval()
	t.Repeat(map[string]func(*rapid.T){"step": m.Step})
	if m.Count["c08_nontrivial"] > 0 {
		for _, k := range []string{"receive_from_other_wallet", "receive_cross_mint", "melt_paid", "melt_pending", "reclaim", "mintswap_success", "restore", "send_p2pk", "send_htlc", "rotation"} {
			if m.Count[k] > 0 {
				rec.Class("history_with_" + k)
			}
		}
		rec.ClassN("requests_with_inputs_from_wallet_holding_r", m.Count["c08_nontrivial"])
		rec.Sample("history", map[string]any{"trace": m.Trace})
	}
	_ = strings.Join
}

func TestHistory(t *testing.T) { rapid.Check(t, propHistory) }
