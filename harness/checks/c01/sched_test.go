package c01

import (
	"encoding/json"
	"fmt"
	"os"
	"strconv"
	"strings"
	"testing"

	"github.com/elnosh/gonuts/cashu"
	"pgregory.net/rapid"

	"verif/harness/race"
	"verif/harness/rec"
	"verif/harness/sched"
	"verif/harness/world"
)

// A concurrent case: 2..3 requests over overlapping input sets on a fresh mint (optionally after a melt that was left
// pending), interleaved at storage / Lightning call granularity by the cooperative scheduler. The harness is shared
// (package race); this file holds the C01 oracle.

type reqSpec = race.Req
type caseSpec = race.Case

type execResult struct {
	race.Result
	violation string
	detail    string
	knownHit  bool
}

var kinds = []string{"swap", "swap", "melt", "melt", "check", "pollmelt"}

// oracle: the C01 verdict over one executed schedule; runs with the world still open (follow-up probes).
func oracle(cs caseSpec, res *execResult) func(w *world.World, r *race.Result) {
	return func(w *world.World, r *race.Result) {
		// per secret at most one accepting operation; every unordered pair of accepting operations is a violation
		// with its own signature
		accepted := r.AcceptedBy(cs)
		for ix, by := range accepted {
			if len(by) <= 1 {
				continue
			}
			var kindsOnly []string
			for _, b := range by {
				kindsOnly = append(kindsOnly, strings.SplitN(b, "_", 2)[0])
			}
			sortStrings(kindsOnly)
			pairs := map[string]bool{}
			for a := 0; a < len(kindsOnly); a++ {
				for b := a + 1; b < len(kindsOnly); b++ {
					pairs[kindsOnly[a]+"+"+kindsOnly[b]] = true
				}
			}
			for pr := range pairs {
				sig := "C01|sched|ops=" + pr + "|shared_input|symptom=both_accepted"
				if rec.IsKnown(sig) {
					res.knownHit = true
					continue
				}
				res.violation = sig
				res.detail = fmt.Sprintf("secret #%d (%s) accepted by %v; outcomes %s; schedule: %s", ix, r.Funded[ix].P.Secret[:12], by, r.FmtOutcomes(), r.Trace)
				return
			}
		}
		if res.knownHit {
			return
		}
		if r.StatesErr != nil {
			res.violation, res.detail = "C01|sched|final_checkstate_failed", r.StatesErr.Error()
			return
		}
		// final states: every secret accepted by a swap is SPENT; a secret that a melt accepted (payment in flight or
		// succeeded) is locked or spent, whatever the other requests did on their way out - and a further spend of
		// it, after everything has settled down, is refused
		for ix, by := range accepted {
			if len(by) == 0 {
				continue
			}
			if by[0] == "swap" && r.States[ix] != "SPENT" {
				res.violation = "C01|sched|swapped_secret_not_spent"
				res.detail = fmt.Sprintf("secret #%d swapped but reported %s; schedule: %s", ix, r.States[ix], r.Trace)
				return
			}
			// a new attempt on a quote whose earlier payment failed: the signature says how many requests of the case
			// look the payment up (one finds the failure out; a second one can meet the new attempt before its pay call)
			retry := ""
			if strings.Contains(by[0], "retry_on_failed_quote") {
				n := 0
				for _, q := range cs.Reqs {
					if q.Kind == "pollmelt" || q.Kind == "check" {
						n++
					}
				}
				retry = fmt.Sprintf("|lookups=%d", n)
			}
			if r.States[ix] == "UNSPENT" {
				sig := "C01|sched|accepted_secret_reported_unspent|by=" + by[0] + retry
				if rec.IsKnown(sig) {
					res.knownHit = true
					continue
				}
				res.violation = sig
				res.detail = fmt.Sprintf("secret #%d was accepted by %s but is reported UNSPENT once all requests have returned; outcomes %s; schedule: %s", ix, by[0], r.FmtOutcomes(), r.Trace)
				return
			}
			in := cashu.Proofs{r.Funded[ix].P}
			fee := w.FeeFor(in)
			if _, err := w.Mint.Swap(in, world.Msgs(w.MakeOutputs(world.Split(r.Funded[ix].P.Amount-fee), w.ActiveID))); err == nil {
				res.violation = "C01|sched|accepted_secret_spendable_again|by=" + by[0] + retry
				res.detail = fmt.Sprintf("secret #%d was accepted by %s and a later swap of it succeeded; outcomes %s; schedule: %s", ix, by[0], r.FmtOutcomes(), r.Trace)
				return
			}
		}
	}
}

// run executes the case under the chooser and applies the oracle.
func run(t world.T, cs caseSpec, choose sched.Chooser) execResult {
	var res execResult
	res.Result = race.Run(t, cs, choose, oracle(cs, &res))
	if res.SchedErr != nil {
		if race.SchedErrReproduces(t, cs, res.Choices) {
			res.violation, res.detail = "C01|sched|scheduler_error", res.SchedErr.Error()
		} else {
			rec.Inconclusive()
		}
	} else if res.Panic != "" {
		res.violation, res.detail = "C01|sched|panic|"+strings.SplitN(res.Panic, ":", 2)[0], res.Panic
	}
	return res
}

func sortStrings(s []string) {
	for i := 1; i < len(s); i++ {
		for j := i; j > 0 && s[j] < s[j-1]; j-- {
			s[j], s[j-1] = s[j-1], s[j]
		}
	}
}

func genCase(t *rapid.T) caseSpec { return race.GenCase(t, kinds) }

func record(cs caseSpec, r execResult) {
	rec.Eval()
	ks := []string{}
	spending := 0
	for _, q := range cs.Reqs {
		ks = append(ks, q.Kind)
		if q.Kind == "swap" || q.Kind == "melt" {
			spending++
		}
	}
	if cs.Pre != "" {
		spending++
		rec.Class("sched_pre=" + cs.Pre)
	}
	sortStrings(ks)
	rec.Class("sched_ops=" + strings.Join(ks, "+"))
	if spending >= 2 && r.Switches >= 1 {
		rec.NonTrivial(fmt.Sprintf("%v|%s|%v", cs.Reqs, cs.Pre, r.Choices))
		rec.Class("sched_nontrivial")
	}
	if r.Blocked > 0 {
		rec.Class("sched_blocked_task_seen")
	}
}

func propSched(t *rapid.T) {
	cs := genCase(t)
	r := run(t, cs, func(step int, enabled []*sched.Task, cur int) int {
		return rapid.IntRange(0, len(enabled)-1).Draw(t, "grant")
	})
	record(cs, r)
	if r.violation != "" && !rec.IsKnown(r.violation) {
		t.Fatalf("VIOLATION %s: %s", r.violation, r.detail)
	}
	if r.Switches >= 1 {
		rec.Sample("schedule", map[string]any{"requests": cs.Reqs, "pre": cs.Pre, "outcomes": r.FmtOutcomes(), "schedule": r.Trace})
	}
}

func TestSched(t *testing.T) { rapid.Check(t, propSched) }

// ---------------------------------------------------------------- systematic enumeration

type fatalT struct{ t *testing.T }

func (f fatalT) Fatalf(format string, a ...any) { f.t.Fatalf(format, a...) }
func (f fatalT) Logf(format string, a ...any)   {}

func enumerate(t *testing.T, cs caseSpec, maxPreempt int, fixed []int, onResult func(execResult)) int {
	var cur execResult
	return race.Enumerate(fatalT{t}, cs, maxPreempt, fixed, func(w *world.World, r *race.Result) {
		cur = execResult{}
		oracle(cs, &cur)(w, r)
	}, func(r race.Result) {
		out := cur
		out.Result = r
		if r.SchedErr != nil {
			if race.SchedErrReproduces(fatalT{t}, cs, r.Choices) {
				out.violation, out.detail = "C01|sched|scheduler_error", r.SchedErr.Error()
			} else {
				rec.Inconclusive()
			}
		} else if r.Panic != "" {
			out.violation, out.detail = "C01|sched|panic|"+strings.SplitN(r.Panic, ":", 2)[0], r.Panic
		}
		cur = execResult{}
		onResult(out)
	})
}

func pairName(cs caseSpec) string {
	var k []string
	if cs.Pre != "" {
		k = append(k, "pre_"+cs.Pre)
	}
	for _, r := range cs.Reqs {
		k = append(k, r.Kind+r.LN)
		if r.SameQuote {
			k[len(k)-1] += "retry"
		}
	}
	return strings.Join(k, "_")
}

var pairCases = []caseSpec{
	{Reqs: []reqSpec{{Kind: "swap", Inputs: []int{0}}, {Kind: "swap", Inputs: []int{0, 1}}}},
	{Reqs: []reqSpec{{Kind: "swap", Inputs: []int{0}}, {Kind: "melt", Inputs: []int{0}, LN: "success"}}},
	{Reqs: []reqSpec{{Kind: "swap", Inputs: []int{0, 1}}, {Kind: "melt", Inputs: []int{0}, LN: "pending"}}},
	{Reqs: []reqSpec{{Kind: "swap", Inputs: []int{0}}, {Kind: "melt", Inputs: []int{0}, LN: "failed"}}},
	{Reqs: []reqSpec{{Kind: "swap", Inputs: []int{0}}, {Kind: "melt", Inputs: []int{0}, LN: "error"}}},
	{Reqs: []reqSpec{{Kind: "melt", Inputs: []int{0}, LN: "success"}, {Kind: "melt", Inputs: []int{0, 1}, LN: "success"}}},
	{Reqs: []reqSpec{{Kind: "melt", Inputs: []int{0}, LN: "pending"}, {Kind: "melt", Inputs: []int{0}, LN: "failed"}}},
	{Reqs: []reqSpec{{Kind: "melt", Inputs: []int{0}, LN: "success"}, {Kind: "check", Inputs: []int{0}}}},
	{Reqs: []reqSpec{{Kind: "swap", Inputs: []int{0}}, {Kind: "check", Inputs: []int{0}}}},
	{Reqs: []reqSpec{{Kind: "melt", Inputs: []int{0}, LN: "failed"}, {Kind: "check", Inputs: []int{0}}}},
	// a melt that was left pending before, its payment meanwhile succeeded / failed: the request that finds out races
	// a spend of the same secret
	{Pre: "melt_succeeded", Reqs: []reqSpec{{Kind: "check", Inputs: []int{0}}, {Kind: "swap", Inputs: []int{0}}}},
	{Pre: "melt_succeeded", Reqs: []reqSpec{{Kind: "pollmelt", Quote: -1}, {Kind: "swap", Inputs: []int{0}}}},
	{Pre: "melt_succeeded", Reqs: []reqSpec{{Kind: "pollmelt", Quote: -1}, {Kind: "melt", Inputs: []int{0}, LN: "success"}}},
	{Pre: "melt_failed", Reqs: []reqSpec{{Kind: "check", Inputs: []int{0}}, {Kind: "swap", Inputs: []int{0}}}},
	{Pre: "melt_inflight", Reqs: []reqSpec{{Kind: "pollmelt", Quote: -1}, {Kind: "swap", Inputs: []int{0}}}},
	// a melt whose payment has failed, which the mint has not found out yet: the poll / state check that finds out
	// races the wallet's next attempt on the same quote (other inputs, proof 0 is still locked)
	{Pre: "melt_failed", Reqs: []reqSpec{{Kind: "pollmelt", Quote: -1}, {Kind: "melt", Inputs: []int{1}, LN: "pending", SameQuote: true}}},
	{Pre: "melt_failed", Reqs: []reqSpec{{Kind: "check", Inputs: []int{0}}, {Kind: "melt", Inputs: []int{1}, LN: "pending", SameQuote: true}}},
	{Pre: "melt_failed", Reqs: []reqSpec{{Kind: "pollmelt", Quote: -1}, {Kind: "melt", Inputs: []int{1}, LN: "success", SameQuote: true}}},
	{Pre: "melt_failed", Reqs: []reqSpec{{Kind: "pollmelt", Quote: -1}, {Kind: "melt", Inputs: []int{1}, LN: "pending", SameQuote: true}, {Kind: "pollmelt", Quote: -1}}},
	{Pre: "melt_failed", Reqs: []reqSpec{{Kind: "pollmelt", Quote: -1}, {Kind: "melt", Inputs: []int{1}, LN: "pending", SameQuote: true}, {Kind: "swap", Inputs: []int{1}}}},
	// three requests: a state check or quote poll in the middle of a melt, and a swap of the same secret
	{Reqs: []reqSpec{{Kind: "melt", Inputs: []int{0}, LN: "success"}, {Kind: "check", Inputs: []int{0}}, {Kind: "swap", Inputs: []int{0}}}},
	{Reqs: []reqSpec{{Kind: "melt", Inputs: []int{0}, LN: "success"}, {Kind: "pollmelt", Quote: 0}, {Kind: "swap", Inputs: []int{0}}}},
}

func TestSchedEnum(t *testing.T) {
	shard, _ := strconv.Atoi(os.Getenv("VERIF_SHARD"))
	n, _ := strconv.Atoi(os.Getenv("VERIF_NSHARDS"))
	if n == 0 {
		n = 1
	}
	bound := 2
	if os.Getenv("VERIF_TIER") == "thorough" {
		bound = -1
	}
	if b := os.Getenv("VERIF_PREEMPT"); b != "" {
		bound, _ = strconv.Atoi(b)
	}
	bad := 0
	perCase := map[int]int{}
	// a bound in schedules per work unit keeps the deepest cases inside the tier's time; units cut off by it are
	// counted and take the claim of completeness away
	race.LeafCap = 600
	// work units: (case, first three option values); a unit whose subtree does not exist costs one run
	for ci, cs := range pairCases {
		cs.Seed = uint64(ci)
		for sub := 0; sub < 8; sub++ {
			// the deepest subtree of a case is the one that starts without a pre-emption (sub 0): spread those over the shards
			if (ci*9+sub)%n != shard {
				continue
			}
			fixed := []int{sub & 1, (sub >> 1) & 1, (sub >> 2) & 1}
			b := bound
			if b < 0 && len(cs.Reqs) > 2 {
				b = 4 // three requests: all schedules with at most four pre-emptions
			}
			cnt := enumerate(t, cs, b, fixed, func(r execResult) {
				c2 := cs
				c2.Choice = r.Choices
				record(c2, r)
				if r.violation != "" && !rec.IsKnown(r.violation) {
					bad++
					rec.Violate(r.violation, r.detail, c2)
					if bad <= 3 {
						t.Errorf("VIOLATION %s: %s", r.violation, r.detail)
					}
				}
			})
			perCase[ci] += cnt
		}
	}
	for ci, cnt := range perCase {
		rec.ClassN(fmt.Sprintf("sched_enum_pair%d_%s", ci, pairName(pairCases[ci])), cnt)
	}
	if race.Truncated > 0 {
		rec.ClassN("sched_enum_work_units_cut_off_at_600_schedules", race.Truncated)
	}
	if bound < 0 && race.Truncated == 0 {
		pairs := 0
		for _, cs := range pairCases {
			if len(cs.Reqs) == 2 {
				pairs++
			}
		}
		rec.Exhaustive(fmt.Sprintf("shard %d of %d: all interleavings (storage/LN-call granularity) of its share of the %d two-request sets; three-request sets with <= 4 pre-emptions", shard, n, pairs), 0)
	}
	if bad > 0 {
		t.Fatalf("%d violating schedules", bad)
	}
}

func TestReplay(t *testing.T) {
	path := os.Getenv("VERIF_REPLAY")
	if path == "" {
		t.Skip("no VERIF_REPLAY")
	}
	raw, err := os.ReadFile(path)
	if err != nil {
		t.Fatal(err)
	}
	var doc struct {
		Replay caseSpec `json:"replay"`
	}
	if err := json.Unmarshal(raw, &doc); err != nil {
		t.Fatal(err)
	}
	cs := doc.Replay
	k := 0
	r := run(fatalT{t}, cs, func(step int, enabled []*sched.Task, cur int) int {
		c := 0
		if k < len(cs.Choice) {
			c = cs.Choice[k]
		}
		k++
		return c
	})
	if r.violation != "" && !rec.IsKnown(r.violation) {
		t.Fatalf("VIOLATION %s: %s", r.violation, r.detail)
	}
}
