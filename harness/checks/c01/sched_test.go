package c01

import (
	"context"
	"encoding/json"
	"fmt"
	"os"
	"strconv"
	"strings"
	"testing"
	"time"

	"github.com/elnosh/gonuts/cashu"
	"github.com/elnosh/gonuts/cashu/nuts/nut05"
	"pgregory.net/rapid"

	"verif/harness/dbproxy"
	"verif/harness/lnmodel"
	"verif/harness/rec"
	"verif/harness/sched"
	"verif/harness/world"
)

// A concurrent case: 2..3 requests over overlapping input sets on a fresh mint, interleaved at
// storage / Lightning call granularity by the cooperative scheduler.

type reqSpec struct {
	Kind   string `json:"kind"`   // swap | melt | check
	Inputs []int  `json:"inputs"` // indices into the funded proofs
	LN     string `json:"ln"`     // melt: success | pending | failed | error
}

type caseSpec struct {
	Reqs   []reqSpec `json:"reqs"`
	Fee    uint      `json:"fee_ppk"`
	Seed   uint64    `json:"seed"`
	Choice []int     `json:"choice,omitempty"` // grant vector (enumeration / replay)
}

type outcome struct {
	spec     reqSpec
	err      error
	accepted bool // swap returned signatures / melt issued a pay call
	state    string
}

type execResult struct {
	outs      []outcome
	trace     string
	opts      []int
	choices   []int
	switches  int
	blocked   int
	violation string
	detail    string
	knownHit  bool
}

var lnAns = map[string]lnmodel.PayAnswer{"success": lnmodel.PaySuccess, "pending": lnmodel.PayPending, "failed": lnmodel.PayFailed, "error": lnmodel.PayError}

// run executes the case under the chooser.
func run(t world.T, cs caseSpec, choose sched.Chooser) execResult {
	w := world.New(t, world.Config{CaseSeed: 100 + cs.Seed, FeePpk: cs.Fee, FeeMode: lnmodel.FeeZero})
	defer w.Close()
	// fund four proofs of 8 sat
	q, err := w.RequestMintQuote(32, nil)
	if err != nil {
		t.Fatalf("setup: %v", err)
	}
	w.PayInvoice(q)
	if _, err := w.MintTokens(q, w.MakeOutputs([]uint64{8, 8, 8, 8}, w.ActiveID), ""); err != nil {
		t.Fatalf("setup: %v", err)
	}
	funded := w.M.ProofsIn(world.Unspent)
	s := sched.New()
	hook := func(pos string) { s.Yield(pos) }
	w.DB.Hook = func(c *dbproxy.Call) error { hook(c.Method); return nil }
	w.LN.Hook = func(c *lnmodel.Call) error { hook("LN." + c.Method); return nil }
	w.LN.PayByHash = map[string]lnmodel.PayAnswer{}
	w.LN.ErrTruth = lnmodel.TruthNone
	res := execResult{outs: make([]outcome, len(cs.Reqs))}
	type prepared struct {
		inputs cashu.Proofs
		msgs   cashu.BlindedMessages
		quote  *world.MMeltQuote
		ys     []string
	}
	preps := make([]prepared, len(cs.Reqs))
	// preparation (quotes, outputs) happens before the scheduler is armed: hooks ignore the harness goroutine
	for i, r := range cs.Reqs {
		var p prepared
		var total uint64
		for _, ix := range r.Inputs {
			p.inputs = append(p.inputs, funded[ix].P)
			p.ys = append(p.ys, funded[ix].Y)
			total += funded[ix].P.Amount
		}
		fee := w.FeeFor(p.inputs)
		switch r.Kind {
		case "swap":
			p.msgs = world.Msgs(w.MakeOutputs(world.Split(total-fee), w.ActiveID))
		case "melt":
			inv := w.Net.ExternalInvoice((total - fee) * 1000)
			mq, err := w.RequestMeltQuote(inv.Request, 0)
			if err != nil {
				t.Fatalf("setup: %v", err)
			}
			p.quote = mq
			w.LN.PayByHash[mq.Hash] = lnAns[r.LN]
		}
		preps[i] = p
	}
	for i, r := range cs.Reqs {
		i, r, p := i, r, preps[i]
		res.outs[i].spec = r
		s.Go(fmt.Sprintf("%s%d", r.Kind, i), func() (any, error) {
			switch r.Kind {
			case "swap":
				sigs, err := w.Mint.Swap(p.inputs, p.msgs)
				res.outs[i].err = err
				res.outs[i].accepted = err == nil && len(sigs) == len(p.msgs)
			case "melt":
				ctx, cancel := context.WithTimeout(context.Background(), 20*time.Second)
				defer cancel()
				mq, err := w.Mint.MeltTokens(ctx, nut05.PostMeltBolt11Request{Quote: p.quote.ID, Inputs: p.inputs})
				res.outs[i].err = err
				res.outs[i].state = mq.State.String()
			case "check":
				_, err := w.Mint.ProofsStateCheck(p.ys)
				res.outs[i].err = err
			}
			return nil, nil
		})
	}
	var choices []int
	err = s.Run(func(step int, enabled []*sched.Task, cur int) int {
		c := choose(step, enabled, cur)
		choices = append(choices, c)
		return c
	})
	w.DB.Hook, w.LN.Hook = nil, nil
	res.trace = s.TraceString()
	res.switches = s.Switches
	res.blocked = s.Blocked
	res.choices = choices
	for _, st := range s.Trace {
		if st.Opts > 1 {
			res.opts = append(res.opts, st.Opts)
		}
	}
	if err != nil {
		res.violation, res.detail = "C01|sched|scheduler_error", err.Error()
		return res
	}
	for _, tk := range s.Tasks() {
		if tk.Panic != nil {
			res.violation, res.detail = "C01|sched|panic|"+tk.Name, fmt.Sprint(tk.Panic)
			return res
		}
	}
	// a melt "accepted" its inputs from the moment a pay call for its invoice was issued - unless that payment
	// definitively failed (then the inputs were legitimately released and may be used again)
	for i, r := range cs.Reqs {
		if r.Kind == "melt" {
			for _, c := range w.LN.Log() {
				if (c.Method == "SendPayment" || c.Method == "PayPartialAmount") && c.Hash == preps[i].quote.Hash {
					if p := w.LN.Payment(c.Hash); p != nil && (p.Truth == lnmodel.TruthSucceeded || p.Truth == lnmodel.TruthInflight) {
						res.outs[i].accepted = true
					}
				}
			}
		}
	}
	// oracle: per secret at most one accepting operation; every unordered pair of accepting operations is a
	// violation with its own signature
	for ix, fp := range funded {
		var by []string
		for i, r := range cs.Reqs {
			if !res.outs[i].accepted {
				continue
			}
			for _, j := range r.Inputs {
				if j == ix {
					by = append(by, r.Kind)
				}
			}
		}
		if len(by) > 1 {
			sortStrings(by)
			pairs := map[string]bool{}
			for a := 0; a < len(by); a++ {
				for b := a + 1; b < len(by); b++ {
					pairs[by[a]+"+"+by[b]] = true
				}
			}
			for pr := range pairs {
				sig := "C01|sched|ops=" + pr + "|shared_input|symptom=both_accepted"
				if rec.IsKnown(sig) {
					res.knownHit = true
					continue
				}
				res.violation = sig
				res.detail = fmt.Sprintf("secret #%d (%s) accepted by %v; outcomes %s; schedule: %s", ix, fp.P.Secret[:12], by, fmtOutcomes(res.outs), res.trace)
				return res
			}
		}
	}
	if res.knownHit {
		return res
	}
	// final states: every secret accepted by a swap or by a settled melt is SPENT; states are never "both"
	var ys []string
	for _, fp := range funded {
		ys = append(ys, fp.Y)
	}
	st, err := w.Mint.ProofsStateCheck(ys)
	if err != nil {
		res.violation, res.detail = "C01|sched|final_checkstate_failed", err.Error()
		return res
	}
	for ix := range funded {
		for i, r := range cs.Reqs {
			if !res.outs[i].accepted || r.Kind != "swap" {
				continue
			}
			for _, j := range r.Inputs {
				if j == ix && st[ix].State.String() != "SPENT" {
					res.violation = "C01|sched|swapped_secret_not_spent"
					res.detail = fmt.Sprintf("secret #%d swapped but reported %s; schedule: %s", ix, st[ix].State, res.trace)
					return res
				}
			}
		}
	}
	// a secret that a melt accepted (payment in flight or succeeded) is locked or spent, whatever the other requests
	// did on their way out - and a further spend of it, after everything has settled down, is refused
	for ix, fp := range funded {
		acceptedBy := ""
		for i, r := range cs.Reqs {
			if !res.outs[i].accepted {
				continue
			}
			for _, j := range r.Inputs {
				if j == ix {
					acceptedBy = r.Kind
					if r.Kind == "melt" {
						acceptedBy += "_" + r.LN
					}
				}
			}
		}
		if acceptedBy == "" {
			continue
		}
		if st[ix].State.String() == "UNSPENT" {
			res.violation = "C01|sched|accepted_secret_reported_unspent|by=" + acceptedBy
			res.detail = fmt.Sprintf("secret #%d was accepted by %s but is reported UNSPENT once all requests have returned; outcomes %s; schedule: %s", ix, acceptedBy, fmtOutcomes(res.outs), res.trace)
			return res
		}
		in := cashu.Proofs{fp.P}
		fee := w.FeeFor(in)
		if _, err := w.Mint.Swap(in, world.Msgs(w.MakeOutputs(world.Split(fp.P.Amount-fee), w.ActiveID))); err == nil {
			res.violation = "C01|sched|accepted_secret_spendable_again|by=" + acceptedBy
			res.detail = fmt.Sprintf("secret #%d was accepted by %s and a later swap of it succeeded; outcomes %s; schedule: %s", ix, acceptedBy, fmtOutcomes(res.outs), res.trace)
			return res
		}
	}
	return res
}

func sortStrings(s []string) {
	for i := range s {
		for j := i + 1; j < len(s); j++ {
			if s[j] < s[i] {
				s[i], s[j] = s[j], s[i]
			}
		}
	}
}

func fmtOutcomes(o []outcome) string {
	var l []string
	for i, x := range o {
		l = append(l, fmt.Sprintf("%s%d{accepted=%v state=%s err=%v}", x.spec.Kind, i, x.accepted, x.state, x.err))
	}
	return strings.Join(l, " ")
}

func genCase(t *rapid.T) caseSpec {
	n := rapid.IntRange(2, 3).Draw(t, "n_requests")
	cs := caseSpec{Fee: rapid.SampledFrom([]uint{0, 100}).Draw(t, "fee"), Seed: rapid.Uint64Range(0, 1000).Draw(t, "seed")}
	for i := 0; i < n; i++ {
		r := reqSpec{Kind: rapid.SampledFrom([]string{"swap", "swap", "melt", "melt", "check"}).Draw(t, "kind")}
		// all requests contain proof 0 (the shared secret) plus optionally others
		r.Inputs = []int{0}
		if rapid.Bool().Draw(t, "more_inputs") {
			r.Inputs = append(r.Inputs, 1+rapid.IntRange(0, 2).Draw(t, "extra_input"))
		}
		if r.Kind == "melt" {
			r.LN = rapid.SampledFrom([]string{"success", "pending", "failed", "error"}).Draw(t, "ln")
		}
		cs.Reqs = append(cs.Reqs, r)
	}
	return cs
}

func record(cs caseSpec, r execResult) {
	rec.Eval()
	kinds := []string{}
	spending := 0
	for _, q := range cs.Reqs {
		kinds = append(kinds, q.Kind)
		if q.Kind != "check" {
			spending++
		}
	}
	sortStrings(kinds)
	rec.Class("sched_ops=" + strings.Join(kinds, "+"))
	if spending >= 2 && r.switches >= 1 {
		rec.NonTrivial(fmt.Sprintf("%v|%v", cs.Reqs, r.choices))
		rec.Class("sched_nontrivial")
	}
	if r.blocked > 0 {
		rec.Class("sched_blocked_task_seen")
	}
}

func propSched(t *rapid.T) {
	cs := genCase(t)
	r := run(t, cs, func(step int, enabled []*sched.Task, cur int) int {
		return rapid.IntRange(0, len(enabled)-1).Draw(t, "grant")
	})
	record(cs, r)
	if r.violation != "" && !rec.IsKnown(r.violation) {
		t.Fatalf("VIOLATION %s: %s", r.violation, r.detail)
	}
	if r.switches >= 1 {
		rec.Sample("schedule", map[string]any{"requests": cs.Reqs, "outcomes": fmtOutcomes(r.outs), "schedule": r.trace})
	}
}

func TestSched(t *testing.T) { rapid.Check(t, propSched) }

// ---------------------------------------------------------------- systematic enumeration

type fatalT struct{ t *testing.T }

func (f fatalT) Fatalf(format string, a ...any) { f.t.Fatalf(format, a...) }
func (f fatalT) Logf(format string, a ...any)   {}

// enumerate explores schedules of cs depth-first below the subtree given by `fixed` (option values of the
// first decisions, never backtracked). maxPreempt < 0: unbounded (complete). Option v at a decision means
// "the (def+v)-th enabled task" where def continues the current task, so option 0 never pre-empts.
func enumerate(t *testing.T, cs caseSpec, maxPreempt int, fixed []int, onResult func(execResult)) int {
	count := 0
	prefix := append([]int{}, fixed...)
	for {
		var branching []int
		var taken []int
		preempts := 0
		invalid := false
		r := run(fatalT{t}, cs, func(step int, enabled []*sched.Task, cur int) int {
			k := len(taken)
			def := 0
			if cur >= 0 {
				def = cur
			}
			b := len(enabled)
			v := 0
			if k < len(prefix) {
				v = prefix[k]
			}
			if maxPreempt >= 0 && preempts >= maxPreempt && cur >= 0 {
				if k < len(fixed) && v != 0 {
					invalid = true
				}
				taken = append(taken, 0)
				branching = append(branching, 1)
				return cur
			}
			if v >= b {
				invalid = true
				v = 0
			}
			if cur >= 0 && v != 0 {
				preempts++
			}
			taken = append(taken, v)
			branching = append(branching, b)
			return (def + v) % b
		})
		if invalid || len(taken) < len(fixed) {
			return count // this subtree does not exist
		}
		count++
		onResult(r)
		i := len(taken) - 1
		for ; i >= len(fixed); i-- {
			if taken[i]+1 < branching[i] {
				break
			}
		}
		if i < len(fixed) {
			return count
		}
		prefix = append(append([]int{}, taken[:i]...), taken[i]+1)
	}
}

func pairName(cs caseSpec) string {
	var l []string
	for _, r := range cs.Reqs {
		l = append(l, r.Kind+r.LN)
	}
	return strings.Join(l, "|")
}

func hashInts(v []int) int {
	h := 17
	for _, x := range v {
		h = (h*31 + x + 1) % 1000003
	}
	return h
}

var pairCases = []caseSpec{
	{Reqs: []reqSpec{{Kind: "swap", Inputs: []int{0}}, {Kind: "swap", Inputs: []int{0, 1}}}},
	{Reqs: []reqSpec{{Kind: "swap", Inputs: []int{0}}, {Kind: "melt", Inputs: []int{0}, LN: "success"}}},
	{Reqs: []reqSpec{{Kind: "swap", Inputs: []int{0, 1}}, {Kind: "melt", Inputs: []int{0}, LN: "pending"}}},
	{Reqs: []reqSpec{{Kind: "swap", Inputs: []int{0}}, {Kind: "melt", Inputs: []int{0}, LN: "failed"}}},
	{Reqs: []reqSpec{{Kind: "swap", Inputs: []int{0}}, {Kind: "melt", Inputs: []int{0}, LN: "error"}}},
	{Reqs: []reqSpec{{Kind: "melt", Inputs: []int{0}, LN: "success"}, {Kind: "melt", Inputs: []int{0, 1}, LN: "success"}}},
	{Reqs: []reqSpec{{Kind: "melt", Inputs: []int{0}, LN: "pending"}, {Kind: "melt", Inputs: []int{0}, LN: "failed"}}},
	{Reqs: []reqSpec{{Kind: "melt", Inputs: []int{0}, LN: "success"}, {Kind: "check", Inputs: []int{0}}}},
	{Reqs: []reqSpec{{Kind: "swap", Inputs: []int{0}}, {Kind: "check", Inputs: []int{0}}}},
	{Reqs: []reqSpec{{Kind: "melt", Inputs: []int{0}, LN: "failed"}, {Kind: "check", Inputs: []int{0}}}},
}

func TestSchedEnum(t *testing.T) {
	shard, _ := strconv.Atoi(os.Getenv("VERIF_SHARD"))
	n, _ := strconv.Atoi(os.Getenv("VERIF_NSHARDS"))
	if n == 0 {
		n = 1
	}
	bound := 2
	if os.Getenv("VERIF_TIER") == "thorough" {
		bound = -1
	}
	if b := os.Getenv("VERIF_PREEMPT"); b != "" {
		bound, _ = strconv.Atoi(b)
	}
	bad := 0
	unit := 0
	perCase := map[int]int{}
	// work units: (case, first three option values); a unit whose subtree does not exist costs one run
	for ci, cs := range pairCases {
		cs.Seed = uint64(ci)
		for sub := 0; sub < 8; sub++ {
			unit++
			if unit%n != shard {
				continue
			}
			fixed := []int{sub & 1, (sub >> 1) & 1, (sub >> 2) & 1}
			cnt := enumerate(t, cs, bound, fixed, func(r execResult) {
				c2 := cs
				c2.Choice = r.choices
				record(c2, r)
				if r.violation != "" && !rec.IsKnown(r.violation) {
					bad++
					rec.Violate(r.violation, r.detail, c2)
					if bad <= 3 {
						t.Errorf("VIOLATION %s: %s", r.violation, r.detail)
					}
				}
			})
			perCase[ci] += cnt
		}
	}
	for ci, cnt := range perCase {
		rec.ClassN(fmt.Sprintf("sched_enum_pair%d_%s", ci, pairName(pairCases[ci])), cnt)
	}
	if bound < 0 && shard == 0 {
		rec.Exhaustive("all interleavings (storage/LN-call granularity) of the 10 request pairs", 0)
	}
	if bad > 0 {
		t.Fatalf("%d violating schedules", bad)
	}
}

func TestReplay(t *testing.T) {
	path := os.Getenv("VERIF_REPLAY")
	if path == "" {
		t.Skip("no VERIF_REPLAY")
	}
	raw, err := os.ReadFile(path)
	if err != nil {
		t.Fatal(err)
	}
	var doc struct {
		Replay caseSpec `json:"replay"`
	}
	if err := json.Unmarshal(raw, &doc); err != nil {
		t.Fatal(err)
	}
	cs := doc.Replay
	k := 0
	r := run(fatalT{t}, cs, func(step int, enabled []*sched.Task, cur int) int {
		c := 0
		if k < len(cs.Choice) {
			c = cs.Choice[k]
		}
		k++
		return c
	})
	if r.violation != "" && !rec.IsKnown(r.violation) {
		t.Fatalf("VIOLATION %s: %s", r.violation, r.detail)
	}
}
