// C01 — no double spend (sequential histories with the re-presentation grammar; schedules in sched_test.go).
package c01

import (
	"os"
	"strings"
	"testing"

	"pgregory.net/rapid"

	"verif/harness/hist"
	"verif/harness/rec"
	"verif/harness/world"
)

func TestMain(m *testing.M) {
	code := m.Run()
	rec.Flush()
	os.Exit(code)
}

// after every step: the mint's reported state of every known secret equals the model; SPENT is absorbing
func statesAgree(m *hist.Machine, op string) {
	w := m.W
	if len(w.M.Order) == 0 {
		return
	}
	ys := make([]string, 0, len(w.M.Order))
	for _, s := range w.M.Order {
		ys = append(ys, w.M.Proofs[s].Y)
	}
	got, err := w.CheckState(ys)
	if err != nil {
		m.T.Fatalf("VIOLATION C01|checkstate_failed: %v\n  %s", err, m.TraceString())
	}
	want := w.ExpectedStates(ys)
	for i := range want {
		if got[i].State != want[i].State {
			sig := "C01|state_mismatch|model=" + want[i].State.String() + "|mint=" + got[i].State.String()
			if rec.IsKnown(sig) {
				continue
			}
			m.T.Fatalf("VIOLATION %s: secret #%d after op %q\n  %s", sig, i, op, m.TraceString())
		}
	}
	m.Enforce(op)
}

func propSeq(t *rapid.T) {
	cfg := hist.GenConfig(t, []uint{0, 100, 1000}, false)
	m := hist.Run(t, cfg, hist.Options{
		Weights: hist.Weights(map[string]int{"replay": 14, "locked_spend": 3, "swap_adv": 2, "mint": 0, "mintquote": 0, "pay": 0, "deliver": 0, "pollmint": 0,
			"melt": 5, "meltquote": 4, "resolve": 2, "restart": 2, "rotate": 1, "checkstate": 0}),
		Owns:      []string{"C01"},
		PropID:    "C01",
		AfterStep: statesAgree,
	})
	replays := m.Count["replay_spent"] + m.Count["replay_pending"]
	if replays > 0 {
		rec.NonTrivial(strings.Join(m.Trace, "|"))
		rec.Class("history_with_replay")
		rec.ClassN("replays_of_spent", m.Count["replay_spent"])
		rec.ClassN("replays_of_pending", m.Count["replay_pending"])
		for k, v := range m.Count {
			if strings.HasPrefix(k, "replay_shape_") {
				rec.ClassN(k, v)
			}
		}
		if m.Count["restart"] > 0 {
			rec.Class("history_with_replay_and_restart")
		}
		rec.Sample("history", map[string]any{"fee_ppk": cfg.FeePpk, "trace": m.Trace})
	}
}

func TestSeq(t *testing.T) { rapid.Check(t, propSeq) }

var _ = world.Unspent
