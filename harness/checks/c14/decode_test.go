package c14

import (
	"encoding/base64"
	"encoding/hex"
	"encoding/json"
	"fmt"
	"os"
	"reflect"
	"regexp"
	"sort"
	"strings"
	"testing"

	"github.com/elnosh/gonuts/cashu"
	"github.com/fxamacker/cbor/v2"
	"pgregory.net/rapid"

	"verif/harness/rec"
)

// ---------------------------------------------------------------- totality oracle

type decoder struct {
	name string
	call func(string) (cashu.Token, error)
}

var decoders = []decoder{
	{"DecodeToken", cashu.DecodeToken},
	{"DecodeTokenV3", func(s string) (cashu.Token, error) {
		t3, err := cashu.DecodeTokenV3(s)
		if t3 == nil {
			return nil, err
		}
		return t3, err
	}},
	{"DecodeTokenV4", func(s string) (cashu.Token, error) {
		t4, err := cashu.DecodeTokenV4(s)
		if t4 == nil {
			return nil, err
		}
		return t4, err
	}},
}

var digits = regexp.MustCompile(`[0-9]+`)
var nonWord = regexp.MustCompile(`[^A-Za-z0-9_]+`)

// panicClass gives a panic a stable, specific class name.
//
//	where: "DecodeToken" | "DecodeTokenV3" | "DecodeTokenV4" | "TokenV3.Mint" | ...
func panicClass(where, input, msg string) string {
	switch {
	case strings.HasPrefix(where, "Decode") && len(input) < 6 && strings.Contains(msg, "slice bounds out of range"):
		return "short_input"
	case where == "TokenV3.Mint" && strings.Contains(msg, "index out of range [0] with length 0"):
		return "empty_token_list"
	}
	c := nonWord.ReplaceAllString(digits.ReplaceAllString(msg, "N"), "_")
	if len(c) > 60 {
		c = c[:60]
	}
	return "other_" + strings.Trim(c, "_")
}

func typeName(tok cashu.Token) string {
	switch tok.(type) {
	case *cashu.TokenV3, cashu.TokenV3:
		return "TokenV3"
	case *cashu.TokenV4, cashu.TokenV4:
		return "TokenV4"
	}
	return fmt.Sprintf("%T", tok)
}

type totalResult struct {
	violations []violation
	accepted   map[string]string // decoder name -> token type for inputs that decoded without error
}

// checkTotal applies the totality oracle to one input string for all three decoders. It never
// panics itself: every call into the code under test is wrapped in recover().
func checkTotal(input string) totalResult {
	res := totalResult{accepted: map[string]string{}}
	add := func(sig, format string, a ...any) {
		res.violations = append(res.violations, violation{sig, fmt.Sprintf(format, a...)})
	}
	for _, d := range decoders {
		var tok cashu.Token
		var err error
		if p, msg := safely(func() { tok, err = d.call(input) }); p {
			add(fmt.Sprintf("C14|panic|%s|%s", d.name, panicClass(d.name, input, msg)), "%s(%q) panicked: %s", d.name, input, msg)
			continue
		}
		if err != nil {
			continue
		}
		if tok == nil {
			add(fmt.Sprintf("C14|nil_token_without_error|%s", d.name), "%s(%q) returned nil, nil", d.name, input)
			continue
		}
		tn := typeName(tok)
		res.accepted[d.name] = tn

		var proofs cashu.Proofs
		proofsOK := true
		if p, msg := safely(func() { proofs = tok.Proofs() }); p {
			proofsOK = false
			add(fmt.Sprintf("C14|panic|%s.Proofs|%s", tn, panicClass(tn+".Proofs", input, msg)), "%s(%q) succeeded but Proofs() panicked: %s", d.name, input, msg)
		}
		if p, msg := safely(func() { _ = tok.Mint() }); p {
			add(fmt.Sprintf("C14|panic|%s.Mint|%s", tn, panicClass(tn+".Mint", input, msg)), "%s(%q) succeeded but Mint() panicked: %s", d.name, input, msg)
		}
		var amount uint64
		if p, msg := safely(func() { amount = tok.Amount() }); p {
			add(fmt.Sprintf("C14|panic|%s.Amount|%s", tn, panicClass(tn+".Amount", input, msg)), "%s(%q) succeeded but Amount() panicked: %s", d.name, input, msg)
		} else if proofsOK && amount != proofs.Amount() {
			add(fmt.Sprintf("C14|amount_not_sum|%s", tn), "%s(%q): Amount() = %d but Proofs().Amount() = %d", d.name, input, amount, proofs.Amount())
		}
		var ser string
		var serr error
		if p, msg := safely(func() { ser, serr = tok.Serialize() }); p {
			add(fmt.Sprintf("C14|panic|%s.Serialize|%s", tn, panicClass(tn+".Serialize", input, msg)), "%s(%q) succeeded but Serialize() panicked: %s", d.name, input, msg)
			continue
		}
		if serr != nil || !proofsOK {
			continue
		}
		// re-decoding the re-serialisation gives the same proofs
		var tok2 cashu.Token
		if p, msg := safely(func() { tok2, err = d.call(ser) }); p {
			add(fmt.Sprintf("C14|reserialize|%s|decode_panic", tn), "%s(%q) -> Serialize() = %q -> %s panicked: %s", d.name, input, ser, d.name, msg)
			continue
		}
		if err != nil || tok2 == nil {
			add(fmt.Sprintf("C14|reserialize|%s|decode_error", tn), "%s(%q) -> Serialize() = %q which %s rejects: %v", d.name, input, ser, d.name, err)
			continue
		}
		var proofs2 cashu.Proofs
		if p, msg := safely(func() { proofs2 = tok2.Proofs() }); p {
			add(fmt.Sprintf("C14|reserialize|%s|proofs_panic", tn), "%s(%q) -> Serialize() -> decode -> Proofs() panicked: %s", d.name, input, msg)
			continue
		}
		if !reflect.DeepEqual(proofs, proofs2) {
			add(fmt.Sprintf("C14|reserialize|%s|proofs_differ", tn), "%s(%q): proofs %s; after Serialize()+decode (%q): %s", d.name, input, renderProofs(proofs), ser, renderProofs(proofs2))
		}
	}
	return res
}

// ---------------------------------------------------------------- spec tokens (cashu_test.go / NUT-00)

var specTokens = []string{
	"cashuAeyJ0b2tlbiI6W3sibWludCI6Imh0dHBzOi8vODMzMy5zcGFjZTozMzM4IiwicHJvb2ZzIjpbeyJhbW91bnQiOjIsImlkIjoiMDA5YTFmMjkzMjUzZTQxZSIsInNlY3JldCI6IjQwNzkxNWJjMjEyYmU2MWE3N2UzZTZkMmFlYjRjNzI3OTgwYmRhNTFjZDA2YTZhZmMyOWUyODYxNzY4YTc4MzciLCJDIjoiMDJiYzkwOTc5OTdkODFhZmIyY2M3MzQ2YjVlNDM0NWE5MzQ2YmQyYTUwNmViNzk1ODU5OGE3MmYwY2Y4NTE2M2VhIn0seyJhbW91bnQiOjgsImlkIjoiMDA5YTFmMjkzMjUzZTQxZSIsInNlY3JldCI6ImZlMTUxMDkzMTRlNjFkNzc1NmIwZjhlZTBmMjNhNjI0YWNhYTNmNGUwNDJmNjE0MzNjNzI4YzcwNTdiOTMxYmUiLCJDIjoiMDI5ZThlNTA1MGI4OTBhN2Q2YzA5NjhkYjE2YmMxZDVkNWZhMDQwZWExZGUyODRmNmVjNjlkNjEyOTlmNjcxMDU5In1dfV0sInVuaXQiOiJzYXQiLCJtZW1vIjoiVGhhbmsgeW91IHZlcnkgbXVjaC4ifQ",
	"cashuAeyJ0b2tlbiI6W3sibWludCI6Imh0dHBzOi8vODMzMy5zcGFjZTozMzM4IiwicHJvb2ZzIjpbeyJhbW91bnQiOjIsImlkIjoiMDA5YTFmMjkzMjUzZTQxZSIsInNlY3JldCI6IjQwNzkxNWJjMjEyYmU2MWE3N2UzZTZkMmFlYjRjNzI3OTgwYmRhNTFjZDA2YTZhZmMyOWUyODYxNzY4YTc4MzciLCJDIjoiMDJiYzkwOTc5OTdkODFhZmIyY2M3MzQ2YjVlNDM0NWE5MzQ2YmQyYTUwNmViNzk1ODU5OGE3MmYwY2Y4NTE2M2VhIn0seyJhbW91bnQiOjgsImlkIjoiMDA5YTFmMjkzMjUzZTQxZSIsInNlY3JldCI6ImZlMTUxMDkzMTRlNjFkNzc1NmIwZjhlZTBmMjNhNjI0YWNhYTNmNGUwNDJmNjE0MzNjNzI4YzcwNTdiOTMxYmUiLCJDIjoiMDI5ZThlNTA1MGI4OTBhN2Q2YzA5NjhkYjE2YmMxZDVkNWZhMDQwZWExZGUyODRmNmVjNjlkNjEyOTlmNjcxMDU5In1dfV0sInVuaXQiOiJzYXQiLCJtZW1vIjoiVGhhbmsgeW91IHZlcnkgbXVjaC4ifQ==",
	"cashuAeyJ0b2tlbiI6W3sibWludCI6Imh0dHBzOi8vODMzMy5zcGFjZTozMzM4IiwicHJvb2ZzIjpbeyJhbW91bnQiOjIsImlkIjoiMDA5YTFmMjkzMjUzZTQxZSIsInNlY3JldCI6IjQwNzkxNWJjMjEyYmU2MWE3N2UzZTZkMmFlYjRjNzI3OTgwYmRhNTFjZDA2YTZhZmMyOWUyODYxNzY4YTc4MzciLCJDIjoiMDJiYzkwOTc5OTdkODFhZmIyY2M3MzQ2YjVlNDM0NWE5MzQ2YmQyYTUwNmViNzk1ODU5OGE3MmYwY2Y4NTE2M2VhIn0seyJhbW91bnQiOjgsImlkIjoiMDA5YTFmMjkzMjUzZTQxZSIsInNlY3JldCI6ImZlMTUxMDkzMTRlNjFkNzc1NmIwZjhlZTBmMjNhNjI0YWNhYTNmNGUwNDJmNjE0MzNjNzI4YzcwNTdiOTMxYmUiLCJDIjoiMDI5ZThlNTA1MGI4OTBhN2Q2YzA5NjhkYjE2YmMxZDVkNWZhMDQwZWExZGUyODRmNmVjNjlkNjEyOTlmNjcxMDU5In1dfV0sInVuaXQiOiJzYXQiLCJtZW1vIjoiVGhhbmsgeW91LiJ9",
	"cashuBo2F0gqJhaUgA_9SLj17PgGFwgaNhYQFhc3hAYWNjMTI0MzVlN2I4NDg0YzNjZjE4NTAxNDkyMThhZjkwZjcxNmE1MmJmNGE1ZWQzNDdlNDhlY2MxM2Y3NzM4OGFjWCECRFODGd5IXVW-07KaZCvuWHk3WrnnpiDhHki6SCQh88-iYWlIAK0mjE0fWCZhcIKjYWECYXN4QDEzMjNkM2Q0NzA3YTU4YWQyZTIzYWRhNGU5ZjFmNDlmNWE1YjRhYzdiNzA4ZWIwZDYxZjczOGY0ODMwN2U4ZWVhY1ghAjRWqhENhLSsdHrr2Cw7AFrKUL9Ffr1XN6RBT6w659lNo2FhAWFzeEA1NmJjYmNiYjdjYzY0MDZiM2ZhNWQ1N2QyMTc0ZjRlZmY4YjQ0MDJiMTc2OTI2ZDNhNTdkM2MzZGNiYjU5ZDU3YWNYIQJzEpxXGeWZN5qXSmJjY8MzxWyvwObQGr5G1YCCgHicY2FtdWh0dHA6Ly9sb2NhbGhvc3Q6MzMzOGF1Y3NhdA",
	"cashuBpGF0gaJhaUgArSaMTR9YJmFwgaNhYQFhc3hAOWE2ZGJiODQ3YmQyMzJiYTc2ZGIwZGYxOTcyMTZiMjlkM2I4Y2MxNDU1M2NkMjc4MjdmYzFjYzk0MmZlZGI0ZWFjWCEDhhhUP_trhpXfStS6vN6So0qWvc2X3O4NfM-Y1HISZ5JhZGlUaGFuayB5b3VhbXVodHRwOi8vbG9jYWxob3N0OjMzMzhhdWNzYXQ",
	"cashuBpGF0gaJhaUgArSaMTR9YJmFwgaNhYQFhc3hAOWE2ZGJiODQ3YmQyMzJiYTc2ZGIwZGYxOTcyMTZiMjlkM2I4Y2MxNDU1M2NkMjc4MjdmYzFjYzk0MmZlZGI0ZWFjWCEDhhhUP_trhpXfStS6vN6So0qWvc2X3O4NfM-Y1HISZ5JhZGlUaGFuayB5b3VhbXVodHRwOi8vbG9jYWxob3N0OjMzMzhhdWNzYXQ=",
}

// ---------------------------------------------------------------- decoder input generators

var encodings = []struct {
	name string
	enc  *base64.Encoding
}{
	{"url_padded", base64.URLEncoding},
	{"url_raw", base64.RawURLEncoding},
	{"std_padded", base64.StdEncoding},
	{"std_raw", base64.RawStdEncoding},
}

func drawEncode(t *rapid.T, payload []byte) string {
	e := rapid.SampledFrom([]int{0, 0, 1, 1, 1, 2, 3}).Draw(t, "b64")
	return encodings[e].enc.EncodeToString(payload)
}

// raw JSON number literals, including ones encoding/json accepts syntactically but uint64 cannot hold
var jsonNumbers = []string{"0", "1", "-1", "-0", "1.5", "1e3", "1E-2", "18446744073709551615", "18446744073709551616",
	"9223372036854775808", "9007199254740993", "1e400", "-1e400", "0.0", "123456789012345678901234567890"}

var jsonRawStrings = []string{`""`, `"sat"`, `"\ud800"`, `"\u0000"`, `"\udc00\ud800"`, `"\""`, `"\\"`, `" "`, `"00ad268c4d1f5826"`, `"zz"`,
	`"02bc9097997d81afb2cc7346b5e4345a9346bd2a506eb7958598a72f0cf85163ea"`, `"http://localhost:3338"`}

var tokenKeysJSON = []string{"token", "unit", "memo", "mint", "proofs", "amount", "id", "secret", "C", "witness", "dleq", "e", "s", "r",
	"TOKEN", "Token", "t", "m", "u", "d", "p", "a", "c", "i", "w", ""}

func drawJSONString(t *rapid.T) string {
	if rapid.Bool().Draw(t, "rawstr") {
		return rapid.SampledFrom(jsonRawStrings).Draw(t, "jstr")
	}
	b, _ := json.Marshal(genSpecialString(4).Draw(t, "jspecial"))
	return string(b)
}

// drawJSON renders an arbitrary JSON value as text.
func drawJSON(t *rapid.T, depth int) string {
	max := 6
	if depth <= 0 {
		max = 4
	}
	switch rapid.IntRange(0, max).Draw(t, "jkind") {
	case 0:
		return "null"
	case 1:
		return rapid.SampledFrom([]string{"true", "false"}).Draw(t, "jbool")
	case 2:
		return rapid.SampledFrom(jsonNumbers).Draw(t, "jnum")
	case 3, 4:
		return drawJSONString(t)
	case 5:
		n := rapid.IntRange(0, 3).Draw(t, "jlen")
		el := make([]string, n)
		for i := range el {
			el[i] = drawJSON(t, depth-1)
		}
		return "[" + strings.Join(el, ",") + "]"
	default:
		n := rapid.IntRange(0, 4).Draw(t, "jlen")
		el := make([]string, n)
		for i := range el {
			k, _ := json.Marshal(rapid.SampledFrom(tokenKeysJSON).Draw(t, "jkey"))
			el[i] = string(k) + ":" + drawJSON(t, depth-1)
		}
		return "{" + strings.Join(el, ",") + "}"
	}
}

// field: omitted / the right type / anything
func drawField(t *rapid.T, fields *[]string, key string, right func() string) {
	switch rapid.IntRange(0, 5).Draw(t, "f_"+key) {
	case 0: // omitted
	case 1, 2, 3:
		*fields = append(*fields, fmt.Sprintf("%q:%s", key, right()))
	default:
		*fields = append(*fields, fmt.Sprintf("%q:%s", key, drawJSON(t, 1)))
	}
}

func drawJSONProof(t *rapid.T) string {
	if rapid.IntRange(0, 7).Draw(t, "proofshape") == 0 {
		return drawJSON(t, 1)
	}
	var f []string
	drawField(t, &f, "amount", func() string { return rapid.SampledFrom(jsonNumbers).Draw(t, "amt") })
	drawField(t, &f, "id", func() string { return drawJSONString(t) })
	drawField(t, &f, "secret", func() string { return drawJSONString(t) })
	drawField(t, &f, "C", func() string { return drawJSONString(t) })
	drawField(t, &f, "witness", func() string { return drawJSONString(t) })
	drawField(t, &f, "dleq", func() string {
		var d []string
		drawField(t, &d, "e", func() string { return drawJSONString(t) })
		drawField(t, &d, "s", func() string { return drawJSONString(t) })
		drawField(t, &d, "r", func() string { return drawJSONString(t) })
		return "{" + strings.Join(d, ",") + "}"
	})
	return "{" + strings.Join(f, ",") + "}"
}

func drawJSONList(t *rapid.T, label string, elem func() string) string {
	switch rapid.IntRange(0, 6).Draw(t, label) {
	case 0:
		return "null"
	case 1:
		return "[]"
	case 2:
		return "[null]"
	case 3:
		return "[{}]"
	case 4:
		return drawJSON(t, 1)
	default:
		n := rapid.IntRange(1, 3).Draw(t, label+"_n")
		el := make([]string, n)
		for i := range el {
			el[i] = elem()
		}
		return "[" + strings.Join(el, ",") + "]"
	}
}

// a V3-token-shaped JSON document with right and wrong types at every level
func drawJSONToken(t *rapid.T) string {
	var f []string
	drawField(t, &f, "token", func() string {
		return drawJSONList(t, "entries", func() string {
			var e []string
			drawField(t, &e, "mint", func() string { return drawJSONString(t) })
			drawField(t, &e, "proofs", func() string { return drawJSONList(t, "proofs", func() string { return drawJSONProof(t) }) })
			return "{" + strings.Join(e, ",") + "}"
		})
	})
	drawField(t, &f, "unit", func() string { return drawJSONString(t) })
	drawField(t, &f, "memo", func() string { return drawJSONString(t) })
	if rapid.IntRange(0, 5).Draw(t, "dupkey") == 0 {
		f = append(f, `"token":`+drawJSON(t, 1))
	}
	return "{" + strings.Join(f, ",") + "}"
}

var jsonLiterals = []string{
	``, ` `, `null`, `{}`, `[]`, `0`, `""`, `true`, `{"token":[]}`, `{"token":[{}]}`, `{"token":null}`, `{"token":[null]}`, `{"token":{}}`,
	`{"token":[{"mint":"m","proofs":null}]}`, `{"token":[{"proofs":[{"amount":-1}]}]}`, `{"token":[{"proofs":[{"dleq":{}}]}]}`,
	`{"token":[{"proofs":[{"dleq":null}]}]}`, `{"TOKEN":[]}`, `{"token":[],"token":[{}]}`, `{"token":[{"mint":1}]}`, `{"unit":"sat"}`,
	`{"token":[{"proofs":[{"amount":18446744073709551615},{"amount":1}]}]}`, `{"token":[{"proofs":[{"amount":1e3}]}]}`,
	`{"token":[{"mint":"a","proofs":[]},{"mint":"b","proofs":[]}]}`, `{} {}`, `{}x`, "\ufeff{}", `{"token":[{"proofs":[{"secret":"\ud800"}]}]}`,
	`[{"token":[]}]`, `"{\"token\":[]}"`, `{"token":[{"mint":"m","proofs":[{"amount":1,"id":"00","secret":"s","C":"02"}]}],"unit":"usd"}`,
}

func drawJSONPayload(t *rapid.T) (payload []byte, sub string) {
	switch rapid.SampledFrom([]int{3, 3, 3, 0, 1, 3, 0, 1, 3, 2}).Draw(t, "jsonpayload") {
	case 0:
		return []byte(rapid.SampledFrom(jsonLiterals).Draw(t, "jlit")), "json_literal"
	case 1:
		return []byte(drawJSON(t, 3)), "json_arbitrary"
	case 2:
		d := rapid.SampledFrom([]int{5, 100, 9999, 10001, 20000}).Draw(t, "nest")
		open, close := "[", "]"
		if rapid.Bool().Draw(t, "nestobj") {
			open, close = `{"token":`, "}"
		}
		return []byte(strings.Repeat(open, d) + "null" + strings.Repeat(close, d)), "json_deep_nesting"
	default:
		return []byte(drawJSONToken(t)), "json_token_shaped"
	}
}

// ---- CBOR

func drawCBORKey(t *rapid.T) any {
	switch rapid.IntRange(0, 5).Draw(t, "ckeykind") {
	case 0:
		return rapid.Uint64Range(0, 30).Draw(t, "ckeyint")
	case 1:
		return int64(-1) - int64(rapid.IntRange(0, 30).Draw(t, "ckeyneg"))
	default:
		return rapid.SampledFrom([]string{"t", "m", "u", "d", "i", "p", "a", "s", "c", "w", "e", "r", "T", "M", "token", "mint", ""}).Draw(t, "ckey")
	}
}

// drawCBOR builds an arbitrary Go value that cbor.Marshal turns into a well-formed CBOR item.
func drawCBOR(t *rapid.T, depth int) any {
	max := 9
	if depth <= 0 {
		max = 6
	}
	switch rapid.IntRange(0, max).Draw(t, "ckind") {
	case 0:
		return nil
	case 1:
		return rapid.Bool().Draw(t, "cbool")
	case 2:
		return rapid.OneOf(rapid.Uint64(), rapid.Uint64Range(0, 30), rapid.Just(uint64(1)<<63)).Draw(t, "cuint")
	case 3:
		return rapid.Int64Range(-1<<63, -1).Draw(t, "cneg")
	case 4:
		return rapid.SampledFrom([]float64{0, 1, 1.5, -1, 1e300}).Draw(t, "cfloat")
	case 5:
		return rapid.SliceOfN(rapid.Byte(), 0, 40).Draw(t, "cbytes")
	case 6:
		return genSpecialString(4).Draw(t, "ctext")
	case 7:
		n := rapid.IntRange(0, 3).Draw(t, "clen")
		a := make([]any, n)
		for i := range a {
			a[i] = drawCBOR(t, depth-1)
		}
		return a
	case 8:
		n := rapid.IntRange(0, 4).Draw(t, "cmaplen")
		m := map[any]any{}
		for i := 0; i < n; i++ {
			m[drawCBORKey(t)] = drawCBOR(t, depth-1)
		}
		return m
	default:
		return cbor.Tag{Number: rapid.SampledFrom([]uint64{0, 1, 2, 3, 24, 32, 55799, 1 << 40}).Draw(t, "ctag"), Content: drawCBOR(t, depth-1)}
	}
}

func drawCField(t *rapid.T, m map[any]any, key string, right func() any) {
	switch rapid.IntRange(0, 5).Draw(t, "cf_"+key) {
	case 0:
	case 1, 2, 3:
		m[key] = right()
	default:
		m[key] = drawCBOR(t, 1)
	}
}

func drawCBytes(t *rapid.T, label string, n int) any {
	switch rapid.IntRange(0, 3).Draw(t, label+"_k") {
	case 0:
		return []byte{}
	case 1:
		return rapid.SliceOfN(rapid.Byte(), 0, 70).Draw(t, label)
	default:
		return rapid.SliceOfN(rapid.Byte(), n, n).Draw(t, label)
	}
}

func drawCList(t *rapid.T, label string, elem func() any) any {
	switch rapid.IntRange(0, 6).Draw(t, label) {
	case 0:
		return nil
	case 1:
		return []any{}
	case 2:
		return []any{nil}
	case 3:
		return []any{map[any]any{}}
	case 4:
		return drawCBOR(t, 1)
	default:
		n := rapid.IntRange(1, 3).Draw(t, label+"_n")
		a := make([]any, n)
		for i := range a {
			a[i] = elem()
		}
		return a
	}
}

func drawCBORProof(t *rapid.T) any {
	if rapid.IntRange(0, 7).Draw(t, "cproofshape") == 0 {
		return drawCBOR(t, 1)
	}
	m := map[any]any{}
	drawCField(t, m, "a", func() any { return rapid.OneOf(rapid.Uint64(), rapid.Uint64Range(0, 64)).Draw(t, "ca") })
	drawCField(t, m, "s", func() any { return genSpecialString(3).Draw(t, "cs") })
	drawCField(t, m, "c", func() any { return drawCBytes(t, "cc", 33) })
	drawCField(t, m, "w", func() any { return genSpecialString(3).Draw(t, "cw") })
	drawCField(t, m, "d", func() any {
		d := map[any]any{}
		drawCField(t, d, "e", func() any { return drawCBytes(t, "ce", 32) })
		drawCField(t, d, "s", func() any { return drawCBytes(t, "cs2", 32) })
		drawCField(t, d, "r", func() any { return drawCBytes(t, "cr", 32) })
		return d
	})
	return m
}

func drawCBORToken(t *rapid.T) any {
	m := map[any]any{}
	drawCField(t, m, "t", func() any {
		return drawCList(t, "centries", func() any {
			e := map[any]any{}
			drawCField(t, e, "i", func() any { return drawCBytes(t, "ci", 8) })
			drawCField(t, e, "p", func() any { return drawCList(t, "cproofs", func() any { return drawCBORProof(t) }) })
			return e
		})
	})
	drawCField(t, m, "m", func() any { return genSpecialString(3).Draw(t, "cm") })
	drawCField(t, m, "u", func() any { return rapid.SampledFrom([]string{"sat", "usd", ""}).Draw(t, "cu") })
	drawCField(t, m, "d", func() any { return genSpecialString(3).Draw(t, "cd") })
	return m
}

func unhex(s string) []byte {
	b, err := hex.DecodeString(strings.ReplaceAll(s, " ", ""))
	if err != nil {
		panic(err)
	}
	return b
}

// hand-written CBOR items: minimal shapes, malformed and hostile encodings
var cborLiterals = [][]byte{
	unhex(""), unhex("f6"), unhex("f7"), unhex("a0"), unhex("80"), unhex("00"), unhex("60"), unhex("40"),
	unhex("a1 6174 80"),                                           // {"t":[]}
	unhex("a1 6174 81 a0"),                                        // {"t":[{}]}
	unhex("a1 6174 f6"),                                           // {"t":null}
	unhex("a1 6174 81 f6"),                                        // {"t":[null]}
	unhex("a1 6174 a0"),                                           // {"t":{}}
	unhex("a1 6174 81 a2 6169 40 6170 80"),                        // {"t":[{"i":h'',"p":[]}]}
	unhex("a1 6174 81 a1 6170 81 a0"),                             // {"t":[{"p":[{}]}]}
	unhex("a1 6174 81 a1 6170 81 a1 6164 a0"),                     // {"t":[{"p":[{"d":{}}]}]}
	unhex("a1 6174 81 a1 6170 81 a1 6164 f6"),                     // d: null
	unhex("a1 6174 81 a1 6170 81 a1 6161 20"),                     // a: -1
	unhex("a1 6174 81 a1 6170 81 a1 6161 fb3ff8000000000000"),     // a: 1.5
	unhex("a1 6174 81 a1 6170 81 a1 6161 c249010000000000000000"), // a: 2^64 bignum
	unhex("a1 6174 81 a1 6170 81 a1 6161 1bffffffffffffffff"),     // a: 2^64-1
	unhex("a1 6174 81 a1 6169 6178"),                              // i: "x" (text instead of bytes)
	unhex("a1 6174 81 a1 6169 820102"),                            // i: [1,2]
	unhex("a1 6174 81 a1 6169 8219ffff20"),                        // i: [65535,-1]
	unhex("a1 6154 80"),                                           // {"T":[]}
	unhex("a2 6174 80 6174 81a0"),                                 // duplicate key
	unhex("a1 00 80"),                                             // {0:[]}
	unhex("a1 616d 62c328"),                                       // m: invalid UTF-8
	unhex("a1 616d 7f 6161 6162 ff"),                              // m: indefinite-length text
	unhex("84 80 60 60 60"),                                       // array instead of map
	unhex("a000"),                                                 // trailing data
	unhex("d9d9f7 a0"),                                            // self-described CBOR tag
	unhex("c2 4101"), unhex("c0 6161"),
	unhex("5bffffffffffffffff"), unhex("7bffffffffffffffff"), unhex("9bffffffffffffffff"), unhex("bbffffffffffffffff"),
	unhex("5a7fffffff00"), unhex("9a00100000"), unhex("ba00100000"), unhex("a1 6174 9a00100000"), unhex("a1 616d 7a7fffffff"),
	unhex("9fff"), unhex("bfff"), unhex("5fff"), unhex("7fff"), unhex("bf 6174 9fff ff"), unhex("a1 6174 9f a0 ff"), unhex("9f"), unhex("bf6174"),
	unhex("ff"), unhex("1c"), unhex("1f"), unhex("f800"), unhex("f81f"), unhex("f8ff"), unhex("fc"),
	unhex(strings.Repeat("81", 20) + "00"), unhex(strings.Repeat("81", 40) + "00"), unhex(strings.Repeat("81", 5000) + "00"),
	unhex(strings.Repeat("a16174", 40) + "00"), unhex(strings.Repeat("c1", 40) + "00"),
}

func drawCBORPayload(t *rapid.T) (payload []byte, sub string) {
	switch rapid.SampledFrom([]int{3, 3, 0, 1, 3, 2, 3, 0, 1, 2}).Draw(t, "cborpayload") {
	case 0:
		return rapid.SampledFrom(cborLiterals).Draw(t, "clit"), "cbor_literal"
	case 1:
		b, err := cbor.Marshal(drawCBOR(t, 3))
		if err != nil {
			t.Fatalf("generator: cbor.Marshal: %v", err)
		}
		return b, "cbor_arbitrary"
	case 2: // a literal or token with bytes appended / cut
		b, err := cbor.Marshal(drawCBORToken(t))
		if err != nil {
			t.Fatalf("generator: cbor.Marshal: %v", err)
		}
		if rapid.Bool().Draw(t, "cut") && len(b) > 0 {
			b = b[:rapid.IntRange(0, len(b)-1).Draw(t, "cutat")]
		} else {
			b = append(b, rapid.SliceOfN(rapid.Byte(), 1, 4).Draw(t, "extra")...)
		}
		return b, "cbor_token_cut_or_extended"
	default:
		b, err := cbor.Marshal(drawCBORToken(t))
		if err != nil {
			t.Fatalf("generator: cbor.Marshal: %v", err)
		}
		return b, "cbor_token_shaped"
	}
}

// ---- valid tokens and their damage

func drawValidToken(t *rapid.T) string {
	if rapid.IntRange(0, 3).Draw(t, "usespec") == 0 {
		return rapid.SampledFrom(specTokens).Draw(t, "spec")
	}
	c := genCase().Draw(t, "case")
	if len(c.Proofs) > 6 {
		c.Proofs = c.Proofs[:6]
	}
	if c.Version == 4 && c.IncludeDLEQ {
		for i := range c.Proofs {
			if c.Proofs[i].DLEQ != nil && c.Proofs[i].DLEQ.R == "" {
				c.Proofs[i].DLEQ = nil
			}
		}
	}
	var tok cashu.Token
	var err error
	if c.Version == 3 {
		tok, err = cashu.NewTokenV3(deepCopy(c.Proofs), c.Mint, cashu.Sat, c.IncludeDLEQ)
	} else {
		tok, err = cashu.NewTokenV4(deepCopy(c.Proofs), c.Mint, cashu.Sat, c.IncludeDLEQ)
	}
	if err != nil {
		t.Fatalf("generator: constructor: %v", err)
	}
	s, err := tok.Serialize()
	if err != nil {
		t.Fatalf("generator: Serialize: %v", err)
	}
	return s
}

func splitPayload(tok string) (prefix string, payload []byte, ok bool) {
	if len(tok) < 6 {
		return "", nil, false
	}
	body := tok[6:]
	b, err := base64.URLEncoding.DecodeString(body)
	if err != nil {
		b, err = base64.RawURLEncoding.DecodeString(body)
	}
	return tok[:6], b, err == nil
}

const b64urlAlphabet = "ABCDEFGHIJKLMNOPQRSTUVWXYZabcdefghijklmnopqrstuvwxyz0123456789-_"

var shortAlphabet = []rune("cashuABe=-o30g9")

var wrongPrefixes = []string{"", "cashu", "cashuC", "cashua", "cashub", "CASHUA", "CASHUB", " cashuA", " cashuB", "cashuA ", "cashuB\n",
	"cashu:", "cashuAcashuA", "cashuBcashuB", "cashuAcashuB", "web+cashu://cashuA", "cashu:cashuB", "https://wallet.cashu.me/?token=cashuA", "Cashua", "cashu\uff21", "creqA"}

// weights of the input families (index = case label in drawDecoderInput)
var inputKindWeights = []int{10, 8, 10, 8, 11, 9, 5, 10, 8, 4, 10, 8, 4, 5, 0, 1, 2, 3, 6, 7, 12, 13, 14, 14}

// what a lenient decoder might strip before it looks at the prefix: white space, URI schemes, quotes
var decorations = []string{"", " ", "  ", "\t", "\n", "\r\n", "      ", "cashu:", "cashu://", "web+cashu://", "CASHU:", "\"", "'", "\ufeff", "\x00", "cashu: "}

// drawDecoderInput returns the input and the name of the family it came from.
func drawDecoderInput(t *rapid.T) (input, kind string) {
	switch rapid.SampledFrom(inputKindWeights).Draw(t, "inputkind") {
	case 0:
		return rapid.StringOfN(rapid.RuneFrom(shortAlphabet), 0, 8, -1).Draw(t, "short"), "short_string"
	case 1: // prefix + 0..4 base64 characters
		p := rapid.SampledFrom([]string{"cashuA", "cashuB"}).Draw(t, "prefix")
		return p + rapid.StringOfN(rapid.RuneFrom([]rune(b64urlAlphabet+"=")), 0, 4, -1).Draw(t, "tail"), "prefix_plus_short"
	case 2:
		s := drawValidToken(t)
		return s[:rapid.IntRange(0, len(s)-1).Draw(t, "cutat")], "truncated_valid"
	case 3: // single-byte mutation of the text
		b := []byte(drawValidToken(t))
		i := rapid.IntRange(0, len(b)-1).Draw(t, "pos")
		switch rapid.IntRange(0, 2).Draw(t, "mut") {
		case 0:
			b[i] = rapid.Byte().Draw(t, "byte")
		case 1:
			b[i] = b64urlAlphabet[rapid.IntRange(0, 63).Draw(t, "b64char")]
		default:
			b[i] ^= 1 << uint(rapid.IntRange(0, 7).Draw(t, "bit"))
		}
		return string(b), "mutated_valid_text"
	case 4, 5: // single-byte mutation / deletion / insertion inside the payload, re-encoded
		prefix, payload, ok := splitPayload(drawValidToken(t))
		if !ok || len(payload) == 0 {
			t.Fatalf("generator: valid token does not split")
		}
		i := rapid.IntRange(0, len(payload)-1).Draw(t, "pos")
		switch rapid.IntRange(0, 3).Draw(t, "mut") {
		case 0:
			payload[i] = rapid.Byte().Draw(t, "byte")
		case 1:
			payload[i] ^= 1 << uint(rapid.IntRange(0, 7).Draw(t, "bit"))
		case 2:
			payload = append(payload[:i:i], payload[i+1:]...)
		default:
			payload = append(payload[:i:i], append([]byte{rapid.Byte().Draw(t, "byte")}, payload[i:]...)...)
		}
		return prefix + drawEncode(t, payload), "mutated_valid_payload"
	case 6: // wrong prefix in front of / instead of the right one
		s := drawValidToken(t)
		p := rapid.SampledFrom(wrongPrefixes).Draw(t, "wrongprefix")
		if rapid.Bool().Draw(t, "replace") {
			return p + s[6:], "wrong_prefix"
		}
		return p + s, "wrong_prefix"
	case 7: // the other version's prefix
		s := drawValidToken(t)
		if s[5] == 'A' {
			return "cashuB" + s[6:], "swapped_prefix"
		}
		return "cashuA" + s[6:], "swapped_prefix"
	case 8, 9:
		p, sub := drawJSONPayload(t)
		prefix := rapid.SampledFrom([]string{"cashuA", "cashuA", "cashuA", "cashuB"}).Draw(t, "prefix")
		return prefix + drawEncode(t, p), sub + "_" + prefix
	case 10, 11:
		p, sub := drawCBORPayload(t)
		prefix := rapid.SampledFrom([]string{"cashuB", "cashuB", "cashuB", "cashuA"}).Draw(t, "prefix")
		return prefix + drawEncode(t, p), sub + "_" + prefix
	case 12:
		prefix := rapid.SampledFrom([]string{"cashuA", "cashuB"}).Draw(t, "prefix")
		return prefix + drawEncode(t, rapid.SliceOfN(rapid.Byte(), 0, 64).Draw(t, "rawbytes")), "prefix_plus_random_bytes"
	case 14: // short text wrapped in what a lenient decoder might strip (a "string whatsoever" shorter than a prefix once stripped)
		var core string
		if rapid.Bool().Draw(t, "core_prefixed") {
			core = rapid.SampledFrom([]string{"cashuA", "cashuB"}).Draw(t, "prefix") +
				rapid.StringOfN(rapid.RuneFrom([]rune(b64urlAlphabet+"=")), 0, 4, -1).Draw(t, "tail")
		} else {
			core = rapid.StringOfN(rapid.RuneFrom(shortAlphabet), 0, 8, -1).Draw(t, "short")
		}
		return rapid.SampledFrom(decorations).Draw(t, "lead") + core + rapid.SampledFrom(decorations).Draw(t, "trail"), "decorated_short"
	default:
		if rapid.Bool().Draw(t, "bytes") {
			return string(rapid.SliceOfN(rapid.Byte(), 0, 40).Draw(t, "anybytes")), "arbitrary_bytes"
		}
		return rapid.StringN(0, 40, 200).Draw(t, "anystring"), "arbitrary_string"
	}
}

func passedPrefix(s string) bool {
	return len(s) >= 6 && (s[:6] == "cashuA" || s[:6] == "cashuB")
}

func classifyDecoderInput(input, kind string, res totalResult) {
	rec.Class("dec_kind=" + kind)
	switch {
	case len(input) < 6:
		rec.Class("dec_len<6")
	case !passedPrefix(input):
		rec.Class("dec_prefix_rejected")
	default:
		rec.Class("dec_prefix_ok")
		rec.NonTrivial("dec|" + input)
		if _, _, ok := splitPayload(input); ok {
			rec.Class("dec_base64_ok(payload reached JSON/CBOR decoder)")
		}
	}
	if tn, ok := res.accepted["DecodeToken"]; ok {
		rec.Class("dec_accepted_as_" + tn)
		rec.Class("dec_accepted/" + kind)
		if !strings.HasPrefix(kind, "mutated_valid") {
			rec.Sample("decoder_accepted_"+tn, map[string]any{"kind": kind, "input": input})
		}
	}
}

func propDecodeTotal(t *rapid.T) {
	input, kind := drawDecoderInput(t)
	rec.Eval()
	res := checkTotal(input)
	classifyDecoderInput(input, kind, res)
	for _, v := range res.violations {
		if rec.IsKnown(v.sig) {
			continue
		}
		t.Fatalf("%s\n  input kind: %s", v, kind)
	}
}

func TestDecodeTotal(t *testing.T) { rapid.Check(t, propDecodeTotal) }

// ---------------------------------------------------------------- exhaustive enumerations

type sigAgg struct {
	count int
	first violation
}

func enumerate(alphabet string, maxLen int, prefixes []string, agg map[string]*sigAgg) (n int) {
	buf := make([]byte, 0, 16)
	var walk func(depth int)
	visit := func(s string) {
		n++
		for _, v := range checkTotal(s).violations {
			a := agg[v.sig]
			if a == nil {
				a = &sigAgg{first: v}
				agg[v.sig] = a
			}
			a.count++
		}
	}
	walk = func(depth int) {
		for _, p := range prefixes {
			visit(p + string(buf))
		}
		if depth == maxLen {
			return
		}
		for i := 0; i < len(alphabet); i++ {
			buf = append(buf, alphabet[i])
			walk(depth + 1)
			buf = buf[:len(buf)-1]
		}
	}
	walk(0)
	return n
}

func reportAgg(t *testing.T, agg map[string]*sigAgg) {
	var sigs []string
	for s := range agg {
		sigs = append(sigs, s)
	}
	sort.Strings(sigs)
	for _, s := range sigs {
		a := agg[s]
		if rec.IsKnown(s) {
			continue
		}
		rec.Violate(s, a.first.detail, nil)
		t.Errorf("%s (%d inputs of the enumeration; first shown)", a.first, a.count)
	}
}

// Every string of length 0..7 (thorough: 0..8) over an alphabet containing the characters of both prefixes.
func TestDecodeShortExhaustive(t *testing.T) {
	const alphabet = "cashuABe=-"
	maxLen := 7
	if os.Getenv("VERIF_TIER") == "thorough" {
		maxLen = 8
	}
	agg := map[string]*sigAgg{}
	n := enumerate(alphabet, maxLen, []string{""}, agg)
	rec.EvalN(n)
	rec.Exhaustive(fmt.Sprintf("all strings of length 0..%d over %q x 3 decoders", maxLen, alphabet), n)
	reportAgg(t, agg)
}

// Every string of length 0..7 (thorough: 0..8) over the characters of the URI form and white space: what remains
// after a decoder has stripped a scheme or blanks may be shorter than a version prefix.
func TestDecodeSchemeExhaustive(t *testing.T) {
	const alphabet = "cashu:AB \n"
	maxLen := 7
	if os.Getenv("VERIF_TIER") == "thorough" {
		maxLen = 8
	}
	agg := map[string]*sigAgg{}
	n := enumerate(alphabet, maxLen, []string{""}, agg)
	rec.EvalN(n)
	rec.Exhaustive(fmt.Sprintf("all strings of length 0..%d over %q x 3 decoders", maxLen, alphabet), n)
	reportAgg(t, agg)
}

// "cashuA"/"cashuB" followed by every string of length 0..3 over the base64url alphabet and '=':
// every payload of 0..2 bytes (`{}`, `[]`, `0`, CBOR a0, 80, f6, ...) in every padding variant.
func TestDecodePrefixedExhaustive(t *testing.T) {
	agg := map[string]*sigAgg{}
	n := enumerate(b64urlAlphabet+"=", 3, []string{"cashuA", "cashuB"}, agg)
	rec.EvalN(n)
	rec.Exhaustive("cashuA|cashuB + all strings of length 0..3 over base64url alphabet and '=' x 3 decoders", n)
	reportAgg(t, agg)
}

// ---------------------------------------------------------------- native fuzzing

// Seeded with the spec tokens; with VERIF_FUZZ_CORPUS=empty nothing is added and the fuzzer
// starts from Go's zero-value input (use a fresh -test.fuzzcachedir for a really empty start).
func FuzzDecode(f *testing.F) {
	if os.Getenv("VERIF_FUZZ_CORPUS") != "empty" {
		for _, s := range specTokens {
			f.Add(s)
		}
		f.Add("cashuA")
		f.Add("cashuB")
		f.Add("cashuAe30=")
		f.Add("cashuBoA")
		f.Add("cashu:cashuA")
		f.Add(" cashuB\n")
	}
	f.Fuzz(func(t *testing.T, s string) {
		for _, v := range checkTotal(s).violations {
			if rec.IsKnown(v.sig) {
				continue // known defect: do not fail on it, keep fuzzing behind it
			}
			t.Fatalf("%s", v)
		}
	})
}
