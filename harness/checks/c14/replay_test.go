package c14

import (
	"encoding/json"
	"os"
	"testing"

	"verif/harness/rec"
)

// TestReplay re-runs the totality oracle on a saved decoder input (VERIF_REPLAY=<case json>).
func TestReplay(t *testing.T) {
	path := os.Getenv("VERIF_REPLAY")
	if path == "" {
		t.Skip("no VERIF_REPLAY")
	}
	raw, err := os.ReadFile(path)
	if err != nil {
		t.Fatal(err)
	}
	var doc struct {
		Replay struct {
			Input *string `json:"input"`
		} `json:"replay"`
	}
	if err := json.Unmarshal(raw, &doc); err != nil || doc.Replay.Input == nil {
		t.Fatalf("no input in replay file: %v", err)
	}
	for _, v := range checkTotal(*doc.Replay.Input).violations {
		if !rec.IsKnown(v.sig) {
			t.Errorf("VIOLATION %s", v)
		}
	}
}
