// C14 — tokens survive serialisation exactly; decoding arbitrary text never crashes.
//
// TestRoundTrip:   Decode(Serialize(NewTokenV3/V4(proofs))) gives back mint, unit and the proofs.
// TestDecodeTotal: DecodeToken / DecodeTokenV3 / DecodeTokenV4 on any string return an error or a
//
//	token on which every accessor can be called (see decode_test.go).
package c14

import (
	"encoding/hex"
	"encoding/json"
	"fmt"
	"os"
	"strings"
	"testing"
	"unicode/utf8"

	"github.com/elnosh/gonuts/cashu"
	"pgregory.net/rapid"

	"verif/harness/rec"
)

func TestMain(m *testing.M) {
	code := m.Run()
	rec.Flush()
	os.Exit(code)
}

// ---------------------------------------------------------------- generators (round trip domain)

type rtCase struct {
	Version     int // 3 or 4
	IncludeDLEQ bool
	Mint        string
	Proofs      cashu.Proofs
	// PriorBuild: before the token under test is built, another token is built from the very same slice of proofs
	// (0 none, 3 / 4 the version, always without DLEQ) and thrown away - a wallet offering one set of proofs in two forms
	PriorBuild int
}

func hexN(t *rapid.T, n int, label string) string {
	return hex.EncodeToString(rapid.SliceOfN(rapid.Byte(), n, n).Draw(t, label))
}

// 1..4 distinct lower-case 16-hex keyset ids; most with the version byte 00 like real ids.
func genKeysetIDs() *rapid.Generator[[]string] {
	one := rapid.Custom(func(t *rapid.T) string {
		b := rapid.SliceOfN(rapid.Byte(), 8, 8).Draw(t, "idbytes")
		switch rapid.IntRange(0, 5).Draw(t, "idkind") {
		case 0: // arbitrary 8 bytes
		case 1:
			b = []byte{0, 0, 0, 0, 0, 0, 0, 0}
		case 2:
			b = []byte{0xff, 0xff, 0xff, 0xff, 0xff, 0xff, 0xff, 0xff}
		default:
			b[0] = 0
		}
		return hex.EncodeToString(b)
	})
	return rapid.SliceOfNDistinct(one, 1, 4, func(s string) string { return s })
}

func genAmount() *rapid.Generator[uint64] {
	return rapid.OneOf(
		rapid.Custom(func(t *rapid.T) uint64 { return uint64(1) << uint(rapid.IntRange(0, 63).Draw(t, "pow")) }),
		rapid.Uint64Range(0, 1<<63),
		rapid.Uint64Range(0, 1000),
		rapid.SampledFrom([]uint64{0, 1, 1 << 63, 1<<63 - 1, 1<<53 + 1, 1<<53 - 1, 1<<32 - 1, 1 << 32, 1<<62 + 1, 9007199254740993, 4611686018427387905}),
	)
}

var specialPieces = []string{
	"\"", "\\", "\\\"", "\\\\", "A", "\\n", "\n", "\r", "\t", "\x00", "\x7f", " ", "\u00a0", "<", ">", "&",
	"<script>", "&amp;", "'", "`", "{", "}", "[", "]", ",", ":", "\u2028", "\u2029", "\u00e9", "e\u0301", "\u00fc", "\u4e2d\u6587",
	"\U0001F95C", "\U0001F468\u200d\U0001F469\u200d\U0001F467", "\ufeff", "\ufffd", "\U0010FFFF", "\u202e", "\\u0000", "\\ud800",
	"null", "true", "0", "cashuA", "cashuB", "=", "-", "_", "+", "/", "%20", "\u0100", "\ud7ff", "\ue000", "\u0085",
}

func genSpecialString(maxPieces int) *rapid.Generator[string] {
	return rapid.Custom(func(t *rapid.T) string {
		ps := rapid.SliceOfN(rapid.SampledFrom(specialPieces), 1, maxPieces).Draw(t, "pieces")
		return strings.Join(ps, "")
	})
}

func validUTF8(s string) string {
	if utf8.ValidString(s) {
		return s
	}
	return strings.ToValidUTF8(s, "�")
}

func genNut10Secret() *rapid.Generator[string] {
	return rapid.Custom(func(t *rapid.T) string {
		kind := rapid.SampledFrom([]string{"P2PK", "HTLC"}).Draw(t, "n10kind")
		nonce := hexN(t, 32, "nonce")
		var data string
		if kind == "P2PK" {
			data = rapid.SampledFrom([]string{"02", "03"}).Draw(t, "par") + hexN(t, 32, "pk")
		} else {
			data = hexN(t, 32, "hash")
		}
		tags := [][]string{}
		if rapid.Bool().Draw(t, "sigflag") {
			tags = append(tags, []string{"sigflag", rapid.SampledFrom([]string{"SIG_ALL", "SIG_INPUTS"}).Draw(t, "sf")})
		}
		if rapid.Bool().Draw(t, "nsigs") {
			tags = append(tags, []string{"n_sigs", fmt.Sprint(rapid.IntRange(1, 5).Draw(t, "n"))})
			pks := []string{"pubkeys"}
			for i := 0; i < rapid.IntRange(1, 3).Draw(t, "npk"); i++ {
				pks = append(pks, "02"+hexN(t, 32, "pk2"))
			}
			tags = append(tags, pks)
		}
		if rapid.Bool().Draw(t, "locktime") {
			tags = append(tags, []string{"locktime", fmt.Sprint(rapid.Int64Range(0, 1<<40).Draw(t, "lt"))})
			tags = append(tags, []string{"refund", "03" + hexN(t, 32, "rf")})
		}
		if rapid.IntRange(0, 4).Draw(t, "weirdtag") == 0 {
			tags = append(tags, []string{genSpecialString(3).Draw(t, "tk"), genSpecialString(3).Draw(t, "tv")})
		}
		body := map[string]any{"nonce": nonce, "data": data}
		if len(tags) > 0 || rapid.Bool().Draw(t, "emptytags") {
			body["tags"] = tags
		}
		b, err := json.Marshal([]any{kind, body})
		if err != nil {
			t.Fatalf("generator: %v", err)
		}
		s := string(b)
		if rapid.IntRange(0, 3).Draw(t, "rawjson") == 0 {
			// hand-rendered form with the literal spacing / characters wallets of other implementations emit
			s = fmt.Sprintf(`["%s", {"nonce": "%s", "data": "%s", "tags": [["sigflag", "SIG_ALL"]]}]`, kind, nonce, data)
		}
		return s
	})
}

func genSecret() *rapid.Generator[string] {
	return rapid.OneOf(
		rapid.Custom(func(t *rapid.T) string { return hexN(t, 32, "secret") }),
		rapid.Custom(func(t *rapid.T) string { return hexN(t, 32, "secret") }),
		genNut10Secret(),
		genNut10Secret(),
		genSpecialString(8),
		rapid.Map(rapid.StringN(0, 60, 300), validUTF8),
		rapid.Custom(func(t *rapid.T) string { // long secrets (MAX_SECRET_LENGTH is a mint rule, not a token rule)
			return strings.Repeat(genSpecialString(2).Draw(t, "unit"), rapid.IntRange(1, 200).Draw(t, "rep"))
		}),
		rapid.Just(""),
	)
}

func genC() *rapid.Generator[string] {
	return rapid.Custom(func(t *rapid.T) string {
		return rapid.SampledFrom([]string{"02", "03"}).Draw(t, "par") + hexN(t, 32, "C")
	})
}

// "" = absent
func genWitness() *rapid.Generator[string] {
	return rapid.Custom(func(t *rapid.T) string {
		switch rapid.IntRange(0, 4).Draw(t, "wkind") {
		case 0: // P2PK witness
			sigs := []string{}
			for i := 0; i < rapid.IntRange(0, 3).Draw(t, "nsig"); i++ {
				sigs = append(sigs, hexN(t, 64, "sig"))
			}
			b, _ := json.Marshal(map[string]any{"signatures": sigs})
			return string(b)
		case 1: // HTLC witness
			b, _ := json.Marshal(map[string]any{"preimage": hexN(t, 32, "pre"), "signatures": []string{hexN(t, 64, "sig")}})
			return string(b)
		case 2:
			return fmt.Sprintf(`{"signatures": ["%s"]}`, hexN(t, 64, "sig"))
		case 3:
			return genSpecialString(6).Draw(t, "wspecial")
		default:
			return validUTF8(rapid.StringN(1, 40, 200).Draw(t, "wstr"))
		}
	})
}

const (
	dleqNone = iota
	dleqFull
	dleqPartial
)

func drawDLEQ(t *rapid.T, kind int) *cashu.DLEQProof {
	switch kind {
	case dleqFull:
		return &cashu.DLEQProof{E: hexN(t, 32, "e"), S: hexN(t, 32, "s"), R: hexN(t, 32, "r")}
	case dleqPartial:
		return &cashu.DLEQProof{E: hexN(t, 32, "e"), S: hexN(t, 32, "s")}
	}
	return nil
}

var mintURLs = []string{
	"http://localhost:3338", "https://8333.space:3338", "https://testnut.cashu.space", "https://mint.example.com/",
	"", "https://mint.example/路径/ünï?q=\"a\"&b=<c>", "http://[::1]:3338/Bitcoin", "https://\U0001F95C.mint",
	"https://xn--nut-9la.example", "mint", " ", "https://mint.example.com/a b", "HTTPS://MINT.EXAMPLE.COM",
}

func genMint() *rapid.Generator[string] {
	return rapid.OneOf(
		rapid.SampledFrom(mintURLs),
		rapid.SampledFrom(mintURLs),
		genSpecialString(5),
		rapid.Map(rapid.StringN(0, 40, 200), validUTF8),
	)
}

// Token-level DLEQ modes so that the documented "V4 + includeDLEQ + DLEQ without r" error stays a
// bounded fraction of the cases.
var dleqModes = []string{"none", "none", "all_full", "all_full", "mixed_full_absent", "all_partial", "mixed_any"}

func genCase() *rapid.Generator[rtCase] {
	return rapid.Custom(func(t *rapid.T) rtCase {
		c := rtCase{
			Version:     rapid.SampledFrom([]int{3, 4}).Draw(t, "version"),
			IncludeDLEQ: rapid.Bool().Draw(t, "includeDLEQ"),
			Mint:        genMint().Draw(t, "mint"),
			PriorBuild:  rapid.SampledFrom([]int{0, 0, 0, 3, 4}).Draw(t, "prior_build_without_dleq"),
		}
		ids := genKeysetIDs().Draw(t, "ids")
		mode := rapid.SampledFrom(dleqModes).Draw(t, "dleqmode")
		witnessRate := rapid.SampledFrom([]int{0, 0, 1, 3}).Draw(t, "witnessrate") // out of 3
		var n int
		switch rapid.IntRange(0, 9).Draw(t, "sizeclass") {
		case 0:
			n = 0
		case 1:
			n = 1
		case 2:
			n = 40
		case 3, 4:
			n = rapid.IntRange(2, 6).Draw(t, "n")
		default:
			n = rapid.IntRange(2, 40).Draw(t, "n")
		}
		c.Proofs = make(cashu.Proofs, 0, n)
		for i := 0; i < n; i++ {
			p := cashu.Proof{
				Amount: genAmount().Draw(t, "amount"),
				Id:     rapid.SampledFrom(ids).Draw(t, "id"),
				Secret: genSecret().Draw(t, "secret"),
				C:      genC().Draw(t, "C"),
			}
			if witnessRate > 0 && rapid.IntRange(1, 3).Draw(t, "w?") <= witnessRate {
				p.Witness = genWitness().Draw(t, "witness")
			}
			k := dleqNone
			switch mode {
			case "all_full":
				k = dleqFull
			case "all_partial":
				k = dleqPartial
			case "mixed_full_absent":
				k = rapid.SampledFrom([]int{dleqNone, dleqFull}).Draw(t, "dk")
			case "mixed_any":
				k = rapid.SampledFrom([]int{dleqNone, dleqFull, dleqFull, dleqPartial}).Draw(t, "dk")
			}
			p.DLEQ = drawDLEQ(t, k)
			c.Proofs = append(c.Proofs, p)
		}
		return c
	})
}

func deepCopy(ps cashu.Proofs) cashu.Proofs {
	out := make(cashu.Proofs, len(ps))
	for i, p := range ps {
		out[i] = p
		if p.DLEQ != nil {
			d := *p.DLEQ
			out[i].DLEQ = &d
		}
	}
	return out
}

func renderDLEQ(d *cashu.DLEQProof) string {
	if d == nil {
		return "nil"
	}
	return fmt.Sprintf("{e:%s s:%s r:%s}", d.E, d.S, d.R)
}

func renderProof(p cashu.Proof) string {
	return fmt.Sprintf("{a:%d id:%s secret:%q C:%s w:%q dleq:%s}", p.Amount, p.Id, p.Secret, p.C, p.Witness, renderDLEQ(p.DLEQ))
}

func renderProofs(ps cashu.Proofs) string {
	var sb strings.Builder
	for _, p := range ps {
		sb.WriteString(renderProof(p))
		sb.WriteByte(';')
	}
	return sb.String()
}

func isASCII(s string) bool {
	for i := 0; i < len(s); i++ {
		if s[i] >= 0x80 {
			return false
		}
	}
	return true
}

// ---------------------------------------------------------------- round-trip oracle

// diffProofs compares want and got as multisets grouped by keyset id with the order inside one
// keyset preserved. It returns "" when equal, otherwise the name of the first differing aspect.
func diffProofs(want, got cashu.Proofs) (field string, detail string) {
	if len(want) != len(got) {
		return "count", fmt.Sprintf("want %d proofs, got %d", len(want), len(got))
	}
	group := func(ps cashu.Proofs) (map[string]cashu.Proofs, []string) {
		m := map[string]cashu.Proofs{}
		var order []string
		for _, p := range ps {
			if _, ok := m[p.Id]; !ok {
				order = append(order, p.Id)
			}
			m[p.Id] = append(m[p.Id], p)
		}
		return m, order
	}
	wm, worder := group(want)
	gm, _ := group(got)
	for _, id := range worder {
		w, g := wm[id], gm[id]
		if len(g) == 0 {
			return "id", fmt.Sprintf("keyset id %q missing in decoded proofs (decoded ids %v)", id, keys(gm))
		}
		if len(w) != len(g) {
			return "count_in_keyset", fmt.Sprintf("keyset %s: want %d proofs, got %d", id, len(w), len(g))
		}
		for i := range w {
			a, b := w[i], g[i]
			f := ""
			switch {
			case a.Amount != b.Amount:
				f = "amount"
			case a.Secret != b.Secret:
				f = "secret"
			case a.C != b.C:
				f = "C"
			case a.Witness != b.Witness:
				f = "witness"
			case (a.DLEQ == nil) != (b.DLEQ == nil):
				f = "dleq_presence"
			case a.DLEQ != nil && *a.DLEQ != *b.DLEQ:
				f = "dleq"
			}
			if f != "" {
				// is it only an order problem inside the keyset?
				for j := range g {
					if renderProof(g[j]) == renderProof(a) {
						f = "order_in_keyset"
					}
				}
				return f, fmt.Sprintf("keyset %s index %d: want %s got %s", id, i, renderProof(a), renderProof(b))
			}
		}
	}
	if len(wm) != len(gm) {
		return "id", fmt.Sprintf("want keyset ids %v, got %v", keys(wm), keys(gm))
	}
	return "", ""
}

func keys(m map[string]cashu.Proofs) []string {
	var ks []string
	for k := range m {
		ks = append(ks, k)
	}
	return ks
}

type violation struct{ sig, detail string }

func (v violation) String() string { return "VIOLATION " + v.sig + ": " + v.detail }

// safely runs fn and turns a panic into an error string.
func safely(fn func()) (panicked bool, msg string) {
	defer func() {
		if r := recover(); r != nil {
			panicked, msg = true, fmt.Sprint(r)
		}
	}()
	fn()
	return
}

func unitOf(tok cashu.Token) (string, bool) {
	switch v := tok.(type) {
	case *cashu.TokenV3:
		return v.Unit, true
	case cashu.TokenV3:
		return v.Unit, true
	case *cashu.TokenV4:
		return v.Unit, true
	case cashu.TokenV4:
		return v.Unit, true
	}
	return "", false
}

// checkToken compares one token (constructed or decoded) with the expectation.
func checkToken(tag, stage string, tok cashu.Token, mint string, want cashu.Proofs, sum uint64) *violation {
	var v *violation
	p, msg := safely(func() {
		if got := tok.Mint(); got != mint {
			v = &violation{fmt.Sprintf("C14|roundtrip|%s|mint", tag), fmt.Sprintf("%s: Mint() = %q, want %q", stage, got, mint)}
			return
		}
		if u, ok := unitOf(tok); !ok || u != "sat" {
			v = &violation{fmt.Sprintf("C14|roundtrip|%s|unit", tag), fmt.Sprintf("%s: unit = %q (%T), want \"sat\"", stage, u, tok)}
			return
		}
		got := tok.Proofs()
		if f, d := diffProofs(want, got); f != "" {
			v = &violation{fmt.Sprintf("C14|roundtrip|%s|proofs.%s", tag, f), stage + ": " + d}
			return
		}
		if a := tok.Amount(); a != sum || got.Amount() != sum {
			v = &violation{fmt.Sprintf("C14|roundtrip|%s|amount", tag),
				fmt.Sprintf("%s: Amount() = %d, Proofs().Amount() = %d, sum of input amounts mod 2^64 = %d", stage, a, got.Amount(), sum)}
		}
	})
	if p {
		return &violation{fmt.Sprintf("C14|roundtrip|%s|panic", tag), stage + ": " + msg}
	}
	return v
}

// roundTrip runs the whole oracle on one case. allowedErr is true when the constructor returned the
// documented error.
func roundTrip(c rtCase) (v *violation, allowedErr bool, serialized string) {
	tag := fmt.Sprintf("v%d", c.Version)
	input := deepCopy(c.Proofs)
	want := deepCopy(c.Proofs)
	hasPartial := false
	var sum uint64
	for i := range want {
		sum += want[i].Amount
		if want[i].DLEQ != nil && want[i].DLEQ.R == "" {
			hasPartial = true
		}
		if !c.IncludeDLEQ {
			want[i].DLEQ = nil
		}
	}

	var tok cashu.Token
	var err error
	if c.PriorBuild != 0 {
		safely(func() {
			if c.PriorBuild == 3 {
				cashu.NewTokenV3(input, c.Mint, cashu.Sat, false)
			} else {
				cashu.NewTokenV4(input, c.Mint, cashu.Sat, false)
			}
		})
		tag += fmt.Sprintf("|after_v%d_build_without_dleq", c.PriorBuild)
	}
	p, msg := safely(func() {
		if c.Version == 3 {
			var t3 cashu.TokenV3
			t3, err = cashu.NewTokenV3(input, c.Mint, cashu.Sat, c.IncludeDLEQ)
			tok = t3
		} else {
			var t4 cashu.TokenV4
			t4, err = cashu.NewTokenV4(input, c.Mint, cashu.Sat, c.IncludeDLEQ)
			tok = t4
		}
	})
	if p {
		return &violation{fmt.Sprintf("C14|roundtrip|%s|ctor_panic", tag), msg}, false, ""
	}
	if err != nil {
		if c.Version == 4 && c.IncludeDLEQ && hasPartial && err.Error() == "r in DLEQ proof cannot be empty" {
			return nil, true, ""
		}
		return &violation{fmt.Sprintf("C14|roundtrip|%s|ctor_error", tag), fmt.Sprintf("constructor rejected well-formed proofs: %v", err)}, false, ""
	}
	if v := checkToken(tag, "constructed token", tok, c.Mint, want, sum); v != nil {
		return v, false, ""
	}

	var s string
	p, msg = safely(func() { s, err = tok.Serialize() })
	if p {
		return &violation{fmt.Sprintf("C14|roundtrip|%s|serialize_panic", tag), msg}, false, ""
	}
	if err != nil {
		return &violation{fmt.Sprintf("C14|roundtrip|%s|serialize_error", tag), err.Error()}, false, ""
	}
	wantPrefix := "cashuA"
	if c.Version == 4 {
		wantPrefix = "cashuB"
	}
	if !strings.HasPrefix(s, wantPrefix) {
		return &violation{fmt.Sprintf("C14|roundtrip|%s|prefix", tag), fmt.Sprintf("serialised token %.20q does not start with %s", s, wantPrefix)}, false, s
	}

	decoders := []struct {
		name string
		fn   func(string) (cashu.Token, error)
	}{
		{"DecodeToken", cashu.DecodeToken},
		{fmt.Sprintf("DecodeTokenV%d", c.Version), func(s string) (cashu.Token, error) {
			if c.Version == 3 {
				t3, err := cashu.DecodeTokenV3(s)
				if err != nil || t3 == nil {
					return nil, err
				}
				return t3, nil
			}
			t4, err := cashu.DecodeTokenV4(s)
			if err != nil || t4 == nil {
				return nil, err
			}
			return t4, nil
		}},
	}
	for _, d := range decoders {
		var dec cashu.Token
		p, msg = safely(func() { dec, err = d.fn(s) })
		if p {
			return &violation{fmt.Sprintf("C14|roundtrip|%s|decode_panic", tag), d.name + ": " + msg}, false, s
		}
		if err != nil || dec == nil {
			return &violation{fmt.Sprintf("C14|roundtrip|%s|decode_error", tag), fmt.Sprintf("%s(%.40q...) = %v, %v", d.name, s, dec, err)}, false, s
		}
		switch dec.(type) {
		case *cashu.TokenV3:
			if c.Version != 3 {
				return &violation{fmt.Sprintf("C14|roundtrip|%s|version", tag), fmt.Sprintf("%s returned %T", d.name, dec)}, false, s
			}
		case *cashu.TokenV4:
			if c.Version != 4 {
				return &violation{fmt.Sprintf("C14|roundtrip|%s|version", tag), fmt.Sprintf("%s returned %T", d.name, dec)}, false, s
			}
		}
		if v := checkToken(tag, "decoded by "+d.name, dec, c.Mint, want, sum); v != nil {
			return v, false, s
		}
		// the decoded token keeps saying the same whatever a caller does with the proofs it was handed: the library's
		// own consumers write into that slice (Receive adds witnesses, NewTokenV3(..., false) clears DLEQ)
		var before, after string
		p, msg = safely(func() {
			before, _ = dec.Serialize()
			handed := dec.Proofs()
			for i := range handed {
				handed[i].Witness = `{"signatures":["written by the caller"]}`
				handed[i].DLEQ = nil
				handed[i].Amount++
			}
			after, _ = dec.Serialize()
		})
		if p {
			return &violation{fmt.Sprintf("C14|roundtrip|%s|accessor_panic", tag), d.name + ": " + msg}, false, s
		}
		if before != after {
			return &violation{fmt.Sprintf("C14|roundtrip|%s|token_changed_through_proofs_accessor", tag), fmt.Sprintf("%s: the token serialises differently after the caller modified the slice returned by Proofs()", d.name)}, false, s
		}
		if v := checkToken(tag, "decoded by "+d.name+", after the caller modified the proofs it was handed", dec, c.Mint, want, sum); v != nil {
			v.sig += "|after_caller_modified_proofs"
			return v, false, s
		}
	}
	return nil, false, s
}

func classifyCase(c rtCase, allowedErr bool) (nonTrivial bool) {
	rec.Class(fmt.Sprintf("rt_version=v%d", c.Version))
	rec.Class(fmt.Sprintf("rt_includeDLEQ=%v", c.IncludeDLEQ))
	ids := map[string]bool{}
	witness, full, partial, nonASCII, jsonSecret, overflow := false, false, false, false, false, false
	var sum uint64
	for _, p := range c.Proofs {
		ids[p.Id] = true
		if p.Witness != "" {
			witness = true
		}
		if p.DLEQ != nil {
			if p.DLEQ.R != "" {
				full = true
			} else {
				partial = true
			}
		}
		if !isASCII(p.Secret) {
			nonASCII = true
		}
		if strings.HasPrefix(p.Secret, "[") {
			jsonSecret = true
		}
		if sum+p.Amount < sum {
			overflow = true
		}
		sum += p.Amount
	}
	switch {
	case len(c.Proofs) == 0:
		rec.Class("rt_proofs=0")
	case len(c.Proofs) == 1:
		rec.Class("rt_proofs=1")
	case len(c.Proofs) < 40:
		rec.Class("rt_proofs=2..39")
	default:
		rec.Class("rt_proofs=40")
	}
	if len(ids) >= 2 {
		rec.Class("rt_keysets>=2")
	}
	if witness {
		rec.Class("rt_with_witness")
	}
	if full {
		rec.Class("rt_with_dleq_full")
	}
	if partial {
		rec.Class("rt_with_dleq_partial")
	}
	if nonASCII {
		rec.Class("rt_secret_non_ascii")
	}
	if jsonSecret {
		rec.Class("rt_secret_nut10_json")
	}
	if overflow {
		rec.Class("rt_amount_sum_wraps")
	}
	if !isASCII(c.Mint) {
		rec.Class("rt_mint_non_ascii")
	}
	if c.Mint == "" {
		rec.Class("rt_mint_empty")
	}
	if allowedErr {
		rec.Class("rt_v4_partial_dleq_rejected(allowed)")
	}
	return len(ids) >= 2 || witness || full || partial || nonASCII || jsonSecret
}

func propRoundTrip(t *rapid.T) {
	c := genCase().Draw(t, "case")
	rec.Eval()
	v, allowedErr, s := roundTrip(c)
	if v != nil && !rec.IsKnown(v.sig) {
		t.Fatalf("%s\n  version=%d includeDLEQ=%v mint=%q\n  proofs=%s\n  serialised=%s", v, c.Version, c.IncludeDLEQ, c.Mint, renderProofs(c.Proofs), s)
	}
	if classifyCase(c, allowedErr) {
		rec.NonTrivial(fmt.Sprintf("rt|%d|%v|%q|%s", c.Version, c.IncludeDLEQ, c.Mint, renderProofs(c.Proofs)))
		if len(c.Proofs) > 0 && len(c.Proofs) <= 3 {
			rec.Sample(fmt.Sprintf("roundtrip_v%d", c.Version), map[string]any{
				"version": c.Version, "includeDLEQ": c.IncludeDLEQ, "mint": c.Mint, "proofs": c.Proofs, "serialised": s, "ctor_error_allowed": allowedErr})
		}
	}
}

func TestRoundTrip(t *testing.T) { rapid.Check(t, propRoundTrip) }
