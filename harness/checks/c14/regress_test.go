package c14

import (
	"testing"

	"verif/harness/rec"
)

// Hand-written regressions of confirmed findings (no library, no randomness). Each one runs the
// totality oracle on the minimal failing input and fails with the finding's signature unless that
// signature is listed as a known finding.

func regress(t *testing.T, name, input string) {
	rec.Eval()
	if passedPrefix(input) {
		rec.NonTrivial("regress|" + name + "|" + input)
	}
	seen := map[string]bool{}
	for _, v := range checkTotal(input).violations {
		if rec.IsKnown(v.sig) || seen[v.sig] {
			continue
		}
		seen[v.sig] = true
		rec.Violate(v.sig, v.detail, map[string]any{"input": input})
		t.Errorf("%s", v)
	}
}

// DecodeToken / DecodeTokenV3 / DecodeTokenV4 slice tokenstr[:6] before checking the length:
// every input shorter than 6 bytes panics (signatures C14|panic|<decoder>|short_input).
func TestRegressShortInput(t *testing.T) {
	for _, in := range []string{"", "c", "abc", "cashu"} {
		regress(t, "short_input", in)
	}
}

// TokenV3.Mint() returns t.Token[0].Mint without checking that the token has an entry: a V3 token
// whose JSON is `null`, `{}`, `{"token":[]}` or `{"token":null}` decodes without error and then
// Mint() panics (signature C14|panic|TokenV3.Mint|empty_token_list).
func TestRegressV3MintEmptyTokenList(t *testing.T) {
	for _, in := range []string{
		"cashuAe30",                 // {}
		"cashuAe30=",                // {}
		"cashuAbnVsbA==",            // null
		"cashuAeyJ0b2tlbiI6W119",    // {"token":[]}
		"cashuAeyJ0b2tlbiI6bnVsbH0", // {"token":null}
	} {
		regress(t, "v3_mint_empty_token_list", in)
	}
}
