// C09 — keyset lifecycle: deterministic keys, one active keyset, old ecash stays valid.
package c09

import (
	"encoding/json"
	"fmt"
	"github.com/elnosh/gonuts/mint"
	"os"
	"strings"
	"testing"

	"pgregory.net/rapid"

	"verif/harness/hist"
	"verif/harness/httpx"
	"verif/harness/rec"
	"verif/harness/ref"
	"verif/harness/world"
)

func TestMain(m *testing.M) {
	code := m.Run()
	rec.Flush()
	os.Exit(code)
}

func fail(m *hist.Machine, sig, format string, a ...any) {
	if rec.IsKnown(sig) {
		return
	}
	m.T.Fatalf("VIOLATION %s: %s\n  history:\n  %s", sig, fmt.Sprintf(format, a...), m.TraceString())
}

// verified caches (keyset id -> true) keysets whose 60 published keys were compared with the reference in
// the current mint instance generation.
type state struct {
	gen      int
	verified map[string]int
	firstFee map[string]uint
}

func (s *state) invariant(m *hist.Machine, op string) {
	w := m.W
	if op == "restart" || op == "rotate" {
		s.gen++
	}
	list := w.Mint.ListKeysets().Keysets
	active := 0
	listed := map[string]bool{}
	for _, k := range list {
		listed[k.Id] = true
		if k.Active {
			active++
			if k.Id != w.ActiveID {
				fail(m, "C09|active_differs_from_storage", "mint lists %s active, storage says %s", k.Id, w.ActiveID)
			}
		}
		ks := w.Keysets[k.Id]
		if ks == nil {
			fail(m, "C09|listed_keyset_not_in_storage", "%s", k.Id)
			continue
		}
		if f, ok := s.firstFee[k.Id]; !ok {
			s.firstFee[k.Id] = k.InputFeePpk
		} else if f != k.InputFeePpk {
			fail(m, "C09|keyset_fee_changed", "keyset %s fee %d, first seen %d", k.Id, k.InputFeePpk, f)
		}
		if k.InputFeePpk != ks.Fee {
			fail(m, "C09|keyset_fee_differs_from_first_observed", "keyset %s fee %d, first observed %d", k.Id, k.InputFeePpk, ks.Fee)
		}
		if k.Unit != "sat" {
			fail(m, "C09|unit", "%s", k.Unit)
		}
	}
	if active != 1 {
		fail(m, "C09|not_exactly_one_active", "%d active keysets in %v (after %s)", active, list, op)
	}
	for id := range w.Keysets {
		if !listed[id] {
			fail(m, "C09|keyset_disappeared", "keyset %s seen earlier is no longer listed (after %s)", id, op)
		}
	}
	if act := w.Mint.GetActiveKeyset(); act.Id != w.ActiveID {
		fail(m, "C09|get_active_keyset_wrong", "GetActiveKeyset %s, storage %s", act.Id, w.ActiveID)
	}
	// full key comparison against the independent derivation: once per keyset per instance generation
	for id, ks := range w.Keysets {
		if s.verified[id] == s.gen+1 {
			continue
		}
		s.verified[id] = s.gen + 1
		pub, err := w.Mint.GetKeysetById(id)
		if err != nil {
			fail(m, "C09|keyset_not_retrievable", "%s: %v", id, err)
			continue
		}
		want := ks.AllPub()
		if len(pub.Keys) != 60 {
			fail(m, "C09|not_60_keys", "keyset %s has %d keys", id, len(pub.Keys))
		}
		for amt, p := range want {
			got, ok := pub.Keys[amt]
			if !ok {
				fail(m, "C09|missing_power_of_two_key", "keyset %s amount %d", id, amt)
				continue
			}
			if fmt.Sprintf("%x", got.SerializeCompressed()) != p.Hex() {
				fail(m, "C09|key_differs_from_seed_derivation", "keyset %s (index %d) amount %d: mint %x, reference %s", id, ks.Idx, amt, got.SerializeCompressed(), p.Hex())
			}
		}
		if rid := ref.KeysetID(want); rid != id || pub.Id != id {
			fail(m, "C09|id_not_nut02_of_keys", "keyset %s: NUT-02 id of its keys is %s", id, rid)
		}
		rec.ClassN("keysets_fully_compared", 1)
	}
	// the same over HTTP (what wallets see; the handlers keep answers for a while): the keyset served under an id is
	// the keyset with that id. GET /v1/keys may lag behind a rotation (the server drops its copy on a timer), so it is
	// only required to be one of the mint's keysets, consistent in itself; asking it first is what wallets do.
	if w.Cfg.WithServer {
		type ksDoc struct {
			Keysets []struct {
				Id   string            `json:"id"`
				Unit string            `json:"unit"`
				Keys map[string]string `json:"keys"`
			} `json:"keysets"`
		}
		get := func(path string) *ksDoc {
			r := httpx.Do(w.Handler(), "GET", path, nil, "")
			var d ksDoc
			if r.Status != 200 || json.Unmarshal(r.Body, &d) != nil || len(d.Keysets) != 1 {
				fail(m, "C09|http_keys_unreadable", "GET %s: status %d body %.200s", path, r.Status, r.Body)
				return nil
			}
			return &d
		}
		same := func(path string, d *ksDoc, id string) {
			ks := w.Keysets[id]
			if ks == nil {
				fail(m, "C09|http_keys_unknown_keyset", "GET %s returns keyset %s which the mint does not list", path, id)
				return
			}
			want := ks.AllPub()
			if len(d.Keysets[0].Keys) != len(want) {
				fail(m, "C09|http_keys_wrong_keys", "GET %s: %d keys, want %d", path, len(d.Keysets[0].Keys), len(want))
			}
			for amt, p := range want {
				if d.Keysets[0].Keys[fmt.Sprint(amt)] != p.Hex() {
					fail(m, "C09|http_keys_wrong_keys", "GET %s: keyset %s amount %d: %s, reference %s", path, id, amt, d.Keysets[0].Keys[fmt.Sprint(amt)], p.Hex())
					break
				}
			}
		}
		if d := get("/v1/keys"); d != nil {
			same("/v1/keys", d, d.Keysets[0].Id)
		}
		for id := range w.Keysets {
			if d := get("/v1/keys/" + id); d != nil {
				if d.Keysets[0].Id != id {
					fail(m, "C09|http_keys_by_id_other_keyset", "GET /v1/keys/%s returns keyset %s (after %s)", id, d.Keysets[0].Id, op)
				} else {
					same("/v1/keys/"+id, d, id)
				}
			}
		}
		m.Count["http_keys_read"]++
	}
	// spend of a pre-rotation proof
	if (op == "swap" || op == "melt") && len(w.KSOrder) > 1 {
		m.Count["spend_after_rotation"]++
	}
}

func propLifecycle(t *rapid.T) {
	cfg := hist.GenConfig(t, []uint{0, 1, 100, 999, 1000, 2500}, false)
	cfg.WithServer = true
	// one history in three runs on a mint with configured limits: what a mint publishes about its keysets must not
	// depend on the rest of its configuration
	if rapid.IntRange(0, 2).Draw(t, "with_limits") == 0 {
		cfg.Limits = mint.MintLimits{
			MaxBalance:      rapid.SampledFrom([]uint64{0, 500, 5000, 100000}).Draw(t, "max_balance"),
			MintingSettings: mint.MintMethodSettings{MaxAmount: rapid.SampledFrom([]uint64{0, 300, 70000}).Draw(t, "mint_max")},
			MeltingSettings: mint.MeltMethodSettings{MaxAmount: rapid.SampledFrom([]uint64{0, 300}).Draw(t, "melt_max")},
		}
		rec.Class(fmt.Sprintf("limits_configured|max_balance_set=%v", cfg.Limits.MaxBalance > 0))
	}
	st := &state{verified: map[string]int{}, firstFee: map[string]uint{}}
	m := hist.Run(t, cfg, hist.Options{
		Weights:   hist.Weights(map[string]int{"rotate": 5, "restart": 4, "swap": 8, "swap_adv": 4, "old_keyset_fee": 5, "melt": 4, "melt_adv": 2, "meltquote": 3, "checkstate": 0, "deliver": 0, "pollmint": 0, "mint": 1, "mintquote": 1}),
		Owns:      []string{"C09"},
		PropID:    "C09",
		AfterStep: func(m *hist.Machine, op string) { st.invariant(m, op); m.Enforce(op) },
	})
	oldSpent := 0
	for _, p := range m.W.M.Proofs {
		if p.State == world.Spent && p.P.Id != m.W.ActiveID {
			oldSpent++
		}
	}
	if m.Count["rotation"] > 0 && oldSpent > 0 {
		rec.NonTrivial(strings.Join(m.Trace, "|"))
		rec.Class("history_with_rotation_then_old_keyset_spend")
		for _, k := range []string{"swap_of_retired_fee_keyset_inputs", "swap_of_retired_fee_keyset_inputs_active_free"} {
			if m.Count[k] > 0 {
				rec.Class("history_with_" + k)
			}
		}
		rec.ClassN("rotations", m.Count["rotation"])
		rec.ClassN("restarts", m.Count["restart"])
		rec.Class(fmt.Sprintf("keysets=%d", len(m.W.KSOrder)))
		rec.Sample("history", map[string]any{"fee_ppk": cfg.FeePpk, "keysets": len(m.W.KSOrder), "trace": m.Trace})
	}
}

func TestLifecycle(t *testing.T) { rapid.Check(t, propLifecycle) }
