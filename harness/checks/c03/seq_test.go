// C03 — a mint quote is issued at most once per payment, never before it is paid (sequential histories
// with the NUT-20 tampering grammar; schedules in sched_test.go).
package c03

import (
	"os"
	"strings"
	"testing"

	"pgregory.net/rapid"

	"verif/harness/hist"
	"verif/harness/rec"
)

func TestMain(m *testing.M) {
	code := m.Run()
	rec.Flush()
	os.Exit(code)
}

func propSeq(t *rapid.T) {
	cfg := hist.GenConfig(t, []uint{0, 100}, false)
	m := hist.Run(t, cfg, hist.Options{
		Weights: map[string]int{"fund": 2, "mintquote": 6, "pay": 5, "deliver": 5, "pollmint": 4, "mint": 8, "mint_fault": 4, "lockedmint": 8,
			"meltquote": 4, "melt": 4, "swap": 1, "restart": 1, "cancel_invoice": 3},
		Owns:   []string{"C03"},
		PropID: "C03",
	})
	if m.Count["mint_after_issuance"] > 0 || m.Count["late_notification"] > 0 || m.Count["nut20_tampered_on_paid"] > 0 {
		rec.NonTrivial(strings.Join(m.Trace, "|"))
		for k, v := range m.Count {
			if k == "mint_after_issuance" || k == "late_notification" || strings.HasPrefix(k, "nut20_on_paid_") {
				rec.ClassN(k, v)
			}
		}
		internal := 0
		for _, q := range m.W.M.MintQuotes {
			internal += q.Internal
		}
		if internal > 0 {
			rec.Class("history_with_internal_settlement")
		}
		if m.Count["restart"] > 0 {
			rec.Class("history_with_restart")
		}
		rec.Sample("history", map[string]any{"trace": m.Trace})
	}
}

func TestSeq(t *testing.T) { rapid.Check(t, propSeq) }
