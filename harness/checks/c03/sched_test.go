package c03

import (
	"encoding/json"
	"fmt"
	"os"
	"runtime"
	"strconv"
	"strings"
	"testing"
	"time"

	"net/http/httptest"

	"github.com/elnosh/gonuts/cashu"
	"github.com/elnosh/gonuts/cashu/nuts/nut04"
	"github.com/gorilla/websocket"
	"pgregory.net/rapid"

	"verif/harness/dbproxy"
	"verif/harness/lnmodel"
	"verif/harness/rec"
	"verif/harness/sched"
	"verif/harness/world"
)

// Concurrent case: one paid mint quote; 1..3 MintTokens requests with different outputs, state polls and
// the asynchronous "invoice settled" notification (handled by the mint's background watcher goroutine, which
// the scheduler adopts as an external task), interleaved at storage / Lightning call granularity.

type caseSpec struct {
	Mints  int    `json:"mints"`
	Polls  int    `json:"polls"`
	Notify bool   `json:"notify"`
	Polled bool   `json:"polled_before"`          // quote already PAID in storage before the race starts
	WS     bool   `json:"ws_subscribe,omitempty"` // a NUT-17 websocket subscription to the quote arrives during the race
	Seed   uint64 `json:"seed"`
	Choice []int  `json:"choice,omitempty"`
}

type execResult struct {
	schedErr  error
	issued    int
	errs      []string
	trace     string
	choices   []int
	switches  int
	blocked   int
	violation string
	detail    string
	final     string
}

// serverSideSenders counts the mint's goroutines that may still send to a websocket client.
func serverSideSenders() int {
	buf := make([]byte, 1<<20)
	buf = buf[:runtime.Stack(buf, true)]
	return strings.Count(string(buf), "mint.listenForSubscriptionUpdates(") + strings.Count(string(buf), "subscriptionRequest.func1(")
}

func wsSubscribe(quoteID, subID string, id int) []byte {
	b, _ := json.Marshal(map[string]any{"jsonrpc": "2.0", "method": "subscribe", "id": id,
		"params": map[string]any{"kind": "bolt11_mint_quote", "subId": subID, "filters": []string{quoteID}}})
	return b
}

// run executes the case; a scheduler error (tasks blocked for good) counts only if it shows again when the recorded
// grant sequence is replayed twice - otherwise the machine was too busy for the watchdog: inconclusive, no verdict.
func run(t world.T, cs caseSpec, choose sched.Chooser) execResult {
	r := runOnce(t, cs, choose)
	if r.schedErr == nil {
		return r
	}
	for try := 0; try < 2; try++ {
		k := 0
		again := runOnce(t, cs, func(step int, enabled []*sched.Task, cur int) int {
			c := 0
			if k < len(r.choices) {
				c = r.choices[k]
			}
			k++
			if c >= len(enabled) {
				c = 0
			}
			return c
		})
		if again.schedErr == nil {
			rec.Inconclusive()
			again.choices = r.choices
			return again
		}
	}
	return r
}

func runOnce(t world.T, cs caseSpec, choose sched.Chooser) execResult {
	w := world.New(t, world.Config{CaseSeed: 300 + cs.Seed, FeeMode: lnmodel.FeeZero, WithServer: cs.WS})
	defer w.Close()
	q, err := w.RequestMintQuote(8, nil)
	if err != nil {
		t.Fatalf("setup: %v", err)
	}
	w.PayInvoice(q)
	if cs.Polled {
		w.PollMintQuote(q)
	}
	// websocket subscriber: connect and find the connection's reader goroutine (it makes the storage calls of every
	// request on this connection) with a warm-up subscription before the race
	var wsConn *websocket.Conn
	var wsGid int64
	if cs.WS {
		srv := httptest.NewServer(w.Handler())
		defer srv.Close()
		c, _, err := websocket.DefaultDialer.Dial("ws"+strings.TrimPrefix(srv.URL, "http")+"/v1/ws", nil)
		if err != nil {
			t.Fatalf("setup: websocket dial: %v", err)
		}
		wsConn = c
		// everything the mint sends is drained all the time; at the end both subscriptions are cancelled and the
		// connection is only closed once no server-side goroutine is left that could still write to this client
		// (closing earlier makes the mint panic with "send on closed channel" - see DESIGN 10.2, observations)
		acks := make(chan int, 16)
		go func() {
			for {
				_, msg, err := c.ReadMessage()
				if err != nil {
					close(acks)
					return
				}
				var m struct {
					ID     *int            `json:"id"`
					Result json.RawMessage `json:"result"`
					Error  json.RawMessage `json:"error"`
				}
				if json.Unmarshal(msg, &m) == nil && m.ID != nil && (m.Result != nil || m.Error != nil) {
					acks <- *m.ID
				}
			}
		}()
		defer func() {
			for i, sub := range []string{"warmup", "race"} {
				b, _ := json.Marshal(map[string]any{"jsonrpc": "2.0", "method": "unsubscribe", "id": 100 + i, "params": map[string]any{"subId": sub}})
				c.WriteMessage(websocket.TextMessage, b)
			}
			got := 0
			timeout := time.After(2 * time.Second)
		wait:
			for got < 2 {
				select {
				case id, ok := <-acks:
					if !ok {
						break wait
					}
					if id >= 100 {
						got++
					}
				case <-timeout:
					break wait
				}
			}
			for i := 0; i < 2000 && serverSideSenders() > 0; i++ {
				time.Sleep(200 * time.Microsecond)
			}
			c.Close()
		}()
		// (for another, unpaid quote: whatever the subscription does with it cannot touch the quote of the race)
		other, err := w.RequestMintQuote(1, nil)
		if err != nil {
			t.Fatalf("setup: %v", err)
		}
		from := w.DB.LogLen()
		if err := c.WriteMessage(websocket.TextMessage, wsSubscribe(other.ID, "warmup", 0)); err != nil {
			t.Fatalf("setup: websocket write: %v", err)
		}
		self := dbproxy.Gid()
		w.DB.WaitFor(from, func(c dbproxy.Call) bool {
			if c.Method == "GetMintQuote" && c.Gid != self {
				wsGid = c.Gid
				return true
			}
			return false
		}, 2*time.Second)
		if wsGid == 0 {
			t.Fatalf("setup: the websocket subscription made no storage call")
		}
		// wait until the reader is back at the socket
		for i := 0; i < 4000 && !strings.HasPrefix(dbproxy.GoroutineWaitReason(wsGid), "IO wait"); i++ {
			time.Sleep(50 * time.Microsecond)
		}
	}
	s := sched.New()
	w.DB.Hook = func(c *dbproxy.Call) error { s.Yield(c.Method + ":" + stateArg(c.Arg)); return nil }
	w.LN.Hook = func(c *lnmodel.Call) error { s.Yield("LN." + c.Method); return nil }
	res := execResult{errs: make([]string, cs.Mints)}
	sigs := make([]cashu.BlindedSignatures, cs.Mints)
	outs := make([][]world.Out, cs.Mints)
	for i := 0; i < cs.Mints; i++ {
		outs[i] = w.MakeOutputs([]uint64{8}, w.ActiveID)
	}
	for i := 0; i < cs.Mints; i++ {
		i := i
		s.Go(fmt.Sprintf("mint%d", i), func() (any, error) {
			sg, err := w.Mint.MintTokens(nut04.PostMintBolt11Request{Quote: q.ID, Outputs: world.Msgs(outs[i])})
			sigs[i] = sg
			if err != nil {
				res.errs[i] = err.Error()
			}
			return nil, nil
		})
	}
	for i := 0; i < cs.Polls; i++ {
		s.Go(fmt.Sprintf("poll%d", i), func() (any, error) {
			w.Mint.GetMintQuoteState(q.ID)
			return nil, nil
		})
	}
	if cs.Notify && q.WatcherGid != 0 {
		wt := s.External("watcher", q.WatcherGid)
		s.Go("notify", func() (any, error) {
			w.Net.Deliver(q.Hash)
			s.WaitExternalSettled(wt, 3*time.Second)
			return nil, nil
		})
	}
	if wsConn != nil {
		rd := s.External("ws_reader", wsGid)
		rd.IdleOnIO = true
		s.Go("ws_subscribe", func() (any, error) {
			wsConn.WriteMessage(websocket.TextMessage, wsSubscribe(q.ID, "race", 1))
			s.WaitExternalSettled(rd, 500*time.Millisecond)
			return nil, nil
		})
	}
	var choices []int
	err = s.Run(func(step int, enabled []*sched.Task, cur int) int {
		c := choose(step, enabled, cur)
		choices = append(choices, c)
		return c
	})
	w.DB.Hook, w.LN.Hook = nil, nil
	res.trace = s.TraceString()
	res.switches, res.blocked, res.choices = s.Switches, s.Blocked, choices
	if err != nil {
		res.schedErr = err
		res.violation, res.detail = "C03|sched|scheduler_error", err.Error()
		return res
	}
	for _, tk := range s.Tasks() {
		if tk.Panic != nil {
			res.violation, res.detail = "C03|sched|panic|"+tk.Name, fmt.Sprint(tk.Panic)
			return res
		}
	}
	for i := range sigs {
		if res.errs[i] == "" && len(sigs[i]) == 1 {
			res.issued++
		}
	}
	// after the race: one more honest attempt must not issue again
	extra := w.MakeOutputs([]uint64{8}, w.ActiveID)
	if _, err := w.Mint.MintTokens(nut04.PostMintBolt11Request{Quote: q.ID, Outputs: world.Msgs(extra)}); err == nil {
		res.issued++
		res.trace += " +late_mint_accepted"
	}
	row, _ := w.Inner().GetMintQuote(q.ID)
	res.final = row.State.String()
	if res.issued > 1 {
		kind := "concurrent_mints"
		if strings.Contains(res.trace, "+late_mint_accepted") {
			kind = "quote_reopened_after_issuance"
			if strings.Contains(res.trace, "watcher@") {
				kind = "quote_reopened_by_watcher"
			}
		}
		res.violation = "C03|sched|" + kind + "|symptom=issued_more_than_paid"
		res.detail = fmt.Sprintf("%d issuances for 1 payment (errors %v, final state %s); schedule: %s", res.issued, res.errs, res.final, res.trace)
	} else if res.issued == 0 {
		res.violation = "C03|sched|paid_quote_not_issuable|final=" + res.final
		res.detail = fmt.Sprintf("no request obtained signatures although the quote is paid (errors %v); schedule: %s", res.errs, res.trace)
	}
	return res
}

func stateArg(a string) string {
	if i := strings.LastIndexByte(a, ','); i >= 0 {
		return a[i+1:]
	}
	return ""
}

func record(cs caseSpec, r execResult) {
	rec.Eval()
	rec.Class(fmt.Sprintf("sched_mints=%d_polls=%d_notify=%v", cs.Mints, cs.Polls, cs.Notify))
	if cs.WS {
		rec.Class("sched_with_websocket_subscription")
		if strings.Contains(r.trace, "ws_reader@") {
			rec.Class("sched_websocket_reader_scheduled")
		}
	}
	if (cs.Mints >= 2 || (cs.Mints >= 1 && (cs.Notify || cs.Polls > 0 || cs.WS))) && r.switches >= 1 {
		rec.NonTrivial(fmt.Sprintf("%+v|%v", cs, r.choices))
		rec.Class("sched_nontrivial")
	}
	if r.blocked > 0 {
		rec.Class("sched_blocked_task_seen")
	}
}

func propSched(t *rapid.T) {
	cs := caseSpec{
		Mints:  rapid.IntRange(1, 3).Draw(t, "mints"),
		Polls:  rapid.IntRange(0, 1).Draw(t, "polls"),
		Notify: rapid.Bool().Draw(t, "notify"),
		Polled: rapid.Bool().Draw(t, "polled"),
		Seed:   rapid.Uint64Range(0, 1000).Draw(t, "seed"),
		WS:     rapid.IntRange(0, 3).Draw(t, "ws_subscribe") == 0,
	}
	r := run(t, cs, func(step int, enabled []*sched.Task, cur int) int {
		return rapid.IntRange(0, len(enabled)-1).Draw(t, "grant")
	})
	record(cs, r)
	if r.violation != "" && !rec.IsKnown(r.violation) {
		t.Fatalf("VIOLATION %s: %s", r.violation, r.detail)
	}
	if r.switches >= 1 {
		rec.Sample("schedule", map[string]any{"case": cs, "issued": r.issued, "errors": r.errs, "schedule": r.trace})
	}
}

func TestSched(t *testing.T) { rapid.Check(t, propSched) }

type fatalT struct{ t *testing.T }

func (f fatalT) Fatalf(format string, a ...any) { f.t.Fatalf(format, a...) }
func (f fatalT) Logf(format string, a ...any)   {}

func enumerate(t *testing.T, cs caseSpec, maxPreempt int, fixed []int, onResult func(execResult)) int {
	count := 0
	prefix := append([]int{}, fixed...)
	var known []int // branching at the positions of prefix, from the run that produced it
	first, retries := true, 0
	for {
		var branching, taken []int
		preempts := 0
		invalid := false
		r := run(fatalT{t}, cs, func(step int, enabled []*sched.Task, cur int) int {
			k := len(taken)
			def := 0
			if cur >= 0 {
				def = cur
			}
			b := len(enabled)
			v := 0
			if k < len(prefix) {
				v = prefix[k]
			}
			if maxPreempt >= 0 && preempts >= maxPreempt && cur >= 0 {
				if k < len(prefix) && v != 0 {
					invalid = true
				}
				taken = append(taken, 0)
				branching = append(branching, 1)
				return cur
			}
			if v >= b {
				invalid = true
				v = 0
			}
			if cur >= 0 && v != 0 {
				preempts++
			}
			taken = append(taken, v)
			branching = append(branching, b)
			return (def + v) % b
		})
		if invalid || len(taken) < len(prefix) {
			if first {
				return count // this subtree does not exist
			}
			// the prefix did not replay the way it was recorded (which task is seen blocked on a lock first is a matter
			// of timing): try again, then give the prefix up as if it were a leaf and move on to its siblings
			if retries < 2 {
				retries++
				continue
			}
			taken, branching = append([]int{}, prefix...), append([]int{}, known...)
			for len(branching) < len(taken) {
				branching = append(branching, 1)
			}
		} else {
			count++
			onResult(r)
		}
		first, retries = false, 0
		i := len(taken) - 1
		for ; i >= len(fixed); i-- {
			if taken[i]+1 < branching[i] {
				break
			}
		}
		if i < len(fixed) {
			return count
		}
		prefix = append(append([]int{}, taken[:i]...), taken[i]+1)
		known = append([]int{}, branching[:i+1]...)
	}
}

var enumCases = []caseSpec{
	{Mints: 2, Polled: true},
	{Mints: 2, Polled: false},
	{Mints: 1, Polls: 1, Polled: false},
	{Mints: 1, Notify: true, Polled: false},
	{Mints: 1, Notify: true, Polled: true},
	{Mints: 2, Notify: true, Polled: false},
	{Mints: 3, Polled: true},
	{Mints: 1, WS: true, Polled: false},
	{Mints: 2, WS: true, Polled: false},
	{Mints: 1, WS: true, Notify: true, Polled: false},
}

func TestSchedEnum(t *testing.T) {
	shard, _ := strconv.Atoi(os.Getenv("VERIF_SHARD"))
	n, _ := strconv.Atoi(os.Getenv("VERIF_NSHARDS"))
	if n == 0 {
		n = 1
	}
	bound := 2
	if os.Getenv("VERIF_TIER") == "thorough" {
		bound = 3
	}
	if b := os.Getenv("VERIF_PREEMPT"); b != "" {
		bound, _ = strconv.Atoi(b)
	}
	bad := 0
	perCase := map[int]int{}
	for ci, cs := range enumCases {
		cs.Seed = uint64(ci)
		for sub := 0; sub < 8; sub++ {
			// the deepest subtree of a case is the one that starts without a pre-emption (sub 0): spread those over the shards
			if (ci*9+sub)%n != shard {
				continue
			}
			fixed := []int{sub & 1, (sub >> 1) & 1, (sub >> 2) & 1}
			cnt := enumerate(t, cs, bound, fixed, func(r execResult) {
				c2 := cs
				c2.Choice = r.choices
				record(c2, r)
				if r.violation != "" && !rec.IsKnown(r.violation) {
					bad++
					rec.Violate(r.violation, r.detail, c2)
					if bad <= 3 {
						t.Errorf("VIOLATION %s: %s", r.violation, r.detail)
					}
				}
			})
			perCase[ci] += cnt
		}
	}
	for ci, cnt := range perCase {
		rec.ClassN(fmt.Sprintf("sched_enum_case%d_%+v", ci, enumCases[ci]), cnt)
	}
	if bad > 0 {
		t.Fatalf("%d violating schedules", bad)
	}
}

func TestReplay(t *testing.T) {
	path := os.Getenv("VERIF_REPLAY")
	if path == "" {
		t.Skip("no VERIF_REPLAY")
	}
	raw, err := os.ReadFile(path)
	if err != nil {
		t.Fatal(err)
	}
	var doc struct {
		Replay caseSpec `json:"replay"`
	}
	if err := json.Unmarshal(raw, &doc); err != nil {
		t.Fatal(err)
	}
	cs := doc.Replay
	k := 0
	r := run(fatalT{t}, cs, func(step int, enabled []*sched.Task, cur int) int {
		c := 0
		if k < len(cs.Choice) {
			c = cs.Choice[k]
		}
		k++
		return c
	})
	if r.violation != "" && !rec.IsKnown(r.violation) {
		t.Fatalf("VIOLATION %s: %s", r.violation, r.detail)
	}
}
