// C11 — hash_to_curve, keyset id and NUT-13 derivations agree bit-for-bit with the
// independent reference (ref/), for generated inputs aimed at the documented edge regions.
package c11

import (
	"crypto/sha256"
	"encoding/binary"
	"encoding/hex"
	"fmt"
	"math/big"
	"os"
	"strconv"
	"testing"

	"github.com/btcsuite/btcd/btcutil/hdkeychain"
	"github.com/btcsuite/btcd/chaincfg"
	"github.com/decred/dcrd/dcrec/secp256k1/v4"
	"github.com/elnosh/gonuts/cashu/nuts/nut13"
	"github.com/elnosh/gonuts/crypto"
	"github.com/elnosh/gonuts/wallet"
	"pgregory.net/rapid"

	"verif/harness/rec"
	"verif/harness/ref"
)

func TestMain(m *testing.M) {
	code := m.Run()
	rec.Flush()
	os.Exit(code)
}

// ---------------------------------------------------------------- hash_to_curve

func genMessage() *rapid.Generator[[]byte] {
	return rapid.OneOf(
		rapid.SliceOfN(rapid.Byte(), 0, 64),
		rapid.SliceOfN(rapid.Byte(), 0, 1024),
		// uniformly drawn length up to 2 KiB (rapid's slice sizes lean towards short)
		rapid.Custom(func(t *rapid.T) []byte {
			n := rapid.IntRange(0, 2048).Draw(t, "len")
			return rapid.SliceOfN(rapid.Byte(), n, n).Draw(t, "bytes")
		}),
		// 32-byte big-endian small integers (the spec vector family)
		rapid.Custom(func(t *rapid.T) []byte {
			b := make([]byte, 32)
			binary.BigEndian.PutUint64(b[24:], rapid.Uint64Range(0, 5000).Draw(t, "n"))
			return b
		}),
		// hex / JSON looking secrets as wallets produce them
		rapid.Custom(func(t *rapid.T) []byte {
			return []byte(hex.EncodeToString(rapid.SliceOfN(rapid.Byte(), 32, 32).Draw(t, "h")))
		}),
		rapid.Custom(func(t *rapid.T) []byte {
			return []byte(rapid.StringN(0, 200, 600).Draw(t, "s"))
		}),
	)
}

func propH2C(t *rapid.T) {
	msg := genMessage().Draw(t, "msg")
	rec.Eval()
	want, ctr, werr := ref.HashToCurve(msg)
	got, gerr := crypto.HashToCurve(msg)
	if (werr != nil) != (gerr != nil) {
		t.Fatalf("h2c error disagreement: ref=%v impl=%v msg=%x", werr, gerr, msg)
	}
	if werr != nil {
		return
	}
	gh := hex.EncodeToString(got.SerializeCompressed())
	if gh != want.Hex() {
		t.Fatalf("hash_to_curve(%x): impl %s, reference %s (counter %d)", msg, gh, want.Hex(), ctr)
	}
	cls := "h2c_ctr=" + fmt.Sprint(min(int(ctr), 6))
	rec.Class(cls)
	if ctr >= 1 {
		rec.NonTrivial(fmt.Sprintf("h2c|%x", msg))
		if ctr >= 3 {
			rec.Sample("h2c_ctr>=3", map[string]any{"msg_hex": hex.EncodeToString(msg), "counter": ctr, "point": gh})
		}
	}
}

func TestH2C(t *testing.T) { rapid.Check(t, propH2C) }

// Exhaustive over a fixed family: all 32-byte big-endian integers 0..N (deterministic sweep that is
// guaranteed to contain inputs needing >= 5 counter iterations).
func TestH2CSweep(t *testing.T) {
	n := 3000
	if os.Getenv("VERIF_TIER") == "thorough" {
		n = 60000
	}
	maxCtr := uint32(0)
	for i := 0; i < n; i++ {
		b := make([]byte, 32)
		binary.BigEndian.PutUint64(b[24:], uint64(i))
		want, ctr, _ := ref.HashToCurve(b)
		got, err := crypto.HashToCurve(b)
		rec.Eval()
		if err != nil || hex.EncodeToString(got.SerializeCompressed()) != want.Hex() {
			t.Fatalf("hash_to_curve sweep %d: impl %v err %v, reference %s", i, got, err, want.Hex())
		}
		if ctr > maxCtr {
			maxCtr = ctr
		}
		if ctr >= 1 {
			rec.NonTrivial(fmt.Sprintf("h2c|%x", b))
		}
		rec.Class("h2c_ctr=" + fmt.Sprint(min(int(ctr), 6)))
	}
	rec.Note("h2c sweep of %d integers reached counter %d", n, maxCtr)
	// every message length around the sizes that matter (block boundaries of SHA-256, the 512-byte secret limit, and
	// well beyond): two fillers per length, seeded
	seed, _ := strconv.ParseUint(os.Getenv("VERIF_SEED"), 10, 64)
	maxLen := 1300
	if os.Getenv("VERIF_TIER") == "thorough" {
		maxLen = 9000
	}
	for l := 0; l <= maxLen; l++ {
		for variant := 0; variant < 2; variant++ {
			msg := make([]byte, l)
			h := sha256.Sum256([]byte(fmt.Sprintf("c11 length sweep %d %d %d", seed, l, variant)))
			for i := range msg {
				if variant == 0 {
					msg[i] = h[i%32] ^ byte(i>>5)
				} else {
					msg[i] = "0123456789abcdef"[int(h[i%32]^byte(i>>5))%16]
				}
			}
			want, _, werr := ref.HashToCurve(msg)
			got, err := crypto.HashToCurve(msg)
			rec.Eval()
			if (werr != nil) != (err != nil) || (err == nil && hex.EncodeToString(got.SerializeCompressed()) != want.Hex()) {
				t.Fatalf("VIOLATION C11|h2c_differs_from_reference|length_sweep: message of %d bytes (%x...): impl %v err %v, reference %s err %v", l, msg[:min(l, 16)], got, err, want.Hex(), werr)
			}
			if l > 64 {
				rec.NonTrivial(fmt.Sprintf("h2c_len|%d|%d", l, variant))
			}
		}
		rec.Class(fmt.Sprintf("h2c_length_sweep_%d..", (l/512)*512))
	}
}

// ---------------------------------------------------------------- keyset id

func genScalar() *rapid.Generator[*big.Int] {
	return rapid.Custom(func(t *rapid.T) *big.Int {
		switch rapid.IntRange(0, 9).Draw(t, "kind") {
		case 0:
			return big.NewInt(int64(rapid.IntRange(1, 4).Draw(t, "small")))
		case 1:
			return new(big.Int).Sub(ref.N, big.NewInt(int64(rapid.IntRange(1, 4).Draw(t, "nminus"))))
		default:
			b := rapid.SliceOfN(rapid.Byte(), 32, 32).Draw(t, "k")
			k := ref.ScalarFromBytes(b)
			if k.Sign() == 0 {
				k.SetInt64(1)
			}
			return k
		}
	})
}

func propKeysetID(t *rapid.T) {
	var amounts []uint64
	std := rapid.IntRange(0, 3).Draw(t, "shape")
	switch std {
	case 0: // the standard 60 powers of two
		for i := 0; i < 60; i++ {
			amounts = append(amounts, 1<<uint(i))
		}
	case 1: // a prefix of the powers of two
		n := rapid.IntRange(1, 64).Draw(t, "n")
		for i := 0; i < n && i < 64; i++ {
			amounts = append(amounts, 1<<uint(i))
		}
	default: // arbitrary distinct amounts, not sorted, not powers of two
		amounts = rapid.SliceOfNDistinct(rapid.OneOf(rapid.Uint64(), rapid.Uint64Range(0, 300)), 1, 64,
			func(a uint64) uint64 { return a }).Draw(t, "amounts")
	}
	base := genScalar().Draw(t, "base")
	step := genScalar().Draw(t, "step")
	refKeys := map[uint64]ref.Point{}
	implKeys := crypto.PublicKeys{}
	// keys k_i = (base + i*step)*G computed by point additions in the reference
	cur := ref.BaseMul(base)
	stepP := ref.BaseMul(step)
	for _, a := range amounts {
		if cur.Inf {
			cur = ref.G()
		}
		refKeys[a] = cur
		pk, err := secp256k1.ParsePubKey(cur.Compressed())
		if err != nil {
			t.Fatalf("reference point not parseable: %v", err)
		}
		implKeys[a] = pk
		cur = ref.Add(cur, stepP)
	}
	rec.Eval()
	got := crypto.DeriveKeysetId(implKeys)
	want := ref.KeysetID(refKeys)
	if got != want {
		t.Fatalf("keyset id: impl %s reference %s (amounts %v)", got, want, amounts)
	}
	if std >= 2 || len(amounts) > 10 {
		rec.NonTrivial(fmt.Sprintf("kid|%v|%s", amounts, want))
		rec.Class(fmt.Sprintf("kid_shape=%d", std))
		rec.Sample("keyset_id", map[string]any{"n_keys": len(amounts), "first_amounts": amounts[:min(5, len(amounts))], "id": got})
	}
}

func TestKeysetID(t *testing.T) { rapid.Check(t, propKeysetID) }

// ---------------------------------------------------------------- NUT-13

const m31 = uint64(1<<31 - 1)

func genKeysetID8() *rapid.Generator[[]byte] {
	return rapid.Custom(func(t *rapid.T) []byte {
		var v uint64
		switch rapid.IntRange(0, 5).Draw(t, "idkind") {
		case 0:
			v = rapid.Uint64().Draw(t, "id")
		case 1: // high bit set
			v = rapid.Uint64().Draw(t, "id") | 1<<63
		case 2: // multiples / neighbours of 2^31-1
			v = m31*rapid.Uint64Range(0, 1<<32).Draw(t, "mult") + uint64(rapid.IntRange(0, 2).Draw(t, "off"))
			v -= uint64(rapid.IntRange(0, 1).Draw(t, "neg"))
		case 3: // version byte 00 like real ids
			v = rapid.Uint64().Draw(t, "id") >> 8
		case 4:
			v = rapid.Uint64Range(0, 1<<32).Draw(t, "small")
		default:
			v = ^uint64(0) - rapid.Uint64Range(0, 3).Draw(t, "top")
		}
		b := make([]byte, 8)
		binary.BigEndian.PutUint64(b, v)
		return b
	})
}

func genCounter() *rapid.Generator[uint32] {
	return rapid.OneOf(
		rapid.Uint32Range(0, 1<<31-1),
		rapid.SampledFrom([]uint32{0, 1, 2, 1<<31 - 2, 1<<31 - 1, 1 << 16, 1<<16 - 1, 1 << 24, 255, 256}),
		rapid.Uint32Range(0, 2000),
	)
}

func propNut13(t *rapid.T) {
	seed := rapid.SliceOfN(rapid.Byte(), 16, 64).Draw(t, "seed")
	idb := genKeysetID8().Draw(t, "id")
	id := hex.EncodeToString(idb)
	ctr := genCounter().Draw(t, "counter")
	rec.Eval()

	wantS, wantR, werr := ref.Nut13(seed, id, ctr)

	master, err := hdkeychain.NewMaster(seed, &chaincfg.MainNetParams)
	if err != nil {
		if werr == nil {
			t.Fatalf("NewMaster failed (%v) but reference derives", err)
		}
		return
	}
	path, err := nut13.DeriveKeysetPath(master, id)
	var gotS string
	var gotR *secp256k1.PrivateKey
	if err == nil {
		gotS, err = nut13.DeriveSecret(path, ctr)
	}
	if err == nil {
		gotR, err = nut13.DeriveBlindingFactor(path, ctr)
	}
	if (err != nil) != (werr != nil) {
		t.Fatalf("nut13 error disagreement: impl=%v ref=%v (seed %x id %s ctr %d)", err, werr, seed, id, ctr)
	}
	if err != nil {
		return
	}
	gotRhex := hex.EncodeToString(gotR.Serialize())
	wantRhex := hex.EncodeToString(ref.Scalar32(wantR))
	if gotS != wantS || gotRhex != wantRhex {
		t.Fatalf("nut13(seed %x, id %s, ctr %d): impl secret %s r %s; reference secret %s r %s", seed, id, ctr, gotS, gotRhex, wantS, wantRhex)
	}
	idv := binary.BigEndian.Uint64(idb)
	zeroLead := gotS[:2] == "00" || gotRhex[:2] == "00"
	if idv >= 1<<31 || ctr >= 1<<16 || zeroLead {
		rec.NonTrivial(fmt.Sprintf("n13|%x|%s|%d", seed, id, ctr))
		if idv >= 1<<63 {
			rec.Class("nut13_id_highbit")
		}
		if idv%m31 <= 1 {
			rec.Class("nut13_id_near_multiple_of_2^31-1")
		}
		if ctr >= 1<<31-2 {
			rec.Class("nut13_counter_max")
		}
		if zeroLead {
			rec.Class("nut13_leading_zero_byte")
			rec.Sample("nut13_leading_zero", map[string]any{"seed": hex.EncodeToString(seed), "id": id, "counter": ctr, "secret": gotS, "r": gotRhex})
		}
		rec.Sample("nut13", map[string]any{"seed": hex.EncodeToString(seed), "id": id, "counter": ctr, "secret": gotS, "r": gotRhex})
	}
}

func TestNut13(t *testing.T) { rapid.Check(t, propNut13) }

// The wallet's own P2PK key m/129372'/0'/1'/0 (a library convention: must stay stable so that
// locked ecash sent to a wallet stays spendable after restore).
func propP2PKKey(t *rapid.T) {
	seed := rapid.SliceOfN(rapid.Byte(), 16, 64).Draw(t, "seed")
	rec.Eval()
	master, err := hdkeychain.NewMaster(seed, &chaincfg.MainNetParams)
	m, werr := ref.Master(seed)
	if err != nil || werr != nil {
		if (err != nil) != (werr != nil) {
			t.Fatalf("master disagreement %v / %v", err, werr)
		}
		return
	}
	want, werr := m.Path(ref.Hardened+129372, ref.Hardened+0, ref.Hardened+1, 0)
	got, err := wallet.DeriveP2PK(master)
	if (err != nil) != (werr != nil) {
		t.Fatalf("p2pk key error disagreement %v / %v", err, werr)
	}
	if err != nil {
		return
	}
	if hex.EncodeToString(got.Serialize()) != hex.EncodeToString(ref.Scalar32(want.Key)) {
		t.Fatalf("DeriveP2PK(seed %x) = %x, reference %x", seed, got.Serialize(), ref.Scalar32(want.Key))
	}
	rec.NonTrivial(fmt.Sprintf("p2pk|%x", seed))
}

func TestP2PKKey(t *testing.T) { rapid.Check(t, propP2PKKey) }

// Native fuzz target (thorough only): hash_to_curve vs reference on arbitrary bytes.
func FuzzH2C(f *testing.F) {
	f.Add([]byte{})
	f.Add(make([]byte, 32))
	f.Add([]byte("test_message"))
	f.Fuzz(func(t *testing.T, msg []byte) {
		want, _, werr := ref.HashToCurve(msg)
		got, gerr := crypto.HashToCurve(msg)
		if (werr != nil) != (gerr != nil) {
			t.Fatalf("error disagreement %v / %v", werr, gerr)
		}
		if werr == nil && hex.EncodeToString(got.SerializeCompressed()) != want.Hex() {
			t.Fatalf("h2c(%x): %x vs %s", msg, got.SerializeCompressed(), want.Hex())
		}
	})
}
