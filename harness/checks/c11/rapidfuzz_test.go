package c11

import (
	"testing"

	"pgregory.net/rapid"
)

// Coverage-guided variants of the generated-input properties (thorough tier): Go's native fuzzer mutates the byte
// stream that rapid's generators draw from, so the same generators and the same oracles are steered by coverage of
// the code under test instead of by chance. A failing input is saved by the fuzzer and replays through the same
// property.
func FuzzNut13(f *testing.F)    { f.Fuzz(rapid.MakeFuzz(propNut13)) }
func FuzzKeysetID(f *testing.F) { f.Fuzz(rapid.MakeFuzz(propKeysetID)) }
