package c11

import (
	"strings"
	"testing"

	"pgregory.net/rapid"

	"verif/harness/rec"
	"verif/harness/whist"
)

// Wallet level: the secrets and blinding factors a wallet actually uses are the NUT-13 derivation of its mnemonic
// ("ecash and backups are interoperable with other Cashu software"). In wallet histories against honest mints that
// rotate keysets and restart, every output a wallet submits for signing in its counter-based flows (mint, send,
// receive, reclaim) must equal the reference derivation (independent BIP-39 seed, BIP-32 and NUT-13 in harness/ref)
// from that wallet's mnemonic at some counter of the keyset the output names.
func propWalletDerivation(t *rapid.T) {
	w := map[string]int{}
	for k, v := range whist.DefaultWeights {
		w[k] = v
	}
	w["rotate"], w["restart"], w["join"], w["mint"], w["send"] = 4, 2, 2, 6, 8
	m := whist.New(t, whist.Options{
		Weights: w,
		Owns:    map[string]bool{"C11": true},
		Wallets: 2,
		Mints:   rapid.IntRange(1, 2).Draw(t, "mints"),
		Fees:    []uint{0, 100, 1000},
	})
	defer m.Close()
	rec.Eval()
	t.Repeat(map[string]func(*rapid.T){"step": m.Step})
	if n := m.Count["outputs_checked_against_mnemonic"]; n > 0 {
		rec.NonTrivial("wallet|" + strings.Join(m.Trace, "|"))
		rec.Class("wallet_history")
		if m.Count["rotation"] > 0 {
			rec.Class("wallet_history_with_rotation")
		}
		rec.ClassN("wallet_outputs_compared_with_reference_derivation", n)
	}
}

func TestWalletDerivation(t *testing.T) { rapid.Check(t, propWalletDerivation) }
