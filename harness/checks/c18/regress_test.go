package c18

import (
	"fmt"
	"testing"

	"verif/harness/rec"
)

type tbT struct{ *testing.T }

func (t tbT) Fatalf(format string, a ...any) {
	t.T.Helper()
	msg := fmt.Sprintf(format, a...)
	if len(msg) > 10 && msg[:10] == "VIOLATION " {
		sig := msg[10:]
		for i := range sig {
			if sig[i] == ':' {
				sig = sig[:i]
				break
			}
		}
		rec.Violate(sig, msg, nil)
	}
	t.T.Fatalf("%s", msg)
}

// F19: the inactive-keyset proofs cover the amount but not their own fees on top of it; the selection used to drop
// them altogether and report insufficient funds although the active keyset could top up.
func TestRegressInactiveProofsShortOfTheirFees(t *testing.T) {
	for i, sp := range []spec{
		{Fees: []uint{100, 0}, Amounts: [][]uint64{{512}, {8}}, Amount: 512, IncludeFees: true},
		{Fees: []uint{2000, 0, 0}, Amounts: [][]uint64{{4}, {2}, {1, 4}}, Amount: 6, IncludeFees: true},
		{Fees: []uint{250, 2000, 0}, Amounts: [][]uint64{{1, 1, 8, 16, 32, 64, 512}, {2, 16, 256}, {1}}, Amount: 901, IncludeFees: false},
	} {
		sp.CaseSeed = uint64(i)
		sp.RestartFee = -1
		rec.NonTrivial(fmt.Sprint("regress_inactive_short_of_fees_", i))
		sendCase(tbT{t}, sp)
	}
}
