package c18

import (
	"fmt"
	"testing"

	"verif/harness/rec"
)

type tbT struct{ *testing.T }

func (t tbT) Fatalf(format string, a ...any) {
	t.T.Helper()
	msg := fmt.Sprintf(format, a...)
	if len(msg) > 10 && msg[:10] == "VIOLATION " {
		sig := msg[10:]
		for i := range sig {
			if sig[i] == ':' {
				sig = sig[:i]
				break
			}
		}
		rec.Violate(sig, msg, nil)
	}
	t.T.Fatalf("%s", msg)
}

// F19: the inactive-keyset proofs cover the amount but not their own fees on top of it; the selection used to drop
// them altogether and report insufficient funds although the active keyset could top up.
func TestRegressInactiveProofsShortOfTheirFees(t *testing.T) {
	for i, sp := range []spec{
		{Fees: []uint{100, 0}, Amounts: [][]uint64{{512}, {8}}, Amount: 512, IncludeFees: true},
		{Fees: []uint{2000, 0, 0}, Amounts: [][]uint64{{4}, {2}, {1, 4}}, Amount: 6, IncludeFees: true},
		{Fees: []uint{250, 2000, 0}, Amounts: [][]uint64{{1, 1, 8, 16, 32, 64, 512}, {2, 16, 256}, {1}}, Amount: 901, IncludeFees: false},
	} {
		sp.CaseSeed = uint64(i)
		sp.RestartFee = -1
		rec.NonTrivial(fmt.Sprint("regress_inactive_short_of_fees_", i))
		sendCase(tbT{t}, sp)
	}
}

// F26: wallet.Restore saved the mint's keysets without their input fee; only the active keyset's fee is repaired at
// the next start, so a restored wallet took the fee of a retired keyset for 0 (swap refused by the mint, too little
// handed out with fees included).
func TestRegressRestoredWalletKnowsFeesOfRetiredKeysets(t *testing.T) {
	for i, sp := range []spec{
		{Fees: []uint{1000, 0}, Amounts: [][]uint64{{512}, nil}, Amount: 511, IncludeFees: false, LateRotation: true, Restored: true},
		{Fees: []uint{1000, 0}, Amounts: [][]uint64{{4, 8}, {1}}, Amount: 8, IncludeFees: true, Restored: true},
		{Fees: []uint{500, 100, 0}, Amounts: [][]uint64{{2, 2}, {4, 16}, {1}}, Amount: 20, IncludeFees: true, Restored: true},
	} {
		sp.CaseSeed = uint64(i)
		sp.RestartFee = -1
		rec.NonTrivial(fmt.Sprint("regress_restored_wallet_retired_keyset_fee_", i))
		sendCase(tbT{t}, sp)
	}
}

// F37: the fee was rounded up once for the inactive-keyset proofs and once more for the active-keyset proofs; the mint
// rounds once over all inputs. A send of balance - fee(all proofs) failed with "insufficient funds".
func TestRegressFeeRoundedOncePerSelection(t *testing.T) {
	for i, sp := range []spec{
		{Fees: []uint{100, 100}, Amounts: [][]uint64{{1, 1, 1}, {2, 2}}, Amount: 6, IncludeFees: false},
		{Fees: []uint{500, 500}, Amounts: [][]uint64{{4}, {8}}, Amount: 11, IncludeFees: false},
		{Fees: []uint{250, 100, 0}, Amounts: [][]uint64{{2}, {2}, {16}}, Amount: 19, IncludeFees: false},
	} {
		sp.CaseSeed = uint64(i)
		sp.RestartFee = -1
		rec.NonTrivial(fmt.Sprint("regress_fee_rounded_once_", i))
		sendCase(tbT{t}, sp)
	}
}
