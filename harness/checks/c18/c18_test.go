// C18 — send hands over exactly the requested amount, fees included when asked.
package c18

import (
	"fmt"
	"math/bits"
	"os"
	"sort"
	"strings"
	"testing"

	"github.com/elnosh/gonuts/cashu"
	"github.com/elnosh/gonuts/wallet"
	"pgregory.net/rapid"

	"verif/harness/lnmodel"
	"verif/harness/rec"
	"verif/harness/ref"
	"verif/harness/wenv"
	"verif/harness/world"
)

func TestMain(m *testing.M) {
	code := m.Run()
	rec.Flush()
	os.Exit(code)
}

var feeChoices = []uint{0, 100, 250, 500, 1000, 2000}

func violate(t world.T, sig, format string, a ...any) {
	sig = "C18|" + sig
	if rec.IsKnown(sig) {
		return
	}
	t.Fatalf("VIOLATION %s: %s", sig, fmt.Sprintf(format, a...))
}

// spec of one case: per keyset (oldest first, the last one is active) the fee and the denominations held
type spec struct {
	Fees        []uint
	Amounts     [][]uint64
	CaseSeed    uint64
	Amount      uint64 // 0: chosen by pick
	IncludeFees bool
	// LateRotation: the wallet is loaded while the last-but-one keyset is active; the mint rotates to the last
	// keyset afterwards, so the send itself is what discovers the rotation (the last keyset holds nothing)
	LateRotation bool
	// RestartFee >= 0: after the sending wallet was loaded the mint is restarted (no rotation) with this input fee in
	// its configuration - which only concerns keysets created from then on
	RestartFee int
	// Restored: the sending wallet's directory was created by wallet.Restore (from a mnemonic that owns nothing at
	// the mint) at the point where the wallet would otherwise have been created; the send happens in the first
	// session on that directory. A wallet restored from its seed is a wallet like any other.
	Restored bool
}

func propSend(t *rapid.T) {
	nks := rapid.IntRange(1, 3).Draw(t, "keysets")
	sp := spec{Fees: make([]uint, nks), Amounts: make([][]uint64, nks)}
	for i := range sp.Fees {
		sp.Fees[i] = rapid.SampledFrom(feeChoices).Draw(t, "fee_ppk")
	}
	sp.CaseSeed = rapid.Uint64().Draw(t, "case_seed")
	sp.LateRotation = nks >= 2 && rapid.IntRange(0, 3).Draw(t, "late_rotation") == 0
	sp.RestartFee = -1
	if rapid.IntRange(0, 4).Draw(t, "mint_restart") == 0 {
		sp.RestartFee = int(rapid.SampledFrom(feeChoices).Draw(t, "restart_fee"))
	}
	sp.Restored = rapid.IntRange(0, 3).Draw(t, "sender_restored") == 0
	total := 0
	var balance, inactive uint64
	for k := 0; k < nks; k++ {
		n := rapid.IntRange(0, 12).Draw(t, "n_proofs")
		if sp.LateRotation && k == nks-1 {
			break
		}
		if (k == nks-1 || (sp.LateRotation && k == nks-2)) && total == 0 && n == 0 {
			n = 1
		}
		for i := 0; i < n; i++ {
			a := uint64(1) << uint(rapid.IntRange(0, 9).Draw(t, "denomination"))
			sp.Amounts[k] = append(sp.Amounts[k], a)
			balance += a
			if k < nks-1 {
				inactive += a
			}
		}
		total += n
	}
	// fee of spending everything the wallet holds (per-proof ppk summed over all keysets, rounded up once)
	var ppkAll uint64
	for k := range sp.Amounts {
		ppkAll += uint64(len(sp.Amounts[k])) * uint64(sp.Fees[k])
	}
	feeAll := (ppkAll + 999) / 1000
	switch rapid.IntRange(0, 5).Draw(t, "amount_class") {
	case 5:
		// exactly what is left when everything is spent at once (and one less)
		if balance > feeAll+1 {
			sp.Amount = balance - feeAll - rapid.Uint64Range(0, 1).Draw(t, "below_exact_bound")
			break
		}
		sp.Amount = rapid.Uint64Range(1, balance).Draw(t, "amount")
	case 0:
		sp.Amount = rapid.Uint64Range(1, min(balance, 8)).Draw(t, "amount")
	case 1:
		sp.Amount = balance - rapid.Uint64Range(0, min(balance-1, 8)).Draw(t, "below_balance")
	case 2:
		// around what the inactive keysets hold: selection switches between "inactive proofs suffice" and "top up
		// from the active keyset" here, and the fees of the inactive proofs decide on which side a case falls
		if inactive > 1 {
			sp.Amount = min(balance, max(1, inactive+4-rapid.Uint64Range(0, min(inactive, 12)).Draw(t, "around_inactive")))
			break
		}
		fallthrough
	default:
		sp.Amount = rapid.Uint64Range(1, balance).Draw(t, "amount")
	}
	sp.IncludeFees = rapid.Bool().Draw(t, "include_fees")
	sendCase(t, sp)
}

// newSender creates the sending wallet: an ordinary first start, or a directory made by wallet.Restore from the
// mnemonic of a throw-away wallet and then loaded.
func newSender(e *wenv.Env, mintURL string, restored bool) (*wenv.WalletH, error) {
	if !restored {
		return e.NewWallet("sender", mintURL)
	}
	src, err := e.NewWallet("seedsource", mintURL)
	if err != nil {
		return nil, err
	}
	dir, err := os.MkdirTemp(world.ScratchBase(), "wallet")
	if err != nil {
		return nil, err
	}
	os.Remove(dir)
	e.Cur = "sender"
	if _, err := wallet.Restore(dir, src.Mnemonic, []string{mintURL}); err != nil {
		return nil, fmt.Errorf("restore: %w", err)
	}
	return e.Adopt("sender", dir, mintURL)
}

func sendCase(t world.T, sp spec) {
	nks, fees := len(sp.Fees), sp.Fees
	e := wenv.New(t, sp.CaseSeed, []uint{fees[0]}, []lnmodel.FeeMode{lnmodel.FeeZero})
	defer e.Close()
	mw := e.Mints[0]
	mintURL := wenv.URL(mw)
	// wallet contents: the multiset of denominations on each keyset, minted by the helper
	var contents cashu.Proofs
	feeOf := map[string]uint64{}
	var inactive uint64
	var sender *wenv.WalletH
	for k := 0; k < nks; k++ {
		if sp.LateRotation && k == nks-1 {
			var err error
			if sender, err = newSender(e, mintURL, sp.Restored); err != nil {
				t.Fatalf("LoadWallet: %v", err)
			}
		}
		if k > 0 {
			if _, err := mw.Mint.RotateKeyset(fees[k]); err != nil {
				t.Fatalf("rotate: %v", err)
			}
			mw.RefreshKeysets()
		}
		feeOf[mw.ActiveID] = uint64(fees[k])
		amounts := sp.Amounts[k]
		if len(amounts) == 0 {
			continue
		}
		var sum uint64
		for _, a := range amounts {
			sum += a
		}
		if k < nks-1 {
			inactive += sum
		}
		q, err := mw.RequestMintQuote(sum, nil)
		if err != nil {
			t.Fatalf("setup: %v", err)
		}
		mw.PayInvoice(q)
		outs := mw.MakeOutputs(amounts, mw.ActiveID)
		if _, err := mw.MintTokens(q, outs, ""); err != nil {
			t.Fatalf("setup: %v", err)
		}
		for _, o := range outs {
			contents = append(contents, mw.M.Proofs[o.Secret].P)
		}
	}
	if sender == nil {
		var err error
		if sender, err = newSender(e, mintURL, sp.Restored); err != nil {
			t.Fatalf("LoadWallet: %v", err)
		}
	}
	if sp.Restored {
		rec.Class("sender_directory_created_by_restore")
	}
	if err := sender.Inner().SaveProofs(contents); err != nil {
		t.Fatalf("SaveProofs: %v", err)
	}
	if sp.RestartFee >= 0 {
		if err := mw.Restart(false, uint(sp.RestartFee)); err != nil {
			t.Fatalf("mint restart: %v", err)
		}
		mw.RefreshKeysets()
		rec.Class("send_after_mint_restart_with_other_configured_fee")
	}
	balance := contents.Amount()
	if got := sender.W.GetBalanceByMints()[mintURL]; got != balance {
		t.Fatalf("wallet does not see its constructed contents: %d vs %d", got, balance)
	}
	amount, includeFees := sp.Amount, sp.IncludeFees
	rec.Eval()
	e.Cur = "sender"
	reqFrom := len(e.Reqs)
	var sent cashu.Proofs
	var serr error
	func() {
		defer func() {
			if p := recover(); p != nil {
				serr = fmt.Errorf("panic: %v", p)
				violate(t, "send_panic", "%v", p)
			}
		}()
		sent, serr = sender.W.Send(amount, mintURL, includeFees)
	}()
	swapped := false
	for _, r := range e.Reqs[reqFrom:] {
		if r.Path == "/v1/swap" {
			swapped = true
		}
	}
	var allPpk []uint64
	for _, p := range contents {
		allPpk = append(allPpk, feeOf[p.Id])
	}
	activeFee := uint64(fees[nks-1])
	var reserve []uint64
	for i := 0; i < 64; i++ {
		reserve = append(reserve, activeFee)
	}
	// "a send of no more than the balance minus the fees of spending every proof held there (and of the proofs sent)
	// always succeeds": without fees included that bound is exact (swap everything, one fee); with fees included the
	// proofs sent are not known beforehand and a reserve for 64 of them stands in
	mustSucceed := amount+ref.Fee(allPpk)+ref.Fee(reserve) <= balance || (!includeFees && amount+ref.Fee(allPpk) <= balance)
	if !includeFees && amount+ref.Fee(allPpk) <= balance && amount+ref.Fee(allPpk)+ref.Fee(reserve) > balance {
		rec.Class("send_at_the_exact_bound_without_fees_included")
	}
	desc := fmt.Sprintf("contents %v (fees ppk per keyset %v), amount %d, include_fees=%v, swapped=%v", render(contents, feeOf), fees, amount, includeFees, swapped)
	maxFee := uint64(0)
	for _, f := range fees {
		maxFee = max(maxFee, uint64(f))
	}
	cls := fmt.Sprintf("fees=%v|swap=%v|max_ppk=%d|keysets=%d", includeFees, swapped, maxFee, nks)
	if sp.Restored {
		desc += ", sender restored from seed"
	}
	if sp.LateRotation {
		rec.Class(fmt.Sprintf("send_discovers_rotation|fees=%v|swap=%v", includeFees, swapped))
	}
	rec.Class("send_" + cls)
	if inactive > 0 && amount <= inactive && amount+ref.Fee(allPpk) > inactive {
		// inactive proofs cover the amount but not the amount plus fees
		rec.Class("send_amount_within_fees_of_inactive_total")
	}
	if serr != nil {
		if mustSucceed {
			violate(t, fmt.Sprintf("send_failed_with_ample_balance|include_fees=%v", includeFees), "Send failed (%v) although amount + fee of all proofs + fee reserve <= balance; %s", serr, desc)
		}
		rec.Class("send_refused")
		return
	}
	if (swapped || nks >= 2) && maxFee > 0 {
		rec.NonTrivial(desc)
	}
	// value handed over
	var ppk []uint64
	seen := map[string]bool{}
	for _, p := range sent {
		if seen[p.Secret] {
			violate(t, "duplicate_proof_sent", "%s", desc)
		}
		seen[p.Secret] = true
		f, ok := feeOf[p.Id]
		if !ok {
			violate(t, "sent_proof_of_unknown_keyset", "%s", p.Id)
		}
		ppk = append(ppk, f)
	}
	fee := ref.Fee(ppk)
	want := amount
	if includeFees {
		want += fee
	}
	// root cause of the one recorded finding (see known_findings.jsonl): swapToSend adds the fee for split(amount)+1
	// proofs, then appends split(fee) - several proofs when the fee is not a power of two - so the fee for the
	// proofs really sent is higher by exactly `shortBy`. Any other shortfall is a different defect.
	cause := ""
	if swapped && includeFees {
		ns := uint64(bits.OnesCount64(amount))
		est := (((ns + 1) * activeFee) + 999) / 1000
		actual := ((ns+uint64(bits.OnesCount64(est)))*activeFee + 999) / 1000
		if actual > est && sent.Amount()+(actual-est) == want {
			cause = "|cause=fee_of_split_fee_not_covered"
		} else {
			cause = "|cause=other"
		}
	}
	if got := sent.Amount(); got != want {
		kind := "sent_too_little"
		if got > want {
			kind = "sent_too_much"
		}
		violate(t, fmt.Sprintf("%s|include_fees=%v|swapped=%v%s", kind, includeFees, swapped, cause), "sent %d proofs worth %d, expected exactly %d (amount %d + mint fee for these proofs %d); %s", len(sent), got, want, amount, map[bool]uint64{true: fee, false: 0}[includeFees], desc)
	}
	// unspent at the mint, removed from spendable
	var ys []string
	for _, p := range sent {
		_, y := world.Y(p.Secret)
		ys = append(ys, y)
	}
	st, err := mw.Mint.ProofsStateCheck(ys)
	if err != nil {
		t.Fatalf("checkstate: %v", err)
	}
	for i, s := range st {
		if s.State.String() != "UNSPENT" {
			violate(t, "sent_proof_not_unspent", "proof %d is %s", i, s.State)
		}
	}
	for _, p := range sender.Inner().GetProofs() {
		if seen[p.Secret] {
			violate(t, "sent_proof_still_spendable", "%s", desc)
		}
	}
	if after := sender.W.GetBalance(); after+sent.Amount() > balance {
		violate(t, "balance_not_reduced", "balance %d -> %d after handing out %d", balance, after, sent.Amount())
	}
	// the recipient nets exactly the amount (fees included) or amount - fee
	recv, err := e.NewWallet("recipient", mintURL)
	if err != nil {
		t.Fatalf("LoadWallet: %v", err)
	}
	tok, err := cashu.NewTokenV4(append(cashu.Proofs{}, sent...), mintURL, cashu.Sat, false)
	if err != nil {
		t.Fatalf("token: %v", err)
	}
	e.Cur = "recipient"
	got, rerr := recv.W.Receive(tok, false)
	if rerr != nil {
		if sent.Amount() > fee {
			violate(t, "recipient_cannot_receive", "%v; %s", rerr, desc)
		}
		return
	}
	net := sent.Amount() - fee
	if got != net || recv.W.GetBalance() != net {
		violate(t, "recipient_net_differs_from_mint_fee", "recipient got %d (balance %d), sent value %d - mint fee %d = %d; %s", got, recv.W.GetBalance(), sent.Amount(), fee, net, desc)
	}
	if includeFees && got != amount {
		violate(t, fmt.Sprintf("recipient_nets_wrong_amount|swapped=%v%s", swapped, cause), "recipient nets %d, requested %d; %s", got, amount, desc)
	}
	rec.Sample("send_"+cls, map[string]any{"case": desc, "sent": len(sent), "sent_value": sent.Amount(), "mint_fee": fee, "recipient_got": got})
}

func render(ps cashu.Proofs, feeOf map[string]uint64) string {
	by := map[string][]int{}
	for _, p := range ps {
		k := fmt.Sprintf("%s@%d", p.Id[:6], feeOf[p.Id])
		by[k] = append(by[k], int(p.Amount))
	}
	var keys []string
	for k := range by {
		keys = append(keys, k)
	}
	sort.Strings(keys)
	var out []string
	for _, k := range keys {
		sort.Ints(by[k])
		out = append(out, fmt.Sprintf("%s:%v", k, by[k]))
	}
	return strings.Join(out, " ")
}

func TestSend(t *testing.T) { rapid.Check(t, propSend) }
