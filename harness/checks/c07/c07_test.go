// C07 — mint crash consistency. For every operation the un-faulted run yields its storage / Lightning
// call sequence; then every crash position k = 0..n and every single storage error (error@k, error-from@k)
// is executed from an identical fresh world, followed by restart and an adversarial follow-up.
package c07

import (
	"context"
	"encoding/json"
	"errors"
	"fmt"
	"os"
	"sort"
	"strconv"
	"strings"
	"testing"
	"time"

	"github.com/elnosh/gonuts/cashu"
	"github.com/elnosh/gonuts/cashu/nuts/nut02"
	"github.com/elnosh/gonuts/cashu/nuts/nut04"
	"github.com/elnosh/gonuts/cashu/nuts/nut05"

	"verif/harness/dbproxy"
	"verif/harness/lnmodel"
	"verif/harness/rec"
	"verif/harness/world"
)

func TestMain(m *testing.M) {
	code := m.Run()
	rec.Flush()
	os.Exit(code)
}

// ---------------------------------------------------------------- fault controller

type faultKind string

const (
	none      faultKind = "none"
	crash     faultKind = "crash"
	errAt     faultKind = "error"
	errFromAt faultKind = "error_from"
)

type ctl struct {
	gid     int64
	armed   bool
	kind    faultKind
	k       int // position: the fault fires before the k-th call (0-based) of the op goroutine
	n       int // calls seen so far
	names   []string
	isDB    []bool
	fired   bool
	firedAt string
	dead    bool
	failing bool
	occ     map[string]int
}

var errInjected = errors.New("MARKER-STORAGE-FAULT injected by harness")

func (c *ctl) onCall(pos string, isDB bool) error {
	if c.dead {
		if dbproxy.Gid() == c.gid {
			panic(dbproxy.Crash{At: pos + " (dead)"})
		}
		return errors.New("process is dead")
	}
	if !c.armed || dbproxy.Gid() != c.gid {
		return nil
	}
	idx := c.n
	c.n++
	// name positions by method and occurrence within the operation (not since process start)
	if c.occ == nil {
		c.occ = map[string]int{}
	}
	meth := pos[:strings.LastIndexByte(pos, '#')]
	c.occ[meth]++
	pos = fmt.Sprintf("%s#%d", meth, c.occ[meth])
	c.names = append(c.names, pos)
	c.isDB = append(c.isDB, isDB)
	if c.failing && isDB {
		return errInjected
	}
	if c.kind == none || idx != c.k || c.fired {
		return nil
	}
	switch c.kind {
	case crash:
		c.fired, c.firedAt, c.dead = true, pos, true
		panic(dbproxy.Crash{At: pos})
	case errAt:
		if !isDB {
			return nil
		}
		c.fired, c.firedAt = true, pos
		return errInjected
	case errFromAt:
		if !isDB {
			return nil
		}
		c.fired, c.firedAt, c.failing = true, pos, true
		return errInjected
	}
	return nil
}

func install(w *world.World, c *ctl) {
	w.DBHook = func(call *dbproxy.Call) error { return c.onCall(call.Pos(), true) }
	w.DB.Hook = w.DBHook
	w.LN.Hook = func(call *lnmodel.Call) error {
		if call.Method == "SubscribeInvoice" {
			return nil // issued by the background watcher, not by the request
		}
		return c.onCall(fmt.Sprintf("LN.%s#%d", call.Method, call.Occ), false)
	}
}

// ---------------------------------------------------------------- set-ups and operations

type variant struct {
	NIn   int    `json:"n_in"`
	Fee   uint   `json:"fee_ppk"`
	Extra bool   `json:"extra_content"`
	Seed  uint64 `json:"seed"`
}

type env struct {
	w             *world.World
	v             variant
	inputs        cashu.Proofs
	inVal         uint64
	outs          []world.Out
	mintQ         *world.MMintQuote
	meltQ         *world.MMeltQuote
	mintQ2        *world.MMintQuote
	preSigned     []string
	preSpent      []string
	keysetsBefore string
	listedBefore  string
	resolveTo     bool
}

func fund(t *testing.T, w *world.World, amounts []uint64) {
	var sum uint64
	for _, a := range amounts {
		sum += a
	}
	q, err := w.RequestMintQuote(sum, nil)
	if err != nil {
		t.Fatalf("setup: %v", err)
	}
	w.PayInvoice(q)
	if _, err := w.MintTokens(q, w.MakeOutputs(amounts, w.ActiveID), ""); err != nil {
		t.Fatalf("setup: %v", err)
	}
}

func newEnv(t *testing.T, v variant) *env {
	w := world.New(t, world.Config{CaseSeed: 7000 + v.Seed, FeePpk: v.Fee, FeeMode: lnmodel.FeePercent})
	e := &env{w: w, v: v}
	fund(t, w, []uint64{64, 32, 16, 8, 8, 4, 2, 1})
	if v.Extra {
		// other content in the database: a spent proof, a second keyset, an unpaid quote
		fund(t, w, []uint64{4, 4})
		un := w.M.ProofsIn(world.Unspent)
		last := un[len(un)-1:]
		fee := w.FeeFor(last.Proofs())
		if _, err := w.Swap(last.Proofs(), w.MakeOutputs(world.Split(4-fee), w.ActiveID)); err != nil {
			t.Fatalf("setup swap: %v", err)
		}
		if _, err := w.RequestMintQuote(5, nil); err != nil {
			t.Fatalf("setup: %v", err)
		}
	}
	un := w.M.ProofsIn(world.Unspent)
	e.inputs = un[:v.NIn].Proofs()
	for _, p := range e.inputs {
		e.inVal += p.Amount
	}
	e.preSigned = append([]string{}, w.M.SignedOrder...)
	for _, p := range w.M.ProofsIn(world.Spent) {
		e.preSpent = append(e.preSpent, p.Y)
	}
	e.keysetsBefore = keysetString(w)
	e.listedBefore = listedString(w)
	return e
}

// listedString renders what the running mint reports about its keysets (id, fee), ordered by id.
func listedString(w *world.World) string {
	var l []string
	for _, k := range w.Mint.ListKeysets().Keysets {
		l = append(l, fmt.Sprintf("%s/%d", k.Id, k.InputFeePpk))
	}
	sort.Strings(l)
	return strings.Join(l, ",")
}

func keysetString(w *world.World) string {
	rows, _ := w.Inner().GetKeysets()
	var l []string
	for _, k := range rows {
		l = append(l, fmt.Sprintf("%s/%d/%d", k.Id, k.DerivationPathIdx, k.InputFeePpk))
	}
	return strings.Join(l, ",")
}

type result struct {
	resp any
	err  error
}

type opSpec struct {
	name  string
	prep  func(t *testing.T, e *env)
	run   func(e *env) result
	check func(t *testing.T, e *env, delivered bool, r result, rep func(symptom, format string, a ...any))
}

func ctx() context.Context {
	c, _ := context.WithTimeout(context.Background(), 5*time.Second)
	return c
}

// trySwap attempts an honest swap of the inputs to fresh outputs through the model-updating world op.
func trySwap(e *env, inputs cashu.Proofs) error {
	var total uint64
	for _, p := range inputs {
		total += p.Amount
	}
	fee := e.w.FeeFor(inputs)
	_, err := e.w.Swap(inputs, e.w.MakeOutputs(world.Split(total-fee), e.w.ActiveID))
	return err
}

func restoreCount(e *env, outs []world.Out) (int, cashu.BlindedSignatures) {
	_, sigs, err := e.w.Mint.RestoreSignatures(world.Msgs(outs))
	if err != nil {
		return -1, nil
	}
	return len(sigs), sigs
}

func meltPrep(script []lnmodel.PayAnswer, errTruth lnmodel.Truth) func(t *testing.T, e *env) {
	return func(t *testing.T, e *env) {
		w := e.w
		fee := w.FeeFor(e.inputs)
		amt := e.inVal - fee
		for amt+w.LN.FeeFor(amt)+fee > e.inVal {
			amt--
		}
		inv := w.Net.ExternalInvoice(amt * 1000)
		q, err := w.RequestMeltQuote(inv.Request, 0)
		if err != nil {
			t.Fatalf("setup melt quote: %v", err)
		}
		e.meltQ = q
		w.LN.PayScript = append([]lnmodel.PayAnswer{}, script...)
		w.LN.ErrTruth = errTruth
	}
}

func meltRun(e *env) result {
	r, err := e.w.Mint.MeltTokens(ctx(), nut05.PostMeltBolt11Request{Quote: e.meltQ.ID, Inputs: e.inputs})
	return result{r, err}
}

// meltCheck: after restart, resolve anything in flight, poll, and compare with the Lightning ground truth.
func meltCheck(t *testing.T, e *env, delivered bool, r result, rep func(string, string, ...any)) {
	w := e.w
	q := e.meltQ
	if p := w.LN.Payment(q.Hash); p != nil && p.Truth == lnmodel.TruthInflight {
		w.LN.Resolve(q.Hash, e.resolveTo)
	}
	truth := lnmodel.TruthNone
	if p := w.LN.Payment(q.Hash); p != nil {
		truth = p.Truth
	}
	var ys []string
	for _, in := range e.inputs {
		_, y := world.Y(in.Secret)
		ys = append(ys, y)
	}
	for i := 0; i < 2; i++ {
		w.Mint.GetMeltQuoteState(ctx(), q.ID)
		w.Mint.ProofsStateCheck(ys)
	}
	row, err := w.Inner().GetMeltQuote(q.ID)
	if err != nil {
		rep("melt_quote_lost", "%v", err)
		return
	}
	used, _ := w.Inner().GetProofsUsed(ys)
	pend, _ := w.Inner().GetPendingProofs(ys)
	inState := fmt.Sprintf("spent=%d,pending=%d,of=%d", len(used), len(pend), len(ys))
	// bring the model in line with the tables, then try to spend the inputs elsewhere
	w.ResyncProofStates(e.inputs, q)
	w.TakeFlags()
	// attempt the re-spend directly against the mint (model updated on success)
	errSwap := func() error {
		var total uint64
		for _, p := range e.inputs {
			total += p.Amount
		}
		fee := w.FeeFor(e.inputs)
		outs := w.MakeOutputs(world.Split(total-fee), w.ActiveID)
		sigs, err := w.Mint.Swap(e.inputs, world.Msgs(outs))
		if err == nil {
			for _, in := range e.inputs {
				if mp := w.M.Proofs[in.Secret]; mp != nil {
					mp.State = world.Unspent // make the model accept the booking without a C01 flag; verdict is ours
				}
			}
			w.AcceptInputs("swap", e.inputs, world.Spent, -1)
			w.RecordSignatures("swap", outs, sigs)
		}
		return err
	}()
	w.TakeFlags()
	if truth == lnmodel.TruthSucceeded {
		if errSwap == nil {
			rep("payment_made_and_inputs_respendable", "quote row %s, inputs were %s", row.State, inState)
		}
		if row.State != nut05.Paid {
			rep("payment_made_quote_not_paid|quote="+row.State.String(), "after two polls the quote is %s, inputs %s", row.State, inState)
		} else if inv := w.Net.InvoiceByHash(q.Hash); inv != nil && row.Preimage != inv.Preimage {
			rep("paid_without_preimage", "preimage %q", row.Preimage)
		}
	} else {
		// the payment was not made and never will be
		if errSwap != nil {
			rep("payment_not_made_inputs_unusable|quote="+row.State.String(), "payment truth %s, quote %s, inputs %s, re-spend: %v", truth, row.State, inState, errSwap)
		}
		if row.State == nut05.Paid {
			rep("quote_paid_without_payment", "payment truth %s", truth)
		}
	}
	if delivered && r.err == nil {
		if resp, ok := r.resp.(interface{ GetState() nut05.State }); ok {
			_ = resp
		}
	}
}

var ops = []opSpec{
	{
		name: "mint_quote",
		prep: func(t *testing.T, e *env) {},
		run: func(e *env) result {
			q, err := e.w.Mint.RequestMintQuote(nut04.PostMintQuoteBolt11Request{Amount: 21, Unit: "sat"})
			return result{q, err}
		},
		check: func(t *testing.T, e *env, delivered bool, r result, rep func(string, string, ...any)) {
			// nothing of value involved; a fresh honest quote must work after restart
			q, err := e.w.RequestMintQuote(3, nil)
			if err != nil {
				rep("mint_quote_unavailable_after_restart", "%v", err)
				return
			}
			e.w.PayInvoice(q)
			if _, err := e.w.MintTokens(q, e.w.MakeOutputs(world.Split(3), e.w.ActiveID), ""); err != nil {
				rep("mint_unavailable_after_restart", "%v", err)
			}
		},
	},
	{
		name: "mint",
		prep: func(t *testing.T, e *env) {
			q, err := e.w.RequestMintQuote(21, nil)
			if err != nil {
				t.Fatalf("setup: %v", err)
			}
			e.w.PayInvoice(q)
			e.mintQ = q
			e.outs = e.w.MakeOutputs([]uint64{16, 4, 1}, e.w.ActiveID)
		},
		run: func(e *env) result {
			s, err := e.w.Mint.MintTokens(nut04.PostMintBolt11Request{Quote: e.mintQ.ID, Outputs: world.Msgs(e.outs)})
			return result{s, err}
		},
		check: func(t *testing.T, e *env, delivered bool, r result, rep func(string, string, ...any)) {
			w := e.w
			if delivered && r.err == nil {
				e.mintQ.Issuances++
				w.RecordSignatures("mint", e.outs, r.resp.(cashu.BlindedSignatures))
				if n, _ := restoreCount(e, e.outs); n != len(e.outs) {
					rep("returned_signatures_not_restorable", "%d of %d", n, len(e.outs))
				}
				if _, err := w.MintTokens(e.mintQ, w.MakeOutputs([]uint64{16, 4, 1}, w.ActiveID), ""); err == nil {
					rep("quote_issued_twice", "second mint accepted after restart")
				}
				return
			}
			n, sigs := restoreCount(e, e.outs)
			row, _ := w.Inner().GetMintQuote(e.mintQ.ID)
			switch {
			case n == len(e.outs):
				e.mintQ.Issuances++
				w.RecordSignatures("mint", e.outs, sigs)
				if _, err := w.MintTokens(e.mintQ, w.MakeOutputs([]uint64{16, 4, 1}, w.ActiveID), ""); err == nil {
					rep("signatures_restorable_and_quote_still_mintable", "quote row %s", row.State)
				}
			case n == 0:
				if _, err := w.MintTokens(e.mintQ, e.outs, ""); err == nil {
					return
				}
				if _, err := w.MintTokens(e.mintQ, w.MakeOutputs([]uint64{16, 4, 1}, w.ActiveID), ""); err != nil {
					rep("paid_quote_unusable_no_signatures|quote="+row.State.String(), "restore returned nothing, retry identical and retry fresh both refused: %v", err)
				}
			default:
				rep("partial_signatures_stored", "%d of %d", n, len(e.outs))
			}
		},
	},
	{
		name: "swap",
		prep: func(t *testing.T, e *env) {
			fee := e.w.FeeFor(e.inputs)
			e.outs = e.w.MakeOutputs(world.Split(e.inVal-fee), e.w.ActiveID)
		},
		run: func(e *env) result {
			s, err := e.w.Mint.Swap(e.inputs, world.Msgs(e.outs))
			return result{s, err}
		},
		check: func(t *testing.T, e *env, delivered bool, r result, rep func(string, string, ...any)) {
			w := e.w
			if delivered && r.err == nil {
				w.AcceptInputs("swap", e.inputs, world.Spent, -1)
				w.RecordSignatures("swap", e.outs, r.resp.(cashu.BlindedSignatures))
				if n, _ := restoreCount(e, e.outs); n != len(e.outs) {
					rep("returned_signatures_not_restorable", "%d of %d", n, len(e.outs))
				}
				if err := trySwap(e, e.inputs); err == nil {
					rep("inputs_respendable_after_successful_swap", "")
				}
				return
			}
			n, sigs := restoreCount(e, e.outs)
			switch {
			case n == len(e.outs):
				w.AcceptInputs("swap", e.inputs, world.Spent, -1)
				w.RecordSignatures("swap", e.outs, sigs)
				// the inputs must be gone
				var total uint64
				for _, p := range e.inputs {
					total += p.Amount
				}
				outs := w.MakeOutputs(world.Split(total-w.FeeFor(e.inputs)), w.ActiveID)
				if s2, err := w.Mint.Swap(e.inputs, world.Msgs(outs)); err == nil {
					w.RecordSignatures("swap", outs, s2)
					rep("outputs_restorable_and_inputs_respendable", "")
				}
			case n == 0:
				if s2, err := w.Mint.Swap(e.inputs, world.Msgs(e.outs)); err == nil {
					w.AcceptInputs("swap", e.inputs, world.Spent, -1)
					w.RecordSignatures("swap", e.outs, s2)
					return
				}
				if err := trySwap(e, e.inputs); err != nil {
					rep("inputs_spent_outputs_unrecoverable", "restore returned nothing; retry identical and re-spend refused: %v", err)
					w.ResyncProofStates(e.inputs, nil)
				}
			default:
				rep("partial_signatures_stored", "%d of %d", n, len(e.outs))
			}
		},
	},
	{
		name: "melt_quote",
		prep: func(t *testing.T, e *env) {},
		run: func(e *env) result {
			inv := e.w.Net.ExternalInvoice(5000)
			q, err := e.w.Mint.RequestMeltQuote(nut05.PostMeltQuoteBolt11Request{Request: inv.Request, Unit: "sat"})
			return result{q, err}
		},
		check: func(t *testing.T, e *env, delivered bool, r result, rep func(string, string, ...any)) {
			if err := trySwap(e, e.inputs); err != nil {
				rep("unrelated_inputs_unusable", "%v", err)
			}
		},
	},
	{name: "melt_success", prep: meltPrep([]lnmodel.PayAnswer{lnmodel.PaySuccess}, 0), run: meltRun, check: meltCheck},
	{
		// the adversarial follow-up itself under faults: a melt of inputs that an earlier swap has already spent
		name: "melt_of_spent_inputs",
		prep: func(t *testing.T, e *env) {
			if err := trySwap(e, e.inputs); err != nil {
				t.Fatalf("setup swap: %v", err)
			}
			meltPrep([]lnmodel.PayAnswer{lnmodel.PaySuccess}, 0)(t, e)
		},
		run: meltRun,
		check: func(t *testing.T, e *env, delivered bool, r result, rep func(string, string, ...any)) {
			w := e.w
			q := e.meltQ
			if delivered && r.err == nil {
				rep("melt_of_spent_inputs_accepted", "state %v", r.resp)
			}
			for i := 0; i < 2; i++ {
				w.Mint.GetMeltQuoteState(ctx(), q.ID)
			}
			if p := w.LN.Payment(q.Hash); p != nil && p.Truth != lnmodel.TruthNone {
				rep("payment_made_for_spent_inputs", "the invoice of a melt whose inputs were already spent was paid (payment %s)", p.Truth)
			}
			if row, err := w.Inner().GetMeltQuote(q.ID); err == nil && row.State == nut05.Paid {
				rep("quote_paid_by_spent_inputs", "quote %s", row.State)
			}
			var ys []string
			for _, in := range e.inputs {
				_, y := world.Y(in.Secret)
				ys = append(ys, y)
			}
			if st, err := w.Mint.ProofsStateCheck(ys); err == nil {
				for _, x := range st {
					if x.State.String() != "SPENT" {
						rep("durability:spent_proof_no_longer_spent", "%s is %s after a refused melt", x.Y, x.State)
					}
				}
			}
		},
	},
	{
		name: "swap_of_spent_inputs",
		prep: func(t *testing.T, e *env) {
			if err := trySwap(e, e.inputs); err != nil {
				t.Fatalf("setup swap: %v", err)
			}
			fee := e.w.FeeFor(e.inputs)
			e.outs = e.w.MakeOutputs(world.Split(e.inVal-fee), e.w.ActiveID)
		},
		run: func(e *env) result {
			s, err := e.w.Mint.Swap(e.inputs, world.Msgs(e.outs))
			return result{s, err}
		},
		check: func(t *testing.T, e *env, delivered bool, r result, rep func(string, string, ...any)) {
			if delivered && r.err == nil {
				rep("swap_of_spent_inputs_accepted", "")
			}
			if n, _ := restoreCount(e, e.outs); n > 0 {
				rep("signatures_for_spent_inputs_restorable", "%d of %d outputs of the refused re-spend are restorable", n, len(e.outs))
			}
		},
	},
	{name: "melt_pending_then_success", prep: func(t *testing.T, e *env) {
		meltPrep([]lnmodel.PayAnswer{lnmodel.PayPending}, 0)(t, e)
		e.resolveTo = true
	}, run: meltRun, check: meltCheck},
	{name: "melt_pending_then_failure", prep: func(t *testing.T, e *env) {
		meltPrep([]lnmodel.PayAnswer{lnmodel.PayPending}, 0)(t, e)
		e.resolveTo = false
	}, run: meltRun, check: meltCheck},
	{name: "melt_failed", prep: meltPrep([]lnmodel.PayAnswer{lnmodel.PayFailed}, 0), run: meltRun, check: meltCheck},
	{name: "melt_transport_error_not_sent", prep: meltPrep([]lnmodel.PayAnswer{lnmodel.PayError}, lnmodel.TruthNone), run: meltRun, check: meltCheck},
	{name: "melt_transport_error_but_paid", prep: meltPrep([]lnmodel.PayAnswer{lnmodel.PayError}, lnmodel.TruthSucceeded), run: meltRun, check: meltCheck},
	{name: "resolve_by_quote_poll_success", prep: resolvePrep(true), run: func(e *env) result {
		r, err := e.w.Mint.GetMeltQuoteState(ctx(), e.meltQ.ID)
		return result{r, err}
	}, check: meltCheck},
	{name: "resolve_by_quote_poll_failure", prep: resolvePrep(false), run: func(e *env) result {
		r, err := e.w.Mint.GetMeltQuoteState(ctx(), e.meltQ.ID)
		return result{r, err}
	}, check: meltCheck},
	{name: "resolve_by_checkstate_success", prep: resolvePrep(true), run: checkstateRun, check: meltCheck},
	{name: "resolve_by_checkstate_failure", prep: resolvePrep(false), run: checkstateRun, check: meltCheck},
	{
		name: "internal_settlement",
		prep: func(t *testing.T, e *env) {
			w := e.w
			fee := w.FeeFor(e.inputs)
			q2, err := w.RequestMintQuote(e.inVal-fee, nil)
			if err != nil {
				t.Fatalf("setup: %v", err)
			}
			e.mintQ2 = q2
			mq, err := w.RequestMeltQuote(q2.Request, 0)
			if err != nil {
				t.Fatalf("setup: %v", err)
			}
			e.meltQ = mq
		},
		run: meltRun,
		check: func(t *testing.T, e *env, delivered bool, r result, rep func(string, string, ...any)) {
			w := e.w
			w.Mint.GetMeltQuoteState(ctx(), e.meltQ.ID)
			w.Mint.GetMintQuoteState(e.mintQ2.ID)
			row, _ := w.Inner().GetMeltQuote(e.meltQ.ID)
			mrow, _ := w.Inner().GetMintQuote(e.mintQ2.ID)
			// can the mint quote be minted?
			outs := w.MakeOutputs(world.Split(e.mintQ2.Amount), w.ActiveID)
			sigs, errMint := w.Mint.MintTokens(nut04.PostMintBolt11Request{Quote: e.mintQ2.ID, Outputs: world.Msgs(outs)})
			if errMint == nil {
				e.mintQ2.Internal++
				e.mintQ2.Issuances++
				w.RecordSignatures("mint", outs, sigs)
			}
			w.ResyncProofStates(e.inputs, e.meltQ)
			w.TakeFlags()
			var total uint64
			for _, p := range e.inputs {
				total += p.Amount
			}
			o2 := w.MakeOutputs(world.Split(total-w.FeeFor(e.inputs)), w.ActiveID)
			s2, errSwap := w.Mint.Swap(e.inputs, world.Msgs(o2))
			if errSwap == nil {
				for _, in := range e.inputs {
					if mp := w.M.Proofs[in.Secret]; mp != nil {
						mp.State = world.Unspent
					}
				}
				w.AcceptInputs("swap", e.inputs, world.Spent, -1)
				w.RecordSignatures("swap", o2, s2)
			}
			w.TakeFlags()
			switch {
			case errMint == nil && errSwap == nil:
				rep("inputs_respendable_and_mint_quote_issuable", "melt quote %s, mint quote was %s", row.State, mrow.State)
			case errMint != nil && errSwap != nil:
				rep("inputs_unusable_and_mint_quote_not_issuable|melt="+row.State.String()+"|mint="+mrow.State.String(), "mint: %v; swap: %v", errMint, errSwap)
			}
		},
	},
	{
		name: "rotate_keyset",
		prep: func(t *testing.T, e *env) {},
		run: func(e *env) result {
			k, err := e.w.Mint.RotateKeyset(250)
			return result{k, err}
		},
		check: func(t *testing.T, e *env, delivered bool, r result, rep func(string, string, ...any)) {
			w := e.w
			list := w.Mint.ListKeysets().Keysets
			active := 0
			for _, k := range list {
				if k.Active {
					active++
				}
			}
			if active != 1 {
				rep(fmt.Sprintf("active_keysets=%d", active), "%v", list)
			}
			if !strings.HasPrefix(keysetString(w), e.keysetsBefore) {
				rep("earlier_keysets_changed", "before %s after %s", e.keysetsBefore, keysetString(w))
			}
			if delivered && r.err == nil && len(list) != strings.Count(e.keysetsBefore, ",")+2 {
				rep("acknowledged_rotation_lost", "%v", list)
			}
			// the keyset the client was told about is the one the restarted mint has: same id, active, same fee
			if k, ok := r.resp.(*nut02.Keyset); ok && delivered && r.err == nil && k != nil {
				found := false
				for _, l := range list {
					if l.Id == k.Id {
						found = true
						if !l.Active || l.InputFeePpk != k.InputFeePpk || k.InputFeePpk != 250 {
							rep("acknowledged_rotation_differs_after_restart", "answered %+v, after restart %+v", *k, l)
						}
					}
				}
				if !found {
					rep("acknowledged_rotation_lost", "keyset %s not listed: %v", k.Id, list)
				}
			}
			if err := trySwap(e, e.inputs); err != nil {
				rep("old_keyset_proofs_unusable_after_rotation_fault", "%v", err)
			}
		},
	},
}

// opClass groups operations that share their code path up to the fault position, so that one defect has
// one signature: all melt variants differ only in the Lightning answer; all resolution variants in the poller.
func opClass(name string) string {
	switch {
	case strings.HasPrefix(name, "melt_") && name != "melt_quote":
		return "melt"
	case strings.HasPrefix(name, "resolve_by_"):
		if strings.HasSuffix(name, "_success") {
			return "resolve_pending_melt_succeeded"
		}
		return "resolve_pending_melt_failed"
	}
	return name
}

func resolvePrep(success bool) func(t *testing.T, e *env) {
	return func(t *testing.T, e *env) {
		meltPrep([]lnmodel.PayAnswer{lnmodel.PayPending}, 0)(t, e)
		if _, err := e.w.MeltTokens(e.meltQ, e.inputs); err != nil {
			t.Fatalf("setup melt: %v", err)
		}
		e.w.LN.Resolve(e.meltQ.Hash, success)
		e.resolveTo = success
	}
}

func checkstateRun(e *env) result {
	var ys []string
	for _, in := range e.inputs {
		_, y := world.Y(in.Secret)
		ys = append(ys, y)
	}
	r, err := e.w.Mint.ProofsStateCheck(ys)
	return result{r, err}
}

// ---------------------------------------------------------------- one faulted execution

type caseID struct {
	Op   string    `json:"op"`
	Kind faultKind `json:"fault"`
	K    int       `json:"k"`
	V    variant   `json:"variant"`
}

type finding struct {
	sig, detail string
}

// execute runs op under the given fault and returns the findings plus the op's call names (from this run).
func execute(t *testing.T, op opSpec, v variant, kind faultKind, k int) (fs []finding, names []string, isDB []bool) {
	e := newEnv(t, v)
	defer e.w.Close()
	w := e.w
	op.prep(t, e)
	c := &ctl{kind: kind, k: k}
	install(w, c)
	c.gid = dbproxy.Gid()
	c.armed = true
	var r result
	crashed := false
	func() {
		defer func() {
			if p := recover(); p != nil {
				if _, ok := p.(dbproxy.Crash); ok {
					crashed = true
					return
				}
				panic(p)
			}
		}()
		r = op.run(e)
	}()
	c.armed = false
	names, isDB = c.names, c.isDB
	pos := "end"
	if c.fired {
		pos = c.firedAt
	}
	if kind != none && !c.fired && !(kind == crash && k >= len(names)) {
		return nil, names, isDB // position not applicable (e.g. error at a Lightning call)
	}
	delivered := !crashed && !(kind == crash)
	rep := func(symptom, format string, a ...any) {
		sig := fmt.Sprintf("C07|op=%s|before=%s|symptom=%s", opClass(op.name), pos, symptom)
		fs = append(fs, finding{sig, fmt.Sprintf(format, a...) + fmt.Sprintf(" [op %s, fault %s, variant %+v, response delivered=%v err=%v]", op.name, kind, v, delivered, r.err)})
	}
	w.LN.PayScript = nil
	// the process dies (crash) or is restarted by the operator (errors); storage works again afterwards
	c.dead = true
	var restartErr error
	func() {
		defer func() {
			if p := recover(); p != nil {
				restartErr = fmt.Errorf("LoadMint panicked: %v", p)
			}
		}()
		w.DBHook = nil
		w.LN.Hook = nil
		c2 := &ctl{}
		_ = c2
		restartErr = w.CrashRestart()
	}()
	if restartErr != nil {
		rep("restart_fails", "%v", restartErr)
		return fs, names, isDB
	}
	w.TakeFlags()
	op.check(t, e, delivered, r, rep)
	// common oracles: safety (ledger, model conflicts), durability of earlier responses, keysets
	w.CheckLedger("after follow-up")
	for _, f := range w.TakeFlags() {
		switch f.Prop {
		case "C01", "C02", "C03":
			rep("safety:"+strings.TrimPrefix(f.Signature, f.Prop+"|"), "%s", f.Detail)
		}
	}
	if len(e.preSigned) > 0 {
		var msgs cashu.BlindedMessages
		for _, b := range e.preSigned {
			s := w.M.Signed[b]
			msgs = append(msgs, cashu.BlindedMessage{Amount: s.Amount, Id: s.Keyset, B_: b})
		}
		_, sigs, err := w.Mint.RestoreSignatures(msgs)
		if err != nil || len(sigs) != len(msgs) {
			rep("durability:earlier_signatures_not_restorable", "%d of %d, err %v", len(sigs), len(msgs), err)
		}
		// the way a wallet restores after a crash: one request over consecutive counters, in which outputs the mint never
		// signed (lost requests) sit in front of and between the signed ones
		holes := world.Msgs(w.MakeOutputs([]uint64{1, 2}, w.ActiveID))
		mixed := append(cashu.BlindedMessages{holes[0]}, msgs[:len(msgs)/2]...)
		mixed = append(append(mixed, holes[1]), msgs[len(msgs)/2:]...)
		outs2, sigs2, err := w.Mint.RestoreSignatures(mixed)
		if err != nil || len(sigs2) != len(msgs) || len(outs2) != len(msgs) {
			rep("durability:earlier_signatures_not_restorable_behind_unsigned_outputs", "%d of %d signatures in a request with never-signed outputs in front and in between, err %v", len(sigs2), len(msgs), err)
		}
	}
	if len(e.preSpent) > 0 {
		st, err := w.Mint.ProofsStateCheck(e.preSpent)
		if err != nil {
			rep("durability:checkstate_fails", "%v", err)
		}
		for _, s := range st {
			if s.State.String() != "SPENT" {
				rep("durability:spent_proof_no_longer_spent", "%s is %s", s.Y, s.State)
			}
		}
	}
	if op.name != "rotate_keyset" && keysetString(w) != e.keysetsBefore {
		rep("keysets_changed", "before %s after %s", e.keysetsBefore, keysetString(w))
	}
	if op.name != "rotate_keyset" && listedString(w) != e.listedBefore {
		rep("reported_keysets_changed_after_restart", "before %s after %s", e.listedBefore, listedString(w))
	}
	return fs, names, isDB
}

func variants(tier string, seed uint64) []variant {
	vs := []variant{{NIn: 2, Fee: 100, Extra: true, Seed: 1}}
	if tier == "thorough" {
		for i := uint64(0); i < 47; i++ {
			s := seed*131 + i
			vs = append(vs, variant{NIn: 1 + int(s%3), Fee: []uint{0, 100, 1000}[(s/3)%3], Extra: (s/9)%2 == 0, Seed: 10 + i})
		}
	}
	return vs
}

func TestCrashPoints(t *testing.T) {
	shard, _ := strconv.Atoi(os.Getenv("VERIF_SHARD"))
	n, _ := strconv.Atoi(os.Getenv("VERIF_NSHARDS"))
	if n == 0 {
		n = 1
	}
	seed, _ := strconv.ParseUint(os.Getenv("VERIF_SEED"), 10, 64)
	bad := 0
	total := 0
	idx := 0
	for _, v := range variants(os.Getenv("VERIF_TIER"), seed) {
		for _, op := range ops {
			idx++
			if idx%n != shard {
				continue
			}
			// un-faulted run: the call sequence
			fs, names, isDB := execute(t, op, v, none, -1)
			rec.Eval()
			for _, f := range fs {
				if !rec.IsKnown(f.sig) {
					bad++
					rec.Violate(f.sig, f.detail, caseID{op.name, none, -1, v})
					t.Errorf("VIOLATION %s: %s", f.sig, f.detail)
				}
			}
			if v.Seed == 1 {
				rec.Sample("call_sequence", map[string]any{"op": op.name, "calls": names})
			}
			for k := 0; k <= len(names); k++ {
				for _, kind := range []faultKind{crash, errAt, errFromAt} {
					if kind != crash && (k == len(names) || !isDB[k]) {
						continue
					}
					fs, _, _ := execute(t, op, v, kind, k)
					rec.Eval()
					total++
					pos := "end"
					if k < len(names) {
						pos = names[k]
					}
					rec.NonTrivial(fmt.Sprintf("%s|%s|%s|%+v", op.name, kind, pos, v))
					rec.Class("fault=" + string(kind))
					rec.Class("op=" + op.name)
					for _, f := range fs {
						if rec.IsKnown(f.sig) {
							continue
						}
						bad++
						rec.Violate(f.sig, f.detail, caseID{op.name, kind, k, v})
						if bad <= 2000 {
							t.Errorf("VIOLATION %s: %s", f.sig, f.detail)
						}
					}
				}
			}
		}
	}
	if shard == 0 {
		rec.Exhaustive("operations x crash positions 0..n x {crash, error@k, error-from@k} per set-up", total)
	}
	if bad > 0 {
		t.Fatalf("%d unlisted violations", bad)
	}
}

func TestReplay(t *testing.T) {
	path := os.Getenv("VERIF_REPLAY")
	if path == "" {
		t.Skip("no VERIF_REPLAY")
	}
	raw, err := os.ReadFile(path)
	if err != nil {
		t.Fatal(err)
	}
	var doc struct {
		Replay caseID `json:"replay"`
	}
	if err := json.Unmarshal(raw, &doc); err != nil {
		t.Fatal(err)
	}
	for _, op := range ops {
		if op.name == doc.Replay.Op {
			fs, _, _ := execute(t, op, doc.Replay.V, doc.Replay.Kind, doc.Replay.K)
			for _, f := range fs {
				if !rec.IsKnown(f.sig) {
					t.Errorf("VIOLATION %s: %s", f.sig, f.detail)
				}
			}
		}
	}
}
