// C17 — wallet balance is truthful and no value is lost against an honest mint.
package c17

import (
	"os"
	"strings"
	"testing"

	"pgregory.net/rapid"

	"verif/harness/rec"
	"verif/harness/whist"
)

func TestMain(m *testing.M) {
	code := m.Run()
	rec.Flush()
	os.Exit(code)
}

func propHistory(t *rapid.T) {
	m := whist.New(t, whist.Options{
		Owns:    map[string]bool{"C17": os.Getenv("VERIF_DIAG_C19") == "", "C19": os.Getenv("VERIF_DIAG_C19") != ""},
		Wallets: rapid.IntRange(2, 3).Draw(t, "wallets"),
		Mints:   rapid.IntRange(1, 2).Draw(t, "mints"),
		Fees:    []uint{0, 100, 1000},
	})
	defer m.Close()
	rec.Eval()
	t.Repeat(map[string]func(*rapid.T){"step": m.Step})
	nt := (m.Count["receive_from_other_wallet"] > 0 && m.Count["melt_paid"]+m.Count["melt_pending"]+m.Count["melt_unpaid"] > 0) || (m.Count["rotation"] > 0 && m.Count["send_ok"] > 0)
	if nt {
		rec.NonTrivial(strings.Join(m.Trace, "|"))
		for _, k := range []string{"receive_from_other_wallet", "receive_cross_mint", "melt_paid", "melt_pending", "melt_unpaid", "melt_error", "melt_resolved_PAID", "melt_resolved_UNPAID", "reclaim", "removespent", "mintswap_success", "mintswap_failed", "mintswap_pending", "rotation", "restart", "send_p2pk", "send_htlc"} {
			if m.Count[k] > 0 {
				rec.Class("history_with_" + k)
			}
		}
		rec.ClassN("steps", len(m.Trace))
		rec.ClassN("swaps_checked_for_burn", m.Count["swaps_checked_for_burn"])
		rec.ClassN("swaps_with_fee_checked_for_burn", m.Count["swaps_with_fee_checked_for_burn"])
		rec.Sample("history", map[string]any{"trace": m.Trace})
	}
}

func TestHistory(t *testing.T) { rapid.Check(t, propHistory) }
