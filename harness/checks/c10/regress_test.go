package c10

import (
	"encoding/hex"
	"math/big"
	"testing"

	"github.com/decred/dcrd/dcrec/secp256k1/v4"
	"github.com/elnosh/gonuts/cashu"
	"github.com/elnosh/gonuts/cashu/nuts/nut12"

	"verif/harness/rec"
	"verif/harness/ref"
)

// Hand-written checks on the NUT-12 specification vectors (no library, no randomness).

const (
	vecA  = "0279be667ef9dcbbac55a06295ce870b07029bfcdb2dce28d959f2815b16f81798" // a = 1
	vecB_ = "02a9acc1e48c25eeeb9289b5031cc57da9fe72f3fe2861d264bdc074209b107ba2"
	vecC_ = "02a9acc1e48c25eeeb9289b5031cc57da9fe72f3fe2861d264bdc074209b107ba2"
	vecE  = "9818e061ee51d5c8edc3342369a554998ff7b4381c8652d724cdf46429be73d9"
	vecS  = "9818e061ee51d5c8edc3342369a554998ff7b4381c8652d724cdf46429be73da"
)

func vecProof() cashu.Proof {
	return cashu.Proof{
		Amount: 1,
		Id:     "00882760bfa2eb41",
		Secret: "daf4dd00a2b68a0858a80450f52c8a7d2ccf87d375e43e216e0c571f089f63e9",
		C:      "024369d2d22a80ecf78f3937da9d5f30c1b9f74f0c32684d583cca0fa6a61cdcfc",
		DLEQ: &cashu.DLEQProof{
			E: "b31e58ac6527f34975ffab13e70a48b6d2b0d35abc4b03f0151f09ee1a9763d4",
			S: "8fbae004c59e754d71df67e392b6ae4e29293113ddc2ec86592a0431d16306d8",
			R: "a6d13fcd7a18442e6076f5e1e7c887ad5de40a019824bdfa9fe740d302e8d861",
		},
	}
}

func vecKey(t *testing.T) *secp256k1.PublicKey {
	b, _ := hex.DecodeString(vecA)
	A, err := secp256k1.ParsePubKey(b)
	if err != nil {
		t.Fatal(err)
	}
	return A
}

// The reference verifier and the implementation both accept the specification vectors (pins the oracle of
// TestDLEQ / TestMintSignatures to NUT-12), and both reject them after a one-unit change of s.
func TestSpecVectors(t *testing.T) {
	A := vecKey(t)
	Aref, _ := ref.ParseHex(vecA)
	Bref, _ := ref.ParseHex(vecB_)
	Cref, _ := ref.ParseHex(vecC_)
	e, _ := new(big.Int).SetString(vecE, 16)
	s, _ := new(big.Int).SetString(vecS, 16)
	rec.Eval()
	if !ref.DLEQVerify(e, s, Aref, Bref, Cref) {
		t.Fatalf("harness: the reference verifier rejects the NUT-12 blind-signature vector")
	}
	if !nut12.VerifyBlindSignatureDLEQ(cashu.DLEQProof{E: vecE, S: vecS}, A, vecB_, vecC_) {
		violate(t, "dleq_spec_vector_rejected", "VerifyBlindSignatureDLEQ rejects the NUT-12 vector")
	}
	if ref.DLEQVerify(e, addMod(s, 1), Aref, Bref, Cref) {
		t.Fatalf("harness: the reference verifier accepts s+1")
	}
	if nut12.VerifyBlindSignatureDLEQ(cashu.DLEQProof{E: vecE, S: hex32(addMod(s, 1))}, A, vecB_, vecC_) {
		violate(t, "dleq_tamper_accepted|s+1", "NUT-12 vector verifies with s+1")
	}
	// proof vector: C = a*H(secret) with a = 1, and C_ = C + r*A re-blinds to a valid tuple for the reference
	p := vecProof()
	if !nut12.VerifyProofDLEQ(p, A) {
		violate(t, "dleq_spec_vector_rejected", "VerifyProofDLEQ rejects the NUT-12 vector")
	}
	Y, _, _ := ref.HashToCurve([]byte(p.Secret))
	Cp, _ := ref.ParseHex(p.C)
	if !Y.Equal(Cp) {
		t.Fatalf("harness: vector C is not 1*H(secret) by the reference")
	}
	r, _ := new(big.Int).SetString(p.DLEQ.R, 16)
	pe, _ := new(big.Int).SetString(p.DLEQ.E, 16)
	ps, _ := new(big.Int).SetString(p.DLEQ.S, 16)
	rA := ref.Mul(r, Aref)
	if !ref.DLEQVerify(pe, ps, Aref, ref.Add(Y, ref.BaseMul(r)), ref.Add(Cp, rA)) {
		t.Fatalf("harness: the reference verifier rejects the NUT-12 proof vector")
	}
	rec.NonTrivial("spec_vectors")
}
