package c10

import (
	"strings"
	"testing"

	"pgregory.net/rapid"

	"verif/harness/rec"
	"verif/harness/whist"
)

// Wallet level: "every blind signature the mint returns carries a DLEQ proof that wallet-side verification accepts
// for the keyset's published key" - in wallet histories against honest mints that rotate keysets, change fees and
// restart, with tokens passed between wallets (with and without DLEQ), no wallet operation may fail because the
// wallet calls a DLEQ proof invalid: every one it meets is genuine.
func propWalletDLEQ(t *rapid.T) {
	w := map[string]int{}
	for k, v := range whist.DefaultWeights {
		w[k] = v
	}
	w["rotate"], w["send_p2pk"], w["send_htlc"], w["mintswap"], w["restart"], w["join"] = 4, 3, 2, 2, 2, 3
	m := whist.New(t, whist.Options{
		Weights: w,
		Owns:    map[string]bool{"C10": true},
		Wallets: 2,
		Mints:   rapid.IntRange(1, 2).Draw(t, "mints"),
		Fees:    []uint{0, 100, 1000},
	})
	defer m.Close()
	rec.Eval()
	t.Repeat(map[string]func(*rapid.T){"step": m.Step})
	if m.Count["outputs_signed"] > 0 {
		rec.NonTrivial("wallet|" + strings.Join(m.Trace, "|"))
		rec.Class("wallet_history")
		for _, k := range []string{"rotation", "receive_cross_mint", "send_p2pk", "send_htlc", "melt_paid", "restart", "join_new_wallet", "join_add_mint"} {
			if m.Count[k] > 0 {
				rec.Class("wallet_history_with_" + k)
			}
		}
		rec.ClassN("wallet_outputs_signed_and_verified", m.Count["outputs_signed"])
	}
}

func TestWalletDLEQ(t *testing.T) { rapid.Check(t, propWalletDLEQ) }
