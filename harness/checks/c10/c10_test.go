// C10 — blind signatures and DLEQ proofs are algebraically correct and tamper-evident.
//
//	TestBDHKE           pure: Unblind(Sign(Blind(s,r),k),r,K) == k*H(s) against the math/big reference, independence
//	                    of r, Verify true for (s,k) and false for another key / secret / point.
//	TestDLEQ            pure: completeness (own prover, reference prover with chosen nonces), the wallet-style proof
//	                    (e,s,r), every single-field tamper rejected, wrong-key signature with a well-formed proof rejected.
//	TestDLEQEncoding    pure: malformed / non-canonical encodings of e, s, r and the points never panic and are rejected.
//	TestMintSignatures  histories on a real mint: every signature returned by mint / swap (also after rotation and
//	                    restart, and read back through RestoreSignatures) verifies under the PUBLISHED key in the wallet
//	                    path and under the reference-derived key with the reference verifier.
package c10

import (
	"encoding/hex"
	"fmt"
	"math/big"
	"os"
	"strings"
	"sync"
	"testing"

	"crypto/sha256"

	"github.com/decred/dcrd/dcrec/secp256k1/v4"
	"github.com/elnosh/gonuts/cashu"
	"github.com/elnosh/gonuts/cashu/nuts/nut12"
	"github.com/elnosh/gonuts/crypto"
	"pgregory.net/rapid"

	"verif/harness/rec"
	"verif/harness/ref"
	"verif/harness/world"
)

func TestMain(m *testing.M) {
	code := m.Run()
	rec.Flush()
	os.Exit(code)
}

type fataler interface {
	Fatalf(format string, args ...any)
}

// violate fails the case with the canonical VIOLATION line unless the signature is a known finding.
func violate(t fataler, sig, format string, a ...any) {
	full := "C10|" + sig
	if rec.IsKnown(full) {
		return
	}
	t.Fatalf("VIOLATION %s: %s", full, fmt.Sprintf(format, a...))
}

// ---------------------------------------------------------------- conversions

var one = big.NewInt(1)

func privOf(k *big.Int) *secp256k1.PrivateKey { return secp256k1.PrivKeyFromBytes(ref.Scalar32(k)) }

// raw32 renders a value < 2^256 as 32 bytes without reduction mod n.
func raw32(x *big.Int) []byte {
	out := make([]byte, 32)
	x.FillBytes(out)
	return out
}

func hex32(k *big.Int) string { return hex.EncodeToString(ref.Scalar32(k)) }

func pubOf(t fataler, p ref.Point) *secp256k1.PublicKey {
	pk, err := secp256k1.ParsePubKey(p.Compressed())
	if err != nil {
		t.Fatalf("harness: reference point %s not parseable: %v", p.Hex(), err)
	}
	return pk
}

func hexPt(pk *secp256k1.PublicKey) string { return hex.EncodeToString(pk.SerializeCompressed()) }

func samePt(pk *secp256k1.PublicKey, p ref.Point) bool { return !p.Inf && hexPt(pk) == p.Hex() }

func addMod(a *big.Int, d int64) *big.Int {
	x := new(big.Int).Add(a, big.NewInt(d))
	return x.Mod(x, ref.N)
}

func negMod(a *big.Int) *big.Int {
	x := new(big.Int).Sub(ref.N, a)
	return x.Mod(x, ref.N)
}

// ---------------------------------------------------------------- generators

var (
	nMinus1   = new(big.Int).Sub(ref.N, big.NewInt(1))
	nMinus2   = new(big.Int).Sub(ref.N, big.NewInt(2))
	halfLo    = new(big.Int).Rsh(nMinus1, 1)                        // (n-1)/2
	halfHi    = new(big.Int).Add(new(big.Int).Rsh(nMinus1, 1), one) // (n+1)/2
	pow128    = new(big.Int).Lsh(one, 128)
	pow255    = new(big.Int).Lsh(one, 255)
	specialSc = []*big.Int{halfLo, halfHi, pow128, pow255}
)

// drawScalar: uniform scalars plus the edges {1, 2, n-1, n-2} and a few structured values. Never zero.
func drawScalar(t *rapid.T, label string) (*big.Int, string) {
	switch rapid.IntRange(0, 11).Draw(t, label+"_kind") {
	case 0:
		return big.NewInt(1), "1"
	case 1:
		return big.NewInt(2), "2"
	case 2:
		return new(big.Int).Set(nMinus1), "n-1"
	case 3:
		return new(big.Int).Set(nMinus2), "n-2"
	case 4:
		return new(big.Int).Set(specialSc[rapid.IntRange(0, len(specialSc)-1).Draw(t, label+"_special")]), "special"
	default:
		b := rapid.SliceOfN(rapid.Byte(), 32, 32).Draw(t, label)
		k := ref.ScalarFromBytes(b)
		if k.Sign() == 0 {
			k.SetInt64(1)
		}
		return k, "uniform"
	}
}

// drawSecret: arbitrary bytes of length 0..512 as a Go string (crypto.BlindMessage takes a string; not necessarily UTF-8).
func drawSecret(t *rapid.T) (string, string) {
	switch rapid.IntRange(0, 9).Draw(t, "secret_kind") {
	case 0:
		return "", "empty"
	case 1:
		return string(rapid.SliceOfN(rapid.Byte(), 512, 512).Draw(t, "secret512")), "len=512"
	case 2:
		return hex.EncodeToString(rapid.SliceOfN(rapid.Byte(), 32, 32).Draw(t, "secret_hex")), "hex64"
	case 3:
		// NUT-10 shaped secret as wallets produce them
		nonce := hex.EncodeToString(rapid.SliceOfN(rapid.Byte(), 16, 16).Draw(t, "nut10_nonce"))
		data := "02" + hex.EncodeToString(rapid.SliceOfN(rapid.Byte(), 32, 32).Draw(t, "nut10_data"))
		return fmt.Sprintf(`["P2PK",{"nonce":"%s","data":"%s","tags":[["sigflag","SIG_ALL"]]}]`, nonce, data), "nut10"
	case 4, 5:
		return string(rapid.SliceOfN(rapid.Byte(), 0, 512).Draw(t, "secret_long")), "bytes<=512"
	case 6:
		return string(rapid.SliceOfN(rapid.Byte(), 1, 1).Draw(t, "secret_1")), "len=1"
	default:
		return string(rapid.SliceOfN(rapid.Byte(), 1, 64).Draw(t, "secret_short")), "bytes<=64"
	}
}

// mutateSecret changes exactly one byte (or, for the empty secret, adds one byte).
func mutateSecret(t *rapid.T, s string) string {
	if len(s) == 0 {
		return string([]byte{rapid.Byte().Draw(t, "secret_added_byte")})
	}
	b := []byte(s)
	i := rapid.IntRange(0, len(b)-1).Draw(t, "secret_mut_pos")
	b[i] ^= byte(rapid.IntRange(1, 255).Draw(t, "secret_mut_mask"))
	return string(b)
}

// ---- mint keys: keys of generated keysets (reference derivation, cached) and random scalars

var poolSeeds = func() [][]byte {
	var out [][]byte
	for i := 0; i < 3; i++ {
		h := sha256.Sum256([]byte(fmt.Sprintf("c10 keyset seed %d", i)))
		out = append(out, h[:])
	}
	return out
}()

var (
	poolMu   sync.Mutex
	poolPriv = map[[2]int]map[uint64]*big.Int{}
	poolPub  = map[[3]uint64]ref.Point{}
)

func keysetPriv(t fataler, pool, idx int) map[uint64]*big.Int {
	poolMu.Lock()
	defer poolMu.Unlock()
	if m, ok := poolPriv[[2]int{pool, idx}]; ok {
		return m
	}
	m, err := ref.MintKeys(poolSeeds[pool], uint32(idx))
	if err != nil {
		t.Fatalf("harness: reference keyset derivation failed: %v", err)
	}
	poolPriv[[2]int{pool, idx}] = m
	return m
}

func keysetPub(t fataler, pool, idx int, amount uint64) ref.Point {
	k := keysetPriv(t, pool, idx)[amount]
	poolMu.Lock()
	defer poolMu.Unlock()
	key := [3]uint64{uint64(pool), uint64(idx), amount}
	if p, ok := poolPub[key]; ok {
		return p
	}
	p := ref.BaseMul(k)
	poolPub[key] = p
	return p
}

type mintKey struct {
	k       *big.Int  // the signing key
	K       ref.Point // its public key by the reference (the PUBLISHED key)
	amount  uint64
	k2      *big.Int // another key of the same keyset
	amount2 uint64
	class   string
	desc    string
}

func drawKey(t *rapid.T) mintKey {
	if rapid.IntRange(0, 3).Draw(t, "key_kind") > 0 {
		pool := rapid.IntRange(0, len(poolSeeds)-1).Draw(t, "key_pool")
		idx := rapid.IntRange(0, 2).Draw(t, "keyset_idx")
		ai := rapid.IntRange(0, 59).Draw(t, "amount_idx")
		aj := rapid.IntRange(0, 58).Draw(t, "other_amount_idx")
		if aj >= ai {
			aj++
		}
		priv := keysetPriv(t, pool, idx)
		a, a2 := uint64(1)<<uint(ai), uint64(1)<<uint(aj)
		return mintKey{k: priv[a], K: keysetPub(t, pool, idx, a), amount: a, k2: priv[a2], amount2: a2,
			class: "keyset", desc: fmt.Sprintf("pool%d/idx%d/2^%d", pool, idx, ai)}
	}
	k, cls := drawScalar(t, "k")
	k2 := addMod(k, 1)
	if k2.Sign() == 0 {
		k2 = addMod(k, -1)
	}
	return mintKey{k: k, K: ref.BaseMul(k), amount: 1, k2: k2, amount2: 2, class: "scalar_" + cls, desc: "scalar " + cls}
}

// ---------------------------------------------------------------- (a) BDHKE

func propBDHKE(t *rapid.T) {
	secret, sclass := drawSecret(t)
	r, rclass := drawScalar(t, "r")
	r2, r2class := drawScalar(t, "r2")
	if r2.Cmp(r) == 0 {
		r2 = addMod(r, 1)
		if r2.Sign() == 0 {
			r2 = big.NewInt(1)
		}
	}
	key := drawKey(t)
	secret2 := mutateSecret(t, secret)
	rec.Eval()

	// reference side (math/big only)
	Y, _, err := ref.HashToCurve([]byte(secret))
	if err != nil {
		t.Skip("no curve point for this secret")
	}
	wantB := ref.Add(Y, ref.BaseMul(r))
	wantC_ := ref.Mul(key.k, wantB)
	wantC := ref.Mul(key.k, Y)
	if wantB.Inf || wantC_.Inf || wantC.Inf {
		t.Skip("degenerate point (needs a discrete logarithm)")
	}

	kp, k2p, rp, r2p := privOf(key.k), privOf(key.k2), privOf(r), privOf(r2)
	Kp := pubOf(t, key.K)
	ctx := fmt.Sprintf("secret=%x r=%x k=%x (%s)", secret, r, key.k, key.desc)

	B_, rr, err := crypto.BlindMessage(secret, rp)
	if err != nil {
		violate(t, "bdhke_blind_message_error", "BlindMessage failed: %v; %s", err, ctx)
		return
	}
	if rr == nil || hex.EncodeToString(rr.Serialize()) != hex32(r) {
		violate(t, "bdhke_blind_message_changes_r", "BlindMessage returned another blinding factor; %s", ctx)
	}
	if !samePt(B_, wantB) {
		violate(t, "bdhke_blinded_message_mismatch", "B_ = %s, reference H(s)+rG = %s; %s", hexPt(B_), wantB.Hex(), ctx)
	}
	C_ := crypto.SignBlindedMessage(B_, kp)
	if !samePt(C_, wantC_) {
		violate(t, "bdhke_blind_signature_mismatch", "C_ = %s, reference k*B_ = %s; %s", hexPt(C_), wantC_.Hex(), ctx)
	}
	C := crypto.UnblindSignature(C_, rp, Kp)
	if !samePt(C, wantC) {
		violate(t, "bdhke_unblinded_not_k_times_Y", "C = %s, reference k*H(s) = %s; %s", hexPt(C), wantC.Hex(), ctx)
	}

	// independent of the blinding factor
	B2, _, err := crypto.BlindMessage(secret, r2p)
	if err != nil {
		violate(t, "bdhke_blind_message_error", "BlindMessage failed: %v; r2=%x %s", err, r2, ctx)
		return
	}
	C2 := crypto.UnblindSignature(crypto.SignBlindedMessage(B2, kp), r2p, Kp)
	if !C2.IsEqual(C) || !samePt(C2, wantC) {
		violate(t, "bdhke_unblinded_depends_on_blinding_factor", "r=%x gives %s, r2=%x gives %s; %s", r, hexPt(C), r2, hexPt(C2), ctx)
	}

	// verifies under that key
	if !crypto.Verify(secret, kp, C) {
		violate(t, "bdhke_verify_rejects_genuine", "Verify(secret,k,C) false for C=%s; %s", hexPt(C), ctx)
	}
	// ... and under no other key, secret or point
	if key.k2.Cmp(key.k) == 0 {
		t.Fatalf("harness: other key equals key")
	}
	if crypto.Verify(secret, k2p, C) {
		violate(t, "bdhke_verify_accepts_other_key", "Verify accepts key %x of amount %d for a signature by %x; %s", key.k2, key.amount2, key.k, ctx)
	}
	if crypto.Verify(secret2, kp, C) {
		violate(t, "bdhke_verify_accepts_other_secret", "Verify accepts secret %x; %s", secret2, ctx)
	}
	others := []struct {
		name string
		p    ref.Point
	}{
		{"C+G", ref.Add(wantC, ref.G())},
		{"-C", ref.Neg(wantC)},
		{"C_", wantC_}, // the still blinded signature (r != 0)
		{"Y", Y},
		{"2C", ref.Double(wantC)},
	}
	for _, o := range others {
		if o.p.Inf || o.p.Equal(wantC) {
			continue // not a different point (e.g. k = 1 makes Y == C)
		}
		if crypto.Verify(secret, kp, pubOf(t, o.p)) {
			violate(t, "bdhke_verify_accepts_other_point", "Verify accepts %s = %s; %s", o.name, o.p.Hex(), ctx)
		}
		rec.Class("bdhke_other_point=" + o.name)
	}
	// a wallet that unblinds with another key of the keyset does not obtain a valid signature
	K2p := k2p.PubKey()
	Cw := crypto.UnblindSignature(C_, rp, K2p)
	if Cw.IsEqual(C) || crypto.Verify(secret, kp, Cw) {
		violate(t, "bdhke_unblind_with_other_key_verifies", "unblinding with the key of amount %d still verifies; %s", key.amount2, ctx)
	}

	rec.NonTrivial(fmt.Sprintf("bdhke|%x|%x|%x|%x", secret, r, r2, key.k))
	rec.Class("bdhke_r=" + rclass)
	rec.Class("bdhke_r2=" + r2class)
	rec.Class("bdhke_secret=" + sclass)
	rec.Class("bdhke_key=" + key.class)
	if key.class == "keyset" {
		rec.Class(fmt.Sprintf("bdhke_key_amount_bucket=2^%d..", (bitOf(key.amount)/10)*10))
	}
	if rclass != "uniform" || sclass == "empty" || sclass == "len=512" {
		rec.Sample("bdhke_edge", map[string]any{"secret_len": len(secret), "secret_class": sclass, "r": rclass, "key": key.desc, "C": hexPt(C)})
	}
}

func bitOf(a uint64) int {
	n := 0
	for a > 1 {
		a >>= 1
		n++
	}
	return n
}

func TestBDHKE(t *testing.T) { rapid.Check(t, propBDHKE) }

// ---------------------------------------------------------------- (b) DLEQ

// blindTuple is what a wallet checks on a blind signature.
type blindTuple struct {
	E, S string
	A    *secp256k1.PublicKey
	B, C string
}

// verify runs both entry points; they must agree. The second result reports a disagreement.
func (b blindTuple) verify() (ok bool, disagree bool) {
	v1 := nut12.VerifyBlindSignatureDLEQ(cashu.DLEQProof{E: b.E, S: b.S}, b.A, b.B, b.C)
	v2 := false
	eb, err1 := hex.DecodeString(b.E)
	sb, err2 := hex.DecodeString(b.S)
	Bb, err3 := hex.DecodeString(b.B)
	Cb, err4 := hex.DecodeString(b.C)
	if err1 == nil && err2 == nil && err3 == nil && err4 == nil {
		Bp, e5 := secp256k1.ParsePubKey(Bb)
		Cp, e6 := secp256k1.ParsePubKey(Cb)
		if e5 == nil && e6 == nil {
			v2 = crypto.VerifyDLEQ(secp256k1.PrivKeyFromBytes(eb), secp256k1.PrivKeyFromBytes(sb), b.A, Bp, Cp)
		}
	}
	return v1 && v2, v1 != v2
}

func (b blindTuple) String() string {
	return fmt.Sprintf("{e=%s s=%s A=%s B_=%s C_=%s}", b.E, b.S, hexPt(b.A), b.B, b.C)
}

func showDLEQ(d *cashu.DLEQProof) string {
	if d == nil {
		return "none"
	}
	return fmt.Sprintf("{e=%s s=%s r=%s}", d.E, d.S, d.R)
}

// showProof / showSig render without raw secret bytes (secrets are arbitrary bytes here).
func showProof(p cashu.Proof) string {
	return fmt.Sprintf("{amount=%d id=%s secret(hex)=%x C=%s dleq=%s}", p.Amount, p.Id, p.Secret, p.C, showDLEQ(p.DLEQ))
}

func showSig(s cashu.BlindedSignature) string {
	return fmt.Sprintf("{amount=%d id=%s C_=%s dleq=%s}", s.Amount, s.Id, s.C_, showDLEQ(s.DLEQ))
}

type namedBlind struct {
	name string
	b    blindTuple
}

func flipBitHex(t *rapid.T, x *big.Int, label string) string {
	i := rapid.IntRange(0, 255).Draw(t, label+"_bit")
	y := new(big.Int).Xor(x, new(big.Int).Lsh(one, uint(i)))
	return hex.EncodeToString(raw32(y))
}

// blindTampers returns single-field mutations of a genuine tuple. Every mutation changes the VALUE of exactly
// one field (checked), the encoding stays well-formed.
func blindTampers(t *rapid.T, g blindTuple, e, s *big.Int, A2 *secp256k1.PublicKey, A, B, C ref.Point) []namedBlind {
	var out []namedBlind
	add := func(name string, mut func(b *blindTuple)) {
		b := g
		mut(&b)
		if b.E == g.E && b.S == g.S && b.B == g.B && b.C == g.C && b.A.IsEqual(g.A) {
			return // no-op mutation
		}
		out = append(out, namedBlind{name, b})
	}
	add("e+1", func(b *blindTuple) { b.E = hex32(addMod(e, 1)) })
	add("e_bitflip", func(b *blindTuple) { b.E = flipBitHex(t, e, "e") })
	add("e_zero", func(b *blindTuple) { b.E = strings.Repeat("00", 32) })
	add("s+1", func(b *blindTuple) { b.S = hex32(addMod(s, 1)) })
	add("s_bitflip", func(b *blindTuple) { b.S = flipBitHex(t, s, "s") })
	add("s_negated", func(b *blindTuple) { b.S = hex32(negMod(s)) })
	add("s_zero", func(b *blindTuple) { b.S = strings.Repeat("00", 32) })
	add("e_s_swapped", func(b *blindTuple) { b.E, b.S = g.S, g.E })
	add("A_other_amount_key", func(b *blindTuple) { b.A = A2 })
	add("A_negated", func(b *blindTuple) { b.A = pubOf(t, ref.Neg(A)) })
	if p := ref.Add(B, ref.G()); !p.Inf {
		add("B_+G", func(b *blindTuple) { b.B = p.Hex() })
	}
	add("B_negated", func(b *blindTuple) { b.B = ref.Neg(B).Hex() })
	add("B_:=C_", func(b *blindTuple) { b.B = g.C })
	if p := ref.Add(C, ref.G()); !p.Inf {
		add("C_+G", func(b *blindTuple) { b.C = p.Hex() })
	}
	add("C_negated", func(b *blindTuple) { b.C = ref.Neg(C).Hex() })
	add("C_:=B_", func(b *blindTuple) { b.C = g.B })
	return out
}

func propDLEQ(t *rapid.T) {
	key := drawKey(t)
	arbitraryB := rapid.IntRange(0, 4).Draw(t, "B_kind") == 0
	var secret, sclass, rclass string
	var r *big.Int
	var Y, B ref.Point
	if arbitraryB {
		b, bclass := drawScalar(t, "b")
		B = ref.BaseMul(b)
		sclass, rclass = "none", "B_=bG,b="+bclass
	} else {
		secret, sclass = drawSecret(t)
		r, rclass = drawScalar(t, "r")
		var err error
		Y, _, err = ref.HashToCurve([]byte(secret))
		if err != nil {
			t.Skip("no curve point")
		}
		B = ref.Add(Y, ref.BaseMul(r))
	}
	nonce, nclass := drawScalar(t, "nonce")
	tamperBase := rapid.IntRange(0, 1).Draw(t, "tamper_base") // 0: own prover's proof, 1: reference prover's proof
	rec.Eval()
	if B.Inf {
		t.Skip("degenerate B_")
	}
	a, A := key.k, key.K
	ctx := fmt.Sprintf("a=%x (%s) B_=%s secret=%x r=%v nonce=%x", a, key.desc, B.Hex(), secret, r, nonce)

	// reference prover with the chosen nonce (also yields C_ = a*B_ by the reference)
	eR, sR, C := ref.DLEQProve(a, B, nonce)
	if C.Inf || eR.Cmp(ref.N) >= 0 {
		t.Skip("unreachable: degenerate C_ or hash value >= n")
	}
	ap, a2p := privOf(a), privOf(key.k2)
	Ap, A2p, Bp := pubOf(t, A), a2p.PubKey(), pubOf(t, B)
	if A2p.IsEqual(Ap) {
		t.Fatalf("harness: other key equals key")
	}
	Cp := crypto.SignBlindedMessage(Bp, ap)
	if !samePt(Cp, C) {
		violate(t, "bdhke_blind_signature_mismatch", "C_ = %s, reference a*B_ = %s; %s", hexPt(Cp), C.Hex(), ctx)
	}
	if !samePt(ap.PubKey(), A) {
		violate(t, "dleq_public_key_mismatch", "a.PubKey() = %s, reference aG = %s; %s", hexPt(ap.PubKey()), A.Hex(), ctx)
	}

	// completeness for chosen nonces: the implementation accepts the reference prover's proof
	refTuple := blindTuple{E: hex.EncodeToString(raw32(eR)), S: hex32(sR), A: Ap, B: B.Hex(), C: C.Hex()}
	if ok, dis := refTuple.verify(); !ok {
		violate(t, "dleq_reference_proof_rejected", "proof of the reference prover (nonce %s) rejected (entry points disagree: %v): e=%s s=%s; %s", nclass, dis, refTuple.E, refTuple.S, ctx)
	}

	// the implementation's own prover
	e, s := crypto.GenerateDLEQ(ap, Bp, Cp)
	if !crypto.VerifyDLEQ(e, s, Ap, Bp, Cp) {
		violate(t, "dleq_own_proof_rejected", "VerifyDLEQ rejects GenerateDLEQ's proof under the published key; %s", ctx)
	}
	eBig, sBig := new(big.Int).SetBytes(e.Serialize()), new(big.Int).SetBytes(s.Serialize())
	own := blindTuple{E: hex.EncodeToString(e.Serialize()), S: hex.EncodeToString(s.Serialize()), A: Ap, B: hexPt(Bp), C: hexPt(Cp)}
	if ok, dis := own.verify(); !ok {
		violate(t, "dleq_own_proof_rejected", "VerifyBlindSignatureDLEQ rejects GenerateDLEQ's proof (entry points disagree: %v): e=%s s=%s; %s", dis, own.E, own.S, ctx)
	}
	if !ref.DLEQVerify(eBig, sBig, A, B, C) {
		violate(t, "dleq_own_proof_rejected_by_reference", "reference verifier rejects GenerateDLEQ's proof e=%s s=%s; %s", own.E, own.S, ctx)
	}

	// every single-field tamper of a genuine tuple is rejected (the tuple of the implementation's prover or the
	// one of the reference prover with the chosen nonce, drawn per case: the tampers dominate the cost of a case)
	bases := []struct {
		who  string
		tup  blindTuple
		e, s *big.Int
	}{{"own", own, eBig, sBig}, {"ref", refTuple, eR, sR}}
	for _, g := range bases[tamperBase : tamperBase+1] {
		for _, tm := range blindTampers(t, g.tup, g.e, g.s, A2p, A, B, C) {
			if ok, dis := tm.b.verify(); ok || dis {
				violate(t, "dleq_tamper_accepted|"+tm.name, "blind-signature DLEQ (%s prover) still verifies after tamper %s (entry points disagree: %v): %s; %s", g.who, tm.name, dis, tm.b, ctx)
			}
			rec.Class("tamper_blind=" + tm.name)
		}
	}

	// a signature made with another key than the published one, carrying a well-formed proof for that key
	Cw := crypto.SignBlindedMessage(Bp, a2p)
	ew, sw := crypto.GenerateDLEQ(a2p, Bp, Cw)
	wrong := blindTuple{E: hex.EncodeToString(ew.Serialize()), S: hex.EncodeToString(sw.Serialize()), A: A2p, B: hexPt(Bp), C: hexPt(Cw)}
	if ok, _ := wrong.verify(); !ok {
		violate(t, "dleq_own_proof_rejected", "proof for the other key is not even valid under the other key; %s", ctx)
	}
	wrong.A = Ap
	if ok, dis := wrong.verify(); ok || dis {
		violate(t, "dleq_wrong_key_signature_accepted", "signature by key %x with its own well-formed proof verifies under published key of %x (disagree %v); %s", key.k2, a, dis, ctx)
	}
	mixed1 := own // genuine proof, signature by the other key
	mixed1.C = hexPt(Cw)
	mixed2 := wrong // proof for the other key, genuine signature
	mixed2.C = own.C
	for i, m := range []blindTuple{mixed1, mixed2} {
		if ok, dis := m.verify(); ok || dis {
			violate(t, "dleq_wrong_key_signature_accepted", "mixed tuple %d verifies under the published key (disagree %v); %s", i+1, dis, ctx)
		}
	}
	rec.Class("tamper_blind=wrong_key_wellformed_proof")

	canonical := fmt.Sprintf("dleq|%x|%s|%x|%x|%x", a, B.Hex(), nonce, secret, eBig)
	rec.NonTrivial(canonical)
	rec.Class("dleq_nonce=" + nclass)
	rec.Class("dleq_key=" + key.class)
	rec.Class("dleq_r=" + rclass)
	rec.Class("dleq_secret=" + sclass)
	if arbitraryB {
		return
	}

	// ---- the wallet-style proof (e, s, r) on the unblinded token, checked by a third party
	rp := privOf(r)
	Cun := crypto.UnblindSignature(Cp, rp, Ap)
	wantC := ref.Mul(a, Y)
	if !samePt(Cun, wantC) {
		violate(t, "bdhke_unblinded_not_k_times_Y", "C = %s, reference a*H(s) = %s; %s", hexPt(Cun), wantC.Hex(), ctx)
	}
	const keysetID = "00c10c10c10c10c1"
	keyset := crypto.WalletKeyset{Id: keysetID, PublicKeys: map[uint64]*secp256k1.PublicKey{key.amount: Ap, key.amount2: A2p}}
	mk := func(e, s string) cashu.Proof {
		return cashu.Proof{Amount: key.amount, Id: keysetID, Secret: secret, C: hexPt(Cun), DLEQ: &cashu.DLEQProof{E: e, S: s, R: hex32(r)}}
	}
	// verifyProof runs VerifyProofDLEQ under key A and VerifyProofsDLEQ with the keyset; both must agree.
	verifyProof := func(p cashu.Proof, A *secp256k1.PublicKey, ks crypto.WalletKeyset) (bool, bool) {
		v1 := nut12.VerifyProofDLEQ(p, A)
		v2 := nut12.VerifyProofsDLEQ(cashu.Proofs{p}, ks)
		return v1 && v2, v1 != v2
	}
	pbases := []struct {
		who  string
		p    cashu.Proof
		e, s *big.Int
	}{{"own", mk(own.E, own.S), eBig, sBig}, {"ref", mk(refTuple.E, refTuple.S), eR, sR}}
	for _, g := range pbases {
		if ok, dis := verifyProof(g.p, Ap, keyset); !ok {
			violate(t, "dleq_proof_with_r_rejected", "third-party verification of the wallet proof (%s prover) fails (disagree %v): %s; %s", g.who, dis, showProof(g.p), ctx)
		}
	}
	for _, g := range pbases[tamperBase : tamperBase+1] {
		type pt struct {
			name string
			p    cashu.Proof
		}
		var tampers []pt
		add := func(name string, mut func(p *cashu.Proof)) {
			p := g.p
			d := *g.p.DLEQ
			p.DLEQ = &d
			mut(&p)
			if p.Secret == g.p.Secret && p.C == g.p.C && p.Amount == g.p.Amount && *p.DLEQ == *g.p.DLEQ {
				return
			}
			tampers = append(tampers, pt{name, p})
		}
		add("e+1", func(p *cashu.Proof) { p.DLEQ.E = hex32(addMod(g.e, 1)) })
		add("e_bitflip", func(p *cashu.Proof) { p.DLEQ.E = flipBitHex(t, g.e, "pe") })
		add("s+1", func(p *cashu.Proof) { p.DLEQ.S = hex32(addMod(g.s, 1)) })
		add("s_bitflip", func(p *cashu.Proof) { p.DLEQ.S = flipBitHex(t, g.s, "ps") })
		add("r+1", func(p *cashu.Proof) {
			if x := addMod(r, 1); x.Sign() != 0 {
				p.DLEQ.R = hex32(x)
			}
		})
		add("r_bitflip", func(p *cashu.Proof) {
			i := rapid.IntRange(0, 255).Draw(t, "pr_bit")
			y := new(big.Int).Xor(r, new(big.Int).Lsh(one, uint(i)))
			if y.Mod(y, ref.N); y.Sign() != 0 && y.Cmp(r) != 0 {
				p.DLEQ.R = hex32(y)
			}
		})
		add("r_negated", func(p *cashu.Proof) { p.DLEQ.R = hex32(negMod(r)) })
		add("r_removed", func(p *cashu.Proof) { p.DLEQ.R = "" })
		if q := ref.Add(wantC, ref.G()); !q.Inf {
			add("C+G", func(p *cashu.Proof) { p.C = q.Hex() })
		}
		add("C_negated", func(p *cashu.Proof) { p.C = ref.Neg(wantC).Hex() })
		add("C:=C_", func(p *cashu.Proof) { p.C = C.Hex() })
		add("secret_one_byte", func(p *cashu.Proof) { p.Secret = mutateSecret(t, secret) })
		add("secret_byte_appended", func(p *cashu.Proof) { p.Secret = secret + "0" })
		for _, tm := range tampers {
			if tm.name == "r_removed" {
				// without r a third party cannot check the proof: VerifyProofDLEQ must say false
				if nut12.VerifyProofDLEQ(tm.p, Ap) {
					violate(t, "dleq_tamper_accepted|proof_r_removed", "proof DLEQ verifies without r; %s", ctx)
				}
			} else if ok, dis := verifyProof(tm.p, Ap, keyset); ok || dis {
				violate(t, "dleq_tamper_accepted|proof_"+tm.name, "wallet proof (%s prover) still verifies after tamper %s (disagree %v): %s; %s", g.who, tm.name, dis, showProof(tm.p), ctx)
			}
			rec.Class("tamper_proof=" + tm.name)
		}
		// public key -> another amount's key of the same keyset
		if nut12.VerifyProofDLEQ(g.p, A2p) {
			violate(t, "dleq_tamper_accepted|proof_A_other_amount_key", "wallet proof verifies under the key of amount %d; %s", key.amount2, ctx)
		}
		rec.Class("tamper_proof=A_other_amount_key")
		// amount -> another amount that exists in the keyset (VerifyProofsDLEQ looks the key up by amount)
		pa := g.p
		pa.Amount = key.amount2
		if nut12.VerifyProofsDLEQ(cashu.Proofs{pa}, keyset) {
			violate(t, "dleq_tamper_accepted|proof_amount", "proof of amount %d verifies when claimed as amount %d; %s", key.amount, key.amount2, ctx)
		}
		rec.Class("tamper_proof=amount_other")
		// amount that has no key in the keyset
		pm := g.p
		pm.Amount = key.amount | key.amount2 // two bits set: not a key of the keyset
		if nut12.VerifyProofsDLEQ(cashu.Proofs{pm}, keyset) {
			violate(t, "dleq_tamper_accepted|proof_amount", "proof claimed as amount %d (no such key) verifies; %s", pm.Amount, ctx)
		}
		rec.Class("tamper_proof=amount_without_key")
		// a tampered proof is found wherever it sits in the list
		if len(tampers) > 0 {
			tm := tampers[rapid.IntRange(0, len(tampers)-1).Draw(t, "list_tamper")]
			for _, l := range []cashu.Proofs{{g.p, tm.p}, {tm.p, g.p}, {g.p, tm.p, g.p}} {
				if nut12.VerifyProofsDLEQ(l, keyset) {
					violate(t, "dleq_tamper_accepted|proof_list", "list with a tampered proof (%s) verifies; %s", tm.name, ctx)
				}
			}
			if !nut12.VerifyProofsDLEQ(cashu.Proofs{g.p, g.p}, keyset) {
				violate(t, "dleq_proof_with_r_rejected", "list of genuine proofs rejected; %s", ctx)
			}
		}
	}
	// wrong-key signature at the proof level: unblinded with the published key, proof generated for the other key
	pw := mk(hex.EncodeToString(ew.Serialize()), hex.EncodeToString(sw.Serialize()))
	pw.C = hexPt(crypto.UnblindSignature(Cw, rp, Ap))
	if ok, dis := verifyProof(pw, Ap, keyset); ok || dis {
		violate(t, "dleq_wrong_key_signature_accepted", "token signed by key %x with well-formed proof verifies under published key (disagree %v); %s", key.k2, dis, ctx)
	}
	rec.Class("tamper_proof=wrong_key_wellformed_proof")
	if nclass != "uniform" || rclass != "uniform" {
		rec.Sample("dleq_edge", map[string]any{"key": key.desc, "nonce": nclass, "r": rclass, "secret_len": len(secret), "e": refTuple.E, "s": refTuple.S})
	}
}

func TestDLEQ(t *testing.T) { rapid.Check(t, propDLEQ) }

// ---------------------------------------------------------------- (b') encodings

// noPanic runs f and converts a panic into a violation.
func noPanic(t fataler, what string, f func() bool) (res bool) {
	defer func() {
		if p := recover(); p != nil {
			violate(t, "dleq_verify_panics", "%s panics: %v", what, p)
			res = false
		}
	}()
	return f()
}

func propDLEQEncoding(t *rapid.T) {
	k, _ := drawScalar(t, "k")
	r, rclass := drawScalar(t, "r")
	secret := string(rapid.SliceOfN(rapid.Byte(), 0, 40).Draw(t, "secret"))
	field := rapid.SampledFrom([]string{"e", "s", "r", "B_", "C_", "C"}).Draw(t, "field")
	rec.Eval()

	kp, rp := privOf(k), privOf(r)
	A := kp.PubKey()
	Bp, _, err := crypto.BlindMessage(secret, rp)
	if err != nil {
		t.Skip("no curve point")
	}
	Cp := crypto.SignBlindedMessage(Bp, kp)
	e, s := crypto.GenerateDLEQ(kp, Bp, Cp)
	E, S, R := hex.EncodeToString(e.Serialize()), hex.EncodeToString(s.Serialize()), hex32(r)
	Bh, Ch := hexPt(Bp), hexPt(Cp)
	Cun := crypto.UnblindSignature(Cp, rp, A)
	proof := cashu.Proof{Amount: 1, Id: "00c10c10c10c10c1", Secret: secret, C: hexPt(Cun), DLEQ: &cashu.DLEQProof{E: E, S: S, R: R}}
	if !nut12.VerifyBlindSignatureDLEQ(cashu.DLEQProof{E: E, S: S}, A, Bh, Ch) || !nut12.VerifyProofDLEQ(proof, A) {
		violate(t, "dleq_own_proof_rejected", "genuine proof rejected: k=%x r=%x secret=%x", k, r, secret)
		return
	}

	isScalar := field == "e" || field == "s" || field == "r"
	var kinds []string
	if isScalar {
		kinds = []string{"odd_length", "non_hex_char", "empty", "0x_prefix", "whitespace", "overlong_appended", "overlong_zero_prepended", "uppercase", "plus_n"}
	} else {
		kinds = []string{"odd_length", "non_hex_char", "empty", "x_not_on_curve", "bad_prefix", "truncated", "overlong_appended", "uncompressed", "uppercase"}
	}
	kind := rapid.SampledFrom(kinds).Draw(t, "kind")
	genuine := map[string]string{"e": E, "s": S, "r": R, "B_": Bh, "C_": Ch, "C": proof.C}[field]
	mut := genuine
	// expect: "reject" (must return false), "same" (same value in another encoding: no expectation, only no panic)
	expect := "reject"
	switch kind {
	case "odd_length":
		mut = genuine[:len(genuine)-1]
	case "non_hex_char":
		i := rapid.IntRange(0, len(genuine)-1).Draw(t, "pos")
		mut = genuine[:i] + string(rapid.SampledFrom([]byte("gGzZ -+xX.")).Draw(t, "char")) + genuine[i+1:]
	case "empty":
		mut = ""
	case "0x_prefix":
		mut = "0x" + genuine
	case "whitespace":
		mut = genuine + " "
	case "overlong_appended":
		mut = genuine + hex.EncodeToString(rapid.SliceOfN(rapid.Byte(), 1, 8).Draw(t, "extra"))
		if isScalar {
			// ParseDLEQ keeps the first 32 bytes: the scalar that is verified is unchanged, so the statement
			// ("changing e, s or r makes verification fail") does not apply; recorded as an observation only.
			expect = "same"
		}
	case "overlong_zero_prepended":
		mut = "00" + genuine // same integer, 33 bytes
		expect = "same"
	case "uppercase":
		mut = strings.ToUpper(genuine)
		expect = "same"
	case "plus_n":
		v, _ := new(big.Int).SetString(genuine, 16)
		v.Add(v, ref.N)
		if v.BitLen() > 256 {
			t.Skip("value + n does not fit 32 bytes")
		}
		mut = hex.EncodeToString(raw32(v)) // same residue mod n
		expect = "same"
	case "x_not_on_curve":
		// search an x without a point, starting from the genuine x
		raw, _ := hex.DecodeString(genuine)
		x := new(big.Int).SetBytes(raw[1:])
		for {
			x.Add(x, one)
			x.Mod(x, ref.P)
			if _, ok := ref.LiftX(x, false); !ok {
				break
			}
		}
		mut = genuine[:2] + hex.EncodeToString(raw32(x))
	case "bad_prefix":
		mut = rapid.SampledFrom([]string{"00", "01", "05", "08", "ff"}).Draw(t, "prefix") + genuine[2:]
	case "truncated":
		mut = genuine[:len(genuine)-2*rapid.IntRange(1, 32).Draw(t, "cut")]
	case "uncompressed":
		raw, _ := hex.DecodeString(genuine)
		p, _ := ref.ParseCompressed(raw)
		mut = hex.EncodeToString(p.Uncompressed())
		expect = "same"
	}
	if mut == genuine {
		t.Skip("no-op")
	}
	if kind == "empty" && field == "r" {
		expect = "reject" // no r: a third party cannot check; also covered in TestDLEQ
	}

	var got bool
	desc := fmt.Sprintf("field %s kind %s: %q (genuine %q)", field, kind, mut, genuine)
	switch field {
	case "e", "s", "B_", "C_":
		d := cashu.DLEQProof{E: E, S: S}
		b, c := Bh, Ch
		switch field {
		case "e":
			d.E = mut
		case "s":
			d.S = mut
		case "B_":
			b = mut
		case "C_":
			c = mut
		}
		got = noPanic(t, "VerifyBlindSignatureDLEQ with "+desc, func() bool { return nut12.VerifyBlindSignatureDLEQ(d, A, b, c) })
		if field == "e" || field == "s" {
			// the same e / s inside a wallet proof
			p := proof
			dd := *proof.DLEQ
			p.DLEQ = &dd
			if field == "e" {
				p.DLEQ.E = mut
			} else {
				p.DLEQ.S = mut
			}
			got2 := noPanic(t, "VerifyProofDLEQ with "+desc, func() bool { return nut12.VerifyProofDLEQ(p, A) })
			got3 := noPanic(t, "VerifyProofsDLEQ with "+desc, func() bool {
				return nut12.VerifyProofsDLEQ(cashu.Proofs{p}, crypto.WalletKeyset{PublicKeys: map[uint64]*secp256k1.PublicKey{1: A}})
			})
			got = got || got2 || got3
		}
	case "r", "C":
		p := proof
		dd := *proof.DLEQ
		p.DLEQ = &dd
		if field == "r" {
			p.DLEQ.R = mut
		} else {
			p.C = mut
		}
		got = noPanic(t, "VerifyProofDLEQ with "+desc, func() bool { return nut12.VerifyProofDLEQ(p, A) })
		got2 := noPanic(t, "VerifyProofsDLEQ with "+desc, func() bool {
			return nut12.VerifyProofsDLEQ(cashu.Proofs{p}, crypto.WalletKeyset{PublicKeys: map[uint64]*secp256k1.PublicKey{1: A}})
		})
		got = got || got2
	}
	rec.NonTrivial(fmt.Sprintf("enc|%x|%x|%x|%s|%s|%s", k, r, secret, field, kind, mut))
	rec.Class("encoding=" + kind + "/" + fieldClass(field))
	if expect == "reject" && got {
		sig := "dleq_malformed_encoding_accepted|" + kind
		violate(t, sig, "verification accepts a malformed encoding, %s; k=%x r=%x (%s) secret=%x", desc, k, r, rclass, secret)
	}
	if expect == "same" {
		rec.Class(fmt.Sprintf("encoding_same_value=%s/%s accepted=%v", kind, fieldClass(field), got))
	}
}

func fieldClass(f string) string {
	if f == "e" || f == "s" || f == "r" {
		return "scalar"
	}
	return "point"
}

func TestDLEQEncoding(t *testing.T) { rapid.Check(t, propDLEQEncoding) }

// ---------------------------------------------------------------- (c) signatures of a real mint

type issued struct {
	out       world.Out
	sig       cashu.BlindedSignature
	op        string
	persisted bool // the mint was restarted after this signature was made
}

func bigHex(s string) (*big.Int, bool) {
	b, err := hex.DecodeString(s)
	if err != nil || len(b) != 32 {
		return nil, false
	}
	return new(big.Int).SetBytes(b), true
}

// publishedKey returns the key the mint publishes for (keyset, amount).
func publishedKey(t fataler, w *world.World, id string, amount uint64) (*secp256k1.PublicKey, crypto.PublicKeys) {
	ks, err := w.Mint.GetKeysetById(id)
	if err != nil {
		violate(t, "mint_signature_names_unpublished_keyset", "signature names keyset %q which the mint does not publish: %v", id, err)
		return nil, nil
	}
	K := ks.Keys[amount]
	if K == nil {
		violate(t, "mint_signature_names_unpublished_keyset", "keyset %s publishes no key for amount %d", id, amount)
	}
	return K, ks.Keys
}

// checkIssued verifies one signature as returned by the mint: wallet path under the published key, reference path under
// the reference-derived key, and the wallet-style proof with r as a third party would check it.
func checkIssued(t fataler, w *world.World, it issued, where string) {
	sig, out := it.sig, it.out
	ctx := fmt.Sprintf("%s: op=%s B_=%s sig=%s", where, it.op, out.Msg.B_, showSig(sig))
	if sig.DLEQ == nil || sig.DLEQ.E == "" || sig.DLEQ.S == "" {
		violate(t, "mint_signature_without_dleq", "%s", ctx)
		return
	}
	if sig.DLEQ.R != "" {
		violate(t, "mint_signature_dleq_carries_r", "%s", ctx)
	}
	Kpub, allKeys := publishedKey(t, w, sig.Id, sig.Amount)
	if Kpub == nil {
		return
	}
	// wallet side (what wallet.constructProofs does)
	if !nut12.VerifyBlindSignatureDLEQ(*sig.DLEQ, Kpub, out.Msg.B_, sig.C_) {
		violate(t, "mint_dleq_rejected_under_published_key", "published key %s; %s", hexPt(Kpub), ctx)
	}
	// reference side
	ks := w.Keysets[sig.Id]
	if ks == nil {
		t.Fatalf("harness: keyset %s unknown to the world", sig.Id)
	}
	kref := ks.Priv(sig.Amount)
	Kref, ok := ks.Pub(sig.Amount)
	if kref == nil || !ok {
		violate(t, "mint_signature_names_unpublished_keyset", "amount %d has no reference key; %s", sig.Amount, ctx)
		return
	}
	Bref, err1 := ref.ParseHex(out.Msg.B_)
	Cref, err2 := ref.ParseHex(sig.C_)
	e, ok1 := bigHex(sig.DLEQ.E)
	s, ok2 := bigHex(sig.DLEQ.S)
	if err1 != nil || err2 != nil || !ok1 || !ok2 {
		violate(t, "mint_signature_malformed", "C_ / e / s not canonical (%v %v %v %v); %s", err1, err2, ok1, ok2, ctx)
		return
	}
	if !ref.DLEQVerify(e, s, Kref, Bref, Cref) {
		violate(t, "mint_dleq_rejected_by_reference", "reference key %s; %s", Kref.Hex(), ctx)
	}
	if !ref.Mul(kref, Bref).Equal(Cref) {
		violate(t, "mint_signature_not_k_times_B", "reference k*B_ = %s; %s", ref.Mul(kref, Bref).Hex(), ctx)
	}
	// the proof a wallet builds (unblinded with the published key, DLEQ with r) and hands to a third party
	C_b, _ := hex.DecodeString(sig.C_)
	C_p, err := secp256k1.ParsePubKey(C_b)
	if err != nil {
		violate(t, "mint_signature_malformed", "C_ does not parse: %v; %s", err, ctx)
		return
	}
	rPriv := secp256k1.NewPrivateKey(out.R)
	C := crypto.UnblindSignature(C_p, rPriv, Kpub)
	proof := cashu.Proof{Amount: sig.Amount, Id: sig.Id, Secret: out.Secret, C: hexPt(C),
		DLEQ: &cashu.DLEQProof{E: sig.DLEQ.E, S: sig.DLEQ.S, R: hex.EncodeToString(rPriv.Serialize())}}
	if !nut12.VerifyProofDLEQ(proof, Kpub) || !nut12.VerifyProofsDLEQ(cashu.Proofs{proof}, crypto.WalletKeyset{Id: sig.Id, PublicKeys: allKeys}) {
		violate(t, "mint_proof_dleq_rejected_by_third_party", "proof %s; %s", showProof(proof), ctx)
	}
	if !w.GenuineRef(proof) {
		violate(t, "mint_unblinded_not_k_times_Y", "unblinded C %s is not k*H(secret) by the reference; %s", proof.C, ctx)
	}
	if !crypto.Verify(out.Secret, privOf(kref), C) {
		violate(t, "bdhke_verify_rejects_genuine", "crypto.Verify rejects the unblinded mint signature; %s", ctx)
	}
}

var mintTamperKinds = []string{"e+1", "s+1", "B_+G", "C_+G", "A_other_amount", "A_other_keyset", "secret", "r+1", "amount"}

// tamperIssued applies one single-field tamper to a real mint signature; verification must fail.
func tamperIssued(t *rapid.T, w *world.World, it issued, kind string) bool {
	sig, out := it.sig, it.out
	Kpub, allKeys := publishedKey(t, w, sig.Id, sig.Amount)
	if Kpub == nil || sig.DLEQ == nil {
		return false
	}
	e, ok1 := bigHex(sig.DLEQ.E)
	s, ok2 := bigHex(sig.DLEQ.S)
	if !ok1 || !ok2 {
		return false
	}
	d := *sig.DLEQ
	b, c, A := out.Msg.B_, sig.C_, Kpub
	rPriv := secp256k1.NewPrivateKey(out.R)
	rBig := new(big.Int).SetBytes(rPriv.Serialize())
	C_b, _ := hex.DecodeString(sig.C_)
	C_p, _ := secp256k1.ParsePubKey(C_b)
	proof := cashu.Proof{Amount: sig.Amount, Id: sig.Id, Secret: out.Secret, C: hexPt(crypto.UnblindSignature(C_p, rPriv, Kpub)),
		DLEQ: &cashu.DLEQProof{E: d.E, S: d.S, R: hex.EncodeToString(rPriv.Serialize())}}
	otherAmount := uint64(1) << uint((bitOf(sig.Amount)+1+rapid.IntRange(0, 58).Draw(t, "tamper_amount"))%60)
	ctx := fmt.Sprintf("tamper %s on signature %s B_ %s secret(hex) %x", kind, showSig(sig), b, out.Secret)
	switch kind {
	case "e+1":
		d.E = hex32(addMod(e, 1))
	case "s+1":
		d.S = hex32(addMod(s, 1))
	case "B_+G":
		p, _ := ref.ParseHex(b)
		b = ref.Add(p, ref.G()).Hex()
	case "C_+G":
		p, _ := ref.ParseHex(c)
		c = ref.Add(p, ref.G()).Hex()
	case "A_other_amount":
		A = allKeys[otherAmount]
	case "A_other_keyset":
		// the same amount's key of another keyset of this mint: what "signed with a different key than the
		// published one" looks like to a wallet
		A = nil
		for _, id := range w.KSOrder {
			if id != sig.Id {
				A, _ = publishedKey(t, w, id, sig.Amount)
			}
		}
		if A == nil {
			return false
		}
	case "secret":
		proof.Secret = mutateSecret(t, out.Secret)
		if nut12.VerifyProofDLEQ(proof, Kpub) {
			violate(t, "dleq_tamper_accepted|mint_"+kind, "%s", ctx)
		}
		return true
	case "r+1":
		proof.DLEQ.R = hex32(addMod(rBig, 1))
		if nut12.VerifyProofDLEQ(proof, Kpub) {
			violate(t, "dleq_tamper_accepted|mint_"+kind, "%s", ctx)
		}
		return true
	case "amount":
		proof.Amount = otherAmount
		if nut12.VerifyProofsDLEQ(cashu.Proofs{proof}, crypto.WalletKeyset{Id: sig.Id, PublicKeys: allKeys}) {
			violate(t, "dleq_tamper_accepted|mint_"+kind, "claimed amount %d; %s", otherAmount, ctx)
		}
		return true
	}
	if A == nil || A.IsEqual(Kpub) && (kind == "A_other_amount" || kind == "A_other_keyset") {
		return false
	}
	if nut12.VerifyBlindSignatureDLEQ(d, A, b, c) {
		violate(t, "dleq_tamper_accepted|mint_"+kind, "%s", ctx)
	}
	return true
}

// checkRestore reads all signatures back through Mint.RestoreSignatures and compares them with what was returned
// when they were made.
func checkRestore(t fataler, w *world.World, items []issued, where string) {
	if len(items) == 0 {
		return
	}
	// blinded messages that were never signed - in front of, among and behind the signed ones - must not come back,
	// and must not shift which signature is paired with which output
	nevers := w.MakeOutputs([]uint64{1, 1, 1}, w.ActiveID)
	never := nevers[2]
	msgs := make(cashu.BlindedMessages, 0, len(items)+3)
	msgs = append(msgs, nevers[0].Msg)
	for i, it := range items {
		if i == (len(items)+1)/2 {
			msgs = append(msgs, nevers[1].Msg)
		}
		msgs = append(msgs, it.out.Msg)
	}
	msgs = append(msgs, never.Msg)
	outs, sigs, err := w.Restore(msgs)
	if err != nil {
		violate(t, "restore_error", "%s: RestoreSignatures failed: %v", where, err)
		return
	}
	if len(outs) != len(sigs) {
		violate(t, "restore_lengths_differ", "%s: %d outputs, %d signatures", where, len(outs), len(sigs))
		return
	}
	got := map[string]cashu.BlindedSignature{}
	for i, o := range outs {
		got[o.B_] = sigs[i]
	}
	for _, nv := range nevers {
		if _, bad := got[nv.Msg.B_]; bad {
			violate(t, "restore_returns_signature_never_made", "%s: B_ %s", where, nv.Msg.B_)
		}
	}
	for _, it := range items {
		g, ok := got[it.out.Msg.B_]
		if !ok {
			violate(t, "restored_signature_missing", "%s: signature on B_ %s (op %s, persisted=%v) not returned", where, it.out.Msg.B_, it.op, it.persisted)
			continue
		}
		field := ""
		switch {
		case g.Amount != it.sig.Amount:
			field = "amount"
		case g.Id != it.sig.Id:
			field = "id"
		case g.C_ != it.sig.C_:
			field = "C_"
		case g.DLEQ == nil:
			field = "dleq_missing"
		case g.DLEQ.E != it.sig.DLEQ.E:
			field = "e"
		case g.DLEQ.S != it.sig.DLEQ.S:
			field = "s"
		}
		if field != "" {
			violate(t, "restored_signature_differs|"+field, "%s: made %s, restored %s", where, showSig(it.sig), showSig(g))
			continue
		}
		// still verifies in the wallet path against what the (possibly restarted) mint publishes now
		Kpub, _ := publishedKey(t, w, g.Id, g.Amount)
		if Kpub != nil && !nut12.VerifyBlindSignatureDLEQ(*g.DLEQ, Kpub, it.out.Msg.B_, g.C_) {
			violate(t, "restored_dleq_rejected_under_published_key", "%s: %s", where, showSig(g))
		}
		if it.persisted {
			rec.Class("mint_signature_persisted_and_restored")
		} else {
			rec.Class("mint_signature_restored_same_process")
		}
	}
}

const maxIssued = 12

func drawFundAmount(t *rapid.T) uint64 {
	switch rapid.IntRange(0, 3).Draw(t, "fund_kind") {
	case 0:
		return uint64(1) << uint(rapid.IntRange(0, 40).Draw(t, "fund_pow"))
	case 1:
		// two keys at once; the Lightning model refuses invoices above 2^40 sat
		return uint64(1)<<uint(rapid.IntRange(0, 39).Draw(t, "fund_pow_a")) | uint64(1)<<uint(rapid.IntRange(0, 39).Draw(t, "fund_pow_b"))
	default:
		return rapid.Uint64Range(1, 15).Draw(t, "fund_small")
	}
}

func propMintSignatures(t *rapid.T) {
	cfg := world.Config{
		FeePpk:   rapid.SampledFrom([]uint{0, 100, 1000}).Draw(t, "fee_ppk"),
		SeedIdx:  rapid.IntRange(0, 2).Draw(t, "mint_seed"),
		CaseSeed: rapid.Uint64().Draw(t, "case_seed"),
	}
	w := world.New(t, cfg)
	defer w.Close()
	rec.Eval()

	var items []issued
	var trace []string
	restarts, rotations := 0, 0
	record := func(op string, outs []world.Out, sigs cashu.BlindedSignatures) {
		if len(sigs) != len(outs) {
			violate(t, "mint_signature_count", "%s: %d outputs, %d signatures", op, len(outs), len(sigs))
			return
		}
		for i := range sigs {
			it := issued{out: outs[i], sig: sigs[i], op: op}
			checkIssued(t, w, it, fmt.Sprintf("after %s", strings.Join(trace, "; ")))
			items = append(items, it)
			rec.Class(fmt.Sprintf("mint_signature_amount_bucket=2^%d..", (bitOf(sigs[i].Amount)/10)*10))
			rec.Class("mint_signature_via=" + op)
			if rotations > 0 {
				rec.Class("mint_signature_on_rotated_keyset")
			}
		}
	}
	fund := func() {
		amount := drawFundAmount(t)
		q, err := w.RequestMintQuote(amount, nil)
		if err != nil {
			t.Fatalf("harness: honest mint quote for %d refused: %v", amount, err)
		}
		w.PayInvoice(q)
		outs := w.MakeOutputs(world.Split(amount), w.ActiveID)
		sigs, err := w.MintTokens(q, outs, "")
		trace = append(trace, fmt.Sprintf("fund %d", amount))
		if err != nil {
			t.Fatalf("harness: honest mint of %d refused: %v (%s)", amount, err, strings.Join(trace, "; "))
		}
		record("mint", outs, sigs)
	}
	fund()
	steps := rapid.IntRange(1, 6).Draw(t, "steps")
	for i := 0; i < steps; i++ {
		op := rapid.SampledFrom([]string{"fund", "swap", "swap", "rotate", "restart", "restore"}).Draw(t, "op")
		if len(items) >= maxIssued && (op == "fund" || op == "swap") {
			op = "restore"
		}
		switch op {
		case "fund":
			fund()
		case "swap":
			sp := w.M.ProofsIn(world.Unspent)
			if len(sp) == 0 {
				continue
			}
			n := rapid.IntRange(1, min(3, len(sp))).Draw(t, "swap_n")
			idx := rapid.SliceOfNDistinct(rapid.IntRange(0, len(sp)-1), n, n, func(i int) int { return i }).Draw(t, "swap_idx")
			var ins world.MProofs
			var total uint64
			for _, j := range idx {
				ins = append(ins, sp[j])
				total += sp[j].P.Amount
			}
			inputs := ins.Proofs()
			fee := w.FeeFor(inputs)
			if total <= fee {
				continue
			}
			outs := w.MakeOutputs(world.Split(total-fee), w.ActiveID)
			sigs, err := w.Swap(inputs, outs)
			trace = append(trace, fmt.Sprintf("swap %d inputs (%d sat, fee %d)", len(inputs), total, fee))
			if err != nil {
				t.Fatalf("harness: honest swap refused: %v (%s)", err, strings.Join(trace, "; "))
			}
			record("swap", outs, sigs)
		case "rotate":
			if len(w.KSOrder) >= 3 {
				continue
			}
			fee := rapid.SampledFrom([]uint{0, 100, 1000}).Draw(t, "rotate_fee")
			if _, err := w.Mint.RotateKeyset(fee); err != nil {
				t.Fatalf("harness: rotate failed: %v", err)
			}
			if err := w.RefreshKeysets(); err != nil {
				t.Fatalf("harness: refresh keysets: %v", err)
			}
			rotations++
			trace = append(trace, fmt.Sprintf("rotate(fee %d)", fee))
		case "restart":
			if err := w.Restart(false, 0); err != nil {
				t.Fatalf("harness: restart failed: %v", err)
			}
			restarts++
			for i := range items {
				items[i].persisted = true
			}
			trace = append(trace, "restart")
			checkRestore(t, w, items, "after "+strings.Join(trace, "; "))
		case "restore":
			trace = append(trace, "restore")
			checkRestore(t, w, items, "after "+strings.Join(trace, "; "))
		}
	}
	// persistence: (most histories) restart once more, then read every signature back
	if rapid.IntRange(0, 3).Draw(t, "final_restart") > 0 {
		if err := w.Restart(false, 0); err != nil {
			t.Fatalf("harness: restart failed: %v", err)
		}
		restarts++
		for i := range items {
			items[i].persisted = true
		}
		trace = append(trace, "restart")
	}
	checkRestore(t, w, items, "at end of "+strings.Join(trace, "; "))

	// one single-field tamper on a real signature
	if len(items) > 0 {
		it := items[rapid.IntRange(0, len(items)-1).Draw(t, "tamper_item")]
		kind := rapid.SampledFrom(mintTamperKinds).Draw(t, "tamper_kind")
		if kind == "A_other_keyset" && len(w.KSOrder) < 2 {
			kind = "A_other_amount" // no second keyset in this history
		}
		if tamperIssued(t, w, it, kind) {
			rec.Class("tamper_mint=" + kind)
		}
	}
	// the model's book of signatures agrees with what we checked (every returned signature was looked at)
	if len(w.M.Signed) != len(items) {
		t.Fatalf("harness: model has %d signatures, check looked at %d", len(w.M.Signed), len(items))
	}
	for _, f := range w.TakeFlags() {
		if f.Prop == "C10" {
			violate(t, strings.TrimPrefix(f.Signature, "C10|"), "%s", f.Detail)
		}
	}

	var canon []string
	for _, it := range items {
		canon = append(canon, it.out.Msg.B_+it.sig.C_)
	}
	rec.NonTrivial("mint|" + strings.Join(trace, ";") + "|" + strings.Join(canon, ","))
	rec.ClassN("mint_signatures_checked", len(items))
	if restarts > 0 {
		rec.Class("history_with_restart")
	}
	if rotations > 0 {
		rec.Class("history_with_rotation")
	}
	rec.Class(fmt.Sprintf("fee_ppk=%d", cfg.FeePpk))
	rec.Sample("mint_history", map[string]any{"fee_ppk": cfg.FeePpk, "trace": trace, "signatures": len(items), "restarts": restarts, "rotations": rotations})
}

func TestMintSignatures(t *testing.T) { rapid.Check(t, propMintSignatures) }
