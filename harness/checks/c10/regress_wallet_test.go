package c10

import (
	"testing"

	"github.com/elnosh/gonuts/cashu"

	"verif/harness/lnmodel"
	"verif/harness/wenv"
)

// F25 (fixed in db14652): a token whose proofs carry DLEQ proofs and belong to a keyset the mint has rotated out was
// refused by Receive with "invalid DLEQ proof" - the proofs were checked against the active keyset's keys.
func TestRegressReceiveTokenOfRetiredKeysetWithDLEQ(t *testing.T) {
	e := wenv.New(t, 1010, []uint{100}, []lnmodel.FeeMode{lnmodel.FeeZero})
	defer e.Close()
	url := wenv.URL(e.Mints[0])
	alice, err := e.NewWallet("alice", url)
	if err != nil {
		t.Fatal(err)
	}
	bob, err := e.NewWallet("bob", url)
	if err != nil {
		t.Fatal(err)
	}
	e.Cur = "alice"
	r, err := alice.W.RequestMint(128, url)
	if err != nil {
		t.Fatal(err)
	}
	e.Net.PayExternally(e.Net.InvoiceByRequest(r.Request).Hash)
	if _, err := alice.W.MintTokens(r.Quote); err != nil {
		t.Fatal(err)
	}
	proofs, err := alice.W.Send(21, url, true)
	if err != nil {
		t.Fatal(err)
	}
	if _, err := e.Mints[0].Mint.RotateKeyset(100); err != nil {
		t.Fatal(err)
	}
	e.Mints[0].RefreshKeysets()
	tok, err := cashu.NewTokenV4(append(cashu.Proofs{}, proofs...), url, cashu.Sat, true)
	if err != nil {
		t.Fatal(err)
	}
	for _, p := range tok.Proofs() {
		if p.DLEQ == nil {
			t.Fatalf("harness: token proof without DLEQ")
		}
	}
	e.Cur = "bob"
	if _, err := bob.W.Receive(tok, false); err != nil {
		violate(t, "wallet_rejects_genuine_dleq|Receive", "token of a retired keyset with DLEQ proofs: %v", err)
	}
}
