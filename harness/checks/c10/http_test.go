package c10

import (
	"encoding/json"
	"fmt"
	"strings"
	"testing"

	"github.com/elnosh/gonuts/cashu"
	"github.com/elnosh/gonuts/cashu/nuts/nut03"
	"github.com/elnosh/gonuts/cashu/nuts/nut04"
	"pgregory.net/rapid"

	"verif/harness/httpx"
	"verif/harness/rec"
	"verif/harness/world"
)

// The same algebraic checks for what a wallet really sees: the signatures inside HTTP responses, paired with the
// outputs of the request that was answered - through retries with fresh outputs, byte-identical replays (NUT-19
// cache) and requests that differ from an earlier one only in their outputs. Whatever answers 200 with signatures
// must have signed exactly the submitted B_.
func propMintSignaturesHTTP(t *rapid.T) {
	cfg := world.Config{
		FeePpk:     rapid.SampledFrom([]uint{0, 100}).Draw(t, "fee_ppk"),
		SeedIdx:    rapid.IntRange(0, 2).Draw(t, "mint_seed"),
		CaseSeed:   rapid.Uint64().Draw(t, "case_seed"),
		WithServer: true,
	}
	w := world.New(t, cfg)
	defer w.Close()
	rec.Eval()
	var trace []string
	answered := 0
	// post sends the request and, when it is answered 200, checks every returned signature against outs
	post := func(op, path string, body any, outs []world.Out) (bool, cashu.BlindedSignatures) {
		raw, _ := json.Marshal(body)
		r := httpx.Do(w.Handler(), "POST", path, raw, "application/json")
		if r.Panic != nil {
			t.Fatalf("harness: handler panic %v", r.Panic)
		}
		trace = append(trace, fmt.Sprintf("%s -> %d", op, r.Status))
		if r.Status != 200 {
			return false, nil
		}
		var resp struct {
			Signatures cashu.BlindedSignatures `json:"signatures"`
		}
		if err := json.Unmarshal(r.Body, &resp); err != nil {
			violate(t, "http_response_not_parsable|"+op, "%v: %s", err, r.Body)
			return false, nil
		}
		if len(resp.Signatures) != len(outs) {
			violate(t, "http_signature_count|"+op, "%d outputs submitted, %d signatures returned (%s)", len(outs), len(resp.Signatures), strings.Join(trace, "; "))
			return true, nil
		}
		for i := range resp.Signatures {
			checkIssued(t, w, issued{out: outs[i], sig: resp.Signatures[i], op: op}, "http "+strings.Join(trace, "; "))
			answered++
		}
		rec.Class("http_signatures_via=" + op)
		return true, resp.Signatures
	}
	type funded struct {
		q    *world.MMintQuote
		outs []world.Out
	}
	var quotes []funded
	var proofs cashu.Proofs // unspent, as the client unblinded them
	var swaps []struct {
		inputs cashu.Proofs
		outs   []world.Out
	}
	unblind := func(outs []world.Out, sigs cashu.BlindedSignatures) {
		for i := range sigs {
			if p, err := w.Unblind(outs[i], sigs[i]); err == nil {
				proofs = append(proofs, p)
			}
		}
	}
	fund := func() {
		amount := rapid.Uint64Range(1, 600).Draw(t, "fund_amount")
		q, err := w.RequestMintQuote(amount, nil)
		if err != nil {
			t.Fatalf("harness: mint quote: %v", err)
		}
		w.PayInvoice(q)
		outs := w.MakeOutputs(world.Split(amount), w.ActiveID)
		ok, sigs := post("mint", "/v1/mint/bolt11", nut04.PostMintBolt11Request{Quote: q.ID, Outputs: world.Msgs(outs)}, outs)
		if !ok {
			t.Fatalf("harness: honest mint over HTTP refused (%s)", strings.Join(trace, "; "))
		}
		unblind(outs, sigs)
		quotes = append(quotes, funded{q, outs})
	}
	fund()
	steps := rapid.IntRange(2, 8).Draw(t, "steps")
	for i := 0; i < steps; i++ {
		switch rapid.SampledFrom([]string{"fund", "swap", "swap", "mint_again_fresh_outputs", "mint_again_fresh_outputs", "mint_replay", "swap_again_fresh_outputs", "swap_replay", "mint_other_quote_same_outputs"}).Draw(t, "op") {
		case "fund":
			fund()
		case "swap":
			if len(proofs) == 0 {
				continue
			}
			n := rapid.IntRange(1, min(3, len(proofs))).Draw(t, "swap_n")
			inputs := append(cashu.Proofs{}, proofs[:n]...)
			for i := range inputs {
				inputs[i].DLEQ = nil
			}
			fee := w.FeeFor(inputs)
			if inputs.Amount() <= fee {
				continue
			}
			outs := w.MakeOutputs(world.Split(inputs.Amount()-fee), w.ActiveID)
			ok, sigs := post("swap", "/v1/swap", nut03.PostSwapRequest{Inputs: inputs, Outputs: world.Msgs(outs)}, outs)
			if !ok {
				t.Fatalf("harness: honest swap over HTTP refused (%s)", strings.Join(trace, "; "))
			}
			proofs = proofs[n:]
			unblind(outs, sigs)
			swaps = append(swaps, struct {
				inputs cashu.Proofs
				outs   []world.Out
			}{inputs, outs})
		case "mint_again_fresh_outputs":
			// the quote is issued: a second request with other outputs is normally refused - if anything answers 200,
			// its signatures must be over the outputs of this request
			f := quotes[rapid.IntRange(0, len(quotes)-1).Draw(t, "quote")]
			outs := w.MakeOutputs(world.Split(f.q.Amount), w.ActiveID)
			if ok, _ := post("mint_again_fresh_outputs", "/v1/mint/bolt11", nut04.PostMintBolt11Request{Quote: f.q.ID, Outputs: world.Msgs(outs)}, outs); ok {
				rec.Class("http_second_mint_answered_200")
			}
		case "mint_replay":
			f := quotes[rapid.IntRange(0, len(quotes)-1).Draw(t, "quote")]
			post("mint_replay", "/v1/mint/bolt11", nut04.PostMintBolt11Request{Quote: f.q.ID, Outputs: world.Msgs(f.outs)}, f.outs)
		case "mint_other_quote_same_outputs":
			// a fresh paid quote, outputs of an earlier request of the same amount (already signed): refused, or signed for these B_
			f := quotes[rapid.IntRange(0, len(quotes)-1).Draw(t, "quote")]
			q, err := w.RequestMintQuote(f.q.Amount, nil)
			if err != nil {
				continue
			}
			w.PayInvoice(q)
			post("mint_other_quote_same_outputs", "/v1/mint/bolt11", nut04.PostMintBolt11Request{Quote: q.ID, Outputs: world.Msgs(f.outs)}, f.outs)
		case "swap_again_fresh_outputs":
			if len(swaps) == 0 {
				continue
			}
			s := swaps[rapid.IntRange(0, len(swaps)-1).Draw(t, "swap")]
			fee := w.FeeFor(s.inputs)
			outs := w.MakeOutputs(world.Split(s.inputs.Amount()-fee), w.ActiveID)
			post("swap_again_fresh_outputs", "/v1/swap", nut03.PostSwapRequest{Inputs: s.inputs, Outputs: world.Msgs(outs)}, outs)
		case "swap_replay":
			if len(swaps) == 0 {
				continue
			}
			s := swaps[rapid.IntRange(0, len(swaps)-1).Draw(t, "swap")]
			post("swap_replay", "/v1/swap", nut03.PostSwapRequest{Inputs: s.inputs, Outputs: world.Msgs(s.outs)}, s.outs)
		}
	}
	if answered > 0 {
		rec.NonTrivial(strings.Join(trace, "|"))
	}
	rec.Sample("http_history", map[string]any{"trace": trace, "signatures_checked": answered})
}

func TestMintSignaturesHTTP(t *testing.T) { rapid.Check(t, propMintSignaturesHTTP) }
