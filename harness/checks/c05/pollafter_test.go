package c05

import (
	"context"
	"fmt"
	"sync"
	"testing"
	"time"

	"github.com/elnosh/gonuts/cashu"
	"github.com/elnosh/gonuts/cashu/nuts/nut05"
	"pgregory.net/rapid"

	"verif/harness/lnmodel"
	"verif/harness/rec"
	"verif/harness/world"
)

// The other half of TestPollDuringPay: the pay call is held *after* the node has recorded the outcome of the payment
// (the answer is on its way back to the mint). Polls that run meanwhile already get the final status from the node
// and may adopt it or still say PENDING; when the melt's own call then returns, a payment that succeeded must come
// back as PAID - not as an error because somebody else has settled the inputs in the meantime - and the states must
// follow the outcome.
func propPollAfterPay(t *rapid.T) {
	adapter := rapid.SampledFrom([]string{"", "", "cln", "lnd"}).Draw(t, "adapter")
	cfg := world.Config{CaseSeed: rapid.Uint64().Draw(t, "case_seed"), FeePpk: rapid.SampledFrom([]uint{0, 100}).Draw(t, "fee"), FeeMode: lnmodel.FeePercent,
		ViaCLN: adapter == "cln", ViaLND: adapter == "lnd"}
	w := world.New(t, cfg)
	defer w.Close()
	fq, err := w.RequestMintQuote(64+32+8, nil)
	if err != nil {
		t.Fatalf("setup: %v", err)
	}
	w.PayInvoice(fq)
	if _, err := w.MintTokens(fq, w.MakeOutputs([]uint64{64, 32, 8}, w.ActiveID), ""); err != nil {
		t.Fatalf("setup: %v", err)
	}
	un := w.M.ProofsIn(world.Unspent)
	inputs := cashu.Proofs{un[0].P}
	amount := rapid.Uint64Range(1, 40).Draw(t, "amount")
	q, err := w.RequestMeltQuote(w.Net.ExternalInvoice(amount*1000).Request, 0)
	if err != nil {
		t.Fatalf("setup melt quote: %v", err)
	}
	if un[0].P.Amount < q.Amount+q.FeeReserve+w.FeeFor(inputs) {
		t.Skip("input does not cover the quote")
	}
	outcome := rapid.SampledFrom([]string{"success", "success", "failed"}).Draw(t, "pay_outcome")
	if outcome == "success" {
		w.LN.PayScript = []lnmodel.PayAnswer{lnmodel.PaySuccess}
	} else {
		w.LN.PayScript = []lnmodel.PayAnswer{lnmodel.PayFailed}
	}
	n := rapid.IntRange(1, 2).Draw(t, "polls")
	kinds := rapid.SliceOfN(rapid.SampledFrom([]string{"quote", "proofs"}), n, n).Draw(t, "poll_kinds")
	reached, release := make(chan struct{}), make(chan struct{})
	var once sync.Once
	rel := func() { once.Do(func() { close(release) }) }
	defer rel()
	held := false
	w.LN.AfterPay = func(c *lnmodel.Call) {
		if !held {
			held = true
			close(reached)
			<-release
		}
	}
	type meltRes struct {
		st  nut05.State
		pre string
		err error
	}
	done := make(chan meltRes, 1)
	go func() {
		ctx, cancel := context.WithTimeout(context.Background(), 20*time.Second)
		defer cancel()
		r, err := w.Mint.MeltTokens(ctx, nut05.PostMeltBolt11Request{Quote: q.ID, Inputs: inputs})
		done <- meltRes{r.State, r.Preimage, err}
	}()
	select {
	case <-reached:
	case r := <-done:
		rel()
		t.Fatalf("harness: melt returned before its pay call came back: %v %v", r.st, r.err)
	case <-time.After(15 * time.Second):
		rel()
		rec.Inconclusive()
		t.Skip("pay call not reached in time")
	}
	rec.Eval()
	_, y := world.Y(inputs[0].Secret)
	desc := fmt.Sprintf("adapter=%q outcome=%s fee=%d polls=%v", adapter, outcome, cfg.FeePpk, kinds)
	final := map[string][2]string{"success": {"PAID", "SPENT"}, "failed": {"UNPAID", "UNSPENT"}}[outcome]
	fail := func(sig, format string, a ...any) {
		rel()
		<-done
		w.LN.AfterPay = nil
		full := "C05|poll_after_pay|" + sig
		if rec.IsKnown(full) {
			t.Skip("known")
		}
		t.Fatalf("VIOLATION %s: %s (%s)", full, fmt.Sprintf(format, a...), desc)
	}
	for _, kind := range kinds {
		ctx, cancel := context.WithTimeout(context.Background(), 10*time.Second)
		if kind == "quote" {
			r, err := w.Mint.GetMeltQuoteState(ctx, q.ID)
			cancel()
			if err == nil && r.State != nut05.Pending && r.State.String() != final[0] {
				fail("quote_state|outcome="+outcome+"|state="+r.State.String(), "melt quote polled while the answer of the pay call is on its way: %s", r.State)
			}
		} else {
			st, err := w.Mint.ProofsStateCheck([]string{y})
			cancel()
			if err == nil && (len(st) != 1 || (st[0].State.String() != "PENDING" && st[0].State.String() != final[1])) {
				fail("input_state|outcome="+outcome, "proof state polled while the answer of the pay call is on its way: %v", st)
			}
		}
		rec.Class("poll_after_pay_" + kind)
	}
	rel()
	var r meltRes
	select {
	case r = <-done:
	case <-time.After(25 * time.Second):
		rec.Inconclusive()
		t.Skip("melt did not return in time")
	}
	w.LN.AfterPay, w.LN.PayScript = nil, nil
	if outcome == "success" && (r.err != nil || r.st != nut05.Paid) {
		sig := "C05|poll_after_pay|paid_melt_not_answered_paid"
		if !rec.IsKnown(sig) {
			t.Fatalf("VIOLATION %s: the payment succeeded, the melt answered state=%v err=%v (%s)", sig, r.st, r.err, desc)
		}
	}
	ctx, cancel := context.WithTimeout(context.Background(), 10*time.Second)
	defer cancel()
	pq, perr := w.Mint.GetMeltQuoteState(ctx, q.ID)
	st, serr := w.Mint.ProofsStateCheck([]string{y})
	if perr != nil || serr != nil || len(st) != 1 {
		t.Fatalf("VIOLATION C05|poll_after_pay|poll_failed_afterwards: %v %v (%s)", perr, serr, desc)
	}
	if pq.State.String() != final[0] || st[0].State.String() != final[1] {
		sig := fmt.Sprintf("C05|poll_after_pay|final_state|outcome=%s|quote=%s|inputs=%s", outcome, pq.State, st[0].State)
		if !rec.IsKnown(sig) {
			t.Fatalf("VIOLATION %s: melt answered state=%v err=%v; afterwards quote %s, input %s, want %v (%s)", sig, r.st, r.err, pq.State, st[0].State, final, desc)
		}
	}
	rec.NonTrivial(fmt.Sprintf("poll_after_pay|%s|%s|%v|%d", adapter, outcome, kinds, cfg.FeePpk))
	rec.Class("poll_after_pay_outcome=" + outcome)
	rec.Sample("poll_after_pay", map[string]any{"adapter": adapter, "outcome": outcome, "polls": kinds, "melt_state": r.st.String(), "melt_err": fmt.Sprint(r.err)})
}

func TestPollAfterPay(t *testing.T) { rapid.Check(t, propPollAfterPay) }
