package c05

import "context"

func ctxBg() context.Context { return context.Background() }
