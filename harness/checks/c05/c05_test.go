// C05 — melt inputs follow the Lightning outcome: spent iff paid, released iff failed.
// Exhaustive enumeration of Lightning answer scripts of length <= 4 against a reference automaton
// (validity predicate), each script executed on the real mint.
package c05

import (
	"encoding/json"
	"fmt"
	"os"
	"strconv"
	"strings"
	"testing"

	"github.com/elnosh/gonuts/cashu"
	"github.com/elnosh/gonuts/cashu/nuts/nut05"
	"github.com/elnosh/gonuts/cashu/nuts/nut07"

	"verif/harness/httpx"
	"verif/harness/lnmodel"
	"verif/harness/rec"
	"verif/harness/world"
)

func TestMain(m *testing.M) {
	code := m.Run()
	rec.Flush()
	os.Exit(code)
}

type event struct {
	Path string // "quote" = GetMeltQuoteState, "proofs" = ProofsStateCheck
	Ans  lnmodel.StatusAnswer
}

type script struct {
	Pay    lnmodel.PayAnswer
	First  lnmodel.StatusAnswer // consumed by melt's extra check (only when Pay is failed / error); StTruth = unused
	Events []event
	Tail   string // "", "swap_melt", "melt_swap"
	// ViaCLN: the mint reaches the Lightning model through the repository's Core Lightning adapter (harness/clnfacade)
	ViaCLN bool `json:"via_cln,omitempty"`
	ViaLND bool `json:"via_lnd,omitempty"`
	// ViaHTTP: the requests go through the mint's HTTP handler and the answers are read from its JSON
	ViaHTTP bool `json:"via_http,omitempty"`
	// MPP: the quote is for a part of the invoice (NUT-15): the mint pays through PayPartialAmount
	MPP bool `json:"mpp,omitempty"`
}

func (s script) String() string {
	var b strings.Builder
	fmt.Fprintf(&b, "pay=%s", s.Pay)
	if s.MPP {
		b.WriteString("(mpp)")
	}
	if s.First != lnmodel.StTruth {
		fmt.Fprintf(&b, ",melt-lookup=%s", s.First)
	}
	for _, e := range s.Events {
		fmt.Fprintf(&b, ",%s:%s", e.Path, e.Ans)
	}
	if s.Tail != "" {
		b.WriteString(",tail=" + s.Tail)
	}
	return b.String()
}

var answers = []lnmodel.StatusAnswer{lnmodel.StNotFound, lnmodel.StError, lnmodel.StFailed, lnmodel.StPending, lnmodel.StSucceeded}

// enumerate all scripts whose total number of Lightning answers is <= maxLen.
func enumerate(maxLen int) []script {
	var out []script
	var events func(prefix []event, budget int, emit func([]event))
	events = func(prefix []event, budget int, emit func([]event)) {
		emit(append([]event(nil), prefix...))
		if budget == 0 {
			return
		}
		for _, p := range []string{"quote", "proofs"} {
			for _, a := range answers {
				events(append(prefix, event{p, a}), budget-1, emit)
			}
		}
	}
	for _, pay := range []lnmodel.PayAnswer{lnmodel.PaySuccess, lnmodel.PayPending, lnmodel.PayFailed, lnmodel.PayError} {
		firsts := []lnmodel.StatusAnswer{lnmodel.StTruth}
		budget := maxLen - 1
		if pay == lnmodel.PayFailed || pay == lnmodel.PayError {
			firsts = answers
			budget = maxLen - 2
		}
		for _, f := range firsts {
			events(nil, budget, func(ev []event) {
				for _, tail := range []string{"", "swap_melt", "melt_swap"} {
					out = append(out, script{Pay: pay, First: f, Events: ev, Tail: tail})
				}
				// the same script on a partial-payment quote (another pay call of the backend interface)
				out = append(out, script{Pay: pay, First: f, Events: ev, MPP: true})
			})
		}
	}
	return out
}

// automaton state
type qstate int

const (
	U qstate = iota
	P
	D
)

func (q qstate) String() string { return [...]string{"UNPAID", "PENDING", "PAID"}[q] }

type istate int

const (
	free istate = iota
	locked
	spent
)

func (i istate) String() string {
	return [...]string{"free(UNSPENT)", "locked(PENDING)", "spent(SPENT)"}[i]
}

type st struct {
	q qstate
	i istate
}

func (s st) String() string { return "(" + s.q.String() + "," + s.i.String() + ")" }

// after a consumed status answer in (P, locked): allowed next states
func afterLookup(a lnmodel.StatusAnswer, inMelt bool) []st {
	switch a {
	case lnmodel.StSucceeded:
		return []st{{D, spent}}
	case lnmodel.StFailed:
		return []st{{U, free}}
	case lnmodel.StNotFound:
		if inMelt {
			return []st{{U, free}}
		}
		return []st{{P, locked}, {U, free}}
	default: // pending, generic error
		return []st{{P, locked}}
	}
}

type runner struct {
	viaLND  bool
	viaCLN  bool
	viaHTTP bool // melt, quote polls and state checks go through the HTTP handler
	bulk    int  // > 0: proof-state checks carry this many unrelated Ys in front
	padding []string
	t       *testing.T
	w       *world.World
	used    int
	seedNo  uint64
}

// meltResult is what the runner reads from a melt or quote answer, whichever way it travelled.
type meltResult struct {
	State    nut05.State
	Preimage string
}

func (r *runner) httpJSON(w *world.World, method, path string, body any, into any) error {
	var raw []byte
	ct := ""
	if body != nil {
		raw, _ = json.Marshal(body)
		ct = "application/json"
	}
	resp := httpx.Do(w.Handler(), method, path, raw, ct)
	if resp.Panic != nil {
		return fmt.Errorf("handler panic: %v", resp.Panic)
	}
	if resp.Status != 200 {
		return fmt.Errorf("HTTP %d %s", resp.Status, resp.Body)
	}
	return json.Unmarshal(resp.Body, into)
}

func stateOf(s string) nut05.State {
	switch s {
	case "PAID":
		return nut05.Paid
	case "PENDING":
		return nut05.Pending
	case "UNPAID":
		return nut05.Unpaid
	}
	return nut05.Unknown
}

func (r *runner) meltTokens(w *world.World, quote string, inputs cashu.Proofs) (meltResult, error) {
	if !r.viaHTTP {
		res, err := w.Mint.MeltTokens(ctxBg(), nut05.PostMeltBolt11Request{Quote: quote, Inputs: inputs})
		return meltResult{res.State, res.Preimage}, err
	}
	var doc struct {
		State    string `json:"state"`
		Preimage string `json:"payment_preimage"`
	}
	err := r.httpJSON(w, "POST", "/v1/melt/bolt11", nut05.PostMeltBolt11Request{Quote: quote, Inputs: inputs}, &doc)
	return meltResult{stateOf(doc.State), doc.Preimage}, err
}

func (r *runner) meltQuoteState(w *world.World, quote string) (meltResult, error) {
	if !r.viaHTTP {
		res, err := w.Mint.GetMeltQuoteState(ctxBg(), quote)
		return meltResult{res.State, res.Preimage}, err
	}
	var doc struct {
		State    string `json:"state"`
		Preimage string `json:"payment_preimage"`
	}
	err := r.httpJSON(w, "GET", "/v1/melt/quote/bolt11/"+quote, nil, &doc)
	return meltResult{stateOf(doc.State), doc.Preimage}, err
}

// proofStates asks for the state of ys; with r.bulk > 0 the question is part of a large state check: r.bulk Ys the
// mint has never seen stand in front of ys (a wallet checking everything it ever held), the answer for ys is the tail.
func (r *runner) proofStates(w *world.World, ys []string) ([]nut07.ProofState, error) {
	if r.bulk > 0 {
		if len(r.padding) == 0 {
			for i := 0; i < r.bulk; i++ {
				_, y := world.Y(fmt.Sprintf("c05 never seen %d", i))
				r.padding = append(r.padding, y)
			}
		}
		all := append(append([]string{}, r.padding...), ys...)
		ps, err := w.Mint.ProofsStateCheck(all)
		if err != nil || len(ps) != len(all) {
			return ps, err
		}
		return ps[len(r.padding):], nil
	}
	if !r.viaHTTP {
		return w.Mint.ProofsStateCheck(ys)
	}
	var doc nut07.PostCheckStateResponse
	err := r.httpJSON(w, "POST", "/v1/checkstate", nut07.PostCheckStateRequest{Ys: ys}, &doc)
	return doc.States, err
}

func (r *runner) world() *world.World {
	if r.w == nil || r.used >= 60 {
		if r.w != nil {
			r.w.Close()
		}
		r.seedNo++
		r.w = world.New(r.t, world.Config{CaseSeed: 5000 + r.seedNo, FeeMode: lnmodel.FeePercent, FeePpk: 100, MPP: true, ViaCLN: r.viaCLN, ViaLND: r.viaLND, WithServer: r.viaHTTP})
		r.used = 0
	}
	r.used++
	return r.w
}

func in(s st, allowed []st) bool {
	for _, a := range allowed {
		if a == s {
			return true
		}
	}
	return false
}

// observe reads quote row and proof rows through the inner storage handle.
func observe(w *world.World, q *world.MMeltQuote, ys []string) (st, string, error) {
	row, err := w.Inner().GetMeltQuote(q.ID)
	if err != nil {
		return st{}, "", err
	}
	var s st
	switch row.State {
	case nut05.Unpaid:
		s.q = U
	case nut05.Pending:
		s.q = P
	case nut05.Paid:
		s.q = D
	}
	used, _ := w.Inner().GetProofsUsed(ys)
	pend, _ := w.Inner().GetPendingProofs(ys)
	switch {
	case len(used) == len(ys) && len(pend) == 0:
		s.i = spent
	case len(pend) == len(ys) && len(used) == 0:
		s.i = locked
	case len(pend) == 0 && len(used) == 0:
		s.i = free
	default:
		return s, row.Preimage, fmt.Errorf("inputs in mixed state: %d spent, %d pending of %d", len(used), len(pend), len(ys))
	}
	return s, row.Preimage, nil
}

type violation struct {
	sig, detail string
}

// run executes one script and returns the violations found (never stops at the first).
func (r *runner) run(sc script) (viol []violation, lookups int) {
	w := r.world()
	w.TakeFlags()
	report := func(step, symptom, format string, a ...any) {
		viol = append(viol, violation{"C05|" + step + "|" + symptom, fmt.Sprintf(format, a...)})
	}
	// fresh inputs and quote
	mq, err := w.RequestMintQuote(64, nil)
	if err != nil {
		r.t.Fatalf("setup: %v", err)
	}
	w.PayInvoice(mq)
	outs := w.MakeOutputs([]uint64{32, 32}, w.ActiveID)
	if _, err := w.MintTokens(mq, outs, ""); err != nil {
		r.t.Fatalf("setup: %v", err)
	}
	p1, p2 := w.M.Proofs[outs[0].Secret], w.M.Proofs[outs[1].Secret]
	inputs := cashu.Proofs{p1.P}
	ys := []string{p1.Y}
	_ = p2
	inv := w.Net.ExternalInvoice(20_000)
	var part uint64
	if sc.MPP {
		part = 12_000
	}
	q, err := w.RequestMeltQuote(inv.Request, part)
	if err != nil {
		r.t.Fatalf("setup: %v", err)
	}
	cur := st{U, free}
	statusCalls := func() int {
		n := 0
		for _, c := range w.LN.Log() {
			if c.Method == "OutgoingPaymentStatus" && c.Hash == q.Hash {
				n++
			}
		}
		return n
	}
	check := func(step string, allowed []st, wantConsumed int, consumedBefore int) {
		got, pre, err := observe(w, q, ys)
		if err != nil {
			report(step, "inconsistent_inputs", "%v", err)
			return
		}
		if c := statusCalls() - consumedBefore; c != wantConsumed {
			report(step, fmt.Sprintf("lookups_consumed=%d_want=%d", c, wantConsumed), "script %s", sc)
		}
		if !in(got, allowed) {
			report(step, "state="+got.String()+"|allowed="+fmt.Sprint(allowed), "script %s: after %s the mint is in %s, allowed %v (before: %s)", sc, step, got, allowed, cur)
		} else if got.q == D && pre != inv.Preimage {
			report(step, "paid_without_preimage", "script %s: preimage %q want %q", sc, pre, inv.Preimage)
		}
		cur = got
	}
	melt := func(step string, pay lnmodel.PayAnswer, first lnmodel.StatusAnswer) {
		before := statusCalls()
		prev := cur
		w.LN.PayScript = []lnmodel.PayAnswer{pay}
		w.LN.StatusScript = nil
		if first != lnmodel.StTruth {
			w.LN.StatusScript = []lnmodel.StatusAnswer{first}
		}
		w.LN.ErrTruth = lnmodel.TruthNone
		res, err := r.meltTokens(w, q.ID, inputs)
		w.LN.PayScript, w.LN.StatusScript = nil, nil
		if prev.q != U || prev.i != free {
			// refused, unchanged
			if err == nil {
				report(step, "melt_accepted_in_"+prev.String(), "script %s", sc)
			}
			check(step, []st{prev}, 0, before)
			return
		}
		if err != nil {
			report(step, "melt_error", "script %s: %v", sc, err)
		}
		var allowed []st
		want := 0
		switch pay {
		case lnmodel.PaySuccess:
			allowed = []st{{D, spent}}
		case lnmodel.PayPending:
			allowed = []st{{P, locked}}
		default:
			allowed = afterLookup(first, true)
			want = 1
			lookups++
		}
		check(step, allowed, want, before)
		if err == nil {
			// the response must report the same quote state
			if (res.State == nut05.Paid) != (cur.q == D) || (res.State == nut05.Pending) != (cur.q == P) {
				report(step, "response_state_differs", "script %s: response %s, stored %s", sc, res.State, cur.q)
			}
			if cur.q == D && res.Preimage != inv.Preimage {
				report(step, "response_without_preimage", "script %s", sc)
			}
		}
	}
	step := "melt"
	melt(step, sc.Pay, sc.First)
	for i, e := range sc.Events {
		step = fmt.Sprintf("event%d:%s:%s", i, e.Path, e.Ans)
		before := statusCalls()
		prev := cur
		w.LN.StatusScript = []lnmodel.StatusAnswer{e.Ans}
		var respQ nut05.State
		var respP nut07.State
		var err error
		if e.Path == "quote" {
			var r2 any
			mqs, e2 := r.meltQuoteState(w, q.ID)
			r2, err, respQ = mqs, e2, mqs.State
			_ = r2
		} else {
			var ps []nut07.ProofState
			ps, err = r.proofStates(w, ys)
			if err == nil && len(ps) == 1 {
				respP = ps[0].State
			}
		}
		w.LN.StatusScript = nil
		if err != nil {
			report(step, "poll_error", "script %s: %v", sc, err)
		}
		if prev.q == P {
			lookups++
			check(step, afterLookup(e.Ans, false), 1, before)
		} else {
			check(step, []st{prev}, 0, before)
		}
		if err == nil {
			if e.Path == "quote" {
				if (respQ == nut05.Paid) != (cur.q == D) || (respQ == nut05.Pending) != (cur.q == P) {
					report(step, "poll_response_differs", "script %s: response %s, stored %s", sc, respQ, cur.q)
				}
			} else {
				want := map[istate]nut07.State{free: nut07.Unspent, locked: nut07.Pending, spent: nut07.Spent}[cur.i]
				if respP != want {
					report(step, "proof_state_response_differs", "script %s: response %s, stored %s", sc, respP, cur.i)
				}
			}
		}
	}
	doSwap := func(step string) {
		prev := cur
		o := w.MakeOutputs([]uint64{16, 8, 4, 2, 1}, w.ActiveID) // 31 = 32 - fee(1)
		_, err := w.Mint.Swap(inputs, world.Msgs(o))
		if prev.i == free {
			if err != nil {
				report(step, "free_inputs_not_swappable", "script %s: %v", sc, err)
				check(step, []st{prev}, 0, statusCalls())
				return
			}
			check(step, []st{{prev.q, spent}}, 0, statusCalls())
		} else {
			if err == nil {
				report(step, "swap_accepted_"+prev.i.String(), "script %s: inputs were %s", sc, prev.i)
			}
			check(step, []st{prev}, 0, statusCalls())
		}
	}
	switch sc.Tail {
	case "swap_melt":
		doSwap("tail_swap")
		if cur.i == spent && cur.q == U {
			// inputs are gone: a repeat melt must be refused (proof already used)
			before := statusCalls()
			w.LN.PayScript = []lnmodel.PayAnswer{lnmodel.PaySuccess}
			_, err := w.Mint.MeltTokens(ctxBg(), nut05.PostMeltBolt11Request{Quote: q.ID, Inputs: inputs})
			w.LN.PayScript = nil
			if err == nil {
				report("tail_melt", "melt_accepted_spent_inputs", "script %s", sc)
			}
			check("tail_melt", []st{cur}, 0, before)
		} else {
			melt("tail_melt", lnmodel.PaySuccess, lnmodel.StTruth)
		}
	case "melt_swap":
		melt("tail_melt", lnmodel.PaySuccess, lnmodel.StTruth)
		doSwap("tail_swap")
	}
	return viol, lookups
}

func TestScripts(t *testing.T) {
	maxLen := 4
	if os.Getenv("VERIF_TIER") == "thorough" {
		maxLen = 6
	}
	all := enumerate(maxLen)
	shard, _ := strconv.Atoi(os.Getenv("VERIF_SHARD"))
	n, _ := strconv.Atoi(os.Getenv("VERIF_NSHARDS"))
	if n == 0 {
		n = 1
	}
	r := &runner{t: t}
	defer func() {
		if r.w != nil {
			r.w.Close()
		}
	}()
	bad := 0
	for i, sc := range all {
		if i%n != shard {
			continue
		}
		viol, lookups := r.run(sc)
		rec.Eval()
		if lookups >= 1 {
			rec.NonTrivial(sc.String())
		}
		rec.Class(fmt.Sprintf("lookups_consumed=%d", lookups))
		rec.Class("pay=" + sc.Pay.String())
		if sc.MPP {
			rec.Class("script_on_partial_payment_quote")
		}
		if i%397 == 0 {
			rec.Sample("script", sc.String())
		}
		for _, v := range viol {
			if rec.IsKnown(v.sig) {
				continue
			}
			bad++
			rec.Violate(v.sig, v.detail, sc)
			if bad <= 5 {
				t.Errorf("VIOLATION %s: %s", v.sig, v.detail)
			}
		}
	}
	if shard == 0 {
		rec.Exhaustive(fmt.Sprintf("lightning answer scripts of length <= %d x resolution paths x follow-ups", maxLen), len(all))
	}
	if bad > 0 {
		t.Fatalf("%d violations", bad)
	}
}

// TestScriptsViaCLN: the same enumeration (one length shorter) with the repository's Core Lightning adapter between
// the mint and the Lightning model: pay / listpays answers cross as the JSON a node would send, transport errors are
// dropped connections. The reference automaton is the same - the adapter must not change what the mint concludes.
func scriptsVia(t *testing.T, adapter string) {
	maxLen := 3
	if os.Getenv("VERIF_TIER") == "thorough" {
		maxLen = 5
	}
	if adapter == "bulk" && maxLen > 4 {
		maxLen = 4 // every state check carries 640 more Ys: one length shorter keeps the tier within its time
	}
	all := enumerate(maxLen)
	shard, _ := strconv.Atoi(os.Getenv("VERIF_SHARD"))
	n, _ := strconv.Atoi(os.Getenv("VERIF_NSHARDS"))
	if n == 0 {
		n = 1
	}
	r := &runner{t: t, viaCLN: adapter == "cln", viaLND: adapter == "lnd", viaHTTP: adapter == "http"}
	if adapter == "bulk" {
		r.bulk = 640
	}
	defer func() {
		if r.w != nil {
			r.w.Close()
		}
	}()
	bad := 0
	for i, sc := range all {
		if i%n != shard {
			continue
		}
		sc.ViaCLN, sc.ViaLND, sc.ViaHTTP = adapter == "cln", adapter == "lnd", adapter == "http"
		viol, lookups := r.run(sc)
		rec.Eval()
		if lookups >= 1 {
			rec.NonTrivial("via_" + adapter + ":" + sc.String())
		}
		rec.Class("via_" + adapter + "_adapter_pay=" + sc.Pay.String())
		for _, v := range viol {
			if rec.IsKnown(v.sig) {
				continue
			}
			bad++
			v.sig += "|via_" + adapter + "_adapter"
			rec.Violate(v.sig, v.detail, sc)
			if bad <= 5 {
				t.Errorf("VIOLATION %s: %s", v.sig, v.detail)
			}
		}
	}
	if shard == 0 {
		rec.Exhaustive(fmt.Sprintf("lightning answer scripts of length <= %d through the %s adapter", maxLen, adapter), len(all))
	}
	if bad > 0 {
		t.Fatalf("%d violations", bad)
	}
}

func TestScriptsViaCLN(t *testing.T) { scriptsVia(t, "cln") }

// TestScriptsViaLND: likewise through the repository's LND adapter (payment outcomes as SendResponse / Payment messages
// and grpc status errors, a payment that stays in flight as a context deadline).
func TestScriptsViaLND(t *testing.T) { scriptsVia(t, "lnd") }

// TestScriptsViaHTTP: likewise with the melt, the quote polls and the state checks sent through the mint's HTTP
// handler and the answers read from its JSON (the handler layer must not change or withhold what the mint concludes).
func TestScriptsViaHTTP(t *testing.T) { scriptsVia(t, "http") }

// TestScriptsBulk: likewise with every proof-state check being part of a state check of 640 other Ys (in front): what
// the mint concludes about a melt's inputs must not depend on how many other Ys a request asks about.
func TestScriptsBulk(t *testing.T) { scriptsVia(t, "bulk") }

// TestReplay re-runs one saved script (VERIF_REPLAY=<case json>).
func TestReplay(t *testing.T) {
	path := os.Getenv("VERIF_REPLAY")
	if path == "" {
		t.Skip("no VERIF_REPLAY")
	}
	raw, err := os.ReadFile(path)
	if err != nil {
		t.Fatal(err)
	}
	var doc struct {
		Replay script `json:"replay"`
	}
	if err := json.Unmarshal(raw, &doc); err != nil {
		t.Fatal(err)
	}
	r := &runner{t: t, viaCLN: doc.Replay.ViaCLN, viaLND: doc.Replay.ViaLND, viaHTTP: doc.Replay.ViaHTTP}
	viol, _ := r.run(doc.Replay)
	if r.w != nil {
		r.w.Close()
	}
	for _, v := range viol {
		if !rec.IsKnown(v.sig) {
			t.Errorf("VIOLATION %s: %s", v.sig, v.detail)
		}
	}
}
