package c05

import (
	"context"
	"fmt"
	"sync"
	"testing"
	"time"

	"github.com/elnosh/gonuts/cashu"
	"github.com/elnosh/gonuts/cashu/nuts/nut05"
	"pgregory.net/rapid"

	"verif/harness/lnmodel"
	"verif/harness/rec"
	"verif/harness/world"
)

// Polls that arrive while the melt is still inside its pay call. The harness owns this one schedule: the pay call is
// held at the Lightning model (the node has not recorded any payment yet, so a status lookup finds nothing), 1..3
// polls (melt quote state, proof states) run to completion, an attempt to swap the inputs is made, then the pay call
// is released and answers success / failure / in flight. "While an outgoing payment may still succeed, the melt's
// inputs are locked": during the hold every poll must report PENDING and the swap must be refused; afterwards the
// states follow the outcome. Runs against the model directly and through both of the repository's backend adapters.
func propPollDuringPay(t *rapid.T) {
	adapter := rapid.SampledFrom([]string{"", "cln", "lnd"}).Draw(t, "adapter")
	cfg := world.Config{CaseSeed: rapid.Uint64().Draw(t, "case_seed"), FeePpk: rapid.SampledFrom([]uint{0, 100}).Draw(t, "fee"), FeeMode: lnmodel.FeePercent,
		ViaCLN: adapter == "cln", ViaLND: adapter == "lnd"}
	w := world.New(t, cfg)
	defer w.Close()
	fq, err := w.RequestMintQuote(64+32+8, nil)
	if err != nil {
		t.Fatalf("setup: %v", err)
	}
	w.PayInvoice(fq)
	if _, err := w.MintTokens(fq, w.MakeOutputs([]uint64{64, 32, 8}, w.ActiveID), ""); err != nil {
		t.Fatalf("setup: %v", err)
	}
	un := w.M.ProofsIn(world.Unspent)
	inputs := cashu.Proofs{un[0].P}
	amount := rapid.Uint64Range(1, 40).Draw(t, "amount")
	inv := w.Net.ExternalInvoice(amount * 1000)
	q, err := w.RequestMeltQuote(inv.Request, 0)
	if err != nil {
		t.Fatalf("setup melt quote: %v", err)
	}
	if un[0].P.Amount < q.Amount+q.FeeReserve+w.FeeFor(inputs) {
		t.Skip("input does not cover the quote")
	}
	outcome := rapid.SampledFrom([]string{"success", "success", "failed", "pending"}).Draw(t, "pay_outcome")
	switch outcome {
	case "success":
		w.LN.PayScript = []lnmodel.PayAnswer{lnmodel.PaySuccess}
	case "failed":
		w.LN.PayScript = []lnmodel.PayAnswer{lnmodel.PayFailed}
	case "pending":
		w.LN.PayScript = []lnmodel.PayAnswer{lnmodel.PayPending}
	}
	// every choice is drawn before the melt starts: a draw that aborts the case (shrinking) must not leave a held call
	n := rapid.IntRange(1, 3).Draw(t, "polls")
	kinds := rapid.SliceOfN(rapid.SampledFrom([]string{"quote", "proofs"}), n, n).Draw(t, "poll_kinds")
	reached, release := make(chan struct{}), make(chan struct{})
	var once sync.Once
	rel := func() { once.Do(func() { close(release) }) }
	defer rel() // runs before w.Close(): the world cannot shut down around a held call
	held := false
	w.LN.Hook = func(c *lnmodel.Call) error {
		if (c.Method == "SendPayment" || c.Method == "PayPartialAmount") && !held {
			held = true
			close(reached)
			<-release
		}
		return nil
	}
	type meltRes struct {
		q   any
		st  nut05.State
		err error
	}
	done := make(chan meltRes, 1)
	go func() {
		ctx, cancel := context.WithTimeout(context.Background(), 20*time.Second)
		defer cancel()
		r, err := w.Mint.MeltTokens(ctx, nut05.PostMeltBolt11Request{Quote: q.ID, Inputs: inputs})
		done <- meltRes{r, r.State, err}
	}()
	select {
	case <-reached:
	case r := <-done:
		rel()
		t.Fatalf("harness: melt returned before its pay call: %v %v", r.st, r.err)
	case <-time.After(15 * time.Second):
		rel()
		rec.Inconclusive()
		t.Skip("pay call not reached in time")
	}
	rec.Eval()
	_, y := world.Y(inputs[0].Secret)
	desc := fmt.Sprintf("adapter=%q outcome=%s fee=%d", adapter, outcome, cfg.FeePpk)
	fail := func(sig, format string, a ...any) {
		rel()
		<-done
		w.LN.Hook = nil
		full := "C05|poll_during_pay|" + sig
		if rec.IsKnown(full) {
			t.Skip("known")
		}
		t.Fatalf("VIOLATION %s: %s (%s)", full, fmt.Sprintf(format, a...), desc)
	}
	for _, kind := range kinds {
		ctx, cancel := context.WithTimeout(context.Background(), 10*time.Second)
		if kind == "quote" {
			r, err := w.Mint.GetMeltQuoteState(ctx, q.ID)
			cancel()
			if err == nil && r.State != nut05.Pending {
				fail("quote_not_pending|state="+r.State.String()+"|adapter="+adapter, "melt quote polled while the pay call is running: %s", r.State)
			}
		} else {
			st, err := w.Mint.ProofsStateCheck([]string{y})
			cancel()
			if err == nil && (len(st) != 1 || st[0].State.String() != "PENDING") {
				fail("inputs_not_pending|adapter="+adapter, "proof state polled while the pay call is running: %v", st)
			}
		}
		rec.Class("poll_during_pay_" + kind)
	}
	fee := w.FeeFor(inputs)
	if _, err := w.Mint.Swap(inputs, world.Msgs(w.MakeOutputs(world.Split(inputs[0].Amount-fee), w.ActiveID))); err == nil {
		fail("inputs_swapped_while_paying|adapter="+adapter, "the inputs of the melt were swapped while its pay call was running")
	}
	rel()
	var r meltRes
	select {
	case r = <-done:
	case <-time.After(25 * time.Second):
		rec.Inconclusive()
		t.Skip("melt did not return in time")
	}
	w.LN.Hook, w.LN.PayScript = nil, nil
	// afterwards: the states follow the outcome
	ctx, cancel := context.WithTimeout(context.Background(), 10*time.Second)
	defer cancel()
	pq, perr := w.Mint.GetMeltQuoteState(ctx, q.ID)
	st, serr := w.Mint.ProofsStateCheck([]string{y})
	if perr != nil || serr != nil || len(st) != 1 {
		t.Fatalf("VIOLATION C05|poll_during_pay|poll_failed_afterwards: %v %v (%s)", perr, serr, desc)
	}
	want := map[string][2]string{"success": {"PAID", "SPENT"}, "failed": {"UNPAID", "UNSPENT"}, "pending": {"PENDING", "PENDING"}}[outcome]
	if pq.State.String() != want[0] || st[0].State.String() != want[1] {
		sig := fmt.Sprintf("C05|poll_during_pay|final_state|outcome=%s|quote=%s|inputs=%s|adapter=%s", outcome, pq.State, st[0].State, adapter)
		if !rec.IsKnown(sig) {
			t.Fatalf("VIOLATION %s: melt answered state=%v err=%v; afterwards quote %s, input %s, want %v (%s)", sig, r.st, r.err, pq.State, st[0].State, want, desc)
		}
	}
	rec.NonTrivial(fmt.Sprintf("poll_during_pay|%s|%s|%d|%d", adapter, outcome, n, cfg.FeePpk))
	rec.Class("poll_during_pay_adapter=" + adapter)
	rec.Class("poll_during_pay_outcome=" + outcome)
	rec.Sample("poll_during_pay", map[string]any{"adapter": adapter, "outcome": outcome, "polls": n, "melt_state": r.st.String(), "melt_err": fmt.Sprint(r.err), "quote_after": pq.State.String(), "input_after": st[0].State.String()})
}

func TestPollDuringPay(t *testing.T) { rapid.Check(t, propPollDuringPay) }
