package c06

import (
	"encoding/json"
	"testing"

	"verif/harness/httpx"
	"verif/harness/rec"
	"verif/harness/world"
)

func setup(t *testing.T) (*world.World, *world.MMintQuote) {
	w := world.New(t, world.Config{CaseSeed: 6, WithServer: true})
	q, err := w.RequestMintQuote(8, nil)
	if err != nil {
		t.Fatal(err)
	}
	w.PayInvoice(q)
	w.PollMintQuote(q)
	return w, q
}

func report(t *testing.T, sig, format string, a ...any) {
	if rec.IsKnown(sig) {
		return
	}
	t.Fatalf("VIOLATION "+sig+": "+format, a...)
}

// {"Ys":[]}, swap / mint without outputs must not panic, and a refused mint must leave the paid quote usable.
func TestRegressEmptyLists(t *testing.T) {
	w, q := setup(t)
	defer w.Close()
	rec.Eval()
	rec.NonTrivial("regress_empty_lists")
	for _, c := range []struct{ path, body string }{
		{"/v1/checkstate", `{"Ys":[]}`},
		{"/v1/restore", `{"outputs":[]}`},
		{"/v1/swap", `{"inputs":[],"outputs":[]}`},
		{"/v1/mint/bolt11", `{"quote":"` + q.ID + `","outputs":[{"amount":16,"id":"` + w.ActiveID + `","B_":"02aa"}]}`},
	} {
		r := httpx.Do(w.Handler(), "POST", c.path, []byte(c.body), "application/json")
		if r.Panic != nil {
			report(t, "C06|panic|regress|"+c.path, "%v", r.Panic)
		}
	}
	if _, err := w.MintTokens(q, w.MakeOutputs(world.Split(8), w.ActiveID), ""); err != nil {
		report(t, "C06|paid_quote_unusable_after_rejected_mint", "%v", err)
	}
	// swap with valid inputs and an empty output list must not panic
	ins := w.M.ProofsIn(world.Unspent)[:1]
	body, _ := json.Marshal(map[string]any{"inputs": []any{proofJSON(ins[0].P)}, "outputs": []any{}})
	if r := httpx.Do(w.Handler(), "POST", "/v1/swap", body, "application/json"); r.Panic != nil {
		report(t, "C06|panic|regress|swap_empty_outputs", "%v", r.Panic)
	}
}

// two outputs with the same B_ (different amount): refused without consuming the inputs
func TestRegressDuplicateOutputByB(t *testing.T) {
	w, q := setup(t)
	defer w.Close()
	rec.Eval()
	rec.NonTrivial("regress_dup_output")
	if _, err := w.MintTokens(q, w.MakeOutputs(world.Split(8), w.ActiveID), ""); err != nil {
		t.Fatal(err)
	}
	in := w.M.ProofsIn(world.Unspent)[0]
	outs := w.MakeOutputs([]uint64{4, 2}, w.ActiveID)
	dup := outJSON(outs[0])
	dup["amount"] = uint64(2)
	body, _ := json.Marshal(map[string]any{"inputs": []any{proofJSON(in.P)}, "outputs": []any{outJSON(outs[0]), dup}})
	before := w.TakeSnapshot(nil, []string{outs[0].Msg.B_}, nil, nil)
	r := httpx.Do(w.Handler(), "POST", "/v1/swap", body, "application/json")
	after := w.TakeSnapshot(nil, []string{outs[0].Msg.B_}, nil, nil)
	if r.Status == 200 {
		t.Fatalf("duplicate B_ accepted: %s", r.Body)
	}
	if names, d := before.Diff(after); len(names) > 0 {
		report(t, "C06|state_changed_on_error|swap|semantic:dup_output_changed_amount|redeemed+spent_proofs", "%s", d)
	}
}
