package c06

import (
	"encoding/json"
	"fmt"
	"os"
	"strings"
	"testing"

	"github.com/elnosh/gonuts/cashu"

	"verif/harness/httpx"
	"verif/harness/lnmodel"
	"verif/harness/rec"
	"verif/harness/world"
)

// Coverage-guided fuzzing of request bodies (thorough tier). The fuzzer owns (endpoint, body); the body is a template:
// before it is sent, markers are replaced by resources of the mint it is sent to (@P0@..@P5@ unspent proofs as JSON,
// @S0@ a spent proof, @O0@..@O5@ fresh blinded messages, @G0@ an already signed one, @MQ@ a paid mint quote, @UQ@ an
// unpaid one, @LQ@ an open melt quote, @Y0@.. the proofs' Ys, @ID@ the active keyset id, @INV@ an invoice), so a saved
// input means the same against any fresh mint. Oracle, inside the target: no panic, and a request that is not answered
// 200 leaves proof states, quote states, stored signatures and totals as they were.

type fuzzWorld struct {
	w                    *world.World
	sub                  [][2]string
	ys, bs, mintQ, meltQ []string
	n                    int
}

var fz *fuzzWorld

type fuzzT struct{}

func (fuzzT) Fatalf(format string, a ...any) { panic("harness: " + fmt.Sprintf(format, a...)) }
func (fuzzT) Logf(format string, a ...any)   {}

func js(v any) string { b, _ := json.Marshal(v); return string(b) }

func newFuzzWorld() *fuzzWorld {
	w := world.New(fuzzT{}, world.Config{CaseSeed: 6006, FeePpk: 100, FeeMode: lnmodel.FeePercent, WithServer: true})
	f := &fuzzWorld{w: w}
	fund := func(amounts []uint64) {
		var sum uint64
		for _, a := range amounts {
			sum += a
		}
		q, err := w.RequestMintQuote(sum, nil)
		if err != nil {
			panic(err)
		}
		w.PayInvoice(q)
		if _, err := w.MintTokens(q, w.MakeOutputs(amounts, w.ActiveID), ""); err != nil {
			panic(err)
		}
	}
	fund([]uint64{64, 32, 16, 8, 4, 2, 1, 1})
	un := w.M.ProofsIn(world.Unspent)
	// one spent proof
	last := un[len(un)-1:]
	if _, err := w.Swap(last.Proofs(), w.MakeOutputs([]uint64{1}, w.ActiveID)); err != nil {
		// fee 100 ppk on one input of 1 sat leaves nothing: swap the 2 sat proof instead
		last = un[len(un)-3 : len(un)-2]
		if _, err := w.Swap(last.Proofs(), w.MakeOutputs([]uint64{1}, w.ActiveID)); err != nil {
			panic(err)
		}
	}
	add := func(k, v string) { f.sub = append(f.sub, [2]string{k, v}) }
	add("@S0@", js(proofJSON(last[0].P)))
	for i, mp := range w.M.ProofsIn(world.Unspent) {
		if i > 5 {
			break
		}
		add(fmt.Sprintf("@P%d@", i), js(proofJSON(mp.P)))
		add(fmt.Sprintf("@Y%d@", i), mp.Y)
		add(fmt.Sprintf("@C%d@", i), mp.P.C)
		add(fmt.Sprintf("@X%d@", i), mp.P.Secret)
		f.ys = append(f.ys, mp.Y)
	}
	_, ys := world.Y(last[0].P.Secret)
	f.ys = append(f.ys, ys)
	for i, o := range w.MakeOutputs([]uint64{1, 2, 4, 8, 16, 32}, w.ActiveID) {
		add(fmt.Sprintf("@O%d@", i), js(outJSON(o)))
		add(fmt.Sprintf("@B%d@", i), o.Msg.B_)
		f.bs = append(f.bs, o.Msg.B_)
	}
	for _, b := range w.M.SignedOrder {
		r := w.M.Signed[b]
		add("@G0@", js(map[string]any{"amount": r.Amount, "id": r.Keyset, "B_": b}))
		f.bs = append(f.bs, b)
		break
	}
	mq, err := w.RequestMintQuote(21, nil)
	if err != nil {
		panic(err)
	}
	w.PayInvoice(mq)
	w.PollMintQuote(mq)
	uq, err := w.RequestMintQuote(5, nil)
	if err != nil {
		panic(err)
	}
	inv := w.Net.ExternalInvoice(10 * 1000)
	lq, err := w.RequestMeltQuote(inv.Request, 0)
	if err != nil {
		panic(err)
	}
	add("@MQ@", mq.ID)
	add("@UQ@", uq.ID)
	add("@LQ@", lq.ID)
	add("@ID@", w.ActiveID)
	add("@INV@", w.Net.ExternalInvoice(7*1000).Request)
	f.mintQ, f.meltQ = []string{mq.ID, uq.ID}, []string{lq.ID}
	w.TakeFlags()
	return f
}

var fuzzPaths = []struct{ method, path string }{
	{"POST", "/v1/swap"},
	{"POST", "/v1/mint/bolt11"},
	{"POST", "/v1/melt/bolt11"},
	{"POST", "/v1/mint/quote/bolt11"},
	{"POST", "/v1/melt/quote/bolt11"},
	{"POST", "/v1/checkstate"},
	{"POST", "/v1/restore"},
	{"GET", "/v1/mint/quote/bolt11/"},
	{"GET", "/v1/melt/quote/bolt11/"},
	{"GET", "/v1/keys/"},
}

var fuzzSeeds = []struct {
	ep   byte
	body string
}{
	{0, `{"inputs":[@P0@],"outputs":[@O5@,@O4@,@O2@,@O1@]}`},
	{0, `{"inputs":[@P1@,@P2@],"outputs":[@O5@,@O3@,@O2@,@O1@]}`},
	{0, `{"inputs":[@P0@,@P0@],"outputs":[@O5@]}`},
	{0, `{"inputs":[@S0@],"outputs":[@O0@]}`},
	{0, `{"inputs":[],"outputs":[]}`},
	{0, `{"inputs":[@P3@],"outputs":[@O3@,@O3@]}`},
	{0, `{"inputs":[{"amount":8,"id":"@ID@","secret":"@X3@","C":"@C3@","witness":"{\"signatures\":[\"00\"]}"}],"outputs":[@G0@]}`},
	{0, `{"inputs":[{"amount":8,"id":"@ID@","secret":"[\"P2PK\",{\"nonce\":\"00\",\"data\":\"02aa\",\"tags\":[[\"sigflag\",\"SIG_ALL\"],[\"n_sigs\",\"2\"],[\"locktime\",\"1\"],[\"pubkeys\",\"02bb\"],[\"refund\"]]}]","C":"@C3@"}],"outputs":[@O3@]}`},
	{0, `{"inputs":[{"amount":8,"id":"@ID@","secret":"[\"HTLC\",{\"nonce\":\"00\",\"data\":\"00\",\"tags\":[]}]","C":"@C3@","witness":"{\"preimage\":\"00\",\"signatures\":[]}"}],"outputs":[@O3@]}`},
	{1, `{"quote":"@MQ@","outputs":[@O4@,@O2@,@O0@]}`},
	{1, `{"quote":"@UQ@","outputs":[@O2@,@O0@]}`},
	{1, `{"quote":"@MQ@","outputs":[@O4@,@O2@,@O0@],"signature":"00"}`},
	{1, `{"quote":"@MQ@","outputs":[]}`},
	{1, `{"quote":"@MQ@","outputs":[{"amount":21,"id":"@ID@","B_":"@B0@"}]}`},
	{2, `{"quote":"@LQ@","inputs":[@P2@]}`},
	{2, `{"quote":"@LQ@","inputs":[@P2@,@P2@]}`},
	{2, `{"quote":"@LQ@","inputs":[]}`},
	{2, `{"quote":"@MQ@","inputs":[@P0@]}`},
	{3, `{"amount":7,"unit":"sat"}`},
	{3, `{"amount":18446744073709551615,"unit":"sat"}`},
	{3, `{"amount":1e3,"unit":"sat","pubkey":"02aa"}`},
	{3, `{"amount":-1,"unit":"usd","description":"\u0000"}`},
	{4, `{"request":"@INV@","unit":"sat"}`},
	{4, `{"request":"@INV@","unit":"sat","options":{"mpp":{"amount":1000}}}`},
	{4, `{"request":"lnbc1","unit":"sat","options":{"mpp":null}}`},
	{5, `{"Ys":["@Y0@","@Y1@","@Y0@"]}`},
	{5, `{"Ys":[]}`},
	{5, `{"Ys":["02","zz",null,1]}`},
	{6, `{"outputs":[@G0@,@O0@]}`},
	{6, `{"outputs":[]}`},
	{6, `{"outputs":[{"amount":1,"id":"@ID@","B_":""}]}`},
	{7, `@MQ@`},
	{8, `@LQ@`},
	{9, `@ID@`},
	{7, `../../v1/info`},
	{0, `null`},
	{0, `[]`},
	{1, `{"quote":{"a":[[[[[[[[1]]]]]]]]},"outputs":{"0":@O0@}}`},
	{2, "{\"quote\":\"@LQ@\",\"inputs\":[@P2@]}\x00trailing"},
}

func FuzzRequests(f *testing.F) {
	if os.Getenv("VERIF_FUZZ_CORPUS") != "empty" {
		for _, s := range fuzzSeeds {
			f.Add(s.ep, s.body)
		}
	}
	f.Fuzz(func(t *testing.T, ep byte, body string) {
		if len(body) > 1<<16 {
			return
		}
		if fz == nil || fz.n > 4000 {
			if fz != nil {
				fz.w.Close()
			}
			fz = newFuzzWorld()
		}
		fz.n++
		w := fz.w
		for _, s := range fz.sub {
			if strings.Contains(body, s[0]) {
				body = strings.ReplaceAll(body, s[0], s[1])
			}
		}
		p := fuzzPaths[int(ep)%len(fuzzPaths)]
		path, raw, ct := p.path, []byte(body), "application/json"
		if p.method == "GET" {
			if strings.ContainsAny(body, " \x00\r\n\t?#%") || len(body) > 200 {
				return // not a path segment httptest can carry; request-line parsing is net/http's business
			}
			for _, c := range body {
				if c < 0x21 || c > 0x7e {
					return
				}
			}
			path, raw, ct = p.path+body, nil, ""
		}
		before := w.TakeSnapshot(fz.ys, fz.bs, fz.mintQ, fz.meltQ)
		w.LN.PayScript = []lnmodel.PayAnswer{lnmodel.PaySuccess}
		resp := httpx.Do(w.Handler(), p.method, path, raw, ct)
		w.LN.PayScript = nil
		rec.Eval()
		t.Logf("%s %s -> %d %s", p.method, path, resp.Status, trunc(string(resp.Body)))
		rec.Class("fuzz_endpoint=" + p.path)
		rec.Class(fmt.Sprintf("fuzz_status=%d", resp.Status))
		if resp.Panic != nil {
			sig := fmt.Sprintf("C06|fuzz|panic|%s|at=%s", p.path, httpx.PanicSite(resp.Stack))
			fz = nil
			if rec.IsKnown(sig) {
				return
			}
			t.Fatalf("VIOLATION %s: %v\n  %s %s body=%q\n%s", sig, resp.Panic, p.method, path, trunc(body), firstLines(resp.Stack, 30))
		}
		if resp.Status == 200 {
			if p.method == "POST" && (p.path == "/v1/swap" || p.path == "/v1/mint/bolt11" || p.path == "/v1/melt/bolt11") {
				// a request the mint accepts changes the state legitimately: the next input meets a fresh mint
				rec.Class("fuzz_request_accepted")
				rec.NonTrivial(fmt.Sprintf("accepted|%s|%d", p.path, len(body)))
				w.Close()
				fz = nil
			}
			return
		}
		rec.NonTrivial(fmt.Sprintf("%s|%d|%s", p.path, resp.Status, trunc(string(resp.Body))))
		after := w.TakeSnapshot(fz.ys, fz.bs, fz.mintQ, fz.meltQ)
		if names, d := before.Diff(after); len(names) > 0 {
			sig := fmt.Sprintf("C06|fuzz|state_changed_on_error|%s|%s", p.path, strings.Join(names, "+"))
			w.Close()
			fz = nil
			if rec.IsKnown(sig) {
				return
			}
			t.Fatalf("VIOLATION %s: answered %d %s but state changed: %s\n  %s %s body=%q", sig, resp.Status, trunc(string(resp.Body)), d, p.method, path, trunc(body))
		}
	})
}

var _ = cashu.Proof{}
