package c06

import (
	"encoding/json"
	"fmt"
	"os"
	"strconv"
	"strings"
	"testing"

	"pgregory.net/rapid"

	"verif/harness/race"
	"verif/harness/rec"
	"verif/harness/sched"
	"verif/harness/world"
)

// "A request the mint answers with an error changes nothing" under concurrency: 2..3 requests (some sharing inputs,
// some sharing outputs) interleaved at storage / Lightning call granularity. Whatever a *refused* swap or mint brought
// along must be exactly as usable afterwards as if the request had never been made - unless another request, one that
// was accepted, used it. The harness is shared with C01 (package race).

// verdictT is used for confirmation re-runs inside the verdict functions.
var verdictT world.T = panicT{}

type panicT struct{}

func (panicT) Fatalf(format string, a ...any) { panic(fmt.Sprintf(format, a...)) }
func (panicT) Logf(format string, a ...any)   {}

var schedKinds = []string{"swap", "swap", "swap", "melt", "mint", "check"}

func refusedVerdict(cs race.Case, r *race.Result) (string, string) {
	if r.SchedErr != nil {
		if race.SchedErrReproduces(verdictT, cs, r.Choices) {
			return "C06|sched|scheduler_error", r.SchedErr.Error()
		}
		rec.Inconclusive()
		return "", ""
	}
	if r.Panic != "" {
		return "C06|sched|panic|" + strings.SplitN(r.Panic, ":", 2)[0], r.Panic
	}
	if r.StatesErr != nil {
		return "C06|sched|final_checkstate_failed", r.StatesErr.Error()
	}
	accepted := r.AcceptedBy(cs)
	for i, o := range r.Outs {
		if o.Err == nil || (o.Spec.Kind != "swap" && o.Spec.Kind != "melt") {
			continue
		}
		if o.Spec.Kind == "melt" && o.Accepted {
			continue // answered with an error although the payment went out: judged by C05 / C07
		}
		for _, ix := range o.Spec.Inputs {
			if len(accepted[ix]) == 0 && r.States[ix] != "UNSPENT" {
				return fmt.Sprintf("C06|sched|refused_%s_changed_its_inputs|state=%s", o.Spec.Kind, r.States[ix]),
					fmt.Sprintf("request %d (%s) was answered with an error (%v) and no other request accepted secret #%d, yet it is reported %s; outcomes %s; schedule: %s", i, o.Spec.Kind, o.Err, ix, r.States[ix], r.FmtOutcomes(), r.Trace)
			}
		}
	}
	return "", ""
}

func recordSched(cs race.Case, r *race.Result) {
	rec.Eval()
	var ks []string
	refused := 0
	for i, q := range cs.Reqs {
		ks = append(ks, q.Kind)
		if r.Outs != nil && r.Outs[i].Err != nil {
			refused++
		}
	}
	rec.Class("sched_ops=" + strings.Join(ks, "+"))
	if refused > 0 && r.Switches >= 1 {
		rec.NonTrivial(fmt.Sprintf("sched|%v|%s|%v", cs.Reqs, cs.Pre, r.Choices))
		rec.Class("sched_with_refused_request")
	}
	for _, q := range cs.Reqs {
		if q.Outs > 0 {
			rec.Class("sched_shared_outputs")
			break
		}
	}
}

func propSchedRefused(t *rapid.T) {
	cs := race.GenCase(t, schedKinds)
	r := race.Run(t, cs, func(step int, enabled []*sched.Task, cur int) int {
		return rapid.IntRange(0, len(enabled)-1).Draw(t, "grant")
	}, nil)
	recordSched(cs, &r)
	if sig, detail := refusedVerdict(cs, &r); sig != "" && !rec.IsKnown(sig) {
		t.Fatalf("VIOLATION %s: %s", sig, detail)
	}
}

func TestSchedRefused(t *testing.T) { rapid.Check(t, propSchedRefused) }

type schedFatalT struct{ t *testing.T }

func (f schedFatalT) Fatalf(format string, a ...any) { f.t.Fatalf(format, a...) }
func (f schedFatalT) Logf(format string, a ...any)   {}

var schedEnumCases = []race.Case{
	{Reqs: []race.Req{{Kind: "swap", Inputs: []int{1}, Outs: 1}, {Kind: "swap", Inputs: []int{2}, Outs: 1}}},
	{Reqs: []race.Req{{Kind: "swap", Inputs: []int{1}, Outs: 1}, {Kind: "swap", Inputs: []int{2}, Outs: 1}, {Kind: "swap", Inputs: []int{3}, Outs: 1}}},
	{Reqs: []race.Req{{Kind: "mint", Quote: 0, Outs: 1}, {Kind: "swap", Inputs: []int{1}, Outs: 1}}},
	{Reqs: []race.Req{{Kind: "swap", Inputs: []int{0, 1}}, {Kind: "swap", Inputs: []int{0, 2}}}},
	{Reqs: []race.Req{{Kind: "swap", Inputs: []int{0, 1}}, {Kind: "melt", Inputs: []int{0, 2}, LN: "success"}}},
	{Reqs: []race.Req{{Kind: "melt", Inputs: []int{0, 1}, LN: "pending"}, {Kind: "melt", Inputs: []int{0, 2}, LN: "success"}}},
}

func TestSchedRefusedEnum(t *testing.T) {
	shard, _ := strconv.Atoi(os.Getenv("VERIF_SHARD"))
	n, _ := strconv.Atoi(os.Getenv("VERIF_NSHARDS"))
	if n == 0 {
		n = 1
	}
	bound := 2
	if os.Getenv("VERIF_TIER") == "thorough" {
		bound = 4
	}
	bad := 0
	// a bound in schedules per work unit keeps the tier inside its time; units cut off by it are counted
	race.LeafCap = 1000
	defer func() {
		if race.Truncated > 0 {
			rec.ClassN("sched_enum_work_units_cut_off_at_1000_schedules", race.Truncated)
		}
	}()
	for ci, cs := range schedEnumCases {
		cs.Seed = uint64(ci)
		for sub := 0; sub < 8; sub++ {
			// the deepest subtree of a case is the one that starts without a pre-emption (sub 0): spread those over the shards
			if (ci*9+sub)%n != shard {
				continue
			}
			fixed := []int{sub & 1, (sub >> 1) & 1, (sub >> 2) & 1}
			cnt := race.Enumerate(schedFatalT{t}, cs, bound, fixed, nil, func(r race.Result) {
				c2 := cs
				c2.Choice = r.Choices
				recordSched(c2, &r)
				if sig, detail := refusedVerdict(c2, &r); sig != "" && !rec.IsKnown(sig) {
					bad++
					rec.Violate(sig, detail, c2)
					if bad <= 3 {
						t.Errorf("VIOLATION %s: %s", sig, detail)
					}
				}
			})
			rec.ClassN(fmt.Sprintf("sched_enum_case%d", ci), cnt)
		}
	}
	if bad > 0 {
		t.Fatalf("%d violating schedules", bad)
	}
}

func TestReplay(t *testing.T) {
	path := os.Getenv("VERIF_REPLAY")
	if path == "" {
		t.Skip("no VERIF_REPLAY")
	}
	raw, err := os.ReadFile(path)
	if err != nil {
		t.Fatal(err)
	}
	var doc struct {
		Replay race.Case `json:"replay"`
	}
	if err := json.Unmarshal(raw, &doc); err != nil {
		t.Fatal(err)
	}
	cs := doc.Replay
	k := 0
	r := race.Run(schedFatalT{t}, cs, func(step int, enabled []*sched.Task, cur int) int {
		c := 0
		if k < len(cs.Choice) {
			c = cs.Choice[k]
		}
		k++
		return c
	}, nil)
	if sig, detail := refusedVerdict(cs, &r); sig != "" && !rec.IsKnown(sig) {
		t.Fatalf("VIOLATION %s: %s", sig, detail)
	}
}
