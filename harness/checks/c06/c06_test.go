// C06 — rejected or malformed requests change nothing and never crash a handler.
package c06

import (
	"context"
	"encoding/json"
	"errors"
	"fmt"
	"os"
	"sort"
	"strings"
	"testing"
	"time"

	"github.com/elnosh/gonuts/cashu"
	"github.com/elnosh/gonuts/cashu/nuts/nut04"
	"github.com/elnosh/gonuts/cashu/nuts/nut05"
	"pgregory.net/rapid"

	"verif/harness/hist"
	"verif/harness/httpx"
	"verif/harness/lnmodel"
	"verif/harness/lockgen"
	"verif/harness/rec"
	"verif/harness/world"
)

func TestMain(m *testing.M) {
	code := m.Run()
	rec.Flush()
	os.Exit(code)
}

type prober struct {
	m      *hist.Machine
	w      *world.World
	probes int
	nt     int
	// lnFailOnce: the Lightning call of this name answers the next request with an error, once
	lnFailOnce string
}

// base request with the resources it references
type base struct {
	endpoint string // label
	method   string
	path     string
	body     map[string]any
	inputs   cashu.Proofs // proofs referenced (unspent at build time)
	outs     []world.Out  // outputs referenced
	mintQ    *world.MMintQuote
	meltQ    *world.MMeltQuote
}

func proofJSON(p cashu.Proof) map[string]any {
	m := map[string]any{"amount": p.Amount, "id": p.Id, "secret": p.Secret, "C": p.C}
	if p.Witness != "" {
		m["witness"] = p.Witness
	}
	return m
}

func outJSON(o world.Out) map[string]any {
	return map[string]any{"amount": o.Amount, "id": o.Msg.Id, "B_": o.Msg.B_}
}

func (p *prober) spendable(t *rapid.T, n int) world.MProofs {
	var sp world.MProofs
	for _, mp := range p.w.M.ProofsIn(world.Unspent) {
		if !mp.Locked {
			sp = append(sp, mp)
		}
	}
	if len(sp) == 0 {
		return nil
	}
	k := rapid.IntRange(1, min(n, len(sp))).Draw(t, "probe_nin")
	start := rapid.IntRange(0, len(sp)-k).Draw(t, "probe_in_start")
	return sp[start : start+k]
}

func (p *prober) fundIfNeeded(t *rapid.T) {
	if len(p.w.M.ProofsIn(world.Unspent)) < 2 {
		q, err := p.w.RequestMintQuote(rapid.Uint64Range(20, 500).Draw(t, "probe_fund"), nil)
		if err != nil {
			t.Fatalf("setup: %v", err)
		}
		p.w.PayInvoice(q)
		if _, err := p.w.MintTokens(q, p.w.MakeOutputs(world.Split(q.Amount), p.w.ActiveID), ""); err != nil {
			t.Fatalf("setup: %v", err)
		}
	}
}

func (p *prober) build(t *rapid.T, endpoint string) *base {
	w := p.w
	switch endpoint {
	case "swap":
		p.fundIfNeeded(t)
		ins := p.spendable(t, 3)
		inputs := ins.Proofs()
		var total uint64
		for _, in := range inputs {
			total += in.Amount
		}
		fee := w.FeeFor(inputs)
		if total <= fee {
			return nil
		}
		outs := w.MakeOutputs(world.Split(total-fee), w.ActiveID)
		b := &base{endpoint: "swap", method: "POST", path: "/v1/swap", inputs: inputs, outs: outs}
		var ji, jo []any
		for _, in := range inputs {
			ji = append(ji, proofJSON(in))
		}
		for _, o := range outs {
			jo = append(jo, outJSON(o))
		}
		b.body = map[string]any{"inputs": ji, "outputs": jo}
		return b
	case "mint":
		amount := rapid.Uint64Range(1, 300).Draw(t, "probe_mint_amount")
		q, err := w.RequestMintQuote(amount, nil)
		if err != nil {
			t.Fatalf("setup: %v", err)
		}
		w.PayInvoice(q)
		w.PollMintQuote(q)
		outs := w.MakeOutputs(world.Split(amount), w.ActiveID)
		var jo []any
		for _, o := range outs {
			jo = append(jo, outJSON(o))
		}
		return &base{endpoint: "mint", method: "POST", path: "/v1/mint/bolt11", outs: outs, mintQ: q,
			body: map[string]any{"quote": q.ID, "outputs": jo}}
	case "melt":
		p.fundIfNeeded(t)
		ins := p.spendable(t, 3)
		inputs := ins.Proofs()
		var total uint64
		for _, in := range inputs {
			total += in.Amount
		}
		fee := w.FeeFor(inputs)
		if total <= fee+w.ReserveFor(total)+1 {
			return nil
		}
		amt := total - fee
		for amt+w.ReserveFor(amt)+fee > total {
			amt--
		}
		inv := w.Net.ExternalInvoice(amt * 1000)
		q, err := w.RequestMeltQuote(inv.Request, 0)
		if err != nil {
			t.Fatalf("setup: %v", err)
		}
		var ji []any
		for _, in := range inputs {
			ji = append(ji, proofJSON(in))
		}
		return &base{endpoint: "melt", method: "POST", path: "/v1/melt/bolt11", inputs: inputs, meltQ: q,
			body: map[string]any{"quote": q.ID, "inputs": ji}}
	case "mintquote":
		return &base{endpoint: "mintquote", method: "POST", path: "/v1/mint/quote/bolt11",
			body: map[string]any{"amount": rapid.Uint64Range(1, 1000).Draw(t, "probe_mq_amount"), "unit": "sat"}}
	case "meltquote":
		inv := w.Net.ExternalInvoice(rapid.Uint64Range(1, 500).Draw(t, "probe_meltq_amount") * 1000)
		return &base{endpoint: "meltquote", method: "POST", path: "/v1/melt/quote/bolt11",
			body: map[string]any{"request": inv.Request, "unit": "sat"}}
	case "checkstate":
		var ys []any
		for i, s := range w.M.Order {
			if i < 5 {
				ys = append(ys, w.M.Proofs[s].Y)
			}
		}
		_, y := world.Y("probe" + w.NewSecret())
		ys = append(ys, y)
		return &base{endpoint: "checkstate", method: "POST", path: "/v1/checkstate", body: map[string]any{"Ys": ys}}
	case "restore":
		var jo []any
		for i, b := range w.M.SignedOrder {
			if i < 4 {
				r := w.M.Signed[b]
				jo = append(jo, map[string]any{"amount": r.Amount, "id": r.Keyset, "B_": b})
			}
		}
		o := w.MakeOutputs([]uint64{1}, w.ActiveID)
		jo = append(jo, outJSON(o[0]))
		return &base{endpoint: "restore", method: "POST", path: "/v1/restore", body: map[string]any{"outputs": jo}}
	}
	return nil
}

var garbage = []any{nil, "", "zz", "abc", strings.Repeat("f", 65), strings.Repeat("A", 10240), "✓ünï ", -1, 1.5, 1e30, 18446744073709551615.0,
	true, []any{}, map[string]any{}, []any{1, "x"}, map[string]any{"a": 1}, 0, "0", "1"}

// mutate applies one structural mutation and returns its class name.
func mutate(t *rapid.T, b *base) (string, []byte, string) {
	ct := "application/json"
	kind := rapid.SampledFrom([]string{"field", "field", "field", "field", "elem_field", "elem_field", "elem_field", "empty_list", "empty_list", "body", "content_type", "path"}).Draw(t, "mut_kind")
	keys := make([]string, 0, len(b.body))
	for k := range b.body {
		keys = append(keys, k)
	}
	sort.Strings(keys)
	var lists []string
	for _, k := range keys {
		if _, ok := b.body[k].([]any); ok {
			lists = append(lists, k)
		}
	}
	switch kind {
	case "field":
		k := rapid.SampledFrom(keys).Draw(t, "mut_key")
		how := rapid.SampledFrom([]string{"drop", "garble"}).Draw(t, "mut_how")
		if how == "drop" {
			delete(b.body, k)
			raw, _ := json.Marshal(b.body)
			return "drop_field:" + k, raw, ct
		}
		g := rapid.IntRange(0, len(garbage)-1).Draw(t, "mut_garbage")
		b.body[k] = garbage[g]
		raw, _ := json.Marshal(b.body)
		return fmt.Sprintf("garble_field:%s:%T", k, garbage[g]), raw, ct
	case "elem_field":
		if len(lists) == 0 {
			return "", nil, ""
		}
		lk := rapid.SampledFrom(lists).Draw(t, "mut_list")
		l := b.body[lk].([]any)
		if len(l) == 0 {
			return "", nil, ""
		}
		idx := rapid.IntRange(0, len(l)-1).Draw(t, "mut_elem")
		em, ok := l[idx].(map[string]any)
		if !ok {
			g := rapid.IntRange(0, len(garbage)-1).Draw(t, "mut_garbage")
			l[idx] = garbage[g]
			raw, _ := json.Marshal(b.body)
			return fmt.Sprintf("garble_elem:%s:%T", lk, garbage[g]), raw, ct
		}
		eks := make([]string, 0, len(em))
		for k := range em {
			eks = append(eks, k)
		}
		sort.Strings(eks)
		ek := rapid.SampledFrom(eks).Draw(t, "mut_ekey")
		how := rapid.SampledFrom([]string{"drop", "garble", "garble"}).Draw(t, "mut_how")
		if how == "drop" {
			delete(em, ek)
			raw, _ := json.Marshal(b.body)
			return "drop_elem_field:" + lk + "." + ek, raw, ct
		}
		g := rapid.IntRange(0, len(garbage)-1).Draw(t, "mut_garbage")
		em[ek] = garbage[g]
		raw, _ := json.Marshal(b.body)
		return fmt.Sprintf("garble_elem_field:%s.%s:%T", lk, ek, garbage[g]), raw, ct
	case "empty_list":
		if len(lists) == 0 {
			return "", nil, ""
		}
		lk := rapid.SampledFrom(lists).Draw(t, "mut_list")
		b.body[lk] = []any{}
		raw, _ := json.Marshal(b.body)
		return "empty_list:" + lk, raw, ct
	case "body":
		raw, _ := json.Marshal(b.body)
		how := rapid.SampledFrom([]string{"empty", "truncated", "not_json", "array", "null", "nested_garbage"}).Draw(t, "mut_body")
		switch how {
		case "empty":
			return "body_empty", []byte{}, ct
		case "truncated":
			return "body_truncated", raw[:rapid.IntRange(1, len(raw)-1).Draw(t, "mut_trunc")], ct
		case "not_json":
			return "body_not_json", []byte("this is not json"), ct
		case "array":
			return "body_array", []byte("[1,2,3]"), ct
		case "null":
			return "body_null", []byte("null"), ct
		default:
			return "body_nested_garbage", []byte(`{"inputs":{"a":[{}]},"outputs":"x","quote":[],"Ys":{},"request":7,"unit":[],"amount":"1"}`), ct
		}
	case "content_type":
		raw, _ := json.Marshal(b.body)
		return "wrong_content_type", raw, rapid.SampledFrom([]string{"text/plain", "application/xml", "multipart/form-data; boundary=x"}).Draw(t, "mut_ct")
	case "path":
		raw, _ := json.Marshal(b.body)
		if strings.Contains(b.path, "bolt11") {
			b.path = strings.Replace(b.path, "bolt11", rapid.SampledFrom([]string{"bolt12", "onchain", "x"}).Draw(t, "mut_method"), 1)
			return "wrong_payment_method", raw, ct
		}
		return "", nil, ""
	}
	return "", nil, ""
}

// nut10Input replaces the secret of one input by a NUT-10 (P2PK / HTLC) secret - well-formed or malformed in its tags -
// for which the mint never signed anything: the request must be refused, and parsing the secret must not panic.
func nut10Input(t *rapid.T, ins []any) string {
	in := ins[rapid.IntRange(0, len(ins)-1).Draw(t, "nut10_input")].(map[string]any)
	kind := rapid.SampledFrom([]string{"P2PK", "HTLC"}).Draw(t, "nut10_kind")
	shape := rapid.SampledFrom([]string{"lockgen", "lockgen_malformed", "lockgen_malformed", "name_only_tag", "name_only_tag", "name_only_tag", "empty_tag", "tags_not_lists", "no_data", "no_tags", "tags_null", "unknown_kind", "body_not_object", "one_element"}).Draw(t, "nut10_shape")
	c := lockgen.GenConfig(t, kind)
	data := `"` + lockgen.K(lockgen.LockKey).Hex + `"`
	if kind == "HTLC" {
		data = `"` + strings.Repeat("ab", 32) + `"`
	}
	var secret string
	switch shape {
	case "lockgen":
		c.Malformed = ""
		secret = c.Secret()
	case "lockgen_malformed":
		c.Malformed = rapid.SampledFrom([]string{"bad_n_sigs", "negative_n_sigs", "huge_n_sigs", "bad_key_hex", "unknown_sigflag", "too_many_tags", "short_tag", "bad_locktime", "bad_data_key"}).Draw(t, "nut10_malformation")
		secret = c.Secret()
		shape += ":" + c.Malformed
	case "name_only_tag":
		name := rapid.SampledFrom([]string{"locktime", "n_sigs", "sigflag", "pubkeys", "refund", "unknown"}).Draw(t, "nut10_tag")
		secret = fmt.Sprintf(`["%s", {"nonce":"%s","data":%s,"tags":[["%s"]]}]`, kind, c.Nonce, data, name)
		shape += ":" + name
	case "empty_tag":
		secret = fmt.Sprintf(`["%s", {"nonce":"%s","data":%s,"tags":[[]]}]`, kind, c.Nonce, data)
	case "tags_not_lists":
		secret = fmt.Sprintf(`["%s", {"nonce":"%s","data":%s,"tags":["locktime", 1, null]}]`, kind, c.Nonce, data)
	case "no_data":
		secret = fmt.Sprintf(`["%s", {"nonce":"%s","tags":[["sigflag","SIG_ALL"]]}]`, kind, c.Nonce)
	case "no_tags":
		secret = fmt.Sprintf(`["%s", {"nonce":"%s","data":%s}]`, kind, c.Nonce, data)
	case "tags_null":
		secret = fmt.Sprintf(`["%s", {"nonce":"%s","data":%s,"tags":null}]`, kind, c.Nonce, data)
	case "unknown_kind":
		secret = fmt.Sprintf(`["P2SH", {"nonce":"%s","data":%s,"tags":[["locktime"]]}]`, c.Nonce, data)
	case "body_not_object":
		secret = fmt.Sprintf(`["%s", "%s"]`, kind, c.Nonce)
	case "one_element":
		secret = fmt.Sprintf(`["%s"]`, kind)
	}
	in["secret"] = secret
	switch rapid.IntRange(0, 3).Draw(t, "nut10_witness") {
	case 1:
		in["witness"] = `{"signatures":[]}`
	case 2:
		in["witness"] = `{"preimage":"00","signatures":["` + strings.Repeat("00", 64) + `"]}`
	case 3:
		in["witness"] = "{"
	}
	return shape
}

// semantic mutations: valid JSON, invalid meaning
func (p *prober) semantic(t *rapid.T, b *base) (string, []byte) {
	w := p.w
	switch b.endpoint {
	case "swap", "mint":
		how := rapid.SampledFrom([]string{"outputs_over_by_one", "dup_output_identical", "dup_output_changed_witness", "dup_output_changed_amount", "dup_output_other_hex_case", "unknown_keyset_output", "inactive_keyset_output", "inactive_keyset_output", "inactive_keyset_output", "non_key_amount_output", "output_not_a_point", "already_signed_output", "overflow_outputs", "spent_input", "unknown_quote", "nut10_secret_input", "nut10_secret_input", "nut10_secret_input"}).Draw(t, "sem_how")
		outs := b.body["outputs"].([]any)
		switch how {
		case "outputs_over_by_one":
			extra := w.MakeOutputs([]uint64{1}, w.ActiveID)
			b.body["outputs"] = append(outs, outJSON(extra[0]))
		case "dup_output_identical":
			b.body["outputs"] = append(outs, outs[0])
		case "dup_output_changed_witness", "dup_output_changed_amount":
			// keep the total balanced: replace the last output by a copy of the first with a changed field if amounts agree,
			// otherwise duplicate a 1-sat output pair
			first := outs[0].(map[string]any)
			cp := map[string]any{}
			for k, v := range first {
				cp[k] = v
			}
			if how == "dup_output_changed_witness" {
				cp["witness"] = "w"
			} else {
				cp["amount"] = first["amount"].(uint64) * 2
			}
			if len(outs) == 1 {
				return "", nil
			}
			// drop the last output and make room: total stays <= allowed when the duplicate is not larger than the dropped one
			last := outs[len(outs)-1].(map[string]any)
			if cp["amount"].(uint64) > last["amount"].(uint64) {
				return "", nil
			}
			b.body["outputs"] = append(append([]any{}, outs[:len(outs)-1]...), cp)
		case "dup_output_other_hex_case":
			// one blinded message twice, spelled in lower and in upper case, each for half the amount: whatever the mint
			// makes of it (two messages or one), a refusal must come before anything is written
			at := -1
			for i, o := range outs {
				om := o.(map[string]any)
				if om["amount"].(uint64) >= 2 && strings.ToUpper(om["B_"].(string)) != om["B_"].(string) {
					at = i
					break
				}
			}
			if at < 0 {
				return "", nil
			}
			lo := outs[at].(map[string]any)
			lo["amount"] = lo["amount"].(uint64) / 2
			up := map[string]any{}
			for k, v := range lo {
				up[k] = v
			}
			up["B_"] = strings.ToUpper(lo["B_"].(string))
			b.body["outputs"] = append(outs, up)
		case "unknown_keyset_output":
			outs[0].(map[string]any)["id"] = "00aabbccddeeff00"
		case "inactive_keyset_output":
			// an output (any position) names a keyset the mint knows but has rotated out: everything else is in order
			var retired []string
			for _, id := range w.KSOrder {
				if id != w.ActiveID {
					retired = append(retired, id)
				}
			}
			if len(retired) == 0 {
				return "", nil
			}
			outs[rapid.IntRange(0, len(outs)-1).Draw(t, "sem_pos")].(map[string]any)["id"] = rapid.SampledFrom(retired).Draw(t, "sem_retired")
		case "non_key_amount_output":
			if first := outs[0].(map[string]any); first["amount"].(uint64) >= 4 {
				first["amount"] = first["amount"].(uint64) - 1
			} else {
				return "", nil
			}
		case "output_not_a_point":
			outs[0].(map[string]any)["B_"] = "02" + strings.Repeat("0", 63) + "5"
		case "already_signed_output":
			if len(w.M.SignedOrder) == 0 {
				return "", nil
			}
			outs[0].(map[string]any)["B_"] = w.M.SignedOrder[rapid.IntRange(0, len(w.M.SignedOrder)-1).Draw(t, "sem_signed")]
		case "overflow_outputs":
			o := w.MakeOutputs([]uint64{1 << 63, 1 << 63}, w.ActiveID)
			b.body["outputs"] = append(outs, outJSON(o[0]), outJSON(o[1]))
		case "spent_input":
			sp := w.M.ProofsIn(world.Spent)
			if b.endpoint != "swap" || len(sp) == 0 {
				return "", nil
			}
			b.body["inputs"] = append(b.body["inputs"].([]any), proofJSON(sp[rapid.IntRange(0, len(sp)-1).Draw(t, "sem_spent")].P))
		case "unknown_quote":
			if b.endpoint != "mint" {
				return "", nil
			}
			b.body["quote"] = "nonexistent"
		case "nut10_secret_input":
			if b.endpoint != "swap" {
				return "", nil
			}
			how += ":" + nut10Input(t, b.body["inputs"].([]any))
		}
		raw, _ := json.Marshal(b.body)
		return "semantic:" + how, raw
	case "melt":
		how := rapid.SampledFrom([]string{"underfunded", "spent_input", "unknown_quote", "dup_input_changed_witness", "forged_input", "nut10_secret_input", "nut10_secret_input", "own_invoice_node_lookup_fails", "own_invoice_node_lookup_fails"}).Draw(t, "sem_how")
		ins := b.body["inputs"].([]any)
		switch how {
		case "own_invoice_node_lookup_fails":
			// a perfectly good melt of the mint's own invoice (settled internally, no payment goes out) whose one
			// Lightning call - the invoice lookup - fails: the mint answers with an error, and that must be all
			var total uint64
			for _, in := range b.inputs {
				total += in.Amount
			}
			fee := w.FeeFor(b.inputs)
			if total <= fee {
				return "", nil
			}
			mq, err := w.RequestMintQuote(total-fee, nil)
			if err != nil {
				return "", nil
			}
			q, err := w.RequestMeltQuote(mq.Request, 0)
			if err != nil {
				return "", nil
			}
			b.meltQ, b.mintQ = q, mq
			b.body["quote"] = q.ID
			p.lnFailOnce = "InvoiceStatus"
		case "nut10_secret_input":
			how += ":" + nut10Input(t, ins)
		case "underfunded":
			if len(ins) < 2 {
				return "", nil
			}
			b.body["inputs"] = ins[:len(ins)-1]
		case "spent_input":
			sp := w.M.ProofsIn(world.Spent)
			if len(sp) == 0 {
				return "", nil
			}
			b.body["inputs"] = append(ins, proofJSON(sp[rapid.IntRange(0, len(sp)-1).Draw(t, "sem_spent")].P))
		case "unknown_quote":
			b.body["quote"] = "nonexistent"
		case "dup_input_changed_witness":
			cp := map[string]any{}
			for k, v := range ins[0].(map[string]any) {
				cp[k] = v
			}
			cp["witness"] = "w"
			b.body["inputs"] = append(ins, cp)
		case "forged_input":
			ins[0].(map[string]any)["C"] = "02" + strings.Repeat("ab", 32)
		}
		raw, _ := json.Marshal(b.body)
		return "semantic:" + how, raw
	}
	return "", nil
}

func fail(m *hist.Machine, sig, format string, a ...any) {
	if rec.IsKnown(sig) {
		return
	}
	m.T.Fatalf("VIOLATION %s: %s\n  history:\n  %s", sig, fmt.Sprintf(format, a...), m.TraceString())
}

func normClass(c string) string {
	// signature class: strip Go type detail except the coarse kind
	return c
}

func (p *prober) prePoll() {
	w := p.w
	for _, q := range w.M.MintQuotes {
		if q.Reported == nut04.Unpaid && q.PaidExt {
			w.PollMintQuote(q)
		}
	}
	for _, q := range w.M.MeltQuotes {
		if q.State == nut05.Pending {
			w.PollMeltQuote(q)
		}
	}
}

func (p *prober) probe(t *rapid.T) {
	w := p.w
	p.m.T = t
	endpoint := rapid.SampledFrom([]string{"swap", "swap", "mint", "mint", "melt", "melt", "mintquote", "meltquote", "checkstate", "restore"}).Draw(t, "probe_endpoint")
	b := p.build(t, endpoint)
	if b == nil {
		return
	}
	var class string
	var raw []byte
	ct := "application/json"
	if rapid.IntRange(0, 3).Draw(t, "probe_semantic") == 0 {
		class, raw = p.semantic(t, b)
	} else {
		class, raw, ct = mutate(t, b)
	}
	if class == "" {
		return
	}
	p.prePoll()
	var extraYs, extraBs, mq, meq []string
	for _, in := range b.inputs {
		_, y := world.Y(in.Secret)
		extraYs = append(extraYs, y)
	}
	for _, o := range b.outs {
		extraBs = append(extraBs, o.Msg.B_)
	}
	if b.mintQ != nil {
		mq = append(mq, b.mintQ.ID)
	}
	if b.meltQ != nil {
		meq = append(meq, b.meltQ.ID)
	}
	before := w.TakeSnapshot(extraYs, extraBs, mq, meq)
	w.LN.PayScript = []lnmodel.PayAnswer{lnmodel.PaySuccess}
	if name := p.lnFailOnce; name != "" {
		p.lnFailOnce = ""
		fired := false
		prev := w.LN.Hook
		w.LN.Hook = func(c *lnmodel.Call) error {
			if c.Method == name && !fired {
				fired = true
				return errors.New("lnmodel: MARKER-LN-INTERNAL node unreachable")
			}
			if prev != nil {
				return prev(c)
			}
			return nil
		}
		defer func() { w.LN.Hook = prev }()
	}
	resp := httpx.Do(w.Handler(), b.method, b.path, raw, ct)
	w.LN.PayScript = nil
	p.probes++
	rec.Eval()
	rec.Class("endpoint=" + endpoint)
	rec.Class("mutation=" + strings.SplitN(class, ":", 2)[0])
	if strings.HasPrefix(class, "semantic:") {
		rec.Class("semantic=" + strings.Join(strings.SplitN(strings.TrimPrefix(class, "semantic:"), ":", 3)[:min(2, strings.Count(class, ":"))], ":"))
	}
	desc := fmt.Sprintf("%s %s [%s] body=%s", b.method, b.path, class, trunc(string(raw)))
	if resp.Panic != nil {
		sig := fmt.Sprintf("C06|panic|%s|%s|at=%s", endpoint, sigClass(class), httpx.PanicSite(resp.Stack))
		p.m.Trace = append(p.m.Trace, "probe "+desc+" -> PANIC "+fmt.Sprint(resp.Panic))
		fail(p.m, sig, "handler panicked: %v\n  request: %s\n%s", resp.Panic, desc, firstLines(resp.Stack, 30))
		// state after a panic is judged like an error answer
	}
	refPts := (b.mintQ != nil && endpoint == "mint") || len(b.inputs) > 0
	if refPts {
		p.nt++
		rec.NonTrivial(endpoint + "|" + class + "|" + fmt.Sprint(len(w.M.Order)))
	}
	p.m.Trace = append(p.m.Trace, fmt.Sprintf("probe %s -> %d %s", desc, resp.Status, trunc(string(resp.Body))))
	if resp.Status == 200 {
		p.applySuccess(t, b, raw, resp.Body, class)
		rec.Class("mutated_request_still_valid")
		return
	}
	after := w.TakeSnapshot(extraYs, extraBs, mq, meq)
	if names, d := before.Diff(after); len(names) > 0 {
		sig := fmt.Sprintf("C06|state_changed_on_error|%s|%s|%s", endpoint, sigClass(class), strings.Join(names, "+"))
		fail(p.m, sig, "request answered %d %s but state changed: %s\n  request: %s", resp.Status, trunc(string(resp.Body)), d, desc)
		// the model no longer matches: resynchronise so that the search can continue behind a known finding
		p.resync(b)
		return
	}
	rec.Sample("rejected_"+endpoint, map[string]any{"request": desc, "status": resp.Status, "body": trunc(string(resp.Body))})
	// (3) the corrected request with the same inputs / the same paid quote succeeds
	p.followUp(t, b)
}

func sigClass(c string) string {
	// keep mutation kind and field, drop the Go type suffix for garbles on the same field
	parts := strings.Split(c, ":")
	if len(parts) >= 3 {
		return parts[0] + ":" + parts[1] + ":" + parts[2]
	}
	return c
}

func firstLines(s string, n int) string {
	l := strings.Split(s, "\n")
	if len(l) > n {
		l = l[:n]
	}
	return strings.Join(l, "\n")
}

func trunc(s string) string {
	if len(s) > 300 {
		return s[:300] + fmt.Sprintf("...(%d bytes)", len(s))
	}
	return s
}

// resync re-reads what the probe touched after a state change on error.
func (p *prober) resync(b *base) {
	w := p.w
	if len(b.inputs) > 0 {
		w.ResyncProofStates(b.inputs, b.meltQ)
	}
	if b.mintQ != nil {
		if row, err := w.Inner().GetMintQuote(b.mintQ.ID); err == nil && row.State == nut04.Issued {
			b.mintQ.Issuances = max(b.mintQ.Issuances, b.mintQ.Payments())
		}
	}
	w.TakeFlags()
}

// applySuccess books a mutated request that the mint accepted (the mutation was harmless).
func (p *prober) applySuccess(t *rapid.T, b *base, raw, body []byte, class string) {
	w := p.w
	switch b.endpoint {
	case "swap", "mint":
		var req struct {
			Inputs  cashu.Proofs          `json:"inputs"`
			Outputs cashu.BlindedMessages `json:"outputs"`
		}
		var resp struct {
			Signatures cashu.BlindedSignatures `json:"signatures"`
		}
		if json.Unmarshal(raw, &req) != nil || json.Unmarshal(body, &resp) != nil {
			t.Fatalf("cannot decode accepted request/response: %s / %s", raw, body)
		}
		// map submitted outputs back to the prepared ones (by B_)
		var outs []world.Out
		byB := map[string]world.Out{}
		for _, o := range b.outs {
			byB[o.Msg.B_] = o
		}
		for _, bm := range req.Outputs {
			o, ok := byB[bm.B_]
			if !ok {
				o = world.Out{Msg: bm, Amount: bm.Amount, Keyset: bm.Id}
			}
			o.Amount = bm.Amount
			outs = append(outs, o)
		}
		if b.endpoint == "swap" {
			w.AcceptInputs("swap", req.Inputs, world.Spent, -1)
		} else if b.mintQ != nil {
			b.mintQ.Issuances++
		}
		w.RecordSignaturesKnown(b.endpoint, outs, resp.Signatures)
	case "melt":
		var req struct {
			Inputs cashu.Proofs `json:"inputs"`
		}
		json.Unmarshal(raw, &req)
		var r struct {
			State    string `json:"state"`
			Preimage string `json:"payment_preimage"`
		}
		json.Unmarshal(body, &r)
		if b.meltQ != nil {
			switch r.State {
			case "PAID":
				w.AcceptInputs("melt", req.Inputs, world.Spent, b.meltQ.Idx)
				b.meltQ.State, b.meltQ.Preimage = nut05.Paid, r.Preimage
			case "PENDING":
				w.AcceptInputs("melt", req.Inputs, world.Pending, b.meltQ.Idx)
				b.meltQ.State = nut05.Pending
			}
		}
	}
	w.TakeFlags()
}

func (p *prober) followUp(t *rapid.T, b *base) {
	w := p.w
	switch b.endpoint {
	case "swap", "melt":
		if len(b.inputs) == 0 {
			return
		}
		var total uint64
		for _, in := range b.inputs {
			total += in.Amount
		}
		fee := w.FeeFor(b.inputs)
		if total <= fee {
			return
		}
		if _, err := w.Swap(b.inputs, w.MakeOutputs(world.Split(total-fee), w.ActiveID)); err != nil {
			fail(p.m, "C06|inputs_unusable_after_rejected_"+b.endpoint, "honest swap of the same inputs failed after the rejected request: %v", err)
			p.resync(b)
		}
	case "mint":
		if b.mintQ == nil {
			return
		}
		if _, err := w.MintTokens(b.mintQ, w.MakeOutputs(world.Split(b.mintQ.Amount), w.ActiveID), ""); err != nil {
			fail(p.m, "C06|paid_quote_unusable_after_rejected_mint", "honest mint on the same paid quote failed after the rejected request: %v", err)
			p.resync(b)
		}
	}
	w.TakeFlags()
}

// API-level probes: the same degenerate shapes as Go values.
func (p *prober) apiProbe(t *rapid.T) {
	w := p.w
	p.m.T = t
	which := rapid.SampledFrom([]string{"swap_nil_nil", "swap_nil_outputs", "swap_inputs_nil_outputs", "mint_nil_outputs", "melt_nil_inputs", "checkstate_nil", "checkstate_empty", "restore_nil", "mintquote_zero", "meltquote_empty", "mint_unknown_quote", "melt_unknown_quote", "mintquote_state_unknown", "meltquote_state_unknown"}).Draw(t, "api_probe")
	p.prePoll()
	var b base
	var extraYs []string
	if which == "swap_inputs_nil_outputs" || which == "mint_nil_outputs" || which == "melt_nil_inputs" {
		p.fundIfNeeded(t)
	}
	var paidQ *world.MMintQuote
	if which == "mint_nil_outputs" {
		q, err := w.RequestMintQuote(5, nil)
		if err != nil {
			t.Fatalf("setup: %v", err)
		}
		w.PayInvoice(q)
		w.PollMintQuote(q)
		paidQ = q
		b.mintQ = q
	}
	if which == "swap_inputs_nil_outputs" {
		b.inputs = p.spendable(t, 2).Proofs()
		for _, in := range b.inputs {
			_, y := world.Y(in.Secret)
			extraYs = append(extraYs, y)
		}
	}
	var mq []string
	if paidQ != nil {
		mq = []string{paidQ.ID}
	}
	before := w.TakeSnapshot(extraYs, nil, mq, nil)
	var err error
	var pv any
	func() {
		defer func() { pv = recover() }()
		switch which {
		case "swap_nil_nil":
			_, err = w.Mint.Swap(nil, nil)
		case "swap_nil_outputs":
			_, err = w.Mint.Swap(nil, world.Msgs(w.MakeOutputs([]uint64{1}, w.ActiveID)))
		case "swap_inputs_nil_outputs":
			_, err = w.Mint.Swap(b.inputs, nil)
		case "mint_nil_outputs":
			_, err = w.Mint.MintTokens(nut04.PostMintBolt11Request{Quote: paidQ.ID})
		case "melt_nil_inputs":
			inv := w.Net.ExternalInvoice(1000)
			q, e := w.RequestMeltQuote(inv.Request, 0)
			if e != nil {
				t.Fatalf("setup: %v", e)
			}
			before = w.TakeSnapshot(extraYs, nil, mq, nil)
			_, err = w.Mint.MeltTokens(context.Background(), nut05.PostMeltBolt11Request{Quote: q.ID})
		case "checkstate_nil":
			_, err = w.Mint.ProofsStateCheck(nil)
		case "checkstate_empty":
			_, err = w.Mint.ProofsStateCheck([]string{})
		case "restore_nil":
			_, _, err = w.Mint.RestoreSignatures(nil)
		case "mintquote_zero":
			_, err = w.Mint.RequestMintQuote(nut04.PostMintQuoteBolt11Request{})
		case "meltquote_empty":
			_, err = w.Mint.RequestMeltQuote(nut05.PostMeltQuoteBolt11Request{})
		case "mint_unknown_quote":
			_, err = w.Mint.MintTokens(nut04.PostMintBolt11Request{Quote: "nope", Outputs: world.Msgs(w.MakeOutputs([]uint64{1}, w.ActiveID))})
		case "melt_unknown_quote":
			_, err = w.Mint.MeltTokens(context.Background(), nut05.PostMeltBolt11Request{Quote: "nope"})
		case "mintquote_state_unknown":
			_, err = w.Mint.GetMintQuoteState("nope")
		case "meltquote_state_unknown":
			ctx, cancel := context.WithTimeout(context.Background(), time.Second)
			_, err = w.Mint.GetMeltQuoteState(ctx, "nope")
			cancel()
		}
	}()
	rec.Eval()
	rec.Class("api_probe=" + which)
	p.m.Trace = append(p.m.Trace, fmt.Sprintf("api probe %s -> err=%v panic=%v", which, err, pv))
	if pv != nil {
		fail(p.m, "C06|panic|api|"+which, "API call panicked: %v", pv)
	}
	if pv != nil || err != nil {
		after := w.TakeSnapshot(extraYs, nil, mq, nil)
		if names, d := before.Diff(after); len(names) > 0 {
			fail(p.m, "C06|state_changed_on_error|api|"+which+"|"+strings.Join(names, "+"), "%s", d)
			p.resync(&b)
			return
		}
		if paidQ != nil {
			rec.NonTrivial("api|" + which)
			p.followUp(t, &base{endpoint: "mint", mintQ: paidQ})
		}
		if len(b.inputs) > 0 {
			rec.NonTrivial("api|" + which)
			p.followUp(t, &base{endpoint: "swap", inputs: b.inputs})
		}
	}
	if pv == nil && err == nil {
		// the degenerate request was accepted: book its effects
		switch which {
		case "swap_inputs_nil_outputs":
			w.AcceptInputs("swap", b.inputs, world.Spent, -1)
			rec.Class("degenerate_request_accepted")
		case "mint_nil_outputs":
			paidQ.Issuances++
			rec.Class("degenerate_request_accepted")
		}
	}
	w.TakeFlags()
}

func propRejected(t *rapid.T) {
	cfg := hist.GenConfig(t, []uint{0, 100, 1000}, false)
	cfg.WithServer = true
	w := world.New(t, cfg)
	defer w.Close()
	m := hist.New(t, w, hist.Options{
		Weights: hist.Weights(map[string]int{"replay": 0, "swap_adv": 2, "melt_adv": 1, "checkstate": 1, "rotate": 1, "restart": 1}),
		Owns:    []string{},
		PropID:  "C06",
	})
	p := &prober{m: m, w: w}
	t.Repeat(map[string]func(*rapid.T){
		"step":      m.Step,
		"probe":     p.probe,
		"probe2":    p.probe,
		"api_probe": p.apiProbe,
	})
	rec.ClassN("history_steps", w.M.Steps)
}

func TestRejected(t *testing.T) { rapid.Check(t, propRejected) }
