package c16

import (
	"encoding/json"
	"fmt"
	"os"
	"strconv"
	"strings"
	"testing"

	"pgregory.net/rapid"

	"verif/harness/race"
	"verif/harness/rec"
	"verif/harness/sched"
	"verif/harness/world"
)

// The reported totals under concurrency: 2..3 requests (swaps, mints, melts - some sharing inputs or outputs)
// interleaved at storage / Lightning call granularity. Once all have returned, the issued total the mint reports
// equals the sum of all signatures it handed out (funding included), the redeemed total equals the value of the
// proofs it reports SPENT, and the balance is their non-negative difference. The harness is shared with C01
// (package race).

// verdictT is used for confirmation re-runs inside the verdict functions.
var verdictT world.T = panicT{}

type panicT struct{}

func (panicT) Fatalf(format string, a ...any) { panic(fmt.Sprintf(format, a...)) }
func (panicT) Logf(format string, a ...any)   {}

var schedKinds = []string{"swap", "swap", "mint", "mint", "melt"}

func totalsVerdict(cs race.Case, r *race.Result) (string, string) {
	if r.SchedErr != nil {
		if race.SchedErrReproduces(verdictT, cs, r.Choices) {
			return "C16|sched|scheduler_error", r.SchedErr.Error()
		}
		rec.Inconclusive()
		return "", ""
	}
	if r.Panic != "" {
		return "C16|sched|panic|" + strings.SplitN(r.Panic, ":", 2)[0], r.Panic
	}
	if r.StatesErr != nil {
		return "C16|sched|final_checkstate_failed", r.StatesErr.Error()
	}
	if r.IssuedByMint != r.HandedOutSat {
		return "C16|sched|issued_total_differs_from_signatures_handed_out", fmt.Sprintf("mint reports %d issued, signatures worth %d were handed out; outcomes %s; schedule: %s", r.IssuedByMint, r.HandedOutSat, r.FmtOutcomes(), r.Trace)
	}
	var spent uint64
	for i, st := range r.States {
		if st == "SPENT" {
			spent += r.Funded[i].P.Amount
		}
	}
	if r.RedeemedByMint != spent {
		return "C16|sched|redeemed_total_differs_from_spent_proofs", fmt.Sprintf("mint reports %d redeemed, proofs worth %d are SPENT (states %v); outcomes %s; schedule: %s", r.RedeemedByMint, spent, r.States, r.FmtOutcomes(), r.Trace)
	}
	if r.RedeemedByMint > r.IssuedByMint {
		return "C16|sched|balance_negative", fmt.Sprintf("issued %d < redeemed %d", r.IssuedByMint, r.RedeemedByMint)
	}
	return "", ""
}

func recordSched(cs race.Case, r *race.Result) {
	rec.Eval()
	var ks []string
	for _, q := range cs.Reqs {
		ks = append(ks, q.Kind)
	}
	rec.Class("sched_ops=" + strings.Join(ks, "+"))
	if r.Switches >= 1 {
		rec.NonTrivial(fmt.Sprintf("sched|%v|%s|%v", cs.Reqs, cs.Pre, r.Choices))
		rec.Class("sched_nontrivial")
	}
	for _, q := range cs.Reqs {
		if q.Outs > 0 {
			rec.Class("sched_shared_outputs")
			break
		}
	}
}

func propSchedTotals(t *rapid.T) {
	cs := race.GenCase(t, schedKinds)
	r := race.Run(t, cs, func(step int, enabled []*sched.Task, cur int) int {
		return rapid.IntRange(0, len(enabled)-1).Draw(t, "grant")
	}, nil)
	recordSched(cs, &r)
	if sig, detail := totalsVerdict(cs, &r); sig != "" && !rec.IsKnown(sig) {
		t.Fatalf("VIOLATION %s: %s", sig, detail)
	}
}

func TestSchedTotals(t *testing.T) { rapid.Check(t, propSchedTotals) }

type schedFatalT struct{ t *testing.T }

func (f schedFatalT) Fatalf(format string, a ...any) { f.t.Fatalf(format, a...) }
func (f schedFatalT) Logf(format string, a ...any)   {}

var schedEnumCases = []race.Case{
	{Reqs: []race.Req{{Kind: "mint", Quote: 0, Outs: 1}, {Kind: "swap", Inputs: []int{1}, Outs: 1}}},
	{Reqs: []race.Req{{Kind: "mint", Quote: 0, Outs: 1}, {Kind: "mint", Quote: 1, Outs: 1}}},
	{Reqs: []race.Req{{Kind: "swap", Inputs: []int{1}, Outs: 1}, {Kind: "swap", Inputs: []int{2}, Outs: 1}}},
	{Reqs: []race.Req{{Kind: "swap", Inputs: []int{0}}, {Kind: "swap", Inputs: []int{0, 1}}}},
	{Reqs: []race.Req{{Kind: "swap", Inputs: []int{0}}, {Kind: "melt", Inputs: []int{0}, LN: "success"}}},
	{Reqs: []race.Req{{Kind: "mint", Quote: 0}, {Kind: "mint", Quote: 0}}},
}

func TestSchedTotalsEnum(t *testing.T) {
	shard, _ := strconv.Atoi(os.Getenv("VERIF_SHARD"))
	n, _ := strconv.Atoi(os.Getenv("VERIF_NSHARDS"))
	if n == 0 {
		n = 1
	}
	bound := 2
	if os.Getenv("VERIF_TIER") == "thorough" {
		bound = 4
	}
	bad := 0
	// a bound in schedules per work unit keeps the tier inside its time; units cut off by it are counted
	race.LeafCap = 1000
	defer func() {
		if race.Truncated > 0 {
			rec.ClassN("sched_enum_work_units_cut_off_at_1000_schedules", race.Truncated)
		}
	}()
	for ci, cs := range schedEnumCases {
		cs.Seed = uint64(ci)
		for sub := 0; sub < 8; sub++ {
			// the deepest subtree of a case is the one that starts without a pre-emption (sub 0): spread those over the shards
			if (ci*9+sub)%n != shard {
				continue
			}
			fixed := []int{sub & 1, (sub >> 1) & 1, (sub >> 2) & 1}
			cnt := race.Enumerate(schedFatalT{t}, cs, bound, fixed, nil, func(r race.Result) {
				c2 := cs
				c2.Choice = r.Choices
				recordSched(c2, &r)
				if sig, detail := totalsVerdict(c2, &r); sig != "" && !rec.IsKnown(sig) {
					bad++
					rec.Violate(sig, detail, c2)
					if bad <= 3 {
						t.Errorf("VIOLATION %s: %s", sig, detail)
					}
				}
			})
			rec.ClassN(fmt.Sprintf("sched_enum_case%d", ci), cnt)
		}
	}
	if bad > 0 {
		t.Fatalf("%d violating schedules", bad)
	}
}

func TestReplay(t *testing.T) {
	path := os.Getenv("VERIF_REPLAY")
	if path == "" {
		t.Skip("no VERIF_REPLAY")
	}
	raw, err := os.ReadFile(path)
	if err != nil {
		t.Fatal(err)
	}
	var doc struct {
		Replay race.Case `json:"replay"`
	}
	if err := json.Unmarshal(raw, &doc); err != nil {
		t.Fatal(err)
	}
	cs := doc.Replay
	k := 0
	r := race.Run(schedFatalT{t}, cs, func(step int, enabled []*sched.Task, cur int) int {
		c := 0
		if k < len(cs.Choice) {
			c = cs.Choice[k]
		}
		k++
		return c
	}, nil)
	if sig, detail := totalsVerdict(cs, &r); sig != "" && !rec.IsKnown(sig) {
		t.Fatalf("VIOLATION %s: %s", sig, detail)
	}
}
