// C16 — reported balances are exact and configured limits are enforced.
package c16

import (
	"encoding/json"
	"fmt"
	"os"
	"strings"
	"testing"

	"github.com/elnosh/gonuts/mint"
	"pgregory.net/rapid"

	"verif/harness/hist"
	"verif/harness/httpx"
	"verif/harness/rec"
)

func TestMain(m *testing.M) {
	code := m.Run()
	rec.Flush()
	os.Exit(code)
}

func fail(m *hist.Machine, sig, format string, a ...any) {
	if rec.IsKnown(sig) {
		return
	}
	m.T.Fatalf("VIOLATION %s: %s\n  history:\n  %s", sig, fmt.Sprintf(format, a...), m.TraceString())
}

func balancesExact(m *hist.Machine, op string) {
	w := m.W
	issued, err := w.Mint.IssuedEcash()
	if err != nil {
		fail(m, "C16|issued_query_failed", "%v", err)
		return
	}
	redeemed, err := w.Mint.RedeemedEcash()
	if err != nil {
		fail(m, "C16|redeemed_query_failed", "%v", err)
		return
	}
	for id, want := range w.M.Issued {
		if issued[id] != want {
			fail(m, "C16|issued_total_wrong", "keyset %s: mint reports %d, signatures handed out sum to %d (after %s)", id, issued[id], want, op)
		}
	}
	for id, got := range issued {
		if w.M.Issued[id] != got {
			fail(m, "C16|issued_total_wrong", "keyset %s: mint reports %d, model %d (after %s)", id, got, w.M.Issued[id], op)
		}
	}
	for id, want := range w.M.Redeemed {
		if redeemed[id] != want {
			fail(m, "C16|redeemed_total_wrong", "keyset %s: mint reports %d, proofs consumed sum to %d (after %s)", id, redeemed[id], want, op)
		}
	}
	for id, got := range redeemed {
		if w.M.Redeemed[id] != got {
			fail(m, "C16|redeemed_total_wrong", "keyset %s: mint reports %d, model %d (after %s)", id, got, w.M.Redeemed[id], op)
		}
	}
	bal, err := w.Mint.TotalBalance()
	wantBal := w.M.IssuedTotal() - w.M.RedeemedTotal()
	if err != nil || bal != wantBal || w.M.IssuedTotal() < w.M.RedeemedTotal() {
		fail(m, "C16|total_balance_wrong", "TotalBalance %d err %v, issued %d - redeemed %d", bal, err, w.M.IssuedTotal(), w.M.RedeemedTotal())
	}
	info, err := w.Mint.RetrieveMintInfo()
	if err != nil {
		fail(m, "C16|info_failed", "%v", err)
		return
	}
	lim := w.Cfg.Limits
	wantDisabled := lim.MaxBalance > 0 && wantBal >= lim.MaxBalance
	if info.Nuts.Nut04.Disabled != wantDisabled {
		fail(m, "C16|info_disabled_wrong", "info says disabled=%v, balance %d max balance %d", info.Nuts.Nut04.Disabled, wantBal, lim.MaxBalance)
	}
	// the same through the info endpoint (what wallets see; handlers may keep answers for a while)
	if w.Cfg.WithServer {
		r := httpx.Do(w.Handler(), "GET", "/v1/info", nil, "")
		var doc struct {
			Nuts map[string]json.RawMessage `json:"nuts"`
		}
		var n4 struct {
			Disabled *bool `json:"disabled"`
		}
		if r.Status != 200 || json.Unmarshal(r.Body, &doc) != nil || json.Unmarshal(doc.Nuts["4"], &n4) != nil || n4.Disabled == nil {
			fail(m, "C16|info_endpoint_unreadable", "GET /v1/info: status %d body %.300s", r.Status, r.Body)
		} else if *n4.Disabled != wantDisabled {
			fail(m, "C16|info_endpoint_disabled_wrong", "GET /v1/info says disabled=%v, balance %d max balance %d (after %s)", *n4.Disabled, wantBal, lim.MaxBalance, op)
		}
		m.Count["info_endpoint_read"]++
	}
	if wantDisabled {
		m.Count["info_disabled_true"]++
	}
	if m.Count["swap_with_fee"] > 0 && m.Count["melt_PAID"] > 0 {
		m.Count["balance_after_fee_swap_and_melt"]++
	}
}

func propBalances(t *rapid.T) {
	cfg := hist.GenConfig(t, []uint{0, 100, 1000}, true)
	cfg.WithServer = true
	// one history in three runs on a backend that invoices whatever it is asked for (like the repository's test backend)
	// instead of refusing absurd amounts: the limits are the mint's to enforce
	if !cfg.ViaCLN && !cfg.ViaLND && rapid.IntRange(0, 2).Draw(t, "permissive_backend") == 0 {
		cfg.LNPermissive = true
	}
	cfg.Limits = mint.MintLimits{
		MaxBalance:      rapid.SampledFrom([]uint64{0, 0, 10, 500, 5000, 100000}).Draw(t, "max_balance"),
		MintingSettings: mint.MintMethodSettings{MaxAmount: rapid.SampledFrom([]uint64{0, 0, 1, 64, 300, 70000}).Draw(t, "mint_max")},
		MeltingSettings: mint.MeltMethodSettings{MaxAmount: rapid.SampledFrom([]uint64{0, 0, 1, 50, 300}).Draw(t, "melt_max")},
	}
	m := hist.Run(t, cfg, hist.Options{
		Weights:   hist.Weights(map[string]int{"mintquote_boundary": 6, "overlap_quotes": 2, "mint_fault": 2, "swap_fault": 2, "meltquote_boundary": 3, "swap_adv": 1, "restart": 1, "rotate": 1, "melt": 5, "meltquote": 3, "checkstate": 0, "deliver": 0, "pollmint": 0}),
		Owns:      []string{"C16"},
		PropID:    "C16",
		AfterStep: func(m *hist.Machine, op string) { balancesExact(m, op); m.Enforce(op) },
		// a request refused on a storage fault handed out nothing: the totals are checked before restore is asked
		AfterRefusal: func(m *hist.Machine, op string) {
			m.Count["totals_checked_after_refused_faulted_request"]++
			balancesExact(m, "refused "+op)
		},
	})
	if m.Count["boundary_request"] > 0 || m.Count["balance_after_fee_swap_and_melt"] > 0 {
		rec.NonTrivial(fmt.Sprintf("%+v|%s", cfg.Limits, strings.Join(m.Trace, "|")))
		rec.ClassN("boundary_requests", m.Count["boundary_request"])
		for _, k := range []string{"info_disabled_true", "balance_above_maximum", "totals_checked_after_refused_faulted_request", "balance_after_fee_swap_and_melt", "rotation", "restart"} {
			if m.Count[k] > 0 {
				rec.Class("history_with_" + k)
			}
		}
		rec.Class(fmt.Sprintf("max_balance_set=%v", cfg.Limits.MaxBalance > 0))
		if cfg.LNPermissive {
			rec.Class("history_on_backend_that_invoices_any_amount")
		}
		rec.Sample("history", map[string]any{"limits": fmt.Sprintf("%+v", cfg.Limits), "fee_ppk": cfg.FeePpk, "trace": m.Trace})
	}
}

func TestBalances(t *testing.T) { rapid.Check(t, propBalances) }
