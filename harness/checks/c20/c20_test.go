// C20 — the HTTP/JSON surface is a faithful, spec-shaped transport of the mint's decisions.
// Everything goes through the real handler in-process with hand-built JSON (never the repository's request types).
package c20

import (
	"bytes"
	"context"
	"encoding/json"
	"errors"
	"fmt"
	"os"
	"regexp"
	"sort"
	"strings"
	"testing"

	"github.com/elnosh/gonuts/cashu"
	"github.com/elnosh/gonuts/mint"
	"pgregory.net/rapid"

	"verif/harness/dbproxy"
	"verif/harness/httpx"
	"verif/harness/lockgen"
	"verif/harness/lnmodel"
	"verif/harness/rec"
	"verif/harness/world"
)

func TestMain(m *testing.M) {
	code := m.Run()
	rec.Flush()
	os.Exit(code)
}

type mach struct {
	t     *rapid.T
	w     *world.World
	trace []string
	// cache candidates: byte-identical successful swap / mint requests
	cached []cachedReq
	count  map[string]int
	// melts whose payment is in flight (quote id, payment hash, inputs)
	pending []pendingMelt
}

type pendingMelt struct {
	qid, hash string
	inputs    cashu.Proofs
}

type cachedReq struct {
	path string
	body []byte
	resp []byte
}

func (m *mach) fail(sig, format string, a ...any) {
	sig = "C20|" + sig
	if rec.IsKnown(sig) {
		return
	}
	m.t.Fatalf("VIOLATION %s: %s\n  history:\n  %s", sig, fmt.Sprintf(format, a...), strings.Join(m.trace, "\n  "))
}

func (m *mach) logf(format string, a ...any) { m.trace = append(m.trace, fmt.Sprintf(format, a...)) }

func (m *mach) do(method, path string, body []byte) httpx.Response {
	ct := ""
	if body != nil {
		ct = "application/json"
	}
	r := httpx.Do(m.w.Handler(), method, path, body, ct)
	if r.Panic != nil {
		m.fail("handler_panic|"+pathClass(path), "%v\n%s", r.Panic, r.Stack[:min(len(r.Stack), 1500)])
	}
	rec.Eval()
	return r
}

var idRe = regexp.MustCompile(`/[0-9a-f]{64}$`)

func pathClass(p string) string {
	if i := strings.Index(p, "?"); i >= 0 {
		p = p[:i]
	}
	return idRe.ReplaceAllString(p, "/{id}")
}

// ---------------------------------------------------------------- JSON building (ordered)

type kv struct {
	k string
	v any
}

func obj(pairs ...kv) []byte {
	var b bytes.Buffer
	b.WriteByte('{')
	for i, p := range pairs {
		if i > 0 {
			b.WriteByte(',')
		}
		kb, _ := json.Marshal(p.k)
		b.Write(kb)
		b.WriteByte(':')
		switch x := p.v.(type) {
		case json.RawMessage:
			b.Write(x)
		default:
			vb, _ := json.Marshal(x)
			b.Write(vb)
		}
	}
	b.WriteByte('}')
	return b.Bytes()
}

func arr(items ...[]byte) json.RawMessage {
	var b bytes.Buffer
	b.WriteByte('[')
	for i, it := range items {
		if i > 0 {
			b.WriteByte(',')
		}
		b.Write(it)
	}
	b.WriteByte(']')
	return b.Bytes()
}

func proofJSON(p cashu.Proof) []byte {
	pairs := []kv{{"amount", p.Amount}, {"id", p.Id}, {"secret", p.Secret}, {"C", p.C}}
	if p.Witness != "" {
		pairs = append(pairs, kv{"witness", p.Witness})
	}
	if p.DLEQ != nil {
		pairs = append(pairs, kv{"dleq", json.RawMessage(obj(kv{"e", p.DLEQ.E}, kv{"s", p.DLEQ.S}))})
	}
	return obj(pairs...)
}

func outJSON(o world.Out) []byte {
	return obj(kv{"amount", o.Amount}, kv{"id", o.Msg.Id}, kv{"B_", o.Msg.B_})
}

func proofsJSON(ps cashu.Proofs) json.RawMessage {
	var items [][]byte
	for _, p := range ps {
		items = append(items, proofJSON(p))
	}
	return arr(items...)
}

func outsJSON(os []world.Out) json.RawMessage {
	var items [][]byte
	for _, o := range os {
		items = append(items, outJSON(o))
	}
	return arr(items...)
}

// ---------------------------------------------------------------- shape validation

var (
	hex66         = regexp.MustCompile(`^0[23][0-9a-f]{64}$`)
	hex64         = regexp.MustCompile(`^[0-9a-f]{64}$`)
	hex16         = regexp.MustCompile(`^[0-9a-f]{16}$`)
	genericDetail = "mint is currently unable to process request"
)

func isNum(v any) bool  { _, ok := v.(float64); return ok }
func isStr(v any) bool  { _, ok := v.(string); return ok }
func isBool(v any) bool { _, ok := v.(bool); return ok }
func strIn(v any, set ...string) bool {
	s, ok := v.(string)
	if !ok {
		return false
	}
	for _, x := range set {
		if s == x {
			return true
		}
	}
	return false
}
func matches(v any, re *regexp.Regexp) bool {
	s, ok := v.(string)
	return ok && re.MatchString(s)
}

func (m *mach) parse(r httpx.Response, what string) map[string]any {
	if ct := r.Header.Get("Content-Type"); ct != "application/json" {
		m.fail("content_type|"+what, "Content-Type %q", ct)
	}
	var v any
	if err := json.Unmarshal(r.Body, &v); err != nil {
		m.fail("body_not_json|"+what, "%v: %s", err, r.Body)
		return nil
	}
	o, ok := v.(map[string]any)
	if !ok {
		m.fail("body_not_object|"+what, "%s", r.Body)
		return nil
	}
	return o
}

func (m *mach) need(o map[string]any, what, key string, ok func(any) bool) {
	v, present := o[key]
	if !present {
		m.fail("shape|"+what+"|missing_"+key, "%v", o)
		return
	}
	if !ok(v) {
		m.fail("shape|"+what+"|bad_"+key, "%s = %#v", key, v)
	}
}

func (m *mach) checkMintQuote(r httpx.Response, what string) map[string]any {
	o := m.parse(r, what)
	if o == nil {
		return nil
	}
	m.need(o, what, "quote", isStr)
	m.need(o, what, "request", func(v any) bool { s, _ := v.(string); return strings.HasPrefix(s, "ln") })
	m.need(o, what, "amount", isNum)
	m.need(o, what, "unit", func(v any) bool { return strIn(v, "sat") })
	m.need(o, what, "state", func(v any) bool { return strIn(v, "UNPAID", "PAID", "ISSUED", "PENDING") })
	m.need(o, what, "expiry", isNum)
	if pk, ok := o["pubkey"]; ok && !matches(pk, hex66) {
		m.fail("shape|"+what+"|bad_pubkey", "%v", pk)
	}
	return o
}

func (m *mach) checkMeltQuote(r httpx.Response, what string) map[string]any {
	o := m.parse(r, what)
	if o == nil {
		return nil
	}
	m.need(o, what, "quote", isStr)
	m.need(o, what, "request", isStr)
	m.need(o, what, "amount", isNum)
	m.need(o, what, "unit", func(v any) bool { return strIn(v, "sat") })
	m.need(o, what, "fee_reserve", isNum)
	m.need(o, what, "state", func(v any) bool { return strIn(v, "UNPAID", "PENDING", "PAID") })
	m.need(o, what, "expiry", isNum)
	pre, has := o["payment_preimage"]
	if o["state"] == "PAID" {
		if !has || !isStr(pre) || pre == "" {
			m.fail("shape|"+what+"|paid_without_preimage", "%v", o)
		}
	} else if has && pre != "" && pre != nil {
		m.fail("shape|"+what+"|preimage_on_unpaid", "%v", o)
	}
	return o
}

func (m *mach) checkSignatures(r httpx.Response, what string, outs []world.Out) []any {
	o := m.parse(r, what)
	if o == nil {
		return nil
	}
	sigs, ok := o["signatures"].([]any)
	if !ok {
		m.fail("shape|"+what+"|signatures_not_array", "%s", r.Body)
		return nil
	}
	if len(sigs) != len(outs) {
		m.fail("shape|"+what+"|signature_count", "%d outputs %d signatures", len(outs), len(sigs))
	}
	for i, s := range sigs {
		so, ok := s.(map[string]any)
		if !ok {
			m.fail("shape|"+what+"|signature_not_object", "%v", s)
			continue
		}
		m.need(so, what, "amount", func(v any) bool { f, ok := v.(float64); return ok && i < len(outs) && uint64(f) == outs[i].Amount })
		m.need(so, what, "id", func(v any) bool { return matches(v, hex16) })
		m.need(so, what, "C_", func(v any) bool { return matches(v, hex66) })
		m.need(so, what, "dleq", func(v any) bool {
			d, ok := v.(map[string]any)
			return ok && matches(d["e"], hex64) && matches(d["s"], hex64) && len(d) == 2
		})
	}
	return sigs
}

// refusal: status 400, body exactly {detail: string, code: number}
func (m *mach) checkRefusal(r httpx.Response, what string, wantCode int) {
	if r.Status != 400 {
		m.fail("refusal_status|"+what, "status %d body %s", r.Status, r.Body)
		return
	}
	o := m.parse(r, what)
	if o == nil {
		return
	}
	if len(o) != 2 || !isStr(o["detail"]) || !isNum(o["code"]) {
		m.fail("refusal_shape|"+what, "body %s", r.Body)
		return
	}
	if wantCode != 0 && int(o["code"].(float64)) != wantCode {
		m.fail(fmt.Sprintf("refusal_code|%s|want=%d|got=%d", what, wantCode, int(o["code"].(float64))), "body %s", r.Body)
	}
	rec.Class("refusal_" + what)
	rec.NonTrivial("refusal|" + what)
}

// ---------------------------------------------------------------- operations

func (m *mach) mintQuote(amount uint64, extra ...kv) (httpx.Response, string, string) {
	pairs := append([]kv{{"amount", amount}, {"unit", "sat"}}, extra...)
	r := m.do("POST", "/v1/mint/quote/bolt11", obj(pairs...))
	if r.Status != 200 {
		return r, "", ""
	}
	o := m.checkMintQuote(r, "mint_quote")
	if o == nil {
		return r, "", ""
	}
	if o["state"] != "UNPAID" {
		m.fail("fresh_mint_quote_state", "%v", o["state"])
	}
	id, _ := o["quote"].(string)
	req, _ := o["request"].(string)
	if inv := m.w.Net.InvoiceByRequest(req); inv != nil {
		// let the mint's background watcher finish its start-up calls so that it does not show up in later call counts
		m.w.WaitSubscribed(inv.Hash)
	}
	return r, id, req
}

func (m *mach) fund(amount uint64) bool {
	_, id, req := m.mintQuote(amount)
	if id == "" {
		return false
	}
	inv := m.w.Net.InvoiceByRequest(req)
	m.w.Net.PayExternally(inv.Hash)
	r := m.do("GET", "/v1/mint/quote/bolt11/"+id, nil)
	if r.Status != 200 {
		m.fail("quote_state_status", "%d %s", r.Status, r.Body)
	}
	if o := m.checkMintQuote(r, "mint_quote_state"); o != nil && o["state"] != "PAID" {
		m.fail("paid_quote_not_reported_paid", "%v", o)
	}
	outs := m.w.MakeOutputs(world.Split(amount), m.w.ActiveID)
	body := obj(kv{"quote", id}, kv{"outputs", outsJSON(outs)})
	r = m.do("POST", "/v1/mint/bolt11", body)
	if r.Status != 200 {
		m.fail("honest_mint_refused", "%d %s", r.Status, r.Body)
		return false
	}
	m.checkSignatures(r, "mint", outs)
	m.applySigs("mint", outs, r.Body)
	m.cached = append(m.cached, cachedReq{"/v1/mint/bolt11", body, r.Body})
	m.logf("fund %d via HTTP", amount)
	rec.NonTrivial("mint_ok")
	// second mint on the issued quote
	outs2 := m.w.MakeOutputs(world.Split(amount), m.w.ActiveID)
	r = m.do("POST", "/v1/mint/bolt11", obj(kv{"quote", id}, kv{"outputs", outsJSON(outs2)}))
	m.checkRefusal(r, "mint_issued_quote", 20002)
	return true
}

// opLockRefusals: a genuine proof whose secret is a NUT-10 lock (well-formed or with malformed tags; the mint signs
// blindly) is presented in a swap without a usable witness. Whatever the mint makes of the lock, the answer is either
// 200 (the lock is open: no threshold, expired without refund keys, ...) or 400 with the {detail, code} shape and a
// code of the NUT error table - never an empty object or an internal code.
func (m *mach) opLockRefusals(t *rapid.T) {
	kind := rapid.SampledFrom([]string{"P2PK", "HTLC"}).Draw(t, "lock_kind")
	c := lockgen.GenConfig(t, kind)
	if rapid.Bool().Draw(t, "lock_malformed") {
		c.Malformed = rapid.SampledFrom([]string{"bad_n_sigs", "negative_n_sigs", "huge_n_sigs", "bad_key_hex", "unknown_sigflag", "too_many_tags", "short_tag", "bad_locktime", "bad_data_key"}).Draw(t, "lock_malformation")
	} else {
		c.Malformed = ""
	}
	secret := c.Secret()
	if len(secret) > 512 {
		return
	}
	_, id, req := m.mintQuote(4)
	if id == "" {
		return
	}
	m.w.Net.PayExternally(m.w.Net.InvoiceByRequest(req).Hash)
	out := m.w.BlindSecret(secret, 4, m.w.ActiveID)
	r := m.do("POST", "/v1/mint/bolt11", obj(kv{"quote", id}, kv{"outputs", outsJSON([]world.Out{out})}))
	if r.Status != 200 {
		m.fail("honest_mint_refused", "%d %s", r.Status, r.Body)
		return
	}
	m.applySigs("mint", []world.Out{out}, r.Body)
	mp := m.w.M.Proofs[secret]
	if mp == nil {
		return
	}
	p := mp.P
	fee := m.w.FeeFor(cashu.Proofs{p})
	if p.Amount <= fee {
		return
	}
	p.Witness = rapid.SampledFrom([]string{"", `{"signatures":[]}`, `{"preimage":"00","signatures":["` + strings.Repeat("00", 64) + `"]}`, "not json", `{"signatures":["zz"]}`}).Draw(t, "lock_witness")
	outs := m.w.MakeOutputs(world.Split(p.Amount-fee), m.w.ActiveID)
	r = m.do("POST", "/v1/swap", obj(kv{"inputs", arr(proofJSON(p))}, kv{"outputs", outsJSON(outs)}))
	what := "swap_locked_input|" + kind
	if c.Malformed != "" {
		what += "|" + c.Malformed
	}
	m.logf("swap of a %s-locked proof (malformed=%q, witness %q) -> %d %s", kind, c.Malformed, p.Witness, r.Status, trunc(r.Body))
	if r.Status == 200 {
		m.checkSignatures(r, "swap", outs)
		m.w.AcceptInputs("swap", cashu.Proofs{p}, world.Spent, -1)
		m.applySigs("swap", outs, r.Body)
		rec.Class("locked_input_accepted_without_witness|" + kind)
		return
	}
	m.checkRefusal(r, what, 0)
	if o := m.parse(r, what); o != nil && isNum(o["code"]) {
		code := int(o["code"].(float64))
		rec.Class(fmt.Sprintf("locked_input_refusal_code=%d", code))
		if code < 10000 {
			m.fail(fmt.Sprintf("refusal_code|%s|internal_code=%d", what, code), "body %s", r.Body)
		}
	}
}

func (m *mach) applySigs(op string, outs []world.Out, body []byte) {
	var resp struct {
		Signatures cashu.BlindedSignatures `json:"signatures"`
	}
	if err := json.Unmarshal(body, &resp); err != nil {
		m.fail("signatures_not_decodable|"+op, "%v", err)
		return
	}
	m.w.RecordSignatures(op, outs, resp.Signatures)
	m.w.TakeFlags()
}

func (m *mach) unspent() world.MProofs {
	var out world.MProofs
	for _, p := range m.w.M.ProofsIn(world.Unspent) {
		if !p.Locked {
			out = append(out, p)
		}
	}
	return out
}

func (m *mach) opSwap(t *rapid.T) {
	sp := m.unspent()
	if len(sp) == 0 {
		m.fund(rapid.Uint64Range(8, 300).Draw(t, "fund"))
		return
	}
	n := rapid.IntRange(1, min(3, len(sp))).Draw(t, "swap_n")
	ins := sp[:n]
	inputs := ins.Proofs()
	var total uint64
	for _, p := range inputs {
		total += p.Amount
	}
	fee := m.w.FeeFor(inputs)
	if total <= fee {
		return
	}
	variant := rapid.SampledFrom([]string{"ok", "ok", "ok", "insufficient", "dup_inputs", "dup_inputs_other_spelling", "dup_outputs", "secret_too_long", "invalid_proof", "unknown_keyset_input", "unknown_keyset_output", "inactive_keyset_output", "already_signed_output", "spent_input"}).Draw(t, "swap_variant")
	outs := m.w.MakeOutputs(world.Split(total-fee), m.w.ActiveID)
	want := 0
	inJSON := proofsJSON(inputs)
	switch variant {
	case "insufficient":
		outs = m.w.MakeOutputs(world.Split(total-fee+1), m.w.ActiveID)
		want = 11002
	case "dup_inputs":
		if 2*inputs[0].Amount <= m.w.FeeFor(cashu.Proofs{inputs[0], inputs[0]}) {
			return
		}
		inJSON = arr(proofJSON(inputs[0]), proofJSON(inputs[0]))
		outs = m.w.MakeOutputs(world.Split(2*inputs[0].Amount-m.w.FeeFor(cashu.Proofs{inputs[0], inputs[0]})), m.w.ActiveID)
		want = 11007
	case "dup_inputs_other_spelling":
		// the same proof twice, the copies differing in a member that does not make it another proof (a witness, a
		// dleq object): the cause of the refusal is still a duplicate input
		if 2*inputs[0].Amount <= m.w.FeeFor(cashu.Proofs{inputs[0], inputs[0]}) {
			return
		}
		d := inputs[0]
		if rapid.Bool().Draw(t, "dup_by_witness") {
			d.Witness = `{"signatures":[]}`
		} else {
			d.DLEQ = &cashu.DLEQProof{E: strings.Repeat("00", 32), S: strings.Repeat("00", 32)}
		}
		inJSON = arr(proofJSON(inputs[0]), proofJSON(d))
		outs = m.w.MakeOutputs(world.Split(2*inputs[0].Amount-m.w.FeeFor(cashu.Proofs{inputs[0], inputs[0]})), m.w.ActiveID)
		want = 11007
	case "dup_outputs":
		outs = append(outs, outs[0])
		want = 11008
	case "secret_too_long":
		p := inputs[0]
		if p.Amount <= m.w.FeeFor(cashu.Proofs{p}) {
			return
		}
		p.Secret = strings.Repeat("a", 513)
		inJSON = arr(proofJSON(p))
		outs = m.w.MakeOutputs(world.Split(max(p.Amount, m.w.FeeFor(cashu.Proofs{p})+1)-m.w.FeeFor(cashu.Proofs{p})), m.w.ActiveID)
		want = 10004
	case "invalid_proof":
		p := inputs[0]
		if p.Amount <= m.w.FeeFor(cashu.Proofs{p}) {
			return
		}
		p.C = "02" + strings.Repeat("ab", 32)
		inJSON = arr(proofJSON(p))
		outs = m.w.MakeOutputs(world.Split(max(p.Amount, m.w.FeeFor(cashu.Proofs{p})+1)-m.w.FeeFor(cashu.Proofs{p})), m.w.ActiveID)
		want = 10003
	case "unknown_keyset_input":
		p := inputs[0]
		if p.Amount <= m.w.FeeFor(cashu.Proofs{p}) {
			return
		}
		p.Id = "00ffffffffffffff"
		inJSON = arr(proofJSON(p))
		outs = m.w.MakeOutputs([]uint64{p.Amount}, m.w.ActiveID)
		want = 12001
	case "unknown_keyset_output":
		outs = m.w.MakeOutputs(world.Split(total-fee), "00ffffffffffffff")
		want = 12001
	case "inactive_keyset_output":
		var other string
		for _, id := range m.w.KSOrder {
			if id != m.w.ActiveID {
				other = id
			}
		}
		if other == "" {
			return
		}
		outs = m.w.MakeOutputs(world.Split(total-fee), other)
		want = 12002
	case "already_signed_output":
		if len(m.w.M.SignedOrder) == 0 {
			return
		}
		outs[0].Msg.B_ = m.w.M.SignedOrder[0]
		want = 10002
	case "spent_input":
		spent := m.w.M.ProofsIn(world.Spent)
		if len(spent) == 0 {
			return
		}
		inJSON = arr(proofJSON(spent[0].P))
		f := m.w.FeeFor(cashu.Proofs{spent[0].P})
		if spent[0].P.Amount <= f {
			return
		}
		outs = m.w.MakeOutputs(world.Split(spent[0].P.Amount-f), m.w.ActiveID)
		want = 11001
	}
	body := obj(kv{"inputs", inJSON}, kv{"outputs", outsJSON(outs)})
	r := m.do("POST", "/v1/swap", body)
	m.logf("swap %s -> %d %s", variant, r.Status, trunc(r.Body))
	if variant == "ok" {
		if r.Status != 200 {
			m.fail("honest_swap_refused", "%d %s", r.Status, r.Body)
			return
		}
		m.checkSignatures(r, "swap", outs)
		m.w.AcceptInputs("swap", inputs, world.Spent, -1)
		m.applySigs("swap", outs, r.Body)
		m.cached = append(m.cached, cachedReq{"/v1/swap", body, r.Body})
		rec.NonTrivial("swap_ok")
		return
	}
	m.checkRefusal(r, "swap_"+variant, want)
}

func trunc(b []byte) string {
	if len(b) > 160 {
		return string(b[:160]) + "..."
	}
	return string(b)
}

func (m *mach) opMintRefusals(t *rapid.T) {
	variant := rapid.SampledFrom([]string{"unpaid", "unit", "method", "over_limit", "locked_no_sig", "dup_outputs", "unknown_keyset", "over_amount", "already_signed"}).Draw(t, "mint_variant")
	switch variant {
	case "unit":
		r := m.do("POST", "/v1/mint/quote/bolt11", obj(kv{"amount", 5}, kv{"unit", "usd"}))
		m.checkRefusal(r, "mint_quote_unit", 11005)
		return
	case "method":
		r := m.do("POST", "/v1/mint/quote/bolt12", obj(kv{"amount", 5}, kv{"unit", "sat"}))
		m.checkRefusal(r, "mint_quote_method", 11003)
		return
	case "over_limit":
		r := m.do("POST", "/v1/mint/quote/bolt11", obj(kv{"amount", 1_000_001}, kv{"unit", "sat"}))
		m.checkRefusal(r, "mint_quote_over_limit", 11006)
		return
	}
	amount := rapid.Uint64Range(2, 64).Draw(t, "amount")
	var extra []kv
	if variant == "locked_no_sig" {
		extra = append(extra, kv{"pubkey", "02" + strings.Repeat("79be667ef9dcbbac55a06295ce870b07029bfcdb2dce28d959f2815b16f81798", 1)})
	}
	_, id, req := m.mintQuote(amount, extra...)
	if id == "" {
		return
	}
	outs := m.w.MakeOutputs(world.Split(amount), m.w.ActiveID)
	want := 0
	if variant != "unpaid" {
		m.w.Net.PayExternally(m.w.Net.InvoiceByRequest(req).Hash)
	}
	switch variant {
	case "unpaid":
		want = 20001
	case "locked_no_sig":
		want = 20008
	case "dup_outputs":
		outs = append(outs, outs[0])
		want = 11008
	case "unknown_keyset":
		outs = m.w.MakeOutputs(world.Split(amount), "00ffffffffffffff")
		want = 12001
	case "over_amount":
		outs = m.w.MakeOutputs(world.Split(amount+1), m.w.ActiveID)
		want = 0 // no unambiguous NUT code: shape only
	case "already_signed":
		if len(m.w.M.SignedOrder) == 0 {
			return
		}
		outs[0].Msg.B_ = m.w.M.SignedOrder[0]
		want = 10002
	}
	r := m.do("POST", "/v1/mint/bolt11", obj(kv{"quote", id}, kv{"outputs", outsJSON(outs)}))
	m.logf("mint refusal %s -> %d %s", variant, r.Status, trunc(r.Body))
	m.checkRefusal(r, "mint_"+variant, want)
}

func (m *mach) opMelt(t *rapid.T) {
	sp := m.unspent()
	if len(sp) == 0 {
		m.fund(rapid.Uint64Range(8, 300).Draw(t, "fund"))
		return
	}
	ins := sp[:rapid.IntRange(1, min(3, len(sp))).Draw(t, "melt_n")]
	inputs := ins.Proofs()
	var total uint64
	for _, p := range inputs {
		total += p.Amount
	}
	fee := m.w.FeeFor(inputs)
	if total <= fee+1 {
		return
	}
	amt := total - fee
	for amt > 0 && amt+m.w.LN.FeeFor(amt)+fee > total {
		amt--
	}
	if amt == 0 {
		return
	}
	variant := rapid.SampledFrom([]string{"paid", "paid", "paid_after_error", "pending", "unpaid", "quote_unit", "quote_over_limit", "insufficient", "unknown_quote"}).Draw(t, "melt_variant")
	if variant == "quote_unit" {
		inv := m.w.Net.ExternalInvoice(amt * 1000)
		r := m.do("POST", "/v1/melt/quote/bolt11", obj(kv{"request", inv.Request}, kv{"unit", "eur"}))
		m.checkRefusal(r, "melt_quote_unit", 11005)
		return
	}
	if variant == "quote_over_limit" {
		inv := m.w.Net.ExternalInvoice(2_000_000_000)
		r := m.do("POST", "/v1/melt/quote/bolt11", obj(kv{"request", inv.Request}, kv{"unit", "sat"}))
		m.checkRefusal(r, "melt_quote_over_limit", 11006)
		return
	}
	if variant == "insufficient" {
		amt = total + 5
	}
	inv := m.w.Net.ExternalInvoice(amt * 1000)
	r := m.do("POST", "/v1/melt/quote/bolt11", obj(kv{"request", inv.Request}, kv{"unit", "sat"}))
	if r.Status != 200 {
		m.fail("honest_melt_quote_refused", "%d %s", r.Status, r.Body)
		return
	}
	qo := m.checkMeltQuote(r, "melt_quote")
	if qo == nil {
		return
	}
	qid := qo["quote"].(string)
	if qo["state"] != "UNPAID" {
		m.fail("fresh_melt_quote_state", "%v", qo["state"])
	}
	switch variant {
	case "paid":
		m.w.LN.PayScript = []lnmodel.PayAnswer{lnmodel.PaySuccess}
	case "paid_after_error":
		// the answer to the pay call is lost although the payment went through; the mint's own lookup finds it
		m.w.LN.PayScript, m.w.LN.ErrTruth = []lnmodel.PayAnswer{lnmodel.PayError}, lnmodel.TruthSucceeded
	case "pending":
		m.w.LN.PayScript = []lnmodel.PayAnswer{lnmodel.PayPending}
	case "unpaid":
		m.w.LN.PayScript = []lnmodel.PayAnswer{lnmodel.PayFailed}
	}
	inJSON := proofsJSON(inputs)
	if variant == "unknown_quote" {
		qid = strings.Repeat("0", 64)
	}
	r = m.do("POST", "/v1/melt/bolt11", obj(kv{"quote", qid}, kv{"inputs", inJSON}))
	m.w.LN.PayScript, m.w.LN.ErrTruth = nil, lnmodel.TruthNone
	m.logf("melt %s -> %d %s", variant, r.Status, trunc(r.Body))
	switch variant {
	case "insufficient":
		m.checkRefusal(r, "melt_insufficient", 11002)
		return
	case "unknown_quote":
		m.checkRefusal(r, "melt_unknown_quote", 0)
		return
	}
	if r.Status != 200 {
		m.fail("honest_melt_refused", "%d %s", r.Status, r.Body)
		return
	}
	o := m.checkMeltQuote(r, "melt")
	if o == nil {
		return
	}
	rec.NonTrivial("melt_" + variant)
	wantState := map[string]string{"paid": "PAID", "paid_after_error": "PAID", "pending": "PENDING", "unpaid": "UNPAID"}[variant]
	if wantState == "PAID" {
		if inv := m.w.Net.InvoiceByHash(inv.Hash); inv != nil && o["payment_preimage"] != inv.Preimage {
			m.fail("melt_preimage_differs_from_invoice|"+variant, "response says %v, the invoice's preimage is %s", o["payment_preimage"], inv.Preimage)
		}
	}
	if o["state"] != wantState {
		m.fail("melt_state|want="+wantState, "got %v", o["state"])
	}
	switch variant {
	case "paid", "paid_after_error":
		m.w.AcceptInputs("melt", inputs, world.Spent, -1)
		// melting again on the paid quote
		r2 := m.do("POST", "/v1/melt/bolt11", obj(kv{"quote", qid}, kv{"inputs", inJSON}))
		m.checkRefusal(r2, "melt_paid_quote", 20006)
		// quote state
		r3 := m.do("GET", "/v1/melt/quote/bolt11/"+qid, nil)
		if o3 := m.checkMeltQuote(r3, "melt_quote_state"); o3 != nil && o3["state"] != "PAID" {
			m.fail("paid_melt_quote_state", "%v", o3)
		}
	case "pending":
		m.w.AcceptInputs("melt", inputs, world.Pending, -1)
		m.pending = append(m.pending, pendingMelt{qid: qid, hash: inv.Hash, inputs: inputs})
		r2 := m.do("POST", "/v1/melt/bolt11", obj(kv{"quote", qid}, kv{"inputs", inJSON}))
		m.checkRefusal(r2, "melt_pending_quote", 20005)
		// swapping pending inputs
		o2 := m.w.MakeOutputs(world.Split(total-fee), m.w.ActiveID)
		r3 := m.do("POST", "/v1/swap", obj(kv{"inputs", inJSON}, kv{"outputs", outsJSON(o2)}))
		m.checkRefusal(r3, "swap_pending_input", 11001)
	}
	m.w.TakeFlags()
}

func (m *mach) opReads(t *rapid.T) {
	// keys, keysets, info, checkstate, restore
	r := m.do("GET", "/v1/keysets", nil)
	o := m.parse(r, "keysets")
	if o != nil {
		ks, ok := o["keysets"].([]any)
		if !ok {
			m.fail("shape|keysets|not_array", "%s", r.Body)
		}
		active := 0
		for _, k := range ks {
			ko, _ := k.(map[string]any)
			m.need(ko, "keysets", "id", func(v any) bool { return matches(v, hex16) })
			m.need(ko, "keysets", "unit", func(v any) bool { return strIn(v, "sat") })
			m.need(ko, "keysets", "active", isBool)
			m.need(ko, "keysets", "input_fee_ppk", isNum)
			if ko["active"] == true {
				active++
			}
		}
		if active != 1 {
			m.fail("keysets_active_count", "%d", active)
		}
	}
	for _, path := range []string{"/v1/keys", "/v1/keys/" + m.w.KSOrder[rapid.IntRange(0, len(m.w.KSOrder)-1).Draw(t, "keyset_pick")]} {
		r = m.do("GET", path, nil)
		if r.Status != 200 {
			m.fail("keys_status|"+pathClass(path), "%d %s", r.Status, r.Body)
			continue
		}
		o = m.parse(r, "keys")
		if o == nil {
			continue
		}
		ks, _ := o["keysets"].([]any)
		if len(ks) != 1 {
			m.fail("shape|keys|keysets_len", "%s", trunc(r.Body))
			continue
		}
		ko, _ := ks[0].(map[string]any)
		m.need(ko, "keys", "id", func(v any) bool { return matches(v, hex16) })
		m.need(ko, "keys", "unit", func(v any) bool { return strIn(v, "sat") })
		keys, _ := ko["keys"].(map[string]any)
		if len(keys) != 60 {
			m.fail("shape|keys|not_60_keys", "%d", len(keys))
		}
		for a, v := range keys {
			if !matches(v, hex66) {
				m.fail("shape|keys|bad_key", "%s=%v", a, v)
			}
		}
		// ascending order of the amounts in the raw bytes
		if err := keysAscending(r.Body); err != nil {
			m.fail("shape|keys|not_sorted", "%v", err)
		}
	}
	r = m.do("GET", "/v1/keys/00ffffffffffffff", nil)
	m.checkRefusal(r, "keys_unknown_keyset", 12001)
	r = m.do("GET", "/v1/info", nil)
	if o = m.parse(r, "info"); o != nil {
		m.need(o, "info", "name", isStr)
		m.need(o, "info", "pubkey", func(v any) bool { return matches(v, hex66) })
		m.need(o, "info", "version", isStr)
		nuts, _ := o["nuts"].(map[string]any)
		for _, n := range []string{"4", "5", "7", "9", "10", "11", "12", "14", "20"} {
			if _, ok := nuts[n]; !ok {
				m.fail("shape|info|missing_nut_"+n, "%v", nuts)
			}
		}
		if n4, ok := nuts["4"].(map[string]any); ok {
			m.need(n4, "info.nuts.4", "disabled", isBool)
			if _, ok := n4["methods"].([]any); !ok {
				m.fail("shape|info|nut4_methods", "%v", n4)
			}
		}
	}
	// checkstate: echo, order, states as strings
	var ys []string
	want := map[string]string{}
	for i, s := range m.w.M.Order {
		if i >= 6 {
			break
		}
		p := m.w.M.Proofs[s]
		ys = append(ys, p.Y)
		want[p.Y] = p.State.String()
	}
	if len(ys) > 0 {
		r = m.do("POST", "/v1/checkstate", obj(kv{"Ys", ys}))
		if r.Status != 200 {
			m.fail("checkstate_status", "%d %s", r.Status, r.Body)
		} else if o = m.parse(r, "checkstate"); o != nil {
			st, _ := o["states"].([]any)
			if len(st) != len(ys) {
				m.fail("shape|checkstate|length", "%d vs %d", len(st), len(ys))
			}
			for i, s := range st {
				so, _ := s.(map[string]any)
				m.need(so, "checkstate", "Y", func(v any) bool { return i < len(ys) && v == ys[i] })
				m.need(so, "checkstate", "state", func(v any) bool { return strIn(v, "UNSPENT", "PENDING", "SPENT") })
				if i < len(ys) && so["state"] != want[ys[i]] {
					m.fail("checkstate_state_differs", "Y %d: %v want %s", i, so["state"], want[ys[i]])
				}
			}
			rec.NonTrivial("checkstate_ok")
		}
	}
	// restore
	if len(m.w.M.SignedOrder) > 0 {
		b := m.w.M.SignedOrder[len(m.w.M.SignedOrder)-1]
		sr := m.w.M.Signed[b]
		fresh := m.w.MakeOutputs([]uint64{1}, m.w.ActiveID)
		r = m.do("POST", "/v1/restore", obj(kv{"outputs", arr(obj(kv{"amount", sr.Amount}, kv{"id", sr.Keyset}, kv{"B_", b}), outJSON(fresh[0]))}))
		if r.Status != 200 {
			m.fail("restore_status", "%d %s", r.Status, r.Body)
		} else if o = m.parse(r, "restore"); o != nil {
			outs, ok1 := o["outputs"].([]any)
			sigs, ok2 := o["signatures"].([]any)
			if !ok1 || !ok2 || len(outs) != len(sigs) || len(sigs) != 1 {
				m.fail("shape|restore|lengths", "%s", trunc(r.Body))
			} else {
				so, _ := sigs[0].(map[string]any)
				if so["C_"] != sr.C_ {
					m.fail("restore_signature_differs", "%v vs %s", so["C_"], sr.C_)
				}
			}
			rec.NonTrivial("restore_ok")
		}
	}
	// empty results: a list-valued member is a JSON array also when there is nothing to list
	emptyList := func(what string, r httpx.Response, members ...string) {
		if r.Status != 200 {
			return // refusing the degenerate request is fine (judged elsewhere); a 200 must have the shape
		}
		o := m.parse(r, what)
		if o == nil {
			return
		}
		for _, k := range members {
			if l, ok := o[k].([]any); !ok || len(l) != 0 {
				m.fail("shape|"+what+"|empty_list_not_array|"+k, "%s", trunc(r.Body))
			}
		}
		rec.Class("empty_result_" + what)
		rec.NonTrivial("empty_result|" + what)
	}
	switch rapid.IntRange(0, 3).Draw(t, "empty_result") {
	case 0:
		fresh := m.w.MakeOutputs([]uint64{1, 2}, m.w.ActiveID)
		emptyList("restore_nothing_signed", m.do("POST", "/v1/restore", obj(kv{"outputs", arr(outJSON(fresh[0]), outJSON(fresh[1]))})), "outputs", "signatures")
	case 1:
		emptyList("restore_no_outputs", m.do("POST", "/v1/restore", obj(kv{"outputs", arr()})), "outputs", "signatures")
	case 2:
		emptyList("checkstate_no_ys", m.do("POST", "/v1/checkstate", obj(kv{"Ys", []string{}})), "states")
	}
}

func keysAscending(body []byte) error {
	i := bytes.Index(body, []byte(`"keys":{`))
	if i < 0 {
		return errors.New("no keys object")
	}
	re := regexp.MustCompile(`"(\d+)":"0[23]`)
	var prev uint64
	first := true
	for _, mm := range re.FindAllSubmatch(body[i:], -1) {
		var v uint64
		fmt.Sscan(string(mm[1]), &v)
		if !first && v <= prev {
			return fmt.Errorf("amount %d after %d", v, prev)
		}
		prev, first = v, false
	}
	return nil
}

// calls made by the current goroutine (the request being served in-process); the mint's background watcher
// goroutines are not part of a request
func (m *mach) ownCalls() (int, int) {
	me := dbproxy.Gid()
	db := 0
	for _, c := range m.w.DB.Log() {
		if c.Gid == me {
			db++
		}
	}
	ln := 0
	for _, c := range m.w.LN.Log() {
		if c.Method != "SubscribeInvoice" {
			ln++
		}
	}
	return db, ln
}

// cache: identical replay -> identical bytes and no storage / LN call; near replays execute
func (m *mach) opCache(t *rapid.T) {
	if len(m.cached) == 0 {
		return
	}
	c := m.cached[rapid.IntRange(0, len(m.cached)-1).Draw(t, "cache_pick")]
	dbFrom, lnFrom := m.ownCalls()
	r := m.do("POST", c.path, c.body)
	if r.Status != 200 || !bytes.Equal(r.Body, c.resp) {
		m.fail("cache_replay_differs|"+c.path, "status %d body %s want %s", r.Status, trunc(r.Body), trunc(c.resp))
	}
	if db, ln := m.ownCalls(); db != dbFrom || ln != lnFrom {
		m.fail("cache_replay_executed|"+c.path, "%d storage and %d LN calls during an identical replay", db-dbFrom, ln-lnFrom)
	}
	rec.NonTrivial("cache_hit|" + c.path)
	rec.Class("cache_identical_replay")
	near := rapid.SampledFrom([]string{"trailing_space", "query_string", "other_path", "method_get", "reordered_keys", "digit_changed", "witness_added", "amount_changed"}).Draw(t, "near_replay")
	body, path, method := c.body, c.path, "POST"
	switch near {
	case "trailing_space":
		body = append(append([]byte{}, c.body...), ' ')
	case "query_string":
		path = c.path + "?x=1"
	case "other_path":
		if c.path == "/v1/swap" {
			path = "/v1/mint/bolt11"
		} else {
			path = "/v1/swap"
		}
	case "method_get":
		method = "GET"
	case "reordered_keys":
		var o map[string]json.RawMessage
		json.Unmarshal(c.body, &o)
		keys := make([]string, 0, len(o))
		for k := range o {
			keys = append(keys, k)
		}
		sort.Sort(sort.Reverse(sort.StringSlice(keys)))
		var pairs []kv
		for _, k := range keys {
			pairs = append(pairs, kv{k, o[k]})
		}
		body = obj(pairs...)
		if bytes.Equal(body, c.body) {
			return
		}
	case "witness_added":
		// the same inputs and outputs, but an input (swap) / output (mint) carries a witness it did not carry before
		i := bytes.Index(c.body, []byte(`"C":"`))
		if c.path != "/v1/swap" {
			i = bytes.Index(c.body, []byte(`"B_":"`))
		}
		if i < 0 {
			return
		}
		body = append(append(append([]byte{}, c.body[:i]...), []byte(`"witness":"{\"signatures\":[\"00\"]}",`)...), c.body[i:]...)
	case "amount_changed":
		// the amount of the first output is another one: other signatures would be due
		i := bytes.Index(c.body, []byte(`"outputs":[{"amount":`))
		if i < 0 {
			return
		}
		j := i + len(`"outputs":[{"amount":`)
		body = append(append(append([]byte{}, c.body[:j]...), '1'), c.body[j:]...)
	case "digit_changed":
		body = append([]byte{}, c.body...)
		i := bytes.Index(body, []byte(`"B_":"0`))
		if i < 0 {
			return
		}
		j := i + 20
		if body[j] == 'a' {
			body[j] = 'b'
		} else {
			body[j] = 'a'
		}
	}
	dbFrom, lnFrom = m.ownCalls()
	r = m.do(method, path, body)
	m.logf("near replay %s of %s -> %d %s", near, c.path, r.Status, trunc(r.Body))
	rec.Class("cache_near_replay_" + near)
	rec.NonTrivial("near|" + near + "|" + c.path)
	if bytes.Equal(r.Body, c.resp) && r.Status == 200 {
		m.fail("near_replay_served_from_cache|"+near, "%s %s", method, path)
	}
	switch near {
	case "method_get":
		if r.Status == 200 {
			m.fail("near_replay_get_succeeded", "%s", trunc(r.Body))
		}
	case "trailing_space", "query_string", "reordered_keys":
		// same request semantically: it executes and is refused on its own merits (outputs already signed / proofs spent)
		if db, _ := m.ownCalls(); db == dbFrom {
			m.fail("near_replay_not_executed|"+near, "no storage call")
		}
		if r.Status == 200 {
			m.fail("near_replay_succeeded|"+near, "%s", trunc(r.Body))
		} else {
			m.checkRefusal(r, "near_replay_"+near, 0)
		}
	default:
		if r.Status == 200 {
			m.fail("near_replay_succeeded|"+near, "%s", trunc(r.Body))
		}
	}
}

// faults: storage / LN failures are reported generically without internal detail
func (m *mach) opFault(t *rapid.T) {
	sp := m.unspent()
	if len(sp) == 0 {
		m.fund(rapid.Uint64Range(8, 300).Draw(t, "fund"))
		return
	}
	endpoint := rapid.SampledFrom([]string{"swap", "mint_quote", "mint", "melt_quote", "checkstate", "restore", "quote_state", "info", "melt", "melt_internal", "checkstate_pending", "checkstate_pending", "melt_quote_state_pending"}).Draw(t, "fault_endpoint")
	if strings.HasSuffix(endpoint, "_pending") && len(m.pending) == 0 {
		endpoint = "checkstate"
	}
	var pm *pendingMelt
	k := rapid.IntRange(0, 7).Draw(t, "fault_at")
	from := rapid.Bool().Draw(t, "fault_from")
	lnFault := rapid.IntRange(0, 4).Draw(t, "fault_ln") == 0
	n := 0
	failing := false
	fired := false
	m.w.DB.Hook = func(c *dbproxy.Call) error {
		if lnFault {
			return nil
		}
		if failing || n == k {
			n++
			fired = true
			if from {
				failing = true
			}
			return errors.New("MARKER-STORAGE-FAULT /var/lib/mint/mint.sqlite.db: disk I/O error")
		}
		n++
		return nil
	}
	if lnFault {
		m.w.LN.CreateInvoiceErr, m.w.LN.InvoiceStatusErr = true, true
	}
	defer func() {
		m.w.DB.Hook = nil
		m.w.LN.CreateInvoiceErr, m.w.LN.InvoiceStatusErr = false, false
	}()
	var r httpx.Response
	var inputs cashu.Proofs
	var outs []world.Out
	var mq *world.MMintQuote
	switch endpoint {
	case "swap":
		inputs = sp[:1].Proofs()
		fee := m.w.FeeFor(inputs)
		if inputs[0].Amount <= fee {
			return
		}
		outs = m.w.MakeOutputs(world.Split(inputs[0].Amount-fee), m.w.ActiveID)
		r = m.do("POST", "/v1/swap", obj(kv{"inputs", proofsJSON(inputs)}, kv{"outputs", outsJSON(outs)}))
	case "mint_quote":
		r = m.do("POST", "/v1/mint/quote/bolt11", obj(kv{"amount", 9}, kv{"unit", "sat"}))
	case "mint":
		m.w.DB.Hook = nil
		q, err := m.w.RequestMintQuote(4, nil)
		if err != nil {
			return
		}
		m.w.PayInvoice(q)
		mq = q
		m.w.DB.Hook = func(c *dbproxy.Call) error {
			if lnFault {
				return nil
			}
			if failing || n == k {
				n++
				fired = true
				if from {
					failing = true
				}
				return errors.New("MARKER-STORAGE-FAULT /var/lib/mint/mint.sqlite.db: disk I/O error")
			}
			n++
			return nil
		}
		outs = m.w.MakeOutputs([]uint64{4}, m.w.ActiveID)
		r = m.do("POST", "/v1/mint/bolt11", obj(kv{"quote", q.ID}, kv{"outputs", outsJSON(outs)}))
	case "melt_quote":
		inv := m.w.Net.ExternalInvoice(3000)
		r = m.do("POST", "/v1/melt/quote/bolt11", obj(kv{"request", inv.Request}, kv{"unit", "sat"}))
	case "checkstate":
		r = m.do("POST", "/v1/checkstate", obj(kv{"Ys", []string{sp[0].Y}}))
	case "checkstate_pending", "melt_quote_state_pending":
		// the request walks into the resolution of an in-flight melt (nested quote-state check: LN lookup, then up
		// to four storage writes) - with the payment still in flight, just succeeded or just failed
		i := rapid.IntRange(0, len(m.pending)-1).Draw(t, "fault_pending_melt")
		pm = &m.pending[i]
		resolution := rapid.SampledFrom([]string{"inflight", "succeeded", "succeeded", "failed"}).Draw(t, "fault_pending_resolution")
		if resolution != "inflight" {
			m.w.LN.Resolve(pm.hash, resolution == "succeeded")
		}
		inputs = pm.inputs
		rec.Class("fault_on_pending_melt_" + resolution)
		if endpoint == "checkstate_pending" {
			var ys []string
			for _, in := range pm.inputs {
				_, y := world.Y(in.Secret)
				ys = append(ys, y)
			}
			r = m.do("POST", "/v1/checkstate", obj(kv{"Ys", ys}))
		} else {
			r = m.do("GET", "/v1/melt/quote/bolt11/"+pm.qid, nil)
		}
	case "restore":
		if len(m.w.M.SignedOrder) == 0 {
			return
		}
		r = m.do("POST", "/v1/restore", obj(kv{"outputs", arr(obj(kv{"amount", 1}, kv{"id", m.w.ActiveID}, kv{"B_", m.w.M.SignedOrder[0]}))}))
	case "quote_state":
		if len(m.w.M.MintQuotes) == 0 {
			return
		}
		r = m.do("GET", "/v1/mint/quote/bolt11/"+m.w.M.MintQuotes[0].ID, nil)
	case "info":
		r = m.do("GET", "/v1/info", nil)
	case "melt_internal":
		// a melt of one of this mint's own invoices: settled between the two quotes, with one Lightning lookup (the
		// preimage) and writes to both quotes on the way
		inputs = sp[:1].Proofs()
		fee := m.w.FeeFor(inputs)
		if inputs[0].Amount <= fee {
			return
		}
		m.w.DB.Hook = nil
		m.w.LN.CreateInvoiceErr, m.w.LN.InvoiceStatusErr = false, false
		own, err := m.w.RequestMintQuote(inputs[0].Amount-fee, nil)
		if err != nil {
			return
		}
		q, err := m.w.RequestMeltQuote(own.Request, 0)
		if err != nil {
			return
		}
		if lnFault {
			m.w.LN.InvoiceStatusErr = true
		}
		m.w.DB.Hook = func(c *dbproxy.Call) error {
			if lnFault {
				return nil
			}
			if failing || n == k {
				n++
				fired = true
				if from {
					failing = true
				}
				return errors.New("MARKER-STORAGE-FAULT /var/lib/mint/mint.sqlite.db: disk I/O error")
			}
			n++
			return nil
		}
		r = m.do("POST", "/v1/melt/bolt11", obj(kv{"quote", q.ID}, kv{"inputs", proofsJSON(inputs)}))
		m.w.DB.Hook = nil
		m.w.LN.InvoiceStatusErr = false
		// whatever the fault left half done (when the lookup of the mint quote itself fails the mint pays its own invoice
		// over Lightning and the inputs stay pending until a poll finds the payment): let the mint finish it on a working
		// storage before the model re-reads the inputs
		m.w.Mint.GetMeltQuoteState(ctxBg(), q.ID)
		m.w.PollMeltQuote(q)
		m.w.PollMintQuote(own)
	case "melt":
		inputs = sp[:1].Proofs()
		fee := m.w.FeeFor(inputs)
		if inputs[0].Amount <= fee+1 {
			return
		}
		m.w.DB.Hook = nil
		amt := inputs[0].Amount - fee
		for amt > 0 && amt+m.w.LN.FeeFor(amt)+fee > inputs[0].Amount {
			amt--
		}
		if amt == 0 {
			return
		}
		inv := m.w.Net.ExternalInvoice(amt * 1000)
		q, err := m.w.RequestMeltQuote(inv.Request, 0)
		if err != nil {
			return
		}
		m.w.DB.Hook = func(c *dbproxy.Call) error {
			if lnFault {
				return nil
			}
			if failing || n == k {
				n++
				fired = true
				if from {
					failing = true
				}
				return errors.New("MARKER-STORAGE-FAULT /var/lib/mint/mint.sqlite.db: disk I/O error")
			}
			n++
			return nil
		}
		m.w.LN.PayScript = []lnmodel.PayAnswer{lnmodel.PayError}
		r = m.do("POST", "/v1/melt/bolt11", obj(kv{"quote", q.ID}, kv{"inputs", proofsJSON(inputs)}))
		m.w.LN.PayScript = nil
	}
	m.w.DB.Hook = nil
	m.logf("fault at %s (storage call %d, from=%v, ln=%v, fired=%v) -> %d %s", endpoint, k, from, lnFault, fired, r.Status, trunc(r.Body))
	rec.Class("fault_" + endpoint)
	if bytes.Contains(r.Body, []byte("MARKER")) || bytes.Contains(r.Body, []byte("sqlite")) || bytes.Contains(r.Body, []byte("lnmodel")) {
		m.fail("internal_detail_leaked|"+endpoint, "body %s", r.Body)
	}
	if fired || lnFault {
		rec.NonTrivial(fmt.Sprintf("fault|%s|%d|%v|%v", endpoint, k, from, lnFault))
	}
	if r.Status != 200 {
		if r.Status != 400 {
			m.fail("fault_status|"+endpoint, "status %d", r.Status)
		}
		o := m.parse(r, "fault_"+endpoint)
		if o != nil && (len(o) != 2 || !isStr(o["detail"]) || !isNum(o["code"])) {
			m.fail(fmt.Sprintf("fault_response_shape|%s|storage_call=%d|from=%v", endpoint, k, from), "body %s", r.Body)
		} else if o != nil && fired && int(o["code"].(float64)) == 10000 && o["detail"] != genericDetail && endpoint != "melt" && endpoint != "melt_internal" {
			// a storage failure must be reported with the generic detail
			m.fail("fault_not_generic|"+endpoint, "body %s", r.Body)
		}
	}
	// resynchronise the model with whatever the faulted request did
	if len(inputs) > 0 {
		m.w.ResyncProofStates(inputs, nil)
	}
	if pm != nil {
		// let the mint finish what the fault interrupted, then drop the melt from the in-flight list if it is settled
		m.w.Mint.GetMeltQuoteState(ctxBg(), pm.qid)
		m.w.ResyncProofStates(pm.inputs, nil)
		if mp := m.w.M.Proofs[pm.inputs[0].Secret]; mp == nil || mp.State != world.Pending {
			for i := range m.pending {
				if m.pending[i].qid == pm.qid {
					m.pending = append(m.pending[:i], m.pending[i+1:]...)
					break
				}
			}
		}
	}
	if r.Status == 200 && (endpoint == "swap" || endpoint == "mint") {
		if endpoint == "swap" {
			for _, in := range inputs {
				if mp := m.w.M.Proofs[in.Secret]; mp != nil {
					mp.State = world.Unspent
				}
			}
			m.w.AcceptInputs("swap", inputs, world.Spent, -1)
		}
		m.applySigs(endpoint, outs, r.Body)
	}
	_ = mq
	m.w.TakeFlags()
}

func propSurface(t *rapid.T) {
	cfg := world.Config{
		FeePpk:     rapid.SampledFrom([]uint{0, 100, 1000}).Draw(t, "fee"),
		FeeMode:    lnmodel.FeeMode(rapid.IntRange(0, 1).Draw(t, "fee_mode")),
		SeedIdx:    rapid.IntRange(0, 5).Draw(t, "mint_seed"),
		CaseSeed:   rapid.Uint64().Draw(t, "case_seed"),
		WithServer: true,
		Limits:     mint.MintLimits{MintingSettings: mint.MintMethodSettings{MaxAmount: 1_000_000}, MeltingSettings: mint.MeltMethodSettings{MaxAmount: 1_000_000}},
	}
	w := world.New(t, cfg)
	defer w.Close()
	m := &mach{t: t, w: w, count: map[string]int{}}
	m.fund(rapid.Uint64Range(16, 500).Draw(t, "first_fund"))
	t.Repeat(map[string]func(*rapid.T){
		"fund":  func(t *rapid.T) { m.t = t; m.fund(rapid.Uint64Range(1, 500).Draw(t, "fund")) },
		"swap":  func(t *rapid.T) { m.t = t; m.opSwap(t) },
		"swap2": func(t *rapid.T) { m.t = t; m.opSwap(t) },
		"mintx": func(t *rapid.T) { m.t = t; m.opMintRefusals(t) },
		"lockx": func(t *rapid.T) { m.t = t; m.opLockRefusals(t) },
		"melt":  func(t *rapid.T) { m.t = t; m.opMelt(t) },
		"reads": func(t *rapid.T) { m.t = t; m.opReads(t) },
		"cache": func(t *rapid.T) { m.t = t; m.opCache(t) },
		"fault": func(t *rapid.T) { m.t = t; m.opFault(t) },
		"rotate": func(t *rapid.T) {
			m.t = t
			if len(w.KSOrder) < 3 {
				w.Mint.RotateKeyset(rapid.SampledFrom([]uint{0, 100}).Draw(t, "rot_fee"))
				w.RefreshKeysets()
				m.logf("rotate")
			}
		},
	})
	rec.Sample("history", map[string]any{"trace": m.trace})
}

func TestSurface(t *testing.T) { rapid.Check(t, propSurface) }

func ctxBg() context.Context { return context.Background() }
