package c20

import (
	"encoding/json"
	"fmt"
	"net/http/httptest"
	"runtime"
	"strings"
	"testing"
	"time"

	"github.com/gorilla/websocket"
	"pgregory.net/rapid"

	"verif/harness/lnmodel"
	"verif/harness/rec"
	"verif/harness/world"
)

// The websocket endpoint (NUT-17) carries the same objects as the HTTP endpoints: a subscriber to a mint quote is
// told its state when it subscribes and at every change - as the NUT-04 quote object with a *string* state. One quote
// is taken through UNPAID -> PAID -> ISSUED over HTTP while a websocket client (real connection, hand-parsed JSON)
// is subscribed from a drawn point on; every frame the mint sends is checked for its shape.
func wsSenders() int {
	buf := make([]byte, 1<<20)
	buf = buf[:runtime.Stack(buf, true)]
	return strings.Count(string(buf), "mint.listenForSubscriptionUpdates(") + strings.Count(string(buf), "subscriptionRequest.func1(")
}

func propWebsocket(t *rapid.T) {
	w := world.New(t, world.Config{CaseSeed: rapid.Uint64().Draw(t, "case_seed"), FeeMode: lnmodel.FeeZero, WithServer: true,
		SeedIdx: rapid.IntRange(0, 5).Draw(t, "mint_seed")})
	defer w.Close()
	srv := httptest.NewServer(w.Handler())
	defer srv.Close()
	subscribeAt := rapid.SampledFrom([]string{"unpaid", "unpaid", "paid"}).Draw(t, "subscribe_at")
	amount := rapid.Uint64Range(1, 500).Draw(t, "amount")
	m := &mach{t: t, w: w, count: map[string]int{}}
	r, qid, request := m.mintQuote(amount)
	if r.Status != 200 {
		t.Fatalf("setup: mint quote refused: %d %s", r.Status, r.Body)
	}
	c, _, err := websocket.DefaultDialer.Dial("ws"+strings.TrimPrefix(srv.URL, "http")+"/v1/ws", nil)
	if err != nil {
		t.Fatalf("setup: websocket dial: %v", err)
	}
	frames := make(chan []byte, 64)
	go func() {
		defer close(frames)
		for {
			_, msg, err := c.ReadMessage()
			if err != nil {
				return
			}
			frames <- msg
		}
	}()
	var states []string
	acked := map[int]bool{}
	bad := ""
	handle := func(msg []byte) {
		rec.Eval()
		var o map[string]any
		if json.Unmarshal(msg, &o) != nil || o["jsonrpc"] != "2.0" {
			bad = fmt.Sprintf("frame_not_jsonrpc: %.200s", msg)
			return
		}
		if id, ok := o["id"].(float64); ok {
			if _, isErr := o["error"]; isErr {
				bad = fmt.Sprintf("request_refused: %.200s", msg)
			}
			res, _ := o["result"].(map[string]any)
			if _, isErr := o["error"]; !isErr && (res == nil || res["status"] != "OK" || !isStr(res["subId"])) {
				bad = fmt.Sprintf("response_shape: %.200s", msg)
			}
			acked[int(id)] = true
			return
		}
		p, _ := o["params"].(map[string]any)
		pl, _ := p["payload"].(map[string]any)
		if o["method"] != "subscribe" || p == nil || p["subId"] != "sub-1" || pl == nil {
			bad = fmt.Sprintf("notification_shape: %.300s", msg)
			return
		}
		if pl["quote"] != qid || pl["request"] != request || !isNum(pl["expiry"]) {
			bad = fmt.Sprintf("notification_payload_not_the_quote: %.300s", msg)
			return
		}
		if !strIn(pl["state"], "UNPAID", "PAID", "ISSUED") {
			bad = fmt.Sprintf("notification_state_not_a_nut04_string|state=%v: %.300s", pl["state"], msg)
			return
		}
		states = append(states, pl["state"].(string))
		rec.Class("ws_notification_state=" + pl["state"].(string))
	}
	// collect frames until want() holds or the time is up
	collect := func(want func() bool, d time.Duration) bool {
		deadline := time.After(d)
		for !want() && bad == "" {
			select {
			case msg, ok := <-frames:
				if !ok {
					return false
				}
				handle(msg)
			case <-deadline:
				return want()
			}
		}
		return bad == ""
	}
	has := func(s string) func() bool {
		return func() bool {
			for _, x := range states {
				if x == s {
					return true
				}
			}
			return false
		}
	}
	subscribe := func() {
		b, _ := json.Marshal(map[string]any{"jsonrpc": "2.0", "method": "subscribe", "id": 1,
			"params": map[string]any{"kind": "bolt11_mint_quote", "subId": "sub-1", "filters": []string{qid}}})
		c.WriteMessage(websocket.TextMessage, b)
		collect(func() bool { return acked[1] && len(states) >= 1 }, 3*time.Second)
	}
	defer func() {
		b, _ := json.Marshal(map[string]any{"jsonrpc": "2.0", "method": "unsubscribe", "id": 100, "params": map[string]any{"subId": "sub-1"}})
		c.WriteMessage(websocket.TextMessage, b)
		deadline := time.After(2 * time.Second)
	drain:
		for !acked[100] {
			select {
			case msg, ok := <-frames:
				if !ok {
					break drain
				}
				var o struct {
					ID *int `json:"id"`
				}
				if json.Unmarshal(msg, &o) == nil && o.ID != nil {
					acked[*o.ID] = true
				}
			case <-deadline:
				break drain
			}
		}
		// closing while a server-side goroutine may still write to this client crashes the mint (DESIGN 10.2)
		for i := 0; i < 4000 && wsSenders() > 0; i++ {
			time.Sleep(250 * time.Microsecond)
		}
		c.Close()
	}()
	if subscribeAt == "unpaid" {
		subscribe()
	}
	// pay, and let the mint find out (quote poll over HTTP)
	w.Net.PayExternally(w.Net.InvoiceByRequest(request).Hash)
	m.do("GET", "/v1/mint/quote/bolt11/"+qid, nil)
	if subscribeAt == "paid" {
		subscribe()
	}
	okPaid := collect(has("PAID"), 3*time.Second)
	outs := w.MakeOutputs(world.Split(amount), w.ActiveID)
	if r := m.do("POST", "/v1/mint/bolt11", obj(kv{"quote", qid}, kv{"outputs", outsJSON(outs)})); r.Status != 200 {
		t.Fatalf("setup: mint refused: %d %s", r.Status, r.Body)
	}
	okIssued := collect(has("ISSUED"), 3*time.Second)
	if bad != "" {
		sig := "C20|ws|" + strings.SplitN(bad, ":", 2)[0]
		if !rec.IsKnown(sig) {
			t.Fatalf("VIOLATION %s: %s (subscribed at %s, states so far %v)", sig, bad, subscribeAt, states)
		}
		return
	}
	if !okPaid || !okIssued {
		// a notification that does not arrive in time is no verdict (delivery is asynchronous)
		rec.Inconclusive()
		rec.Class("ws_notification_not_seen_in_time")
		return
	}
	rec.NonTrivial(fmt.Sprintf("ws|%s|%v", subscribeAt, states))
	rec.Class("ws_subscribed_at=" + subscribeAt)
	rec.Sample("websocket", map[string]any{"subscribed_at": subscribeAt, "states_notified": states})
}

func TestWebsocket(t *testing.T) { rapid.Check(t, propWebsocket) }
