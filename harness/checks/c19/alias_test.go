package c19

import (
	"fmt"
	"strings"
	"testing"

	"pgregory.net/rapid"

	"verif/harness/rec"
	"verif/harness/whist"
)

// F38: a wallet that has met its own mint under a second name (here: the fully qualified spelling of the host, started
// with once) stored the keyset again with counter 0 and went on deriving outputs from counters it had used.
func TestMintMetUnderSecondName(t *testing.T) {
	rapid.Check(t, func(t *rapid.T) {
		m := whist.New(t, whist.Options{Weights: map[string]int{"mint": 1}, Owns: map[string]bool{"C19": true}, Wallets: 1, Mints: 1, Fees: []uint{0}})
		defer m.Close()
		h := m.Live()[0]
		if err := m.MintInto(h, h.Default, rapid.Uint64Range(1, 300).Draw(t, "first_mint")); err != nil {
			t.Fatalf("mint: %v", err)
		}
		m.Invariants("mint")
		aerr := m.E.RestartAs(h, h.Default+strings.Repeat(".", 1))
		if aerr != nil {
			t.Fatalf("start under the other spelling: %v", aerr)
		}
		if err := m.E.Restart(h); err != nil {
			t.Fatalf("restart: %v", err)
		}
		amt := rapid.Uint64Range(1, 200).Draw(t, "second_mint")
		if err := m.MintInto(h, h.Default, amt); err != nil {
			m.Fail("C19", "mint_fails_after_mint_was_met_under_second_name", "%v", err)
		}
		m.Invariants("mint")
		rec.Eval()
		rec.NonTrivial(fmt.Sprint("second_name|", amt))
	})
}
