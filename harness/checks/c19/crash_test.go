package c19

import (
	"encoding/json"
	"fmt"
	"os"
	"strconv"
	"testing"

	"github.com/elnosh/gonuts/cashu"
	"github.com/elnosh/gonuts/wallet"
	"pgregory.net/rapid"

	"verif/harness/dbproxy"
	"verif/harness/rec"
	"verif/harness/wenv"
	"verif/harness/whist"
	"verif/harness/world"
)

// Crash enumeration (C19 b): for mint / send (via swap) / receive / melt the un-faulted run lists the
// wallet's storage calls and HTTP exchanges; every position (storage: before the call; HTTP: before sending
// and after the mint processed the request but before the response is delivered) is crashed from an
// equivalent fresh state; then the mnemonic is restored into an empty directory and compared with the
// mint-side value of the seed's outputs.

type crashOp struct {
	name string
	run  func(t *rapid.T, m *whist.Machine, h, other *wenv.WalletH) error
}

var crashOps = []crashOp{
	{"mint", func(t *rapid.T, m *whist.Machine, h, other *wenv.WalletH) error { return m.MintInto(h, h.Default, 77) }},
	{"send_via_swap", func(t *rapid.T, m *whist.Machine, h, other *wenv.WalletH) error {
		_, err := h.W.Send(13, h.Default, true)
		return err
	}},
	{"receive", func(t *rapid.T, m *whist.Machine, h, other *wenv.WalletH) error {
		proofs, err := other.W.Send(21, other.Default, false)
		if err != nil {
			return err
		}
		tk := m.AddToken(other.Default, proofs, other.Name)
		dec, err := cashu.DecodeToken(tk.Str)
		if err != nil {
			return err
		}
		m.E.Cur = h.Name
		_, err = h.W.Receive(dec, false)
		return err
	}},
	{"melt", func(t *rapid.T, m *whist.Machine, h, other *wenv.WalletH) error {
		inv := m.E.Net.ExternalInvoice(30_000)
		q, err := h.W.RequestMeltQuote(inv.Request, h.Default)
		if err != nil {
			return err
		}
		_, err = h.W.Melt(q.Quote)
		return err
	}},
}

type crashResult struct {
	positions []string
	crashedAt string
	got, want uint64
	err       error
}

// runCrash executes op with a crash at position k (k < 0: no crash) and then restores.
func runCrash(t *rapid.T, op crashOp, k int, fee uint) crashResult {
	m := whist.New(t, whist.Options{Weights: map[string]int{"mint": 1}, Owns: map[string]bool{}, Wallets: 2, Mints: 1, Fees: []uint{fee}})
	defer m.Close()
	h, other := m.Live()[0], m.Live()[1]
	if err := m.MintInto(h, h.Default, 300); err != nil {
		t.Fatalf("setup: %v", err)
	}
	if err := m.MintInto(other, other.Default, 200); err != nil {
		t.Fatalf("setup: %v", err)
	}
	var res crashResult
	gid := dbproxy.Gid()
	n := 0
	armed := true
	at := func(pos string) {
		if !armed || dbproxy.Gid() != gid {
			return
		}
		res.positions = append(res.positions, pos)
		if n == k {
			armed = false
			res.crashedAt = pos
			panic(dbproxy.Crash{At: pos})
		}
		n++
	}
	occ := map[string]int{}
	h.Hook = func(c *dbproxy.Call) error {
		if m.E.Cur != h.Name {
			return nil
		}
		occ[c.Method]++
		at(fmt.Sprintf("S.%s#%d", c.Method, occ[c.Method]))
		return nil
	}
	h.Proxy.Hook = h.Hook
	m.E.HTTPHook = func(phase string, r *wenv.Req) {
		if r.Wallet != h.Name {
			return
		}
		key := r.Method + " " + pathClass(r.Path) + ":" + phase
		occ[key]++
		at(fmt.Sprintf("H.%s#%d", key, occ[key]))
	}
	crashed := false
	func() {
		defer func() {
			if p := recover(); p != nil {
				if _, ok := p.(dbproxy.Crash); ok {
					crashed = true
					return
				}
				panic(p)
			}
		}()
		m.E.Cur = h.Name
		res.err = op.run(t, m, h, other)
	}()
	armed = false
	m.E.HTTPHook = nil
	h.Proxy.Hook = nil
	_ = crashed
	// the process is gone; restore the seed elsewhere
	want, _, err := m.ExpectedRestorable(h, []string{h.Default})
	if err != nil {
		t.Fatalf("expected: %v", err)
	}
	res.want = want
	dir, _ := os.MkdirTemp(world.ScratchBase(), "crashrestore")
	os.Remove(dir)
	defer os.RemoveAll(dir)
	m.E.Cur = "restore"
	if _, err := wallet.Restore(dir, h.Mnemonic, []string{h.Default}); err != nil {
		res.err = fmt.Errorf("restore: %v", err)
		return res
	}
	nh, err := m.E.Adopt("restored", dir, h.Default)
	if err != nil {
		res.err = fmt.Errorf("load restored: %v", err)
		return res
	}
	res.got = nh.W.GetBalance() + nh.W.PendingBalance()
	return res
}

func pathClass(p string) string {
	n := 0
	for i, c := range p {
		if c == '/' {
			n++
			if n == 5 {
				return p[:i] + "/{id}"
			}
		}
	}
	return p
}

func propCrash(t *rapid.T) {
	shard, _ := strconv.Atoi(os.Getenv("VERIF_SHARD"))
	ns, _ := strconv.Atoi(os.Getenv("VERIF_NSHARDS"))
	if ns == 0 {
		ns = 1
	}
	fee := uint(100)
	unit := 0
	for _, op := range crashOps {
		base := runCrash(t, op, -1, fee)
		if base.err != nil {
			t.Fatalf("un-faulted %s failed: %v", op.name, base.err)
		}
		if shard == 0 {
			rec.Sample("crash_positions_"+op.name, base.positions)
		}
		for k := 0; k < len(base.positions); k++ {
			unit++
			if unit%ns != shard {
				continue
			}
			r := runCrash(t, op, k, fee)
			rec.Eval()
			rec.NonTrivial(fmt.Sprintf("crash|%s|%d|%s", op.name, k, r.crashedAt))
			rec.Class("crash_op=" + op.name)
			if r.crashedAt == "" {
				continue
			}
			if r.got != r.want {
				sig := fmt.Sprintf("C19|crash|op=%s|before=%s|restored_differs", op.name, r.crashedAt)
				if !rec.IsKnown(sig) {
					rec.Violate(sig, fmt.Sprintf("restored %d, mint-side unspent+pending of the seed's outputs %d", r.got, r.want), map[string]any{"op": op.name, "k": k})
					t.Errorf("VIOLATION %s: restored %d, mint-side value %d (restore err %v)", sig, r.got, r.want, r.err)
				}
			}
		}
	}
	if shard == 0 {
		rec.Exhaustive("wallet crash positions of mint / send / receive / melt", unit)
	}
}

// driven through rapid only to obtain a *rapid.T for the wallet machine; the enumeration itself is deterministic
func TestCrash(t *testing.T) {
	rapid.Check(t, propCrash)
}

// TestReplay re-runs one crash position (VERIF_REPLAY=<case json> with {"op":..., "k":...}).
func TestReplay(t *testing.T) {
	path := os.Getenv("VERIF_REPLAY")
	if path == "" {
		t.Skip("no VERIF_REPLAY")
	}
	raw, err := os.ReadFile(path)
	if err != nil {
		t.Fatal(err)
	}
	var doc struct {
		Replay struct {
			Op string `json:"op"`
			K  int    `json:"k"`
		} `json:"replay"`
	}
	if err := json.Unmarshal(raw, &doc); err != nil {
		t.Fatal(err)
	}
	rapid.Check(t, func(rt *rapid.T) {
		for _, op := range crashOps {
			if op.name == doc.Replay.Op {
				r := runCrash(rt, op, doc.Replay.K, 100)
				if r.got != r.want {
					sig := fmt.Sprintf("C19|crash|op=%s|before=%s|restored_differs", op.name, r.crashedAt)
					if !rec.IsKnown(sig) {
						rt.Fatalf("VIOLATION %s: restored %d, mint-side value %d", sig, r.got, r.want)
					}
				}
			}
		}
	})
}
