// C19 — seed backup is complete: no counter is reused and restore recovers all funds.
package c19

import (
	"os"
	"strings"
	"testing"

	"pgregory.net/rapid"

	"verif/harness/rec"
	"verif/harness/whist"
)

func TestMain(m *testing.M) {
	code := m.Run()
	rec.Flush()
	os.Exit(code)
}

func weights() map[string]int {
	w := map[string]int{}
	for k, v := range whist.DefaultWeights {
		w[k] = v
	}
	w["restore"] = 3
	w["churn"] = 6
	w["mint"] = 5
	w["rotate"] = 3
	return w
}

func propHistory(t *rapid.T) {
	m := whist.New(t, whist.Options{
		Weights: weights(),
		Owns:    map[string]bool{"C19": true},
		Wallets: 2,
		Mints:   rapid.IntRange(1, 2).Draw(t, "mints"),
		// outputs that cover fees consume counters too: most histories run against fee-charging mints
		Fees: []uint{0, 100, 100, 1000},
	})
	defer m.Close()
	rec.Eval()
	t.Repeat(map[string]func(*rapid.T){"step": m.Step})
	if m.Count["outputs_signed"] > 0 {
		rec.NonTrivial(strings.Join(m.Trace, "|"))
		for _, k := range []string{"restore", "restore_of_restored", "restore_over_300_outputs", "churn", "rotation", "reclaim", "melt_paid", "melt_pending", "receive_cross_mint", "send_p2pk", "send_htlc"} {
			if m.Count[k] > 0 {
				rec.Class("history_with_" + k)
			}
		}
		rec.ClassN("outputs_signed", m.Count["outputs_signed"])
		rec.ClassN("restores", m.Count["restore"])
		if m.Count["restore"] > 0 {
			rec.Sample("history", map[string]any{"trace": m.Trace})
		}
	}
}

func TestHistory(t *testing.T) { rapid.Check(t, propHistory) }

// Deep restore chains: one wallet drives a keyset beyond 300 used counters, is restored, continues, and is
// restored again (the second source wallet is itself a restored one).
func propDeep(t *rapid.T) {
	m := whist.New(t, whist.Options{
		Weights: map[string]int{"mint": 1},
		Owns:    map[string]bool{"C19": true},
		Wallets: 1,
		Mints:   1,
		Fees:    []uint{0, 100, 1000},
	})
	defer m.Close()
	rec.Eval()
	h := m.Live()[0]
	if err := m.MintInto(h, h.Default, rapid.Uint64Range(3000, 9000).Draw(t, "funding")); err != nil {
		t.Fatalf("funding: %v", err)
	}
	target := uint32(rapid.SampledFrom([]int{130, 210, 320, 420}).Draw(t, "target_counter"))
	for i := 0; i < 40 && m.MaxStoredCounter(m.Live()[0]) < target; i++ {
		if !m.Exec(t, "churn") {
			break
		}
	}
	reached := m.MaxStoredCounter(m.Live()[0])
	if rapid.Bool().Draw(t, "rotate_before_restore") {
		m.Exec(t, "rotate")
		m.Exec(t, "churn")
	}
	m.Exec(t, "restore")
	n := rapid.IntRange(1, 4).Draw(t, "ops_after_first_restore")
	for i := 0; i < n; i++ {
		m.Exec(t, rapid.SampledFrom([]string{"churn", "churn", "mint", "send"}).Draw(t, "op_after_restore"))
	}
	m.Exec(t, "restore")
	m.Exec(t, "churn")
	m.Exec(t, "restore")
	rec.NonTrivial(strings.Join(m.Trace, "|"))
	rec.Class("deep_restore_chain")
	if reached >= 300 {
		rec.Class("deep_over_300_counters")
	}
	if reached >= 200 {
		rec.Class("deep_over_200_counters")
	}
	rec.ClassN("restores", m.Count["restore"])
	rec.Sample("deep", map[string]any{"counter_reached": reached, "trace_tail": m.Trace[max(0, len(m.Trace)-8):]})
}

func TestDeep(t *testing.T) { rapid.Check(t, propDeep) }
