// C19 — seed backup is complete: no counter is reused and restore recovers all funds.
package c19

import (
	"os"
	"strings"
	"testing"

	"pgregory.net/rapid"

	"verif/harness/rec"
	"verif/harness/whist"
)

func TestMain(m *testing.M) {
	code := m.Run()
	rec.Flush()
	os.Exit(code)
}

func weights() map[string]int {
	w := map[string]int{}
	for k, v := range whist.DefaultWeights {
		w[k] = v
	}
	w["restore"] = 3
	w["churn"] = 6
	w["mint"] = 5
	w["rotate"] = 1
	return w
}

func propHistory(t *rapid.T) {
	m := whist.New(t, whist.Options{
		Weights: weights(),
		Owns:    map[string]bool{"C19": true},
		Wallets: 2,
		Mints:   rapid.IntRange(1, 2).Draw(t, "mints"),
		Fees:    []uint{0, 100},
	})
	defer m.Close()
	rec.Eval()
	t.Repeat(map[string]func(*rapid.T){"step": m.Step})
	if m.Count["outputs_signed"] > 0 {
		rec.NonTrivial(strings.Join(m.Trace, "|"))
		for _, k := range []string{"restore", "restore_of_restored", "restore_over_300_outputs", "churn", "rotation", "reclaim", "melt_paid", "melt_pending", "receive_cross_mint", "send_p2pk", "send_htlc"} {
			if m.Count[k] > 0 {
				rec.Class("history_with_" + k)
			}
		}
		rec.ClassN("outputs_signed", m.Count["outputs_signed"])
		rec.ClassN("restores", m.Count["restore"])
		if m.Count["restore"] > 0 {
			rec.Sample("history", map[string]any{"trace": m.Trace})
		}
	}
}

func TestHistory(t *testing.T) { rapid.Check(t, propHistory) }
