package c02

import (
	"encoding/json"
	"fmt"
	"os"
	"strconv"
	"strings"
	"testing"

	"pgregory.net/rapid"

	"verif/harness/race"
	"verif/harness/rec"
	"verif/harness/sched"
	"verif/harness/world"
)

// The ledger under concurrency: 2..3 requests (swaps, melts, state checks, quote polls, mints - some sharing inputs
// or outputs, some after a melt that was left pending) interleaved at storage / Lightning call granularity; once all
// have returned, what clients hold and the mint still honours plus what went out over Lightning must not exceed what
// came in. The harness is shared with C01 (package race); the oracle here is the C02 inequality over ground truth:
// signatures really handed out, final proof states by the mint's own state check, the Lightning model's msat ledger.

// verdictT is used for confirmation re-runs inside the verdict functions.
var verdictT world.T = panicT{}

type panicT struct{}

func (panicT) Fatalf(format string, a ...any) { panic(fmt.Sprintf(format, a...)) }
func (panicT) Logf(format string, a ...any)   {}

var schedKinds = []string{"swap", "swap", "melt", "melt", "check", "pollmelt", "mint"}

func ledgerVerdict(cs race.Case, r *race.Result) (string, string) {
	if r.SchedErr != nil {
		if race.SchedErrReproduces(verdictT, cs, r.Choices) {
			return "C02|sched|scheduler_error", r.SchedErr.Error()
		}
		rec.Inconclusive()
		return "", ""
	}
	if r.Panic != "" {
		return "C02|sched|panic|" + strings.SplitN(r.Panic, ":", 2)[0], r.Panic
	}
	if r.StatesErr != nil {
		return "C02|sched|final_checkstate_failed", r.StatesErr.Error()
	}
	if ok, out, of, in := r.LedgerOK(cs); !ok {
		var ks []string
		for _, q := range cs.Reqs {
			ks = append(ks, q.Kind)
		}
		return "C02|sched|ledger_inequality|pre=" + cs.Pre, fmt.Sprintf("outstanding %s msat + outflow %s msat > inflow %s msat after %v; outcomes %s; final states %v; schedule: %s", out, of, in, ks, r.FmtOutcomes(), r.States, r.Trace)
	}
	return "", ""
}

func recordSched(cs race.Case, r *race.Result) {
	rec.Eval()
	var ks []string
	for _, q := range cs.Reqs {
		ks = append(ks, q.Kind)
	}
	rec.Class("sched_ops=" + strings.Join(ks, "+"))
	if cs.Pre != "" {
		rec.Class("sched_pre=" + cs.Pre)
	}
	if r.Switches >= 1 {
		rec.NonTrivial(fmt.Sprintf("sched|%v|%s|%v", cs.Reqs, cs.Pre, r.Choices))
		rec.Class("sched_nontrivial")
	}
	if r.OutflowMsat > 0 {
		rec.Class("sched_with_lightning_outflow")
	}
}

func propSchedLedger(t *rapid.T) {
	cs := race.GenCase(t, schedKinds)
	r := race.Run(t, cs, func(step int, enabled []*sched.Task, cur int) int {
		return rapid.IntRange(0, len(enabled)-1).Draw(t, "grant")
	}, nil)
	recordSched(cs, &r)
	if sig, detail := ledgerVerdict(cs, &r); sig != "" && !rec.IsKnown(sig) {
		t.Fatalf("VIOLATION %s: %s", sig, detail)
	}
}

func TestSchedLedger(t *testing.T) { rapid.Check(t, propSchedLedger) }

type fatalT struct{ t *testing.T }

func (f fatalT) Fatalf(format string, a ...any) { f.t.Fatalf(format, a...) }
func (f fatalT) Logf(format string, a ...any)   {}

var enumCases = []race.Case{
	{Reqs: []race.Req{{Kind: "swap", Inputs: []int{0}}, {Kind: "melt", Inputs: []int{0}, LN: "success"}}},
	{Reqs: []race.Req{{Kind: "melt", Inputs: []int{0}, LN: "success"}, {Kind: "melt", Inputs: []int{0, 1}, LN: "success"}}},
	{Reqs: []race.Req{{Kind: "melt", Inputs: []int{0}, LN: "success"}, {Kind: "check", Inputs: []int{0}}, {Kind: "swap", Inputs: []int{0}}}},
	{Reqs: []race.Req{{Kind: "melt", Inputs: []int{0}, LN: "success"}, {Kind: "pollmelt", Quote: 0}, {Kind: "swap", Inputs: []int{0}}}},
	{Pre: "melt_succeeded", Reqs: []race.Req{{Kind: "check", Inputs: []int{0}}, {Kind: "swap", Inputs: []int{0}}}},
	{Pre: "melt_succeeded", Reqs: []race.Req{{Kind: "pollmelt", Quote: -1}, {Kind: "swap", Inputs: []int{0}}}},
	{Reqs: []race.Req{{Kind: "swap", Inputs: []int{1}, Outs: 1}, {Kind: "swap", Inputs: []int{2}, Outs: 1}}},
	{Reqs: []race.Req{{Kind: "mint", Quote: 0, Outs: 1}, {Kind: "swap", Inputs: []int{1}, Outs: 1}}},
	{Reqs: []race.Req{{Kind: "mint", Quote: 0}, {Kind: "mint", Quote: 0}}},
}

func TestSchedLedgerEnum(t *testing.T) {
	shard, _ := strconv.Atoi(os.Getenv("VERIF_SHARD"))
	n, _ := strconv.Atoi(os.Getenv("VERIF_NSHARDS"))
	if n == 0 {
		n = 1
	}
	bound := 2
	if os.Getenv("VERIF_TIER") == "thorough" {
		bound = 4
	}
	bad := 0
	// a bound in schedules per work unit keeps the tier inside its time; units cut off by it are counted
	race.LeafCap = 1000
	defer func() {
		if race.Truncated > 0 {
			rec.ClassN("sched_enum_work_units_cut_off_at_1000_schedules", race.Truncated)
		}
	}()
	for ci, cs := range enumCases {
		cs.Seed = uint64(ci)
		for sub := 0; sub < 8; sub++ {
			// the deepest subtree of a case is the one that starts without a pre-emption (sub 0): spread those over the shards
			if (ci*9+sub)%n != shard {
				continue
			}
			fixed := []int{sub & 1, (sub >> 1) & 1, (sub >> 2) & 1}
			cnt := race.Enumerate(fatalT{t}, cs, bound, fixed, nil, func(r race.Result) {
				c2 := cs
				c2.Choice = r.Choices
				recordSched(c2, &r)
				if sig, detail := ledgerVerdict(c2, &r); sig != "" && !rec.IsKnown(sig) {
					bad++
					rec.Violate(sig, detail, c2)
					if bad <= 3 {
						t.Errorf("VIOLATION %s: %s", sig, detail)
					}
				}
			})
			rec.ClassN(fmt.Sprintf("sched_enum_case%d", ci), cnt)
		}
	}
	if bad > 0 {
		t.Fatalf("%d violating schedules", bad)
	}
}

func TestReplay(t *testing.T) {
	path := os.Getenv("VERIF_REPLAY")
	if path == "" {
		t.Skip("no VERIF_REPLAY")
	}
	raw, err := os.ReadFile(path)
	if err != nil {
		t.Fatal(err)
	}
	var doc struct {
		Replay race.Case `json:"replay"`
	}
	if err := json.Unmarshal(raw, &doc); err != nil {
		t.Fatal(err)
	}
	cs := doc.Replay
	k := 0
	r := race.Run(fatalT{t}, cs, func(step int, enabled []*sched.Task, cur int) int {
		c := 0
		if k < len(cs.Choice) {
			c = cs.Choice[k]
		}
		k++
		return c
	}, func(*world.World, *race.Result) {})
	if sig, detail := ledgerVerdict(cs, &r); sig != "" && !rec.IsKnown(sig) {
		t.Fatalf("VIOLATION %s: %s", sig, detail)
	}
}
