package c02

import (
	"crypto/sha256"
	"encoding/hex"
	"encoding/json"
	"fmt"
	"io"
	"math/big"
	"net/http"
	"net/http/httptest"
	"os"
	"strings"
	"sync"
	"testing"

	"github.com/elnosh/gonuts/cashu"
	"github.com/elnosh/gonuts/cashu/nuts/nut04"
	"github.com/elnosh/gonuts/mint"
	"github.com/elnosh/gonuts/mint/lightning"
	"pgregory.net/rapid"

	"verif/harness/lnmodel"
	"verif/harness/rec"
	"verif/harness/world"
)

// The money that comes in is what the Lightning node was asked to invoice - not what the mint wrote into its quote.
// The history checks replace the whole backend by a model; here the repository's own Core Lightning adapter
// (mint/lightning/cln.go) runs against an in-process imitation of the node's REST interface that records, as exact
// integers, the amount every invoice was created for. A real mint (no limits configured, the default) on top of it:
// for every amount a mint quote is accepted for, the node must have been asked for exactly 1000 * amount msat, and
// what can then be minted for that quote must not be worth more than what the invoice collected.

type fakeCLN struct {
	mu       sync.Mutex
	srv      *httptest.Server
	invoices map[string]*fakeInvoice // by payment hash
	n        int
}

type fakeInvoice struct {
	label  json.Number
	msat   *big.Int // exactly as requested
	hash   string
	bolt11 string
	paid   bool
}

func newFakeCLN() *fakeCLN {
	f := &fakeCLN{invoices: map[string]*fakeInvoice{}}
	f.srv = httptest.NewServer(http.HandlerFunc(f.serve))
	return f
}

func (f *fakeCLN) serve(rw http.ResponseWriter, req *http.Request) {
	raw, _ := io.ReadAll(req.Body)
	dec := json.NewDecoder(strings.NewReader(string(raw)))
	dec.UseNumber()
	var body map[string]any
	dec.Decode(&body)
	f.mu.Lock()
	defer f.mu.Unlock()
	fail := func(msg string) {
		rw.WriteHeader(400)
		json.NewEncoder(rw).Encode(map[string]any{"code": -1, "message": msg})
	}
	switch req.URL.Path {
	case "/v1/getinfo":
		json.NewEncoder(rw).Encode(map[string]any{"id": "02fake"})
	case "/v1/invoice":
		num, ok := body["amount_msat"].(json.Number)
		if !ok {
			fail("amount_msat missing")
			return
		}
		msat, ok := new(big.Int).SetString(num.String(), 10)
		if !ok || msat.Sign() <= 0 {
			fail("amount_msat: should be positive msat")
			return
		}
		f.n++
		h := sha256.Sum256([]byte(fmt.Sprintf("fake invoice %d %s", f.n, msat)))
		inv := &fakeInvoice{msat: msat, hash: hex.EncodeToString(h[:]), bolt11: fmt.Sprintf("lnbcfake%d", f.n)}
		inv.label, _ = body["label"].(json.Number)
		f.invoices[inv.hash] = inv
		json.NewEncoder(rw).Encode(map[string]any{"bolt11": inv.bolt11, "payment_hash": inv.hash})
	case "/v1/listinvoices":
		h, _ := body["payment_hash"].(string)
		inv := f.invoices[h]
		if inv == nil {
			json.NewEncoder(rw).Encode(map[string]any{"invoices": []any{}})
			return
		}
		status := "unpaid"
		if inv.paid {
			status = "paid"
		}
		// the node reports the amount as it knows it; the adapter reads it into a uint64
		amt := new(big.Int).Set(inv.msat)
		if !amt.IsUint64() {
			amt.SetUint64(^uint64(0))
		}
		json.NewEncoder(rw).Encode(map[string]any{"invoices": []any{map[string]any{
			"label": inv.label, "bolt11": inv.bolt11, "payment_hash": inv.hash, "status": status,
			"amount_msat": json.Number(amt.String()), "payment_preimage": strings.Repeat("ab", 32), "expires_at": 4102444800}}})
	default:
		// waitinvoice etc.: the watcher gives up, polls still work
		fail("not supported by the imitation")
	}
}

func (f *fakeCLN) pay(hash string) *big.Int {
	f.mu.Lock()
	defer f.mu.Unlock()
	inv := f.invoices[hash]
	if inv == nil {
		return nil
	}
	inv.paid = true
	return inv.msat
}

func (f *fakeCLN) requested(hash string) *big.Int {
	f.mu.Lock()
	defer f.mu.Unlock()
	if inv := f.invoices[hash]; inv != nil {
		return inv.msat
	}
	return nil
}

var wrapPoint = new(big.Int).Div(new(big.Int).Lsh(big.NewInt(1), 64), big.NewInt(1000)).Uint64() // floor(2^64 / 1000)

func genBackendAmount() *rapid.Generator[uint64] {
	return rapid.OneOf(
		rapid.Uint64Range(1, 1<<20),
		rapid.Uint64Range(1, 1<<62),
		rapid.Uint64(),
		rapid.Custom(func(t *rapid.T) uint64 {
			base := rapid.SampledFrom([]uint64{wrapPoint, 2 * wrapPoint, 3 * wrapPoint, 1 << 62, 1 << 63, ^uint64(0), 1 << 53, 1<<63 - 1}).Draw(t, "edge")
			d := rapid.Uint64Range(0, 2000).Draw(t, "delta")
			if rapid.Bool().Draw(t, "below") {
				return base - d
			}
			if base+d < base {
				return base
			}
			return base + d
		}),
	)
}

func backendViolate(t interface{ Fatalf(string, ...any) }, sig, format string, a ...any) {
	sig = "C02|" + sig
	if rec.IsKnown(sig) {
		return
	}
	t.Fatalf("VIOLATION %s: %s", sig, fmt.Sprintf(format, a...))
}

func backendCase(t interface {
	Fatalf(string, ...any)
}, amount uint64) {
	node := newFakeCLN()
	defer node.srv.Close()
	client, err := lightning.SetupCLNClient(lightning.CLNConfig{RestURL: node.srv.URL, Rune: "rune"})
	if err != nil {
		t.Fatalf("harness: %v", err)
	}
	dir, err := os.MkdirTemp(os.Getenv("VERIF_SCRATCH"), "c02-backend-")
	if err != nil {
		t.Fatalf("harness: %v", err)
	}
	defer os.RemoveAll(dir)
	m, err := mint.LoadMint(mint.Config{MintPath: dir, LightningClient: client, LogLevel: mint.Disable, MintInfo: mint.MintInfo{Name: "verif mint"}})
	if err != nil {
		t.Fatalf("harness: LoadMint: %v", err)
	}
	defer m.Shutdown()
	rec.Eval()
	q, err := m.RequestMintQuote(nut04.PostMintQuoteBolt11Request{Amount: amount, Unit: cashu.Sat.String()})
	big1000 := new(big.Int).Mul(new(big.Int).SetUint64(amount), big.NewInt(1000))
	cls := "backend_amount_below_wrap"
	if !big1000.IsUint64() {
		cls = "backend_amount_times_1000_exceeds_uint64"
	}
	rec.Class(cls)
	if err != nil {
		rec.Class("backend_quote_refused")
		return
	}
	rec.NonTrivial(fmt.Sprintf("backend|%d", amount))
	asked := node.requested(q.PaymentHash)
	if asked == nil {
		t.Fatalf("harness: the node imitation has no invoice for the quote's payment hash")
	}
	if asked.Cmp(big1000) != 0 {
		backendViolate(t, "backend|cln_invoice_amount_differs_from_quote", "mint quote for %d sat accepted, but the node was asked to invoice %s msat (1000 * amount = %s)", amount, asked, big1000)
		return
	}
	// pay what the invoice asks for, then see what the quote is worth
	inflow := node.pay(q.PaymentHash)
	st, err := m.GetMintQuoteState(q.Id)
	if err != nil || st.State != nut04.Paid {
		return
	}
	issuable := new(big.Int).Mul(new(big.Int).SetUint64(st.Amount), big.NewInt(1000))
	if issuable.Cmp(inflow) > 0 {
		backendViolate(t, "backend|quote_worth_more_than_invoice_collected", "quote of %d sat is PAID after an invoice of %s msat was paid", st.Amount, inflow)
	}
}

func propBackendAmounts(t *rapid.T) { backendCase(t, genBackendAmount().Draw(t, "amount")) }

func TestBackendAmounts(t *testing.T) { rapid.Check(t, propBackendAmounts) }

// regression: the smallest amount whose msat value does not fit 64 bits
func TestRegressBackendAmountWrap(t *testing.T) {
	rec.NonTrivial("regress_backend_wrap")
	backendCase(t, wrapPoint+1)
	backendCase(t, 1<<63)
}

// The same question for the repository's LND adapter (mint/lightning/lnd.go): a real mint on the adapter, the adapter
// on imitations of lnd's rpc clients whose AddInvoice turns the sat value into msat exactly as lnd does (its own
// lnrpc.UnmarshallAmt) before it looks at the size. For every amount a mint quote is accepted for, the invoice the
// node wrote must be for exactly 1000 * amount msat.
func backendCaseLND(t world.T, amount uint64) {
	w := world.New(t, world.Config{ViaLND: true, FeeMode: lnmodel.FeeZero, CaseSeed: amount})
	defer w.Close()
	rec.Eval()
	q, err := w.Mint.RequestMintQuote(nut04.PostMintQuoteBolt11Request{Amount: amount, Unit: cashu.Sat.String()})
	big1000 := new(big.Int).Mul(new(big.Int).SetUint64(amount), big.NewInt(1000))
	if big1000.IsUint64() && amount <= 1<<63-1 {
		rec.Class("lnd_backend_amount_below_wrap")
	} else {
		rec.Class("lnd_backend_amount_times_1000_exceeds_int64_or_uint64")
	}
	if err != nil {
		rec.Class("lnd_backend_quote_refused")
		return
	}
	rec.NonTrivial(fmt.Sprintf("lnd_backend|%d", amount))
	inv := w.Net.InvoiceByRequest(q.PaymentRequest)
	if inv == nil {
		t.Fatalf("harness: the node imitation has no invoice for the quote's payment request")
	}
	if new(big.Int).SetUint64(inv.AmountMsat).Cmp(big1000) != 0 {
		backendViolate(t, "backend|lnd_invoice_amount_differs_from_quote", "mint quote for %d sat accepted, but the node's invoice is for %d msat (1000 * amount = %s)", amount, inv.AmountMsat, big1000)
	}
}

func genBackendAmountLND() *rapid.Generator[uint64] {
	// lnd's msat conversion wraps at multiples of 2^64 / 1000 like CLN's; in addition the adapter hands the amount
	// over as a signed 64-bit integer
	return rapid.OneOf(
		genBackendAmount(),
		rapid.Custom(func(t *rapid.T) uint64 {
			k := rapid.Uint64Range(1, 999).Draw(t, "wraps")
			// the smallest amounts whose product with 1000 has wrapped k times and come out small
			x := new(big.Int).Lsh(big.NewInt(1), 64)
			x.Mul(x, new(big.Int).SetUint64(k))
			x.Div(x, big.NewInt(1000))
			return x.Uint64() + rapid.Uint64Range(0, 1000).Draw(t, "delta")
		}),
	)
}

func propBackendAmountsLND(t *rapid.T) {
	backendCaseLND(t, genBackendAmountLND().Draw(t, "amount"))
}

func TestBackendAmountsLND(t *testing.T) { rapid.Check(t, propBackendAmountsLND) }
