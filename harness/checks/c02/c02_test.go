// C02 — no inflation: outstanding ecash + Lightning outflow never exceeds inflow.
package c02

import (
	"fmt"
	"os"
	"strings"
	"testing"

	"pgregory.net/rapid"

	"verif/harness/hist"
	"verif/harness/rec"
	"verif/harness/world"
)

func TestMain(m *testing.M) {
	code := m.Run()
	rec.Flush()
	os.Exit(code)
}

var fees = []uint{0, 1, 100, 999, 1000, 2500}

func weights() map[string]int {
	w := map[string]int{}
	for k, v := range hist.DefaultWeights {
		w[k] = v
	}
	w["swap_adv"] = 4
	w["melt_adv"] = 2
	w["checkstate"] = 1
	w["swap_fault"] = 3
	w["mint_fault"] = 2
	return w
}

func propLedger(t *rapid.T) {
	cfg := hist.GenConfig(t, fees, false)
	w := world.New(t, cfg)
	defer w.Close()
	m := hist.New(t, w, hist.Options{
		Weights: weights(),
		Owns:    []string{"C02"},
		PropID:  "C02",
		AfterStep: func(m *hist.Machine, op string) {
			m.W.CheckLedger("after " + op)
			m.Enforce(op)
		},
	})
	rec.Eval()
	t.Repeat(map[string]func(*rapid.T){"step": m.Step})
	// classification
	nt := m.Count["swap_with_fee"] > 0 || m.Count["melt_PAID"] > 0 || m.Count["adversarial_reached"] > 0
	if nt {
		rec.NonTrivial(strings.Join(m.Trace, "|"))
	}
	for _, k := range []string{"swap_with_fee", "melt_PAID", "melt_PENDING", "melt_UNPAID", "adversarial_reached", "rotation", "restart"} {
		if m.Count[k] > 0 {
			rec.Class("history_with_" + k)
		}
	}
	rec.Class(fmt.Sprintf("fee_ppk=%d", cfg.FeePpk))
	if cfg.ViaCLN {
		rec.Class("history_via_cln_adapter")
	}
	if cfg.ViaLND {
		rec.Class("history_via_lnd_adapter")
	}
	rec.ClassN("steps", w.M.Steps)
	if nt {
		rec.Sample("history", map[string]any{"fee_ppk": cfg.FeePpk, "fee_mode": int(cfg.FeeMode), "mpp": cfg.MPP, "trace": m.Trace})
	}
}

func TestLedger(t *testing.T) { rapid.Check(t, propLedger) }
