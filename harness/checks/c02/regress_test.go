package c02

import (
	"testing"

	"github.com/elnosh/gonuts/cashu/nuts/nut05"

	"verif/harness/lnmodel"
	"verif/harness/rec"
	"verif/harness/world"
)

// Hand-written regressions of confirmed findings (no library, no randomness).

func fundOne(t *testing.T, w *world.World, amount uint64) {
	q, err := w.RequestMintQuote(amount, nil)
	if err != nil {
		t.Fatal(err)
	}
	w.PayInvoice(q)
	if _, err := w.MintTokens(q, w.MakeOutputs(world.Split(amount), w.ActiveID), ""); err != nil {
		t.Fatal(err)
	}
}

func failOnFlags(t *testing.T, w *world.World, prop string) {
	for _, f := range w.TakeFlags() {
		if f.Prop == prop && !rec.IsKnown(f.Signature) {
			t.Fatalf("VIOLATION %s: %s", f.Signature, f.Detail)
		}
	}
}

// The fee limit handed to the Lightning backend must not exceed the quote's fee reserve.
func TestRegressFeeLimit(t *testing.T) {
	w := world.New(t, world.Config{FeeMode: lnmodel.FeePercent, CaseSeed: 1})
	defer w.Close()
	fundOne(t, w, 512)
	inv := w.Net.ExternalInvoice(200_000)
	q, err := w.RequestMeltQuote(inv.Request, 0)
	if err != nil {
		t.Fatal(err)
	}
	if q.FeeReserve != 2 {
		t.Fatalf("fee reserve %d", q.FeeReserve)
	}
	var ins = w.M.ProofsIn(world.Unspent)
	r, err := w.MeltTokens(q, ins[len(ins)-1:].Proofs())
	if err != nil || r.State != nut05.Paid {
		t.Fatalf("melt: %v %v", r.State, err)
	}
	rec.Eval()
	rec.NonTrivial("regress_fee_limit")
	w.CheckLedger("regress")
	failOnFlags(t, w, "C02")
}

// An invoice with sub-satoshi precision must not be paid for less than its amount.
func TestRegressMsatFloor(t *testing.T) {
	w := world.New(t, world.Config{CaseSeed: 2})
	defer w.Close()
	fundOne(t, w, 8)
	inv := w.Net.ExternalInvoice(1999)
	q, err := w.RequestMeltQuote(inv.Request, 0)
	if err != nil {
		t.Fatal(err)
	}
	ins := w.M.ProofsIn(world.Unspent)
	r, err := w.MeltTokens(q, world.MProofs(ins).Proofs())
	if err != nil || r.State != nut05.Paid {
		t.Fatalf("melt: %v %v", r.State, err)
	}
	rec.Eval()
	rec.NonTrivial("regress_msat_floor")
	w.CheckLedger("regress")
	failOnFlags(t, w, "C02")
}
