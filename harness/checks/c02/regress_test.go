package c02

import (
	"testing"

	"github.com/elnosh/gonuts/cashu"
	"github.com/elnosh/gonuts/cashu/nuts/nut05"

	"verif/harness/lnmodel"
	"verif/harness/rec"
	"verif/harness/world"
)

// Hand-written regressions of confirmed findings (no library, no randomness).

func fundOne(t *testing.T, w *world.World, amount uint64) {
	q, err := w.RequestMintQuote(amount, nil)
	if err != nil {
		t.Fatal(err)
	}
	w.PayInvoice(q)
	if _, err := w.MintTokens(q, w.MakeOutputs(world.Split(amount), w.ActiveID), ""); err != nil {
		t.Fatal(err)
	}
}

func failOnFlags(t *testing.T, w *world.World, prop string) {
	for _, f := range w.TakeFlags() {
		if f.Prop == prop && !rec.IsKnown(f.Signature) {
			t.Fatalf("VIOLATION %s: %s", f.Signature, f.Detail)
		}
	}
}

// The fee limit handed to the Lightning backend must not exceed the quote's fee reserve.
func TestRegressFeeLimit(t *testing.T) {
	w := world.New(t, world.Config{FeeMode: lnmodel.FeePercent, CaseSeed: 1})
	defer w.Close()
	fundOne(t, w, 512)
	inv := w.Net.ExternalInvoice(200_000)
	q, err := w.RequestMeltQuote(inv.Request, 0)
	if err != nil {
		t.Fatal(err)
	}
	if q.FeeReserve != 2 {
		t.Fatalf("fee reserve %d", q.FeeReserve)
	}
	var ins = w.M.ProofsIn(world.Unspent)
	r, err := w.MeltTokens(q, ins[len(ins)-1:].Proofs())
	if err != nil || r.State != nut05.Paid {
		t.Fatalf("melt: %v %v", r.State, err)
	}
	rec.Eval()
	rec.NonTrivial("regress_fee_limit")
	w.CheckLedger("regress")
	failOnFlags(t, w, "C02")
}

// An invoice with sub-satoshi precision must not be paid for less than its amount.
func TestRegressMsatFloor(t *testing.T) {
	w := world.New(t, world.Config{CaseSeed: 2})
	defer w.Close()
	fundOne(t, w, 8)
	inv := w.Net.ExternalInvoice(1999)
	q, err := w.RequestMeltQuote(inv.Request, 0)
	if err != nil {
		t.Fatal(err)
	}
	ins := w.M.ProofsIn(world.Unspent)
	r, err := w.MeltTokens(q, world.MProofs(ins).Proofs())
	if err != nil || r.State != nut05.Paid {
		t.Fatalf("melt: %v %v", r.State, err)
	}
	rec.Eval()
	rec.NonTrivial("regress_msat_floor")
	w.CheckLedger("regress")
	failOnFlags(t, w, "C02")
}

// F24: a melt of somebody else's invoice that merely shares the payment hash with one of the mint's own invoices was
// settled "internally" - nothing is paid to anybody, yet the mint quote (of any amount) is marked paid.
func TestRegressForeignInvoiceWithOwnPaymentHash(t *testing.T) {
	w := world.New(t, world.Config{CaseSeed: 77, FeeMode: lnmodel.FeeZero})
	defer w.Close()
	fq, err := w.RequestMintQuote(8, nil)
	if err != nil {
		t.Fatal(err)
	}
	w.PayInvoice(fq)
	if _, err := w.MintTokens(fq, w.MakeOutputs([]uint64{1, 1, 2, 4}, w.ActiveID), ""); err != nil {
		t.Fatal(err)
	}
	big, err := w.RequestMintQuote(1024, nil)
	if err != nil {
		t.Fatal(err)
	}
	rec.Eval()
	rec.NonTrivial("regress_foreign_invoice_same_hash")
	inv := w.Net.ForgedInvoice(big.Hash, 1000)
	mq, err := w.RequestMeltQuote(inv.Request, 0)
	if err != nil {
		return // refusing the quote is fine
	}
	mq.ForeignSameHash = true
	var one cashu.Proofs
	for _, p := range w.M.ProofsIn(world.Unspent) {
		if p.P.Amount >= mq.Amount+mq.FeeReserve {
			one = cashu.Proofs{p.P}
			break
		}
	}
	w.LN.PayScript = []lnmodel.PayAnswer{lnmodel.PaySuccess}
	r, merr := w.MeltTokens(mq, one)
	w.LN.PayScript = nil
	_, err = w.MintTokens(big, w.MakeOutputs(world.Split(1024), w.ActiveID), "")
	w.CheckLedger("after minting the big quote")
	for _, f := range w.TakeFlags() {
		if f.Prop == "C02" && !rec.IsKnown(f.Signature) {
			t.Errorf("VIOLATION %s: %s (melt state %v err %v, mint err %v)", f.Signature, f.Detail, r.State, merr, err)
		}
	}
}
