package c12

import (
	"fmt"
	"testing"

	"github.com/elnosh/gonuts/cashu"
	"github.com/elnosh/gonuts/cashu/nuts/nut11"
	"pgregory.net/rapid"

	"verif/harness/lnmodel"
	"verif/harness/rec"
	"verif/harness/wenv"
)

// Wallet level: what Wallet.SendToPubkey produces is redeemable by the holder of the key through
// Wallet.Receive (which signs with the library's own helpers, incl. SIG_ALL outputs), and by nobody else.
func propWalletP2PK(t *rapid.T) {
	fee := rapid.SampledFrom([]uint{0, 100, 1000}).Draw(t, "fee")
	e := wenv.New(t, rapid.Uint64().Draw(t, "case_seed"), []uint{fee}, []lnmodel.FeeMode{lnmodel.FeeZero})
	defer e.Close()
	url := wenv.URL(e.Mints[0])
	var ws []*wenv.WalletH
	for _, n := range []string{"alice", "bob", "carol"} {
		h, err := e.NewWallet(n, url)
		if err != nil {
			t.Fatalf("LoadWallet: %v", err)
		}
		ws = append(ws, h)
	}
	alice, bob, carol := ws[0], ws[1], ws[2]
	e.Cur = "alice"
	r, err := alice.W.RequestMint(512, url)
	if err != nil {
		t.Fatalf("setup: %v", err)
	}
	e.Net.PayExternally(e.Net.InvoiceByRequest(r.Request).Hash)
	if _, err := alice.W.MintTokens(r.Quote); err != nil {
		t.Fatalf("setup: %v", err)
	}
	amount := rapid.Uint64Range(1, 200).Draw(t, "amount")
	sigAll := rapid.Bool().Draw(t, "sig_all")
	inclFees := rapid.Bool().Draw(t, "include_fees")
	tags := &nut11.P2PKTags{}
	if sigAll {
		tags.Sigflag = nut11.SIGALL
	}
	rec.Eval()
	proofs, err := alice.W.SendToPubkey(amount, url, bob.W.GetReceivePubkey(), tags, inclFees)
	if err != nil {
		t.Skipf("send failed: %v", err)
	}
	// the mint may rotate its keyset between locking and redeeming: the receiving wallet (loaded before) discovers the
	// rotation inside the receive. The token's proofs then belong to a retired keyset; with DLEQ proofs attached the
	// receiver has to check them against that keyset's keys (it used the active keyset's until fix db14652).
	withDLEQ := rapid.Bool().Draw(t, "dleq")
	rotated := rapid.IntRange(0, 2).Draw(t, "rotate_before_receive") == 0
	if rotated {
		if _, err := e.Mints[0].Mint.RotateKeyset(fee); err != nil {
			t.Fatalf("rotate: %v", err)
		}
		e.Mints[0].RefreshKeysets()
	}
	tok, err := cashu.NewTokenV4(append(cashu.Proofs{}, proofs...), url, cashu.Sat, withDLEQ)
	if err != nil {
		t.Fatalf("token: %v", err)
	}
	str, _ := tok.Serialize()
	cls := fmt.Sprintf("wallet_p2pk|sig_all=%v|fees=%v|fee=%d", sigAll, inclFees, fee)
	rec.NonTrivial(cls + fmt.Sprint(amount))
	rec.Class(cls)
	if rotated {
		rec.Class("wallet_receive_discovers_rotation")
		if withDLEQ {
			rec.Class("wallet_receive_retired_keyset_token_with_dleq")
		}
	}
	dec, _ := cashu.DecodeToken(str)
	e.Cur = "carol"
	if got, err := carol.W.Receive(dec, false); err == nil {
		violate(t, "wallet|locked_token_redeemed_by_wrong_wallet", "carol received %d from a token locked to bob", got)
	}
	// (carol's attempt does not touch bob's wallet: after a rotation bob's receive is still his first contact)
	dec, _ = cashu.DecodeToken(str)
	e.Cur = "bob"
	got, err := bob.W.Receive(dec, false)
	if err != nil {
		if proofs.Amount() > (uint64(len(proofs))*uint64(fee)+999)/1000 {
			violate(t, fmt.Sprintf("wallet|key_holder_cannot_redeem|sig_all=%v", sigAll), "bob cannot receive the token locked to his key: %v", err)
		}
		return
	}
	if want := proofs.Amount() - (uint64(len(proofs))*uint64(fee)+999)/1000; got != want {
		violate(t, "wallet|received_amount", "got %d, want %d (token %d, %d proofs, fee %d ppk)", got, want, proofs.Amount(), len(proofs), fee)
	}
	// a net-zero redemption has no outputs, so its repeat is byte-identical and is answered from the NUT-19 cache
	dec, _ = cashu.DecodeToken(str)
	if got2, err := bob.W.Receive(dec, false); err == nil && got2 > 0 {
		violate(t, "wallet|locked_token_redeemed_twice", "second receive of the same token succeeded")
	}
}

func TestWalletP2PK(t *testing.T) { rapid.Check(t, propWalletP2PK) }
