// C12 — P2PK locks: spendable only with the required signatures (NUT-11).
package c12

import (
	"encoding/json"
	"fmt"
	"os"
	"strings"
	"testing"
	"time"

	"github.com/elnosh/gonuts/cashu"
	"github.com/elnosh/gonuts/cashu/nuts/nut03"
	"github.com/elnosh/gonuts/cashu/nuts/nut05"
	"github.com/elnosh/gonuts/cashu/nuts/nut10"
	"github.com/elnosh/gonuts/cashu/nuts/nut11"
	"pgregory.net/rapid"

	"verif/harness/httpx"
	"verif/harness/lnmodel"
	"verif/harness/lockgen"
	"verif/harness/rec"
	"verif/harness/ref"
	"verif/harness/world"
)

func TestMain(m *testing.M) {
	code := m.Run()
	rec.Flush()
	os.Exit(code)
}

var candidateKeys = []int{lockgen.LockKey, lockgen.Cosign0, lockgen.Cosign0 + 1, lockgen.Cosign0 + 2, lockgen.Refund0, lockgen.Refund0 + 1, lockgen.Foreign0}

func violate(t *rapid.T, sig, format string, a ...any) {
	sig = "C12|" + sig
	if rec.IsKnown(sig) {
		return
	}
	t.Fatalf("VIOLATION %s: %s", sig, fmt.Sprintf(format, a...))
}

func features(elems []lockgen.SigElem) string {
	has := map[string]bool{}
	byKey := map[int]int{}
	for _, e := range elems {
		if e.Kind == "valid" || e.Kind == "valid2" {
			byKey[e.Key]++
		}
		if e.Kind != "valid" {
			has[e.Kind] = true
		}
	}
	var f []string
	for _, n := range byKey {
		if n > 1 {
			f = append(f, "two_valid_sigs_one_key")
			break
		}
	}
	for _, k := range []string{"dup", "wrong_msg", "wrong_msg_hex", "non_hex", "short", "empty"} {
		if has[k] {
			f = append(f, k)
		}
	}
	if len(f) == 0 {
		return "clean"
	}
	return strings.Join(f, "+")
}

func configClass(c lockgen.Config) string {
	keys := 1 + c.NCosign
	rel := "n_sigs_absent"
	switch {
	case c.NSigs == 0:
		rel = "n_sigs=0"
	case c.NSigs > 0 && c.NCosign == 0 && !c.DupLockInPubkeys:
		rel = "threshold_without_cosigners"
	case c.NSigs > keys:
		rel = "n_sigs>keys"
	case c.NSigs > 0:
		rel = "n_sigs<=keys"
	}
	return fmt.Sprintf("%s|lt=%s|refund=%d|%s", rel, c.Locktime, min(c.NRefund, 1), c.Sigflag)
}

// one direct evaluation of nut11.VerifyP2PKLockedProof against the evaluator
func propDirect(t *rapid.T) {
	c := lockgen.GenConfig(t, "P2PK")
	focus := rapid.IntRange(0, 7).Draw(t, "threshold_focus") == 0
	if focus {
		c = lockgen.FocusThreshold(t, c)
		rec.Class("direct_threshold_focus")
	}
	secret := c.Secret()
	elems, _ := lockgen.GenWitnessElems(t, c, candidateKeys, "sig")
	shape := rapid.SampledFrom([]string{"object", "object", "object", "object", "object", "none", "empty_object", "garbage", "not_object", "null_sigs"}).Draw(t, "witness_shape")
	if focus {
		shape = "object"
	}
	sigs := lockgen.Render(elems, []byte(secret))
	witness := lockgen.WitnessJSON(shape, sigs, "", false)
	proof := cashu.Proof{Amount: 1, Id: "00c12c12c12c12c1", Secret: secret, C: "02" + strings.Repeat("11", 32), Witness: witness}
	rec.Eval()
	ns, derr := nut10.DeserializeSecret(secret)
	if c.Form != "" {
		rec.Class("direct_secret_form=" + c.Form)
	}
	if derr != nil || ns.Kind != nut10.P2PK {
		// every generated secret is the JSON of a P2PK secret, in whatever spelling: a parser that does not see the lock
		// lets the mint treat the proof as a plain one
		violate(t, "direct|lock_not_recognised|form="+c.Form, "DeserializeSecret: kind %v err %v for secret %q", ns.Kind, derr, secret)
		return
	}
	var err error
	var pv any
	func() {
		defer func() { pv = recover() }()
		err = nut11.VerifyP2PKLockedProof(proof, ns)
	}()
	v := ref.EvalInput(secret, witness, time.Now().Unix(), lockgen.Verify)
	cls := configClass(c)
	feat := features(elems)
	if shape != "object" {
		feat = "shape_" + shape
	}
	rec.Class("direct_config=" + cls)
	rec.Class("direct_witness=" + feat)
	if pc := lockgen.PubkeysClass(c); pc != "" {
		rec.Class("direct_pubkeys=" + pc)
	}
	if c.Malformed == "" {
		rec.NonTrivial(fmt.Sprintf("direct|%s|%s|%v", cls, feat, elems))
	} else {
		rec.Class("direct_malformed=" + c.Malformed)
	}
	desc := fmt.Sprintf("secret %s witness %s", secret, witness)
	if pv != nil {
		violate(t, "direct|panic|"+cls, "VerifyP2PKLockedProof panicked: %v; %s", pv, desc)
		return
	}
	accepted := err == nil
	if v.Silent {
		return
	}
	if accepted && !v.Necessary {
		violate(t, fmt.Sprintf("direct|accepted_without_condition|%s|%s|witness=%s", v.Why, strings.SplitN(cls, "|", 2)[0], feat), "accepted although the required signatures are missing (%s); %s", cls, desc)
	}
	if !accepted && v.Sufficient {
		violate(t, fmt.Sprintf("direct|sufficient_witness_rejected|%s|%s", v.Why, strings.SplitN(cls, "|", 2)[0]), "rejected (%v) although the witness holds the required valid signatures by distinct authorised keys (%s); %s", err, cls, desc)
	}
	if accepted {
		rec.Class("direct_accepted")
	}
	rec.Sample("direct_"+v.Why, map[string]any{"config": cls, "witness": feat, "accepted": accepted, "necessary": v.Necessary, "sufficient": v.Sufficient})
}

func TestDirect(t *testing.T) { rapid.Check(t, propDirect) }

// ---------------------------------------------------------------- end to end through Mint.Swap / MeltTokens

type lockedInput struct {
	cfg    lockgen.Config
	secret string
	elems  []lockgen.SigElem
	canon  bool
}

// canonicalElems returns a clean witness that satisfies the lock (signers chosen like an honest holder would).
func canonicalElems(c lockgen.Config) ([]lockgen.SigElem, bool) {
	if c.Locktime == "past" {
		if c.NRefund == 0 {
			return nil, true
		}
		return []lockgen.SigElem{{Kind: "valid", Key: lockgen.Refund0}}, true
	}
	need := 1
	if c.NSigs > 0 {
		need = c.NSigs
	}
	avail := []int{c.LockIdx}
	if c.NSigs > 0 {
		for i := 0; i < c.NCosign; i++ {
			avail = append(avail, lockgen.Cosign0+i)
		}
	}
	if need > len(avail) || (c.NSigs > 0 && c.NCosign == 0) {
		return nil, false
	}
	var out []lockgen.SigElem
	for i := 0; i < need; i++ {
		out = append(out, lockgen.SigElem{Kind: "valid", Key: avail[i]})
	}
	return out, true
}

func propSwapMelt(t *rapid.T) {
	// one case in three sends the swap through the HTTP handler (with its response cache) instead of calling Mint.Swap
	viaHTTP := rapid.IntRange(0, 2).Draw(t, "via_http") == 0
	w := world.New(t, world.Config{CaseSeed: rapid.Uint64().Draw(t, "case_seed"), SeedIdx: rapid.IntRange(0, 5).Draw(t, "mint_seed"), FeeMode: lnmodel.FeeZero, WithServer: viaHTTP})
	defer w.Close()
	swap := func(inputs cashu.Proofs, msgs cashu.BlindedMessages) error {
		if !viaHTTP {
			_, err := w.Mint.Swap(inputs, msgs)
			return err
		}
		body, _ := json.Marshal(nut03.PostSwapRequest{Inputs: inputs, Outputs: msgs})
		r := httpx.Do(w.Handler(), "POST", "/v1/swap", body, "application/json")
		if r.Panic != nil {
			violate(t, "e2e|http_swap_panic", "%v\n%s", r.Panic, r.Stack[:min(len(r.Stack), 1200)])
		}
		if r.Status == 200 {
			return nil
		}
		return fmt.Errorf("HTTP %d %s", r.Status, r.Body)
	}
	condMode := rapid.SampledFrom([]string{"independent", "independent", "same", "same", "same_mixed_flags", "same_other_lock_key", "same_other_locktime", "same_other_refund", "canonical_sig_all", "canonical_sig_all"}).Draw(t, "conditions")
	// canonical_sig_all: a homogeneous SIG_ALL request exactly as the library's helpers would build it - the case for
	// which the statement promises acceptance (by swap; refusal by melt, which must leave the inputs swappable)
	canonicalCase := condMode == "canonical_sig_all"
	if canonicalCase {
		condMode = "same"
	}
	sameCond := condMode == "same"
	nLocked := rapid.IntRange(1, 3).Draw(t, "n_locked")
	nPlain := rapid.IntRange(0, 3).Draw(t, "n_plain")
	if canonicalCase {
		nPlain = 0
	}
	mixed := condMode == "same_mixed_flags" || condMode == "same_other_lock_key" || condMode == "same_other_locktime" || condMode == "same_other_refund"
	if mixed {
		// aim at the SIG_ALL uniformity rule itself: several locked inputs and mostly nothing else that could get the
		// request refused (no plain inputs, canonical input witnesses, properly signed outputs)
		nLocked = max(nLocked, 2)
		if rapid.IntRange(0, 3).Draw(t, "mixed_keep_plain") > 0 {
			nPlain = 0
		}
	}
	var locked []lockedInput
	var base lockgen.Config
	for i := 0; i < nLocked; i++ {
		c := lockgen.GenConfig(t, "P2PK")
		c.Malformed = ""
		if i == 0 {
			if condMode == "same_other_lock_key" || condMode == "same_other_locktime" || condMode == "same_other_refund" || canonicalCase {
				c.Sigflag = "SIG_ALL"
			}
			if condMode == "same_other_locktime" && c.Locktime == "past" {
				c.Locktime = "future"
			}
			if canonicalCase {
				for tries := 0; tries < 8; tries++ {
					if _, ok := canonicalElems(c); ok && len(c.Secret()) <= 500 {
						break
					}
					c = lockgen.GenConfig(t, "P2PK")
					c.Malformed, c.Sigflag = "", "SIG_ALL"
				}
			}
			base = c
		} else if condMode != "independent" {
			n := c.Nonce
			c = base
			c.Nonce = n
			if condMode == "same_mixed_flags" {
				// same keys and threshold, but not every input carries SIG_ALL
				c.Sigflag = rapid.SampledFrom([]string{"absent", "SIG_INPUTS", "SIG_ALL"}).Draw(t, "mixed_sigflag")
			}
			if condMode == "same_other_locktime" {
				// same keys, threshold and flag; the locktime differs (absent vs a day ahead, or two days ahead)
				if base.Locktime == "absent" {
					c.Locktime = "future"
				} else {
					c.Locktime = rapid.SampledFrom([]string{"absent", "future2"}).Draw(t, "other_locktime")
				}
			}
			if condMode == "same_other_refund" {
				// same everything but the refund keys
				c.NRefund = (base.NRefund + 1 + rapid.IntRange(0, 1).Draw(t, "other_refund")) % 3
			}
			if condMode == "same_other_lock_key" {
				// same flags, threshold and co-signers, but locked to somebody else's key (witness by that key)
				c.LockIdx = lockgen.Foreign0 + rapid.IntRange(0, 1).Draw(t, "other_lock_key")
				c.DupLockInPubkeys = false
				c.PubkeyOrder = nil
			}
		}
		li := lockedInput{cfg: c, secret: c.Secret()}
		if ce, ok := canonicalElems(c); ok && (rapid.IntRange(0, 3).Draw(t, "canonical_witness") > 0 || mixed || canonicalCase) {
			li.elems, li.canon = ce, true
		} else {
			li.elems, _ = lockgen.GenWitnessElems(t, c, candidateKeys, "sig")
		}
		locked = append(locked, li)
	}
	// mint the proofs: every input is worth 4 sat
	total := uint64(4 * (nLocked + nPlain))
	q, err := w.RequestMintQuote(total, nil)
	if err != nil {
		t.Fatalf("setup: %v", err)
	}
	w.PayInvoice(q)
	var outs []world.Out
	for _, li := range locked {
		outs = append(outs, w.BlindSecret(li.secret, 4, w.ActiveID))
	}
	for i := 0; i < nPlain; i++ {
		outs = append(outs, w.BlindSecret(w.NewSecret(), 4, w.ActiveID))
	}
	if _, err := w.MintTokens(q, outs, ""); err != nil {
		t.Fatalf("setup mint: %v", err)
	}
	// inputs in a drawn order
	perm := rapid.Permutation(intRange(len(outs))).Draw(t, "input_order")
	var inputs cashu.Proofs
	var secrets []string
	firstLockedPos := -1
	allNec, allSuff, anySilent := true, true, false
	for pos, ix := range perm {
		p := w.M.Proofs[outs[ix].Secret].P
		if ix < nLocked {
			li := locked[ix]
			p.Witness = lockgen.WitnessJSON("object", lockgen.Render(li.elems, []byte(li.secret)), "", false)
			if li.canon && len(li.elems) == 0 {
				p.Witness = ""
			}
			if firstLockedPos < 0 {
				firstLockedPos = pos
			}
			v := ref.EvalInput(li.secret, p.Witness, time.Now().Unix(), lockgen.Verify)
			allNec = allNec && v.Necessary
			allSuff = allSuff && v.Sufficient
			anySilent = anySilent || v.Silent
		}
		inputs = append(inputs, p)
		secrets = append(secrets, p.Secret)
		if len(p.Secret) > 512 {
			// the mint refuses secrets longer than 512 bytes (C04): no sufficiency claim for such locks
			allSuff = false
			rec.Class("e2e_secret_over_512_bytes")
		}
	}
	// melt_then_swap: a melt that the mint refuses (SIG_ALL, bad witness) must leave the inputs as they were - the swap
	// that follows is judged exactly like a first attempt
	target := rapid.SampledFrom([]string{"swap", "swap", "swap", "melt", "melt_then_swap"}).Draw(t, "target")
	if canonicalCase && target == "melt" {
		target = "melt_then_swap"
	}
	rec.Eval()
	sigAllAny := false
	for _, li := range locked {
		if li.cfg.Sigflag == "SIG_ALL" {
			sigAllAny = true
		}
	}
	cls := fmt.Sprintf("e2e|%s|locked=%d|plain=%d|first_locked_pos=%d|sig_all=%v|conditions=%s", target, nLocked, nPlain, firstLockedPos, sigAllAny, condMode)
	if sigAllAny {
		for _, li := range locked {
			if li.cfg.Sigflag != "SIG_ALL" && condMode == "same_mixed_flags" {
				rec.Class("e2e_sig_all_mixed_with_same_keys_without_flag")
				break
			}
		}
		if condMode == "same_other_lock_key" {
			rec.Class("e2e_sig_all_inputs_locked_to_different_keys")
		}
		if condMode == "same_other_locktime" || condMode == "same_other_refund" {
			rec.Class("e2e_sig_all_inputs_" + condMode)
		}
	}
	rec.Class(fmt.Sprintf("e2e_target=%s_sig_all=%v", target, sigAllAny))
	rec.NonTrivial(cls + fmt.Sprint(perm, locked[0].elems, locked[0].cfg.NSigs, locked[0].cfg.Locktime))
	if target == "melt" || target == "melt_then_swap" {
		inv := w.Net.ExternalInvoice(total * 1000)
		mq, err := w.RequestMeltQuote(inv.Request, 0)
		if err != nil {
			t.Fatalf("setup melt quote: %v", err)
		}
		r, err := w.Mint.MeltTokens(ctxBg(), nut05.PostMeltBolt11Request{Quote: mq.ID, Inputs: inputs})
		accepted := err == nil && r.State == nut05.Paid
		if accepted && sigAllAny {
			violate(t, fmt.Sprintf("e2e|melt_accepted_sig_all_input|first_locked_pos=%d|plain_before=%v", firstLockedPos, firstLockedPos > 0), "melt accepted inputs containing a SIG_ALL locked proof at position %d of %d; secrets %v", firstLockedPos, len(inputs), secrets)
		}
		if accepted && !allNec && !anySilent {
			violate(t, "e2e|melt_accepted_without_condition", "secrets %v", secrets)
		}
		if !accepted && allSuff && !sigAllAny {
			violate(t, "e2e|melt_sufficient_witness_rejected", "err %v; secrets %v witnesses %v", err, secrets, witnesses(inputs))
		}
		if target == "melt" || err == nil {
			return
		}
		rec.Class("e2e_swap_after_refused_melt")
	}
	// swap: outputs and their witnesses
	amounts := world.Split(total)
	if rapid.Bool().Draw(t, "many_outputs") {
		ones := rapid.IntRange(1, 3).Draw(t, "extra_outputs")
		amounts = world.Split(total - uint64(ones))
		for i := 0; i < ones; i++ {
			amounts = append(amounts, 1)
		}
	}
	newOuts := w.MakeOutputs(amounts, w.ActiveID)
	msgs := world.Msgs(newOuts)
	outMode := rapid.SampledFrom([]string{"unsigned", "helper_lock_key", "helper_lock_key", "wrong_key", "one_unsigned", "threshold"}).Draw(t, "output_witness")
	if (mixed && rapid.IntRange(0, 3).Draw(t, "mixed_sign_outputs") > 0) || canonicalCase {
		outMode = "threshold"
	}
	expiredCanonical := canonicalCase && locked[0].cfg.Locktime == "past"
	if expiredCanonical {
		// after the locktime the refund rule is all there is: the refund key signs inputs and outputs with the
		// library's helpers; without refund keys anybody may spend and nothing needs a signature
		outMode = "helper_refund_key"
		if locked[0].cfg.NRefund == 0 {
			outMode = "unsigned"
		}
		rec.Class("e2e_canonical_sig_all_expired_" + outMode)
	}
	if canonicalCase {
		rec.Class("e2e_canonical_sig_all_target=" + target)
	}
	var bs, ows []string
	switch outMode {
	case "helper_lock_key":
		msgs, err = nut11.AddSignatureToOutputs(msgs, lockgen.K(lockgen.LockKey).Priv)
		if err != nil {
			t.Fatalf("AddSignatureToOutputs: %v", err)
		}
	case "helper_refund_key":
		msgs, err = nut11.AddSignatureToOutputs(msgs, lockgen.K(lockgen.Refund0).Priv)
		if err != nil {
			t.Fatalf("AddSignatureToOutputs: %v", err)
		}
	case "wrong_key":
		msgs, _ = nut11.AddSignatureToOutputs(msgs, lockgen.K(lockgen.Foreign0).Priv)
	case "one_unsigned":
		msgs, _ = nut11.AddSignatureToOutputs(msgs, lockgen.K(lockgen.LockKey).Priv)
		at := rapid.IntRange(0, len(msgs)-1).Draw(t, "unsigned_output")
		msgs[at].Witness = rapid.SampledFrom([]string{"", "{}", `{"signatures":[]}`}).Draw(t, "unsigned_shape")
		rec.Class(fmt.Sprintf("e2e_unsigned_output_first=%v_of_many=%v", at == 0, len(msgs) > 1))
	case "threshold":
		// sign every output with lock key and all co-signers of the first locked input
		for i := range msgs {
			raw := mustHex(msgs[i].B_)
			var sigs []string
			signed := map[int]bool{}
			for _, li := range locked {
				if !signed[li.cfg.LockIdx] {
					signed[li.cfg.LockIdx] = true
					sigs = append(sigs, lockgen.Sign(li.cfg.LockIdx, raw, 0))
				}
			}
			for k := 0; k < locked[0].cfg.NCosign; k++ {
				sigs = append(sigs, lockgen.Sign(lockgen.Cosign0+k, raw, 0))
			}
			msgs[i].Witness = lockgen.WitnessJSON("object", sigs, "", false)
		}
	}
	for _, m := range msgs {
		bs = append(bs, m.B_)
		ows = append(ows, m.Witness)
	}
	err = swap(inputs, msgs)
	accepted := err == nil
	anySA, necSA, whySA := ref.EvalSwapSigAll(secrets, bs, ows, lockgen.Verify)
	rec.Class("e2e_outputs=" + outMode)
	if viaHTTP {
		rec.Class("e2e_swap_via_http")
	}
	if accepted && viaHTTP {
		// the same inputs and outputs once more with other witnesses: whoever sends this does not hold the keys, and
		// the inputs are spent - nothing but a refusal is right, whatever the handler remembers of the first request
		again := append(cashu.Proofs{}, inputs...)
		how := rapid.SampledFrom([]string{"witness_dropped", "witness_by_foreign_key", "witness_empty_object"}).Draw(t, "replay_witness")
		for i := range again {
			if ref.ParseLock(again[i].Secret).IsLock {
				switch how {
				case "witness_dropped":
					again[i].Witness = ""
				case "witness_by_foreign_key":
					again[i].Witness = lockgen.WitnessJSON("object", []string{lockgen.Sign(lockgen.Foreign0, []byte(again[i].Secret), 0)}, "", false)
				case "witness_empty_object":
					again[i].Witness = "{}"
				}
			}
		}
		changed := false
		for i := range again {
			changed = changed || again[i].Witness != inputs[i].Witness
		}
		if changed {
			rec.Class("e2e_http_replay_" + how)
			if err2 := swap(again, msgs); err2 == nil {
				violate(t, "e2e|http_replay_with_other_witness_accepted|"+how, "the swap of %v was accepted, then the same inputs and outputs with %s were answered 200 again", secrets, how)
			}
		}
	}
	if accepted && !allNec && !anySilent {
		violate(t, "e2e|swap_accepted_without_input_condition", "secrets %v witnesses %v", secrets, witnesses(inputs))
	}
	if accepted && anySA && !necSA {
		violate(t, fmt.Sprintf("e2e|swap_accepted_sig_all_rule_broken|%s|plain_before_locked=%v", whySA, firstLockedPos > 0), "swap accepted although a SIG_ALL input is present (first locked input at position %d of %d, outputs %s): %s; secrets %v", firstLockedPos, len(inputs), outMode, whySA, secrets)
	}
	// sufficiency: canonical helper witnesses
	canonicalSigAll := anySA && nPlain == 0 && sameCond && allSigAllCanonical(locked) && (outMode == "helper_lock_key" || outMode == "threshold") && locked[0].cfg.Locktime != "past" &&
		(outMode == "threshold" || locked[0].cfg.NSigs <= 1)
	if expiredCanonical && anySA && sameCond && allSigAllCanonical(locked) {
		canonicalSigAll = true
	}
	if !accepted && allSuff && (!anySA || canonicalSigAll) {
		violate(t, fmt.Sprintf("e2e|swap_sufficient_witness_rejected|sig_all=%v|outputs=%s", anySA, outMode), "rejected (%v); secrets %v witnesses %v output witnesses %v", err, secrets, witnesses(inputs), ows)
	}
	if accepted {
		rec.Class("e2e_swap_accepted")
	}
	rec.Sample("e2e_swap", map[string]any{"class": cls, "outputs": outMode, "accepted": accepted, "sig_all_rule": whySA, "error": fmt.Sprint(err)})
}

func allSigAllCanonical(l []lockedInput) bool {
	for _, x := range l {
		if x.cfg.Sigflag != "SIG_ALL" || !x.canon {
			return false
		}
	}
	return true
}

func witnesses(ps cashu.Proofs) []string {
	var out []string
	for _, p := range ps {
		out = append(out, p.Witness)
	}
	return out
}

func intRange(n int) []int {
	out := make([]int, n)
	for i := range out {
		out[i] = i
	}
	return out
}

func TestSwapMelt(t *testing.T) { rapid.Check(t, propSwapMelt) }
