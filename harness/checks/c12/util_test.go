package c12

import (
	"context"
	"encoding/hex"
)

func ctxBg() context.Context { return context.Background() }

func mustHex(s string) []byte {
	b, err := hex.DecodeString(s)
	if err != nil {
		panic(err)
	}
	return b
}
