package c12

import (
	"strings"
	"testing"

	"github.com/elnosh/gonuts/cashu"
	"github.com/elnosh/gonuts/cashu/nuts/nut10"
	"github.com/elnosh/gonuts/cashu/nuts/nut11"

	"verif/harness/lockgen"
	"verif/harness/rec"
)

func report(t *testing.T, sig, format string, a ...any) {
	if rec.IsKnown("C12|" + sig) {
		return
	}
	t.Fatalf("VIOLATION C12|"+sig+": "+format, a...)
}

// n_sigs = 3 over two keys must not be satisfiable with two signatures by one key
func TestRegressLastKeyCountedTwice(t *testing.T) {
	c := lockgen.Config{Kind: "P2PK", NSigs: 3, NCosign: 1, Locktime: "absent", Sigflag: "absent", Nonce: strings.Repeat("ab", 32)}
	secret := c.Secret()
	elems := []lockgen.SigElem{{Kind: "valid", Key: lockgen.Cosign0}, {Kind: "valid", Key: lockgen.LockKey}, {Kind: "valid2", Key: lockgen.LockKey}}
	w := lockgen.WitnessJSON("object", lockgen.Render(elems, []byte(secret)), "", false)
	ns, _ := nut10.DeserializeSecret(secret)
	rec.Eval()
	rec.NonTrivial("regress_last_key")
	if err := nut11.VerifyP2PKLockedProof(cashu.Proof{Secret: secret, Witness: w}, ns); err == nil {
		report(t, "direct|accepted_without_condition|p2pk|n_sigs>keys|witness=two_valid_sigs_one_key", "3-of-2 lock accepted with two signatures by the lock key")
	}
	// the lock key listed again in pubkeys must not count as a second key
	c2 := lockgen.Config{Kind: "P2PK", NSigs: 2, DupLockInPubkeys: true, Locktime: "absent", Sigflag: "absent", Nonce: strings.Repeat("cd", 32)}
	s2 := c2.Secret()
	e2 := []lockgen.SigElem{{Kind: "valid", Key: lockgen.LockKey}, {Kind: "valid2", Key: lockgen.LockKey}}
	w2 := lockgen.WitnessJSON("object", lockgen.Render(e2, []byte(s2)), "", false)
	ns2, _ := nut10.DeserializeSecret(s2)
	if err := nut11.VerifyP2PKLockedProof(cashu.Proof{Secret: s2, Witness: w2}, ns2); err == nil {
		report(t, "direct|accepted_without_condition|p2pk|duplicate_listed_key", "2-of-2 over the same key accepted with two signatures by that key")
	}
}

// a SIG_ALL proof after a plain proof must still be detected
func TestRegressSigAllAfterPlainProof(t *testing.T) {
	c := lockgen.Config{Kind: "P2PK", NSigs: -1, Locktime: "absent", Sigflag: "SIG_ALL", Nonce: strings.Repeat("ef", 32)}
	rec.Eval()
	rec.NonTrivial("regress_sig_all_position")
	plain := cashu.Proof{Secret: strings.Repeat("11", 32)}
	locked := cashu.Proof{Secret: c.Secret()}
	if !nut11.ProofsSigAll(cashu.Proofs{locked, plain}) {
		t.Fatalf("SIG_ALL proof first is not detected at all")
	}
	if !nut11.ProofsSigAll(cashu.Proofs{plain, locked}) {
		report(t, "e2e|swap_accepted_sig_all_rule_broken|not_all_inputs_sig_all|plain_before_locked=true", "ProofsSigAll([plain, SIG_ALL]) = false")
	}
}
