package c13

import (
	"encoding/hex"
	"fmt"
	"testing"

	"github.com/btcsuite/btcd/btcec/v2"
	"github.com/elnosh/gonuts/cashu"
	"github.com/elnosh/gonuts/cashu/nuts/nut11"
	"pgregory.net/rapid"

	"verif/harness/lnmodel"
	"verif/harness/rec"
	"verif/harness/wenv"
)

// Wallet level: Wallet.HTLCLockedProofs -> Wallet.ReceiveHTLC between real wallets (the witness comes from the
// library's own helpers AddWitnessHTLC / AddWitnessHTLCToOutputs) must be accepted by the mint for the right
// preimage and the listed signer, and refused for a wrong preimage or a wallet whose key is not listed.
func propWalletHTLC(t *rapid.T) {
	fee := rapid.SampledFrom([]uint{0, 100}).Draw(t, "fee")
	e := wenv.New(t, rapid.Uint64().Draw(t, "case_seed"), []uint{fee}, []lnmodel.FeeMode{lnmodel.FeeZero})
	defer e.Close()
	url := wenv.URL(e.Mints[0])
	var ws []*wenv.WalletH
	for _, n := range []string{"alice", "bob", "carol"} {
		h, err := e.NewWallet(n, url)
		if err != nil {
			t.Fatalf("LoadWallet: %v", err)
		}
		ws = append(ws, h)
	}
	alice, bob, carol := ws[0], ws[1], ws[2]
	e.Cur = "alice"
	r, err := alice.W.RequestMint(512, url)
	if err != nil {
		t.Fatalf("setup: %v", err)
	}
	e.Net.PayExternally(e.Net.InvoiceByRequest(r.Request).Hash)
	if _, err := alice.W.MintTokens(r.Quote); err != nil {
		t.Fatalf("setup: %v", err)
	}
	amount := rapid.Uint64Range(1, 200).Draw(t, "amount")
	preimage := hex.EncodeToString(rapid.SliceOfN(rapid.Byte(), 1, 32).Draw(t, "preimage"))
	withSigner := rapid.Bool().Draw(t, "signer_required")
	sigAll := withSigner && rapid.Bool().Draw(t, "sig_all")
	var tags *nut11.P2PKTags
	if withSigner {
		tags = &nut11.P2PKTags{NSigs: 1, Pubkeys: []*btcec.PublicKey{bob.W.GetReceivePubkey()}}
		if sigAll {
			tags.Sigflag = nut11.SIGALL
		}
	}
	rec.Eval()
	proofs, err := alice.W.HTLCLockedProofs(amount, url, preimage, tags, rapid.Bool().Draw(t, "include_fees"))
	if err != nil {
		t.Skipf("send failed: %v", err)
	}
	// the mint may rotate its keyset between locking and redeeming: the receiving wallet (loaded before) discovers the
	// rotation inside the receive. The token's proofs then belong to a retired keyset; with DLEQ proofs attached the
	// receiver has to check them against that keyset's keys (it used the active keyset's until fix db14652).
	withDLEQ := rapid.Bool().Draw(t, "dleq")
	rotated := rapid.IntRange(0, 2).Draw(t, "rotate_before_receive") == 0
	if rotated {
		if _, err := e.Mints[0].Mint.RotateKeyset(fee); err != nil {
			t.Fatalf("rotate: %v", err)
		}
		e.Mints[0].RefreshKeysets()
	}
	tok, err := cashu.NewTokenV4(append(cashu.Proofs{}, proofs...), url, cashu.Sat, withDLEQ)
	if err != nil {
		t.Fatalf("token: %v", err)
	}
	str, _ := tok.Serialize()
	cls := fmt.Sprintf("wallet_htlc|signer=%v|sig_all=%v|fee=%d", withSigner, sigAll, fee)
	rec.NonTrivial(cls + fmt.Sprint(amount))
	rec.Class(cls)
	if rotated {
		rec.Class("wallet_receive_discovers_rotation")
		if withDLEQ {
			rec.Class("wallet_receive_retired_keyset_token_with_dleq")
		}
	}
	redeemable := proofs.Amount() > (uint64(len(proofs))*uint64(fee)+999)/1000
	// (after a rotation the redemption itself must be the receiver's first contact with the mint: no probes first)
	dec, _ := cashu.DecodeToken(str)
	e.Cur = "bob"
	if !rotated {
		if got, err := bob.W.ReceiveHTLC(dec, "00"+preimage); err == nil {
			violate(t, "wallet|htlc_redeemed_with_wrong_preimage", "bob received %d with a wrong preimage", got)
		}
	}
	if withSigner && !rotated {
		dec, _ = cashu.DecodeToken(str)
		e.Cur = "carol"
		if got, err := carol.W.ReceiveHTLC(dec, preimage); err == nil {
			violate(t, "wallet|htlc_redeemed_by_unlisted_key", "carol received %d although only bob's key is listed", got)
		}
	}
	receiver := bob
	if !withSigner {
		receiver = carol
	}
	dec, _ = cashu.DecodeToken(str)
	e.Cur = receiver.Name
	got, err := receiver.W.ReceiveHTLC(dec, preimage)
	if err != nil {
		if redeemable {
			violate(t, fmt.Sprintf("wallet|helper_witness_rejected|signer=%v|sig_all=%v", withSigner, sigAll), "%s cannot redeem the HTLC token with the right preimage: %v", receiver.Name, err)
		}
		return
	}
	if want := proofs.Amount() - (uint64(len(proofs))*uint64(fee)+999)/1000; got != want {
		violate(t, "wallet|received_amount", "got %d, want %d (token %d, %d proofs, fee %d ppk)", got, want, proofs.Amount(), len(proofs), fee)
	}
}

func TestWalletHTLC(t *testing.T) { rapid.Check(t, propWalletHTLC) }
