package c13

import (
	"crypto/sha256"
	"encoding/hex"
	"strings"
	"testing"

	"github.com/elnosh/gonuts/cashu"
	"github.com/elnosh/gonuts/cashu/nuts/nut14"

	"verif/harness/lockgen"
	"verif/harness/rec"
	"verif/harness/ref"
)

// the output witness of the HTLC helper must be a signature over sha256(bytes of B_), which is what the mint verifies
func TestRegressHTLCOutputHelperMessage(t *testing.T) {
	b := "02" + strings.Repeat("5a", 32)
	rec.Eval()
	rec.NonTrivial("regress_htlc_output_helper")
	out, err := nut14.AddWitnessHTLCToOutputs(cashu.BlindedMessages{{Amount: 1, Id: "00aa", B_: b}}, "00", lockgen.K(lockgen.Cosign0).Priv)
	if err != nil {
		t.Fatal(err)
	}
	w := ref.ParseWitness(out[0].Witness)
	raw, _ := hex.DecodeString(b)
	h := sha256.Sum256(raw)
	if len(w.Signatures) != 1 || !lockgen.Verify(lockgen.K(lockgen.Cosign0).Hex, h[:], w.Signatures[0]) {
		sig := "C13|e2e|helper_witness_rejected_by_mint|sig_all=true|outputs=helper"
		if !rec.IsKnown(sig) {
			t.Fatalf("VIOLATION %s: AddWitnessHTLCToOutputs does not sign sha256(bytes of B_)", sig)
		}
	}
}
