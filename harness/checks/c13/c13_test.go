// C13 — HTLC locks: spendable only with the preimage and required signatures (NUT-14).
package c13

import (
	"context"
	"encoding/json"
	"fmt"
	"os"
	"strings"
	"testing"
	"time"

	"github.com/elnosh/gonuts/cashu"
	"github.com/elnosh/gonuts/cashu/nuts/nut03"
	"github.com/elnosh/gonuts/cashu/nuts/nut10"
	"github.com/elnosh/gonuts/cashu/nuts/nut14"
	"pgregory.net/rapid"

	"verif/harness/httpx"
	"verif/harness/lnmodel"
	"verif/harness/lockgen"
	"verif/harness/rec"
	"verif/harness/ref"
	"verif/harness/world"
)

func TestMain(m *testing.M) {
	code := m.Run()
	rec.Flush()
	os.Exit(code)
}

var candidateKeys = []int{lockgen.LockKey, lockgen.Cosign0, lockgen.Cosign0 + 1, lockgen.Cosign0 + 2, lockgen.Refund0, lockgen.Refund0 + 1, lockgen.Foreign0}

func violate(t *rapid.T, sig, format string, a ...any) {
	sig = "C13|" + sig
	if rec.IsKnown(sig) {
		return
	}
	t.Fatalf("VIOLATION %s: %s", sig, fmt.Sprintf(format, a...))
}

func configClass(c lockgen.Config) string {
	rel := "n_sigs_absent"
	switch {
	case c.NSigs == 0:
		rel = "n_sigs=0"
	case c.NSigs > 0 && c.NCosign == 0:
		rel = "threshold_without_keys"
	case c.NSigs > c.NCosign:
		rel = "n_sigs>keys"
	case c.NSigs > 0:
		rel = "n_sigs<=keys"
	}
	return fmt.Sprintf("hash=%s|%s|lt=%s|refund=%d|%s", c.HashKind, rel, c.Locktime, min(c.NRefund, 1), c.Sigflag)
}

func genPreimage(t *rapid.T, c lockgen.Config) (string, string) {
	kind := rapid.SampledFrom([]string{"right", "right", "right", "right", "wrong", "non_hex", "empty", "right_upper"}).Draw(t, "preimage_kind")
	switch kind {
	case "wrong":
		return "00" + c.Preimage, kind
	case "non_hex":
		return "zz" + c.Preimage, kind
	case "empty":
		return "", kind
	case "right_upper":
		return strings.ToUpper(c.Preimage), kind
	}
	return c.Preimage, kind
}

func propDirect(t *rapid.T) {
	c := lockgen.GenConfig(t, "HTLC")
	// one case in five is all about counting distinct signers: threshold over a key list that names a key twice, right
	// preimage, well-formed witness
	focus := rapid.IntRange(0, 4).Draw(t, "threshold_focus") == 0
	if focus {
		c = lockgen.FocusThreshold(t, c)
		rec.Class("direct_threshold_focus")
	}
	secret := c.Secret()
	elems, _ := lockgen.GenWitnessElems(t, c, candidateKeys, "sig")
	pre, pkind := genPreimage(t, c)
	shape := rapid.SampledFrom([]string{"object", "object", "object", "object", "object", "object", "none", "empty_object", "garbage", "null_sigs"}).Draw(t, "witness_shape")
	if focus {
		pre, pkind, shape = c.Preimage, "right", "object"
	}
	sigs := lockgen.Render(elems, []byte(secret))
	witness := lockgen.WitnessJSON(shape, sigs, pre, true)
	proof := cashu.Proof{Amount: 1, Id: "00c13c13c13c13c1", Secret: secret, C: "02" + strings.Repeat("11", 32), Witness: witness}
	rec.Eval()
	ns, derr := nut10.DeserializeSecret(secret)
	if c.Form != "" {
		rec.Class("direct_secret_form=" + c.Form)
	}
	if derr != nil || ns.Kind != nut10.HTLC {
		// every generated secret is the JSON of an HTLC secret, in whatever spelling
		violate(t, "direct|lock_not_recognised|form="+c.Form, "DeserializeSecret: kind %v err %v for secret %q", ns.Kind, derr, secret)
		return
	}
	var err error
	var pv any
	func() {
		defer func() { pv = recover() }()
		err = nut14.VerifyHTLCProof(proof, ns)
	}()
	v := ref.EvalInput(secret, witness, time.Now().Unix(), lockgen.Verify)
	cls := configClass(c)
	rec.Class("direct_config=" + cls)
	rec.Class("direct_preimage=" + pkind)
	if c.Malformed == "" {
		rec.NonTrivial(fmt.Sprintf("direct|%s|%s|%s|%v", cls, pkind, shape, elems))
	}
	desc := fmt.Sprintf("secret %s witness %s", secret, witness)
	if pv != nil {
		violate(t, "direct|panic|"+cls, "VerifyHTLCProof panicked: %v; %s", pv, desc)
		return
	}
	accepted := err == nil
	if v.Silent {
		return
	}
	if accepted && !v.Necessary {
		violate(t, fmt.Sprintf("direct|accepted_without_condition|%s|preimage=%s|%s", v.Why, pkind, strings.Split(cls, "|")[1]), "accepted although preimage / signatures do not satisfy the lock (%s); %s", cls, desc)
	}
	if !accepted && v.Sufficient {
		violate(t, fmt.Sprintf("direct|sufficient_witness_rejected|%s|%s", v.Why, strings.Split(cls, "|")[1]), "rejected (%v) although the witness satisfies the lock (%s); %s", err, cls, desc)
	}
	if accepted {
		rec.Class("direct_accepted")
	}
	rec.Sample("direct_"+v.Why, map[string]any{"config": cls, "preimage": pkind, "accepted": accepted, "necessary": v.Necessary, "sufficient": v.Sufficient})
}

func TestDirect(t *testing.T) { rapid.Check(t, propDirect) }

// helperDomain: configurations for which the library's HTLC helpers are meant to produce a valid witness.
func helperConfig(t *rapid.T) lockgen.Config {
	c := lockgen.GenConfig(t, "HTLC")
	c.Malformed = ""
	c.HashKind = "ok"
	c.NSigs = rapid.SampledFrom([]int{-1, 0, 1}).Draw(t, "helper_n_sigs")
	// no listed keys at all is the plain hash lock: the helpers' witness is then the preimage (a threshold without
	// listed keys cannot be met by anybody and is outside the helpers' domain)
	c.NCosign = rapid.IntRange(0, 3).Draw(t, "helper_cosigners")
	if c.NCosign == 0 {
		c.NSigs = -1
		c.PubkeyOrder = nil
	}
	c.Locktime = rapid.SampledFrom([]string{"absent", "future"}).Draw(t, "helper_locktime")
	if len(c.Preimage) == 0 {
		c.Preimage = "00"
	}
	return trim(c)
}

// the mint refuses secrets longer than 512 bytes (C04): keep the helper domain below that
func trim(c lockgen.Config) lockgen.Config {
	for len(c.Secret()) > 505 {
		if c.NRefund > 0 {
			c.NRefund--
		} else {
			c.NCosign--
		}
	}
	return c
}

// the witness produced by nut14.AddWitnessHTLC is accepted by the verifier
func propHelperInputs(t *rapid.T) {
	c := helperConfig(t)
	secret := c.Secret()
	signer := lockgen.Cosign0 // no listed keys: the helper still signs, nobody asks for the signature
	if c.NCosign > 0 {
		signer += rapid.IntRange(0, c.NCosign-1).Draw(t, "signer")
	}
	ns, _ := nut10.DeserializeSecret(secret)
	proofs := cashu.Proofs{{Amount: 1, Id: "00c13c13c13c13c1", Secret: secret, C: "02" + strings.Repeat("11", 32)}}
	rec.Eval()
	out, err := nut14.AddWitnessHTLC(proofs, ns, c.Preimage, lockgen.K(signer).Priv)
	if err != nil {
		violate(t, "helper|AddWitnessHTLC_failed", "%v for %s", err, secret)
		return
	}
	rec.NonTrivial("helper_in|" + configClass(c) + fmt.Sprint(signer))
	rec.Class("helper_inputs")
	if err := nut14.VerifyHTLCProof(out[0], ns); err != nil {
		violate(t, "helper|input_witness_rejected|"+strings.Split(configClass(c), "|")[1], "VerifyHTLCProof rejects the witness produced by AddWitnessHTLC: %v; secret %s witness %s", err, secret, out[0].Witness)
	}
	if v := ref.EvalInput(secret, out[0].Witness, time.Now().Unix(), lockgen.Verify); !v.Necessary {
		violate(t, "helper|input_witness_does_not_satisfy_lock", "helper witness %s for %s", out[0].Witness, secret)
	}
}

func TestHelperInputs(t *testing.T) { rapid.Check(t, propHelperInputs) }

// end to end through Mint.Swap with really minted HTLC proofs, incl. SIG_ALL and the output helper
func propSwap(t *rapid.T) {
	// one case in three sends the swap through the HTTP handler (with its response cache) instead of calling Mint.Swap
	viaHTTP := rapid.IntRange(0, 2).Draw(t, "via_http") == 0
	w := world.New(t, world.Config{CaseSeed: rapid.Uint64().Draw(t, "case_seed"), SeedIdx: rapid.IntRange(0, 5).Draw(t, "mint_seed"), FeeMode: lnmodel.FeeZero, WithServer: viaHTTP})
	swap := func(inputs cashu.Proofs, msgs cashu.BlindedMessages) error {
		if !viaHTTP {
			_, err := w.Mint.Swap(inputs, msgs)
			return err
		}
		body, _ := json.Marshal(nut03.PostSwapRequest{Inputs: inputs, Outputs: msgs})
		r := httpx.Do(w.Handler(), "POST", "/v1/swap", body, "application/json")
		if r.Panic != nil {
			violate(t, "e2e|http_swap_panic", "%v\n%s", r.Panic, r.Stack[:min(len(r.Stack), 1200)])
		}
		if r.Status == 200 {
			return nil
		}
		return fmt.Errorf("HTTP %d %s", r.Status, r.Body)
	}
	defer w.Close()
	caseKind := rapid.SampledFrom([]string{"helper", "helper", "random", "random", "tamper_output", "tamper_output"}).Draw(t, "case_kind")
	// tamper_output: everything as the helpers produce it for SIG_ALL, several outputs, one output's witness damaged
	helperCase := caseKind != "random"
	var c lockgen.Config
	if helperCase {
		c = helperConfig(t)
		c.Sigflag = rapid.SampledFrom([]string{"absent", "SIG_ALL", "SIG_ALL"}).Draw(t, "helper_sigflag")
		if caseKind == "tamper_output" {
			c.Sigflag = "SIG_ALL"
		}
		if c.Sigflag == "SIG_ALL" && c.NCosign > 0 {
			// output signatures need a signing key: n_sigs = 1 with the signer listed (without listed keys the lock
			// is the hash alone and the outputs carry the preimage)
			c.NSigs = 1
		}
		c = trim(c)
	} else {
		c = lockgen.GenConfig(t, "HTLC")
		c.Malformed = ""
	}
	nLocked := rapid.IntRange(1, 2).Draw(t, "n_locked")
	nPlain := 0
	if !helperCase {
		nPlain = rapid.IntRange(0, 2).Draw(t, "n_plain")
	}
	total := uint64(4 * (nLocked + nPlain))
	q, err := w.RequestMintQuote(total, nil)
	if err != nil {
		t.Fatalf("setup: %v", err)
	}
	w.PayInvoice(q)
	var outs []world.Out
	var cfgs []lockgen.Config
	// SIG_ALL wants all inputs under the same condition: one case in four with two locked inputs gives the second
	// another hash (its own preimage opens it; everything else identical)
	otherHash := nLocked == 2 && c.Sigflag == "SIG_ALL" && c.HashKind == "ok" && rapid.IntRange(0, 3).Draw(t, "second_input_other_hash") == 0
	for i := 0; i < nLocked; i++ {
		ci := c
		ci.Nonce = fmt.Sprintf("%s%02x", c.Nonce[:62], i)
		if otherHash && i == 1 {
			ci.Preimage = c.Preimage + "ff"
		}
		cfgs = append(cfgs, ci)
		outs = append(outs, w.BlindSecret(ci.Secret(), 4, w.ActiveID))
	}
	for i := 0; i < nPlain; i++ {
		outs = append(outs, w.BlindSecret(w.NewSecret(), 4, w.ActiveID))
	}
	if _, err := w.MintTokens(q, outs, ""); err != nil {
		t.Fatalf("setup mint: %v", err)
	}
	signer := lockgen.Cosign0
	var inputs cashu.Proofs
	var secrets []string
	allNec, allSuff, anySilent := true, true, false
	perm := rapid.Permutation(intRange(len(outs))).Draw(t, "input_order")
	for _, ix := range perm {
		p := w.M.Proofs[outs[ix].Secret].P
		if ix < nLocked {
			if helperCase {
				ns, _ := nut10.DeserializeSecret(p.Secret)
				ps, err := nut14.AddWitnessHTLC(cashu.Proofs{p}, ns, cfgs[ix].Preimage, lockgen.K(signer).Priv)
				if err != nil {
					violate(t, "helper|AddWitnessHTLC_failed", "%v", err)
					return
				}
				p = ps[0]
			} else {
				elems, _ := lockgen.GenWitnessElems(t, cfgs[ix], candidateKeys, "sig")
				pre, _ := genPreimage(t, cfgs[ix])
				p.Witness = lockgen.WitnessJSON("object", lockgen.Render(elems, []byte(p.Secret)), pre, true)
			}
			v := ref.EvalInput(p.Secret, p.Witness, time.Now().Unix(), lockgen.Verify)
			allNec, allSuff, anySilent = allNec && v.Necessary, allSuff && v.Sufficient, anySilent || v.Silent
			if len(p.Secret) > 512 {
				allSuff = false
			}
		}
		inputs = append(inputs, p)
		secrets = append(secrets, p.Secret)
	}
	amounts := world.Split(total)
	if caseKind == "tamper_output" || rapid.Bool().Draw(t, "many_outputs") {
		ones := rapid.IntRange(1, 3).Draw(t, "extra_outputs")
		amounts = world.Split(total - uint64(ones))
		for i := 0; i < ones; i++ {
			amounts = append(amounts, 1)
		}
	}
	newOuts := w.MakeOutputs(amounts, w.ActiveID)
	msgs := world.Msgs(newOuts)
	outMode := "unsigned"
	if caseKind == "tamper_output" {
		outMode = rapid.SampledFrom([]string{"one_without_preimage_key", "one_without_preimage_key", "one_empty_preimage", "one_without_signatures", "one_unsigned", "helper"}).Draw(t, "tamper")
	} else if helperCase && c.Sigflag == "SIG_ALL" {
		outMode = "helper"
	} else if c.Sigflag == "SIG_ALL" {
		outMode = rapid.SampledFrom([]string{"unsigned", "helper", "helper_wrong_preimage", "helper_foreign_key", "one_unsigned", "one_without_preimage_key", "one_without_preimage_key", "one_empty_preimage", "one_without_signatures"}).Draw(t, "output_witness")
	}
	switch outMode {
	case "helper":
		msgs, err = nut14.AddWitnessHTLCToOutputs(msgs, c.Preimage, lockgen.K(signer).Priv)
		if err != nil {
			violate(t, "helper|AddWitnessHTLCToOutputs_failed", "%v", err)
			return
		}
	case "helper_wrong_preimage":
		msgs, _ = nut14.AddWitnessHTLCToOutputs(msgs, "00"+c.Preimage, lockgen.K(signer).Priv)
	case "helper_foreign_key":
		msgs, _ = nut14.AddWitnessHTLCToOutputs(msgs, c.Preimage, lockgen.K(lockgen.Foreign0).Priv)
	case "one_unsigned":
		msgs, _ = nut14.AddWitnessHTLCToOutputs(msgs, c.Preimage, lockgen.K(signer).Priv)
		msgs[rapid.IntRange(0, len(msgs)-1).Draw(t, "unsigned_output")].Witness = ""
	case "one_without_preimage_key", "one_empty_preimage", "one_without_signatures":
		// every output carries the helper's witness except one (at a drawn position) that lacks a part of it
		msgs, _ = nut14.AddWitnessHTLCToOutputs(msgs, c.Preimage, lockgen.K(signer).Priv)
		at := rapid.IntRange(0, len(msgs)-1).Draw(t, "tampered_output")
		var wm map[string]any
		if json.Unmarshal([]byte(msgs[at].Witness), &wm) == nil {
			switch outMode {
			case "one_without_preimage_key":
				delete(wm, "preimage")
			case "one_empty_preimage":
				wm["preimage"] = ""
			case "one_without_signatures":
				delete(wm, "signatures")
			}
			b, _ := json.Marshal(wm)
			msgs[at].Witness = string(b)
		}
		rec.Class(fmt.Sprintf("e2e_tampered_output_first=%v_of_many=%v", at == 0, len(msgs) > 1))
	}
	var bs, ows []string
	for _, m := range msgs {
		bs = append(bs, m.B_)
		ows = append(ows, m.Witness)
	}
	rec.Eval()
	err = swap(inputs, msgs)
	accepted := err == nil
	if viaHTTP {
		rec.Class("e2e_swap_via_http")
	}
	if accepted && viaHTTP {
		// the same inputs and outputs once more with other witnesses (no preimage, a wrong one, none at all): the sender
		// does not know the preimage and the inputs are spent - only a refusal is right, whatever the handler remembers
		again := append(cashu.Proofs{}, inputs...)
		how := rapid.SampledFrom([]string{"witness_dropped", "wrong_preimage", "witness_empty_object"}).Draw(t, "replay_witness")
		changed := false
		for i := range again {
			if ref.ParseLock(again[i].Secret).IsLock {
				switch how {
				case "witness_dropped":
					again[i].Witness = ""
				case "wrong_preimage":
					again[i].Witness = lockgen.WitnessJSON("object", nil, "00"+c.Preimage, true)
				case "witness_empty_object":
					again[i].Witness = "{}"
				}
				changed = changed || again[i].Witness != inputs[i].Witness
			}
		}
		if changed {
			rec.Class("e2e_http_replay_" + how)
			if err2 := swap(again, msgs); err2 == nil {
				violate(t, "e2e|http_replay_with_other_witness_accepted|"+how, "the swap of %v was accepted, then the same inputs and outputs with %s were answered 200 again", secrets, how)
			}
		}
	}
	anySA, necSA, whySA := ref.EvalSwapSigAll(secrets, bs, ows, lockgen.Verify)
	cls := fmt.Sprintf("e2e|%s|%s|locked=%d|plain=%d|outputs=%s/%d", caseKind, configClass(c), nLocked, nPlain, outMode, len(msgs))
	rec.NonTrivial(cls + fmt.Sprint(perm))
	rec.Class(fmt.Sprintf("e2e_%s_sig_all=%v_outputs=%s", caseKind, anySA, outMode))
	if accepted && !allNec && !anySilent {
		violate(t, "e2e|swap_accepted_without_input_condition", "secrets %v witnesses %v", secrets, wit(inputs))
	}
	if accepted && anySA && !necSA {
		// note: the output helper's signature is over sha256 of the hex string, which the evaluator (like the mint)
		// does not accept as a signature over the bytes of B_
		violate(t, "e2e|swap_accepted_sig_all_rule_broken|"+whySA, "swap accepted although SIG_ALL outputs rule is broken (%s, outputs %s); secrets %v", whySA, outMode, secrets)
	}
	if otherHash {
		rec.Class("e2e_sig_all_inputs_with_different_hashes")
	}
	if helperCase && !otherHash && !accepted && (outMode == "helper" || outMode == "unsigned") {
		violate(t, fmt.Sprintf("e2e|helper_witness_rejected_by_mint|sig_all=%v|outputs=%s", anySA, outMode), "the mint rejects (%v) the witnesses produced by the library's HTLC helpers; secrets %v input witnesses %v output witnesses %v", err, secrets, wit(inputs), ows)
	}
	if !helperCase && !accepted && allSuff && !anySA {
		violate(t, "e2e|swap_sufficient_witness_rejected", "rejected (%v); secrets %v witnesses %v", err, secrets, wit(inputs))
	}
	if accepted {
		rec.Class("e2e_swap_accepted")
	}
	rec.Sample("e2e", map[string]any{"class": cls, "accepted": accepted, "sig_all_rule": whySA, "error": fmt.Sprint(err)})
}

func wit(ps cashu.Proofs) []string {
	var out []string
	for _, p := range ps {
		out = append(out, p.Witness)
	}
	return out
}

func intRange(n int) []int {
	out := make([]int, n)
	for i := range out {
		out[i] = i
	}
	return out
}

func TestSwap(t *testing.T) { rapid.Check(t, propSwap) }

var _ = context.Background
