// Package lnmodel is an in-process Lightning network model. One Network per case holds the
// ground truth (invoices, outgoing payments, fees, settlement notifications); each mint gets a
// Backend implementing lightning.Client whose answers are scripted by the harness.
//
// Fee policy: a successful payment is charged the FULL fee limit the mint handed to the backend
// (the adversarial backend of property C02). All ledger amounts are millisatoshi.
package lnmodel

import (
	"context"
	"crypto/sha256"
	"encoding/hex"
	"errors"
	"fmt"
	"strings"
	"sync"
	"time"

	"github.com/btcsuite/btcd/chaincfg"
	"github.com/decred/dcrd/dcrec/secp256k1/v4"
	"github.com/decred/dcrd/dcrec/secp256k1/v4/ecdsa"
	"github.com/elnosh/gonuts/mint/lightning"
	"github.com/lightningnetwork/lnd/lnwire"
	"github.com/lightningnetwork/lnd/zpay32"
	decodepay "github.com/nbd-wtf/ln-decodepay"
)

type PayAnswer int

const (
	PaySuccess PayAnswer = iota
	PayPending
	PayFailed
	PayError // transport error: the call returns a non-nil error
)

func (a PayAnswer) String() string {
	return [...]string{"success", "pending", "failed", "error"}[a]
}

type StatusAnswer int

const (
	StTruth StatusAnswer = iota // answer from the ground truth
	StNotFound
	StError
	StFailed
	StPending
	StSucceeded
)

func (a StatusAnswer) String() string {
	return [...]string{"truth", "not-found", "error", "failed", "pending", "succeeded"}[a]
}

type Truth int

const (
	TruthNone Truth = iota
	TruthInflight
	TruthSucceeded
	TruthFailed
)

func (t Truth) String() string { return [...]string{"none", "inflight", "succeeded", "failed"}[t] }

// Call is one logged Lightning call.
type Call struct {
	Seq     int
	Backend string
	Method  string
	Occ     int
	// arguments of pay calls
	Request    string
	Hash       string
	AmountMsat uint64 // invoice amount (SendPayment) or partial amount (PayPartialAmount)
	MaxFeeSat  uint64
	Partial    bool
	Answer     string
	Err        bool
}

type Invoice struct {
	Request    string
	Hash       string
	Preimage   string
	AmountMsat uint64
	Owner      *Backend // nil: external payee
	Settled    bool
	SettledBy  string // "external" or the paying backend's name
	Forged     bool   // re-uses the payment hash of another invoice; nobody but that invoice's payee knows the preimage
	// Canceled: the payee's node has given the invoice up (expired unpaid, or canceled by the operator). It is never
	// settled afterwards; nodes report it in a state of its own (LND: CANCELED, CLN: expired).
	Canceled bool
	subs     []*sub
}

type Payment struct {
	Backend     *Backend
	Hash        string
	Truth       Truth
	AmountMsat  uint64
	FeeLimitSat uint64
	Preimage    string
	Attempts    int
	// FailedBefore: attempts on this payment hash that had definitively failed when a new attempt was made (a node
	// keeps them: Core Lightning lists one entry per attempt group, oldest first)
	FailedBefore int
}

type Network struct {
	mu       sync.Mutex
	invoices map[string]*Invoice
	byReq    map[string]*Invoice
	nonce    uint64
	seed     [32]byte
	seq      int
}

func NewNetwork(seed []byte) *Network {
	n := &Network{invoices: map[string]*Invoice{}, byReq: map[string]*Invoice{}}
	n.seed = sha256.Sum256(append([]byte("lnmodel"), seed...))
	return n
}

func (n *Network) nextBytes(tag string) [32]byte {
	n.nonce++
	return sha256.Sum256([]byte(fmt.Sprintf("%x|%s|%d", n.seed, tag, n.nonce)))
}

var signKey = secp256k1.PrivKeyFromBytes([]byte{1, 2, 3, 4, 5, 6, 7, 8, 9, 10, 11, 12, 13, 14, 15, 16, 17, 18, 19, 20, 21, 22, 23, 24, 25, 26, 27, 28, 29, 30, 31, 32})

// newInvoice builds a real BOLT11 string (signet) for amountMsat. mu must be held.
func (n *Network) newInvoice(amountMsat uint64, owner *Backend) (*Invoice, error) {
	pre := n.nextBytes("preimage")
	h := sha256.Sum256(pre[:])
	// a fixed creation time keeps invoices valid for decodepay and independent of the wall clock
	created := time.Unix(1700000000+int64(n.nonce), 0)
	inv, err := zpay32.NewInvoice(&chaincfg.SigNetParams, h, created,
		zpay32.Amount(lnwire.MilliSatoshi(amountMsat)), zpay32.Description("verif"))
	if err != nil {
		return nil, err
	}
	s, err := inv.Encode(zpay32.MessageSigner{SignCompact: func(msg []byte) ([]byte, error) {
		return ecdsa.SignCompact(signKey, msg, true), nil
	}})
	if err != nil {
		return nil, err
	}
	i := &Invoice{Request: s, Hash: hex.EncodeToString(h[:]), Preimage: hex.EncodeToString(pre[:]), AmountMsat: amountMsat, Owner: owner}
	n.invoices[i.Hash] = i
	n.byReq[strings.ToLower(s)] = i
	return i, nil
}

// ExternalInvoice creates an invoice of an external payee (someone who is not a mint of this network).
func (n *Network) ExternalInvoice(amountMsat uint64) *Invoice {
	n.mu.Lock()
	defer n.mu.Unlock()
	i, err := n.newInvoice(amountMsat, nil)
	if err != nil {
		panic(err)
	}
	return i
}

// ForgedInvoice creates an invoice of an external payee that re-uses the payment hash of an existing invoice (payment
// hashes are public: anybody can issue an invoice for any hash, for any amount). It is known by its request string
// only; the hash keeps pointing at the original invoice.
func (n *Network) ForgedInvoice(hash string, amountMsat uint64) *Invoice {
	n.mu.Lock()
	defer n.mu.Unlock()
	hb, err := hex.DecodeString(hash)
	if err != nil || len(hb) != 32 {
		panic("lnmodel: bad hash")
	}
	var h [32]byte
	copy(h[:], hb)
	n.nonce++
	created := time.Unix(1700000000+int64(n.nonce), 0)
	inv, err := zpay32.NewInvoice(&chaincfg.SigNetParams, h, created,
		zpay32.Amount(lnwire.MilliSatoshi(amountMsat)), zpay32.Description("verif (same hash, other payee)"))
	if err != nil {
		panic(err)
	}
	s, err := inv.Encode(zpay32.MessageSigner{SignCompact: func(msg []byte) ([]byte, error) {
		return ecdsa.SignCompact(signKey, msg, true), nil
	}})
	if err != nil {
		panic(err)
	}
	i := &Invoice{Request: s, Hash: hash, AmountMsat: amountMsat, Forged: true}
	n.byReq[strings.ToLower(s)] = i
	return i
}

func (n *Network) InvoiceByHash(h string) *Invoice {
	n.mu.Lock()
	defer n.mu.Unlock()
	return n.invoices[h]
}

func (n *Network) InvoiceByRequest(r string) *Invoice {
	n.mu.Lock()
	defer n.mu.Unlock()
	return n.byReq[strings.ToLower(r)] // bech32: the upper-case spelling is the same invoice
}

// CancelInvoice: the payee's node gives an unpaid invoice up. Returns false if unknown or already settled.
func (n *Network) CancelInvoice(hash string) bool {
	n.mu.Lock()
	defer n.mu.Unlock()
	i := n.invoices[hash]
	if i == nil || i.Settled || i.Owner == nil {
		return false
	}
	i.Canceled = true
	return true
}

// PayExternally settles a mint-quote invoice from outside (a user paid it). Returns false if unknown or
// already settled.
func (n *Network) PayExternally(hash string) bool {
	n.mu.Lock()
	defer n.mu.Unlock()
	i := n.invoices[hash]
	if i == nil || i.Settled || i.Owner == nil || i.Canceled {
		return false
	}
	i.Settled = true
	i.SettledBy = "external"
	i.Owner.InflowMsat += i.AmountMsat
	return true
}

// Deliver sends the "invoice settled" notification to all subscribers of the invoice. It reports how many
// subscribers were woken.
func (n *Network) Deliver(hash string) int {
	n.mu.Lock()
	i := n.invoices[hash]
	if i == nil || !i.Settled {
		n.mu.Unlock()
		return 0
	}
	subs := i.subs
	i.subs = nil
	inv := lightning.Invoice{PaymentRequest: i.Request, PaymentHash: i.Hash, Preimage: i.Preimage, Settled: true,
		Amount: i.AmountMsat / 1000, Expiry: 3600}
	n.mu.Unlock()
	woken := 0
	for _, s := range subs {
		select {
		case s.ch <- inv:
			woken++
		case <-s.ctx.Done():
		}
	}
	return woken
}

// Subscribers reports the number of live subscriptions waiting for the invoice.
func (n *Network) Subscribers(hash string) int {
	n.mu.Lock()
	defer n.mu.Unlock()
	i := n.invoices[hash]
	if i == nil {
		return 0
	}
	c := 0
	for _, s := range i.subs {
		if s.ctx.Err() == nil {
			c++
		}
	}
	return c
}

type FeeMode int

const (
	FeeZero    FeeMode = iota
	FeePercent         // ceil(1%) like the LND / CLN backends
	FeeConst
)

// Backend implements lightning.Client for one mint.
type Backend struct {
	Name string
	Net  *Network

	FeeMode  FeeMode
	FeeConst uint64

	// Scripts (consumed front to back). Empty pay script => PaySuccess; empty status script => StTruth.
	PayScript    []PayAnswer
	StatusScript []StatusAnswer
	// PayByHash overrides the pay script for a specific invoice (used when requests run concurrently).
	PayByHash map[string]PayAnswer
	// ErrTruth is the ground truth recorded when the pay call answers PayError (what really happened).
	ErrTruth Truth
	// Permissive: invoice requests above 2^40 sat are answered with an (unpayable) invoice instead of an error.
	Permissive bool
	// CreateInvoiceErr makes CreateInvoice fail; InvoiceStatusErr makes InvoiceStatus fail.
	CreateInvoiceErr bool
	InvoiceStatusErr bool

	// AfterPay runs inside a pay call after the node has recorded its outcome and before the call returns to the
	// mint (the answer is on its way): whoever asks the node meanwhile already gets the final status.
	AfterPay func(c *Call)
	// Hook runs before every call (scheduler yield / crash / fault injection). A non-nil error is
	// returned to the mint as the call's error.
	Hook func(c *Call) error

	// ledger (msat)
	InflowMsat  uint64
	OutflowMsat uint64 // sum over succeeded payments of amount + fee limit*1000

	payments map[string]*Payment
	log      []Call
	occ      map[string]int
}

func (n *Network) NewBackend(name string) *Backend {
	return &Backend{Name: name, Net: n, payments: map[string]*Payment{}, occ: map[string]int{}}
}

func (b *Backend) enter(c Call) (*Call, error) {
	b.Net.mu.Lock()
	b.Net.seq++
	c.Seq = b.Net.seq
	c.Backend = b.Name
	b.occ[c.Method]++
	c.Occ = b.occ[c.Method]
	b.log = append(b.log, c)
	idx := len(b.log) - 1
	hook := b.Hook
	b.Net.mu.Unlock()
	cc := c
	if hook != nil {
		if err := hook(&cc); err != nil {
			b.Net.mu.Lock()
			b.log[idx].Err = true
			b.log[idx].Answer = "injected-error"
			b.Net.mu.Unlock()
			return &cc, err
		}
	}
	return &cc, nil
}

func (b *Backend) setAnswer(seq int, ans string, isErr bool) {
	for i := len(b.log) - 1; i >= 0; i-- {
		if b.log[i].Seq == seq {
			b.log[i].Answer = ans
			b.log[i].Err = isErr
			return
		}
	}
}

// Log returns a copy of the call log.
func (b *Backend) Log() []Call {
	b.Net.mu.Lock()
	defer b.Net.mu.Unlock()
	return append([]Call(nil), b.log...)
}

func (b *Backend) LogLen() int {
	b.Net.mu.Lock()
	defer b.Net.mu.Unlock()
	return len(b.log)
}

func (b *Backend) Payment(hash string) *Payment {
	b.Net.mu.Lock()
	defer b.Net.mu.Unlock()
	p := b.payments[hash]
	if p == nil {
		return nil
	}
	cp := *p
	return &cp
}

// Resolve decides an in-flight payment.
func (b *Backend) Resolve(hash string, success bool) bool {
	b.Net.mu.Lock()
	defer b.Net.mu.Unlock()
	p := b.payments[hash]
	if p == nil || p.Truth != TruthInflight {
		return false
	}
	if success {
		b.succeed(p)
	} else {
		p.Truth = TruthFailed
	}
	return true
}

// succeed books a successful payment. mu held.
func (b *Backend) succeed(p *Payment) {
	p.Truth = TruthSucceeded
	b.OutflowMsat += p.AmountMsat + p.FeeLimitSat*1000
	if inv := b.Net.invoices[p.Hash]; inv != nil {
		p.Preimage = inv.Preimage
		if inv.Owner != nil && !inv.Settled {
			inv.Settled = true
			inv.SettledBy = b.Name
			inv.Owner.InflowMsat += p.AmountMsat
		}
	} else {
		p.Preimage = hex.EncodeToString(make([]byte, 32))
	}
}

func (b *Backend) ConnectionStatus() error { return nil }

// CreateInvoiceMsat is what a node front end (harness/clnfacade) calls: the amount exactly as the adapter asked for.
func (b *Backend) CreateInvoiceMsat(amountMsat uint64) (lightning.Invoice, error) {
	c, err := b.enter(Call{Method: "CreateInvoice", AmountMsat: amountMsat})
	if err != nil {
		return lightning.Invoice{}, err
	}
	b.Net.mu.Lock()
	defer b.Net.mu.Unlock()
	if b.CreateInvoiceErr {
		b.setAnswer(c.Seq, "error", true)
		return lightning.Invoice{}, errors.New("lnmodel: MARKER-LN-INTERNAL create invoice failed")
	}
	if amountMsat/1000 > 1<<40 || amountMsat == 0 {
		b.setAnswer(c.Seq, "error", true)
		return lightning.Invoice{}, errors.New("lnmodel: amount not acceptable for an invoice")
	}
	i, err := b.Net.newInvoice(amountMsat, b)
	if err != nil {
		b.setAnswer(c.Seq, "error", true)
		return lightning.Invoice{}, err
	}
	return lightning.Invoice{PaymentRequest: i.Request, PaymentHash: i.Hash, Amount: amountMsat / 1000, Expiry: 3600}, nil
}

func (b *Backend) CreateInvoice(amount uint64) (lightning.Invoice, error) {
	c, err := b.enter(Call{Method: "CreateInvoice", AmountMsat: amount * 1000})
	if err != nil {
		return lightning.Invoice{}, err
	}
	b.Net.mu.Lock()
	defer b.Net.mu.Unlock()
	if b.CreateInvoiceErr {
		b.setAnswer(c.Seq, "error", true)
		return lightning.Invoice{}, errors.New("lnmodel: MARKER-LN-INTERNAL create invoice failed")
	}
	if amount > 1<<40 && b.Permissive {
		// a backend that answers every request with some invoice (like the repository's own test backend): the invoice is
		// for one sat and is given up at once, so nothing can ever be paid into it - what the mint does with the amount
		// it was asked for is its own responsibility
		i, err := b.Net.newInvoice(1000, b)
		if err != nil {
			b.setAnswer(c.Seq, "error", true)
			return lightning.Invoice{}, err
		}
		i.Canceled = true
		return lightning.Invoice{PaymentRequest: i.Request, PaymentHash: i.Hash, Amount: amount, Expiry: 3600}, nil
	}
	if amount > 1<<40 {
		// BOLT11 cannot carry absurd amounts; a real backend refuses too
		b.setAnswer(c.Seq, "error", true)
		return lightning.Invoice{}, errors.New("lnmodel: amount too large for an invoice")
	}
	i, err := b.Net.newInvoice(amount*1000, b)
	if err != nil {
		b.setAnswer(c.Seq, "error", true)
		return lightning.Invoice{}, err
	}
	return lightning.Invoice{PaymentRequest: i.Request, PaymentHash: i.Hash, Amount: amount, Expiry: 3600}, nil
}

func (b *Backend) InvoiceStatus(hash string) (lightning.Invoice, error) {
	c, err := b.enter(Call{Method: "InvoiceStatus", Hash: hash})
	if err != nil {
		return lightning.Invoice{}, err
	}
	b.Net.mu.Lock()
	defer b.Net.mu.Unlock()
	if b.InvoiceStatusErr {
		b.setAnswer(c.Seq, "error", true)
		return lightning.Invoice{}, errors.New("lnmodel: MARKER-LN-INTERNAL invoice lookup failed")
	}
	i := b.Net.invoices[hash]
	if i == nil || i.Owner != b {
		b.setAnswer(c.Seq, "error", true)
		return lightning.Invoice{}, errors.New("lnmodel: invoice does not exist")
	}
	return lightning.Invoice{PaymentRequest: i.Request, PaymentHash: i.Hash, Preimage: i.Preimage, Settled: i.Settled,
		Amount: i.AmountMsat / 1000, Expiry: 3600}, nil
}

func (b *Backend) pay(c *Call, request string, amountMsat, maxFee uint64) (lightning.PaymentStatus, error) {
	b.Net.mu.Lock()
	defer b.Net.mu.Unlock()
	ans := PaySuccess
	if a, ok := b.PayByHash[c.Hash]; ok {
		ans = a
	} else if len(b.PayScript) > 0 {
		ans = b.PayScript[0]
		b.PayScript = b.PayScript[1:]
	}
	if inv := b.Net.byReq[strings.ToLower(request)]; inv != nil && (inv.Forged || inv.Canceled) {
		// the payee of an invoice that borrowed somebody else's payment hash cannot settle the HTLC, and a payee that
		// gave the invoice up will not
		ans = PayFailed
	}
	p := b.payments[c.Hash]
	if p == nil {
		p = &Payment{Backend: b, Hash: c.Hash}
		b.payments[c.Hash] = p
	}
	if p.Attempts > 0 && p.Truth == TruthFailed {
		p.FailedBefore++
	}
	p.Attempts++
	if p.Truth == TruthSucceeded {
		// never pay twice: a second attempt on a succeeded payment reports success without new outflow
		b.setAnswer(c.Seq, "success(already)", false)
		return lightning.PaymentStatus{Preimage: p.Preimage, PaymentStatus: lightning.Succeeded}, nil
	}
	p.AmountMsat, p.FeeLimitSat = amountMsat, maxFee
	b.setAnswer(c.Seq, ans.String(), ans == PayError)
	switch ans {
	case PaySuccess:
		b.succeed(p)
		return lightning.PaymentStatus{Preimage: p.Preimage, PaymentStatus: lightning.Succeeded}, nil
	case PayPending:
		p.Truth = TruthInflight
		return lightning.PaymentStatus{PaymentStatus: lightning.Pending}, nil
	case PayFailed:
		p.Truth = TruthFailed
		return lightning.PaymentStatus{PaymentStatus: lightning.Failed, PaymentFailureReason: "no route"}, nil
	default:
		switch b.ErrTruth {
		case TruthSucceeded:
			b.succeed(p)
		case TruthInflight:
			p.Truth = TruthInflight
		case TruthFailed:
			p.Truth = TruthFailed
		default:
			if p.Truth != TruthInflight {
				p.Truth = TruthNone
			}
		}
		return lightning.PaymentStatus{PaymentStatus: lightning.Failed}, errors.New("lnmodel: MARKER-LN-INTERNAL transport error")
	}
}

func (b *Backend) SendPayment(ctx context.Context, request string, maxFee uint64) (lightning.PaymentStatus, error) {
	call := Call{Method: "SendPayment", Request: request, MaxFeeSat: maxFee}
	if d, err := decodepay.Decodepay(request); err == nil {
		call.Hash = d.PaymentHash
		call.AmountMsat = uint64(d.MSatoshi)
	}
	c, err := b.enter(call)
	if err != nil {
		return lightning.PaymentStatus{PaymentStatus: lightning.Failed}, err
	}
	st, err := b.pay(c, request, call.AmountMsat, maxFee)
	if b.AfterPay != nil {
		b.AfterPay(c)
	}
	return st, err
}

func (b *Backend) PayPartialAmount(ctx context.Context, request string, amountMsat uint64, maxFee uint64) (lightning.PaymentStatus, error) {
	call := Call{Method: "PayPartialAmount", Request: request, MaxFeeSat: maxFee, AmountMsat: amountMsat, Partial: true}
	if d, err := decodepay.Decodepay(request); err == nil {
		call.Hash = d.PaymentHash
	}
	c, err := b.enter(call)
	if err != nil {
		return lightning.PaymentStatus{PaymentStatus: lightning.Failed}, err
	}
	st, err := b.pay(c, request, amountMsat, maxFee)
	if b.AfterPay != nil {
		b.AfterPay(c)
	}
	return st, err
}

func (b *Backend) OutgoingPaymentStatus(ctx context.Context, hash string) (lightning.PaymentStatus, error) {
	c, err := b.enter(Call{Method: "OutgoingPaymentStatus", Hash: hash})
	if err != nil {
		return lightning.PaymentStatus{}, err
	}
	b.Net.mu.Lock()
	defer b.Net.mu.Unlock()
	ans := StTruth
	if len(b.StatusScript) > 0 {
		ans = b.StatusScript[0]
		b.StatusScript = b.StatusScript[1:]
	}
	p := b.payments[hash]
	if ans == StTruth {
		switch {
		case p == nil || p.Truth == TruthNone:
			ans = StNotFound
		case p.Truth == TruthInflight:
			ans = StPending
		case p.Truth == TruthSucceeded:
			ans = StSucceeded
		default:
			ans = StFailed
		}
	}
	b.setAnswer(c.Seq, ans.String(), ans == StNotFound || ans == StError)
	switch ans {
	case StNotFound:
		return lightning.PaymentStatus{PaymentStatus: lightning.Failed}, lightning.OutgoingPaymentNotFound
	case StError:
		return lightning.PaymentStatus{}, errors.New("lnmodel: MARKER-LN-INTERNAL status lookup failed")
	case StFailed:
		return lightning.PaymentStatus{PaymentStatus: lightning.Failed, PaymentFailureReason: "no route"}, nil
	case StPending:
		return lightning.PaymentStatus{PaymentStatus: lightning.Pending}, nil
	default:
		pre := ""
		if p != nil && p.Preimage != "" {
			pre = p.Preimage
		} else if inv := b.Net.invoices[hash]; inv != nil {
			pre = inv.Preimage
		}
		return lightning.PaymentStatus{PaymentStatus: lightning.Succeeded, Preimage: pre}, nil
	}
}

func (b *Backend) FeeReserve(amount uint64) uint64 {
	// pure function of the configuration: not a yield point, but logged
	b.Net.mu.Lock()
	b.Net.seq++
	b.occ["FeeReserve"]++
	b.log = append(b.log, Call{Seq: b.Net.seq, Backend: b.Name, Method: "FeeReserve", Occ: b.occ["FeeReserve"], AmountMsat: amount * 1000})
	b.Net.mu.Unlock()
	return b.FeeFor(amount)
}

// FeeFor is the backend's fee reserve policy.
func (b *Backend) FeeFor(amount uint64) uint64 {
	switch b.FeeMode {
	case FeePercent:
		return (amount + 99) / 100
	case FeeConst:
		return b.FeeConst
	}
	return 0
}

type sub struct {
	ch  chan lightning.Invoice
	ctx context.Context
}

func (s *sub) Recv() (lightning.Invoice, error) {
	select {
	case inv := <-s.ch:
		return inv, nil
	case <-s.ctx.Done():
		return lightning.Invoice{}, s.ctx.Err()
	}
}

func (b *Backend) SubscribeInvoice(ctx context.Context, paymentHash string) (lightning.InvoiceSubscriptionClient, error) {
	if _, err := b.enter(Call{Method: "SubscribeInvoice", Hash: paymentHash}); err != nil {
		return nil, err
	}
	b.Net.mu.Lock()
	defer b.Net.mu.Unlock()
	i := b.Net.invoices[paymentHash]
	if i == nil {
		return nil, errors.New("lnmodel: invoice does not exist")
	}
	s := &sub{ch: make(chan lightning.Invoice), ctx: ctx}
	i.subs = append(i.subs, s)
	return s, nil
}

var _ lightning.Client = (*Backend)(nil)
