module verif/harness

go 1.23.7

require (
	github.com/btcsuite/btcd v0.24.2
	github.com/btcsuite/btcd/btcec/v2 v2.3.3
	github.com/btcsuite/btcd/btcutil v1.1.5
	github.com/decred/dcrd/dcrec/secp256k1/v4 v4.3.0
	github.com/elnosh/gonuts v0.0.0
	github.com/fxamacker/cbor/v2 v2.7.0
	github.com/gorilla/websocket v1.5.3
	github.com/lightningnetwork/lnd v0.18.2-beta
	github.com/nbd-wtf/ln-decodepay v1.12.1
	google.golang.org/grpc v1.64.1
	pgregory.net/rapid v1.3.0
)

require (
	dario.cat/mergo v1.0.0 // indirect
	github.com/Nvveen/Gotty v0.0.0-20120604004816-cd527374f1e5 // indirect
	github.com/aead/chacha20 v0.0.0-20180709150244-8b13a72661da // indirect
	github.com/aead/siphash v1.0.1 // indirect
	github.com/btcsuite/btcd/btcutil/psbt v1.1.9 // indirect
	github.com/btcsuite/btcd/chaincfg/chainhash v1.1.0 // indirect
	github.com/btcsuite/btclog v0.0.0-20170628155309-84c8d2346e9f // indirect
	github.com/btcsuite/btcwallet v0.16.10-0.20240706055350-e391a1c31df2 // indirect
	github.com/btcsuite/btcwallet/wallet/txauthor v1.3.4 // indirect
	github.com/btcsuite/btcwallet/wallet/txrules v1.2.1 // indirect
	github.com/btcsuite/btcwallet/wallet/txsizes v1.2.4 // indirect
	github.com/btcsuite/btcwallet/walletdb v1.4.2 // indirect
	github.com/btcsuite/btcwallet/wtxmgr v1.5.3 // indirect
	github.com/btcsuite/go-socks v0.0.0-20170105172521-4720035b7bfd // indirect
	github.com/btcsuite/websocket v0.0.0-20150119174127-31079b680792 // indirect
	github.com/cenkalti/backoff/v4 v4.2.1 // indirect
	github.com/containerd/continuity v0.4.2 // indirect
	github.com/davecgh/go-spew v1.1.1 // indirect
	github.com/decred/dcrd/crypto/blake256 v1.0.1 // indirect
	github.com/decred/dcrd/lru v1.1.2 // indirect
	github.com/docker/cli v27.1.2+incompatible // indirect
	github.com/docker/docker v27.3.0+incompatible // indirect
	github.com/docker/go-connections v0.5.0 // indirect
	github.com/docker/go-units v0.5.0 // indirect
	github.com/dustin/go-humanize v1.0.1 // indirect
	github.com/go-errors/errors v1.5.1 // indirect
	github.com/go-viper/mapstructure/v2 v2.2.1 // indirect
	github.com/gogo/protobuf v1.3.2 // indirect
	github.com/golang-migrate/migrate/v4 v4.17.1 // indirect
	github.com/golang/protobuf v1.5.4 // indirect
	github.com/google/shlex v0.0.0-20191202100458-e7afc7fbc510 // indirect
	github.com/gorilla/mux v1.8.0 // indirect
	github.com/grpc-ecosystem/grpc-gateway/v2 v2.16.0 // indirect
	github.com/hashicorp/errwrap v1.1.0 // indirect
	github.com/hashicorp/go-multierror v1.1.1 // indirect
	github.com/jackc/chunkreader/v2 v2.0.1 // indirect
	github.com/jackc/pgconn v1.14.3 // indirect
	github.com/jackc/pgerrcode v0.0.0-20240316143900-6e2875d9b438 // indirect
	github.com/jackc/pgio v1.0.0 // indirect
	github.com/jackc/pgpassfile v1.0.0 // indirect
	github.com/jackc/pgproto3/v2 v2.3.3 // indirect
	github.com/jackc/pgservicefile v0.0.0-20221227161230-091c0ba34f0a // indirect
	github.com/jackc/pgtype v1.14.0 // indirect
	github.com/jackc/pgx/v4 v4.18.2 // indirect
	github.com/jrick/logrotate v1.0.0 // indirect
	github.com/juju/loggo v1.0.0 // indirect
	github.com/kkdai/bstream v1.0.0 // indirect
	github.com/lib/pq v1.10.9 // indirect
	github.com/lightninglabs/gozmq v0.0.0-20191113021534-d20a764486bf // indirect
	github.com/lightninglabs/neutrino v0.16.1-0.20240425105051-602843d34ffd // indirect
	github.com/lightninglabs/neutrino/cache v1.1.2 // indirect
	github.com/lightningnetwork/lightning-onion v1.2.1-0.20230823005744-06182b1d7d2f // indirect
	github.com/lightningnetwork/lnd/clock v1.1.1 // indirect
	github.com/lightningnetwork/lnd/fn v1.0.5 // indirect
	github.com/lightningnetwork/lnd/healthcheck v1.2.4 // indirect
	github.com/lightningnetwork/lnd/kvdb v1.4.8 // indirect
	github.com/lightningnetwork/lnd/queue v1.1.1 // indirect
	github.com/lightningnetwork/lnd/sqldb v1.0.2 // indirect
	github.com/lightningnetwork/lnd/ticker v1.1.1 // indirect
	github.com/lightningnetwork/lnd/tlv v1.2.3 // indirect
	github.com/lightningnetwork/lnd/tor v1.1.3 // indirect
	github.com/ltcsuite/ltcd v0.0.0-20190101042124-f37f8bf35796 // indirect
	github.com/mattn/go-sqlite3 v1.14.22 // indirect
	github.com/miekg/dns v1.1.58 // indirect
	github.com/moby/docker-image-spec v1.3.1 // indirect
	github.com/moby/term v0.5.0 // indirect
	github.com/opencontainers/go-digest v1.0.0 // indirect
	github.com/opencontainers/image-spec v1.1.0 // indirect
	github.com/opencontainers/runc v1.1.14 // indirect
	github.com/ory/dockertest/v3 v3.10.0 // indirect
	github.com/pkg/errors v0.9.1 // indirect
	github.com/pmezard/go-difflib v1.0.0 // indirect
	github.com/remyoudompheng/bigfft v0.0.0-20230129092748-24d4a6f8daec // indirect
	github.com/rogpeppe/fastuuid v1.2.0 // indirect
	github.com/sirupsen/logrus v1.9.3 // indirect
	github.com/stretchr/objx v0.5.2 // indirect
	github.com/stretchr/testify v1.9.0 // indirect
	github.com/tyler-smith/go-bip39 v1.1.0 // indirect
	github.com/x448/float16 v0.8.4 // indirect
	github.com/xeipuuv/gojsonpointer v0.0.0-20190905194746-02993c407bfb // indirect
	github.com/xeipuuv/gojsonreference v0.0.0-20180127040603-bd5ef7bd5415 // indirect
	github.com/xeipuuv/gojsonschema v1.2.0 // indirect
	go.etcd.io/bbolt v1.3.7 // indirect
	go.uber.org/atomic v1.7.0 // indirect
	golang.org/x/crypto v0.35.0 // indirect
	golang.org/x/exp v0.0.0-20240325151524-a685a6edb6d8 // indirect
	golang.org/x/net v0.36.0 // indirect
	golang.org/x/sys v0.30.0 // indirect
	golang.org/x/term v0.29.0 // indirect
	golang.org/x/text v0.22.0 // indirect
	google.golang.org/genproto/googleapis/api v0.0.0-20240318140521-94a12d6c2237 // indirect
	google.golang.org/genproto/googleapis/rpc v0.0.0-20240318140521-94a12d6c2237 // indirect
	google.golang.org/protobuf v1.33.0 // indirect
	gopkg.in/errgo.v1 v1.0.1 // indirect
	gopkg.in/macaroon-bakery.v2 v2.0.1 // indirect
	gopkg.in/macaroon.v2 v2.1.0 // indirect
	gopkg.in/yaml.v2 v2.4.0 // indirect
	gopkg.in/yaml.v3 v3.0.1 // indirect
	modernc.org/libc v1.49.3 // indirect
	modernc.org/mathutil v1.6.0 // indirect
	modernc.org/memory v1.8.0 // indirect
	modernc.org/sqlite v1.29.8 // indirect
)

replace github.com/elnosh/gonuts => /repo

replace google.golang.org/protobuf => github.com/lightninglabs/protobuf-go-hex-display v1.30.0-hex-display
