module verif/harness

go 1.23.7

require (
	github.com/btcsuite/btcd v0.24.2
	github.com/btcsuite/btcd/btcutil v1.1.5
	github.com/decred/dcrd/dcrec/secp256k1/v4 v4.3.0
	github.com/elnosh/gonuts v0.0.0
	pgregory.net/rapid v1.3.0
)

require (
	github.com/aead/siphash v1.0.1 // indirect
	github.com/btcsuite/btcd/btcec/v2 v2.3.3 // indirect
	github.com/btcsuite/btcd/btcutil/psbt v1.1.9 // indirect
	github.com/btcsuite/btcd/chaincfg/chainhash v1.1.0 // indirect
	github.com/btcsuite/btclog v0.0.0-20170628155309-84c8d2346e9f // indirect
	github.com/btcsuite/btcwallet v0.16.10-0.20240706055350-e391a1c31df2 // indirect
	github.com/btcsuite/btcwallet/wallet/txauthor v1.3.4 // indirect
	github.com/btcsuite/btcwallet/wallet/txrules v1.2.1 // indirect
	github.com/btcsuite/btcwallet/wallet/txsizes v1.2.4 // indirect
	github.com/btcsuite/btcwallet/walletdb v1.4.2 // indirect
	github.com/btcsuite/btcwallet/wtxmgr v1.5.3 // indirect
	github.com/btcsuite/go-socks v0.0.0-20170105172521-4720035b7bfd // indirect
	github.com/btcsuite/websocket v0.0.0-20150119174127-31079b680792 // indirect
	github.com/davecgh/go-spew v1.1.1 // indirect
	github.com/decred/dcrd/crypto/blake256 v1.0.1 // indirect
	github.com/decred/dcrd/lru v1.1.2 // indirect
	github.com/fxamacker/cbor/v2 v2.7.0 // indirect
	github.com/go-errors/errors v1.5.1 // indirect
	github.com/jrick/logrotate v1.0.0 // indirect
	github.com/kkdai/bstream v1.0.0 // indirect
	github.com/lightninglabs/gozmq v0.0.0-20191113021534-d20a764486bf // indirect
	github.com/lightninglabs/neutrino v0.16.1-0.20240425105051-602843d34ffd // indirect
	github.com/lightninglabs/neutrino/cache v1.1.2 // indirect
	github.com/lightningnetwork/lnd v0.18.2-beta // indirect
	github.com/lightningnetwork/lnd/clock v1.1.1 // indirect
	github.com/lightningnetwork/lnd/fn v1.0.5 // indirect
	github.com/lightningnetwork/lnd/queue v1.1.1 // indirect
	github.com/lightningnetwork/lnd/ticker v1.1.1 // indirect
	github.com/lightningnetwork/lnd/tlv v1.2.3 // indirect
	github.com/lightningnetwork/lnd/tor v1.1.3 // indirect
	github.com/miekg/dns v1.1.58 // indirect
	github.com/nbd-wtf/ln-decodepay v1.12.1 // indirect
	github.com/pmezard/go-difflib v1.0.0 // indirect
	github.com/stretchr/objx v0.5.2 // indirect
	github.com/stretchr/testify v1.9.0 // indirect
	github.com/tyler-smith/go-bip39 v1.1.0 // indirect
	github.com/x448/float16 v0.8.4 // indirect
	go.etcd.io/bbolt v1.3.7 // indirect
	golang.org/x/crypto v0.35.0 // indirect
	golang.org/x/exp v0.0.0-20240325151524-a685a6edb6d8 // indirect
	golang.org/x/net v0.36.0 // indirect
	golang.org/x/sys v0.30.0 // indirect
	golang.org/x/term v0.29.0 // indirect
	gopkg.in/yaml.v3 v3.0.1 // indirect
)

replace github.com/elnosh/gonuts => /repo

replace google.golang.org/protobuf => github.com/lightninglabs/protobuf-go-hex-display v1.30.0-hex-display
