// Package whist is the rapid state machine over the wallet environment: real wallets against real mints
// through the in-process HTTP transport, with the harness playing the user (paying invoices, carrying
// tokens, scripting Lightning outcomes, rotating keysets, restarting and restoring wallets).
// It carries the oracles of C17 (balances, no value lost), C08 (no blinding factor on the wire) and
// C19(a) (no counter reuse, restore completeness); check packages choose which ones fail the run.
package whist

import (
	"encoding/hex"
	"encoding/json"
	"fmt"
	"os"
	"sort"
	"strings"

	"github.com/btcsuite/btcd/btcutil/hdkeychain"
	"github.com/btcsuite/btcd/chaincfg"
	"github.com/elnosh/gonuts/cashu"
	"github.com/elnosh/gonuts/cashu/nuts/nut05"
	"github.com/elnosh/gonuts/cashu/nuts/nut11"
	"github.com/elnosh/gonuts/cashu/nuts/nut13"
	"github.com/elnosh/gonuts/crypto"
	"github.com/elnosh/gonuts/wallet"
	"pgregory.net/rapid"

	"verif/harness/lnmodel"
	"verif/harness/rec"
	"verif/harness/ref"
	"verif/harness/wenv"
	"verif/harness/world"
)

type Token struct {
	ID       int
	Mint     string
	Proofs   cashu.Proofs
	From     string
	Kind     string // plain | p2pk | htlc
	To       string // wallet that can unlock (p2pk / htlc)
	Preimage string
	SigAll   bool
	Str      string
	DLEQ     bool
	Used     bool
}

type pend struct {
	amount uint64
	quote  string
}

type meltRec struct {
	wallet string
	mint   string
	quote  string
	hash   string
	state  string // wallet's view: UNPAID | PENDING | PAID
}

type Options struct {
	Weights map[string]int
	Owns    map[string]bool // properties whose violations fail the run: "C17", "C08", "C19"
	Wallets int
	Mints   int
	Fees    []uint
}

type Machine struct {
	justRotated bool
	E           *wenv.Env
	T           *rapid.T
	Opt         Options
	Tokens      []*Token
	Trace       []string
	Count       map[string]int
	ops         []string

	pendExp map[string]map[string]pend // wallet -> secret -> expected pending record
	melts   []*meltRec
	retired map[string]bool

	reqSeen int
	signedB map[string]map[string]bool // wallet seed owner (mnemonic) -> B_ that got a signature
	knownR  map[string]string          // blinding factor hex (lower) -> origin
	outSecr map[string]string          // secret of an output created by a wallet -> wallet (until spent it must not be sent)
	nextID  int

	gaps           map[string]int64
	derivCache     map[derivKey][]seedOut
	counterFlagged map[string]bool
	signedIn       map[string]string
	// Detail describes the last operation precisely enough to serve in violation signatures
	Detail string
}

var DefaultWeights = map[string]int{
	"mint": 6, "send": 6, "receive": 6, "send_p2pk": 2, "send_htlc": 1, "melt": 4, "checkmelt": 2, "resolve": 2,
	"reclaim": 1, "removespent": 1, "mintswap": 1, "rotate": 1, "restart": 1, "restore": 0, "churn": 0, "join": 1,
}

func New(t *rapid.T, opt Options) *Machine {
	if opt.Weights == nil {
		opt.Weights = DefaultWeights
	}
	if opt.Wallets == 0 {
		opt.Wallets = 2
	}
	caseSeed := rapid.Uint64().Draw(t, "case_seed")
	var fees []uint
	var modes []lnmodel.FeeMode
	for i := 0; i < opt.Mints; i++ {
		fees = append(fees, rapid.SampledFrom(opt.Fees).Draw(t, "mint_fee"))
		modes = append(modes, lnmodel.FeeMode(rapid.IntRange(0, 1).Draw(t, "fee_mode")))
	}
	// two mints in five sit behind one of the repository's own backend adapters
	var adapters []string
	for range fees {
		adapters = append(adapters, rapid.SampledFrom([]string{"", "", "", "cln", "lnd"}).Draw(t, "mint_backend_adapter"))
	}
	e := wenv.New(t, caseSeed, fees, modes, adapters...)
	m := &Machine{E: e, T: t, Opt: opt, Count: map[string]int{}, pendExp: map[string]map[string]pend{}, retired: map[string]bool{},
		signedB: map[string]map[string]bool{}, knownR: map[string]string{}, outSecr: map[string]string{}}
	for i := 0; i < opt.Wallets; i++ {
		def := wenv.URL(e.Mints[i%len(e.Mints)])
		h, err := e.NewWallet(fmt.Sprintf("w%d", i), def)
		if err != nil {
			t.Fatalf("LoadWallet: %v", err)
		}
		m.pendExp[h.Name] = map[string]pend{}
		// every other wallet also trusts the other mints from the start (MintSwap needs two trusted mints)
		if i%2 == 0 {
			for _, mw := range e.Mints {
				if u := wenv.URL(mw); u != def {
					e.Cur = h.Name
					if _, err := h.W.AddMint(u); err != nil {
						t.Fatalf("AddMint: %v", err)
					}
				}
			}
		}
	}
	names := make([]string, 0, len(opt.Weights))
	for n := range opt.Weights {
		names = append(names, n)
	}
	sort.Strings(names)
	for _, n := range names {
		for i := 0; i < opt.Weights[n]; i++ {
			m.ops = append(m.ops, n)
		}
	}
	return m
}

func (m *Machine) Close() { m.E.Close() }

func (m *Machine) logf(format string, a ...any) { m.Trace = append(m.Trace, fmt.Sprintf(format, a...)) }

func (m *Machine) TraceString() string { return strings.Join(m.Trace, "\n  ") }

// Fail reports a violation of prop unless it is a known finding or prop is not owned by this check.
func (m *Machine) Fail(prop, sig, format string, a ...any) {
	if !m.Opt.Owns[prop] {
		return
	}
	full := prop + "|" + sig
	if rec.IsKnown(full) {
		return
	}
	m.T.Fatalf("VIOLATION %s: %s\n  history:\n  %s", full, fmt.Sprintf(format, a...), m.TraceString())
}

func (m *Machine) live() []*wenv.WalletH {
	var out []*wenv.WalletH
	for _, h := range m.E.Wallets {
		if !m.retired[h.Name] && h.W != nil {
			out = append(out, h)
		}
	}
	return out
}

func (m *Machine) pickWallet(t *rapid.T, label string) *wenv.WalletH {
	l := m.live()
	return l[rapid.IntRange(0, len(l)-1).Draw(t, label)]
}

// otherSpelling: u is one of the second names a restart may have introduced for a mint the wallet already knows
// (trailing dot, all upper case): the same mint, not another one.
func otherSpelling(u string) bool {
	host := strings.TrimPrefix(u, "http://")
	return strings.HasSuffix(u, ".") || (host == strings.ToUpper(host) && host != strings.ToLower(host))
}

// trusted mints of a wallet (URLs)
func trusted(h *wenv.WalletH) []string {
	var l []string
	for _, u := range h.W.TrustedMints() {
		if !otherSpelling(u) {
			l = append(l, u)
		}
	}
	sort.Strings(l)
	return l
}

func (m *Machine) pickMintOf(t *rapid.T, h *wenv.WalletH, label string) string {
	l := trusted(h)
	return l[rapid.IntRange(0, len(l)-1).Draw(t, label)]
}

// call runs a wallet operation, converting a panic into a violation.
func (m *Machine) call(h *wenv.WalletH, what string, fn func() error) (err error) {
	m.E.Cur = h.Name
	defer func() {
		if p := recover(); p != nil {
			err = fmt.Errorf("panic: %v", p)
			m.logf("%s %s PANICKED: %v", h.Name, what, p)
			m.Fail("C17", "wallet_panic|"+what, "%v", p)
		}
		// every mint here is honest and every token comes from a wallet of this history: a DLEQ proof the wallet calls
		// invalid is a genuine one it verified against the wrong key (or a wallet-made one it built wrongly)
		if err != nil && strings.Contains(strings.ToLower(err.Error()), "invalid dleq") {
			m.Count["wallet_called_a_dleq_invalid"]++
			m.Fail("C10", "wallet_rejects_genuine_dleq|"+strings.SplitN(what, " ", 2)[0], "%s %s: %v", h.Name, what, err)
		}
	}()
	return fn()
}

func (m *Machine) Step(t *rapid.T) {
	m.T = t
	op := rapid.SampledFrom(m.ops).Draw(t, "op")
	if m.justRotated {
		// the operation that discovers a rotation matters: two times in three it is one that derives outputs for
		// a swap or locks proofs right away (instead of whatever comes up)
		m.justRotated = false
		if f := rapid.SampledFrom([]string{"", "send", "send", "send_p2pk", "melt", "send_htlc"}).Draw(t, "op_after_rotation"); f != "" && m.Opt.Weights[f] > 0 {
			op = f
			m.Count["rotation_discovered_by_"+f]++
		}
	}
	m.Detail = ""
	if !m.exec(t, op) {
		op = "mint"
		m.exec(t, op)
	}
	m.Count[op]++
	if m.Detail == "" {
		m.Detail = op
	}
	m.Invariants(m.Detail)
}

func (m *Machine) exec(t *rapid.T, op string) bool {
	switch op {
	case "mint":
		return m.opMint(t)
	case "send":
		return m.opSend(t)
	case "receive":
		return m.opReceive(t)
	case "send_p2pk":
		return m.opSendLocked(t, "p2pk")
	case "send_htlc":
		return m.opSendLocked(t, "htlc")
	case "melt":
		return m.opMelt(t)
	case "checkmelt":
		return m.opCheckMelt(t)
	case "resolve":
		return m.opResolve(t)
	case "reclaim":
		return m.opReclaim(t)
	case "removespent":
		return m.opRemoveSpent(t)
	case "mintswap":
		return m.opMintSwap(t)
	case "rotate":
		return m.opRotate(t)
	case "restart":
		return m.opRestart(t)
	case "restore":
		return m.opRestore(t)
	case "churn":
		return m.opChurn(t)
	case "join":
		return m.opJoin(t)
	}
	return false
}

// ---------------------------------------------------------------- operations

func (m *Machine) MintInto(h *wenv.WalletH, mintURL string, amount uint64) error {
	var quoteID string
	err := m.call(h, "RequestMint", func() error {
		r, err := h.W.RequestMint(amount, mintURL)
		if err != nil {
			return err
		}
		quoteID = r.Quote
		inv := m.E.Net.InvoiceByRequest(r.Request)
		if inv == nil {
			return fmt.Errorf("mint quote invoice unknown to the network")
		}
		m.E.Net.PayExternally(inv.Hash)
		return nil
	})
	if err != nil {
		return err
	}
	return m.call(h, "MintTokens", func() error {
		got, err := h.W.MintTokens(quoteID)
		if err == nil && got != amount {
			m.Fail("C17", "minted_amount_differs", "asked %d got %d", amount, got)
		}
		return err
	})
}

func (m *Machine) opMint(t *rapid.T) bool {
	h := m.pickWallet(t, "mint_wallet")
	mintURL := m.pickMintOf(t, h, "mint_at")
	amount := rapid.OneOf(rapid.Uint64Range(1, 64), rapid.Uint64Range(1, 2000)).Draw(t, "mint_amount")
	err := m.MintInto(h, mintURL, amount)
	m.logf("%s mints %d at %s: err=%v", h.Name, amount, mintURL, err)
	if err != nil {
		m.Fail("C17", "honest_mint_failed", "%v", err)
	}
	return true
}

func (m *Machine) balanceAt(h *wenv.WalletH, mintURL string) uint64 {
	return h.W.GetBalanceByMints()[mintURL]
}

func (m *Machine) addToken(tk *Token) {
	tk.ID = m.nextID
	m.nextID++
	tok, err := cashu.NewTokenV4(append(cashu.Proofs{}, tk.Proofs...), tk.Mint, cashu.Sat, tk.DLEQ)
	var s string
	if err == nil {
		s, err = tok.Serialize()
	}
	if err != nil {
		// fall back to V3 (V4 refuses DLEQ without r)
		t3, _ := cashu.NewTokenV3(append(cashu.Proofs{}, tk.Proofs...), tk.Mint, cashu.Sat, tk.DLEQ)
		s, _ = t3.Serialize()
	}
	tk.Str = s
	m.Tokens = append(m.Tokens, tk)
	for _, p := range tk.Proofs {
		if p.DLEQ != nil && p.DLEQ.R != "" {
			m.knownR[strings.ToLower(p.DLEQ.R)] = "token returned to caller"
		}
	}
}

func (m *Machine) opSend(t *rapid.T) bool {
	h := m.pickWallet(t, "send_wallet")
	mintURL := m.pickMintOf(t, h, "send_mint")
	bal := m.balanceAt(h, mintURL)
	if bal == 0 {
		return false
	}
	amount := rapid.Uint64Range(1, bal).Draw(t, "send_amount")
	fees := rapid.Bool().Draw(t, "send_include_fees")
	var proofs cashu.Proofs
	err := m.call(h, "Send", func() error {
		var e error
		proofs, e = h.W.Send(amount, mintURL, fees)
		return e
	})
	m.logf("%s sends %d from %s (include_fees=%v, balance there %d): %d proofs worth %d err=%v", h.Name, amount, mintURL, fees, bal, len(proofs), proofs.Amount(), err)
	if err != nil {
		m.Count["send_failed"]++
		return true
	}
	for _, p := range proofs {
		m.pendExp[h.Name][p.Secret] = pend{p.Amount, ""}
	}
	m.addToken(&Token{Mint: mintURL, Proofs: proofs, From: h.Name, Kind: "plain", DLEQ: rapid.Bool().Draw(t, "token_dleq")})
	m.Count["send_ok"]++
	return true
}

func (m *Machine) opSendLocked(t *rapid.T, kind string) bool {
	h := m.pickWallet(t, "lock_wallet")
	mintURL := m.pickMintOf(t, h, "lock_mint")
	bal := m.balanceAt(h, mintURL)
	if bal < 8 {
		return false
	}
	to := m.pickWallet(t, "lock_to")
	amount := rapid.Uint64Range(1, bal/2).Draw(t, "lock_amount")
	sigAll := rapid.Bool().Draw(t, "lock_sig_all")
	var proofs cashu.Proofs
	tk := &Token{Mint: mintURL, From: h.Name, Kind: kind, To: to.Name, SigAll: sigAll, DLEQ: rapid.Bool().Draw(t, "token_dleq")}
	err := m.call(h, "SendLocked", func() error {
		var e error
		tags := &nut11.P2PKTags{}
		if sigAll {
			tags.Sigflag = nut11.SIGALL
		}
		if kind == "p2pk" {
			proofs, e = h.W.SendToPubkey(amount, mintURL, to.W.GetReceivePubkey(), tags, rapid.Bool().Draw(t, "lock_fees"))
		} else {
			pre := hex.EncodeToString(rapid.SliceOfN(rapid.Byte(), 1, 32).Draw(t, "preimage"))
			tk.Preimage = pre
			tags.NSigs = 1
			tags.Pubkeys = append(tags.Pubkeys, to.W.GetReceivePubkey())
			proofs, e = h.W.HTLCLockedProofs(amount, mintURL, pre, tags, rapid.Bool().Draw(t, "lock_fees"))
		}
		return e
	})
	m.logf("%s sends %d locked (%s, sig_all=%v) to %s from %s: %d proofs err=%v", h.Name, amount, kind, sigAll, to.Name, mintURL, len(proofs), err)
	if err != nil {
		m.Count["send_failed"]++
		return true
	}
	tk.Proofs = proofs
	m.addToken(tk)
	m.Count["send_"+kind]++
	return true
}

func (m *Machine) opReceive(t *rapid.T) bool {
	var cands []*Token
	for _, tk := range m.Tokens {
		if !tk.Used {
			cands = append(cands, tk)
		}
	}
	if len(cands) == 0 {
		return false
	}
	tk := cands[rapid.IntRange(0, len(cands)-1).Draw(t, "recv_token")]
	var h *wenv.WalletH
	if tk.Kind == "plain" {
		h = m.pickWallet(t, "recv_wallet")
	} else {
		for _, x := range m.live() {
			if x.Name == tk.To {
				h = x
			}
		}
		if h == nil {
			return false
		}
	}
	decoded, err := cashu.DecodeToken(tk.Str)
	if err != nil {
		m.Fail("C17", "token_not_decodable", "%v", err)
		return true
	}
	swapToTrusted := rapid.Bool().Draw(t, "recv_swap_to_trusted")
	var got uint64
	err = m.call(h, "Receive", func() error {
		var e error
		if tk.Kind == "htlc" {
			got, e = h.W.ReceiveHTLC(decoded, tk.Preimage)
		} else {
			got, e = h.W.Receive(decoded, swapToTrusted)
		}
		return e
	})
	crossMint := tk.Kind != "htlc" && swapToTrusted && tk.Mint != h.Default
	m.Detail = "receive_" + tk.Kind
	if tk.SigAll && tk.Kind != "plain" {
		m.Detail += "_sig_all"
	}
	if crossMint {
		m.Detail += "_swap_to_trusted"
		known := false
		for _, u := range trusted(h) {
			if u == tk.Mint {
				known = true
			}
		}
		if !known {
			m.Detail += "_from_untrusted_mint"
		}
	}
	if err != nil {
		m.Detail += "_failed"
	}
	m.logf("%s receives token #%d (%s, %d sat from %s at %s, swap_to_trusted=%v): got %d err=%v", h.Name, tk.ID, tk.Kind, tk.Proofs.Amount(), tk.From, tk.Mint, swapToTrusted, got, err)
	if crossMint {
		m.adoptPending(h)
	}
	if err != nil {
		m.Count["receive_failed"]++
		// a failed cross-mint receive may have melted the token already
		return true
	}
	tk.Used = true
	m.Count["receive_ok"]++
	if tk.From != h.Name {
		m.Count["receive_from_other_wallet"]++
	}
	if crossMint {
		m.Count["receive_cross_mint"]++
	}
	return true
}

func (m *Machine) opMelt(t *rapid.T) bool {
	h := m.pickWallet(t, "melt_wallet")
	mintURL := m.pickMintOf(t, h, "melt_mint")
	bal := m.balanceAt(h, mintURL)
	if bal < 4 {
		return false
	}
	amount := rapid.Uint64Range(1, bal/2).Draw(t, "melt_amount")
	inv := m.E.Net.ExternalInvoice(amount * 1000)
	plan := rapid.SampledFrom([]string{"success", "success", "pending", "failed", "error_none", "error_inflight"}).Draw(t, "melt_ln")
	ln := m.E.MintByURL(mintURL).LN
	ln.PayByHash = map[string]lnmodel.PayAnswer{}
	switch plan {
	case "success":
		ln.PayByHash[inv.Hash] = lnmodel.PaySuccess
	case "pending":
		ln.PayByHash[inv.Hash] = lnmodel.PayPending
	case "failed":
		ln.PayByHash[inv.Hash] = lnmodel.PayFailed
	case "error_none":
		ln.PayByHash[inv.Hash], ln.ErrTruth = lnmodel.PayError, lnmodel.TruthNone
	case "error_inflight":
		ln.PayByHash[inv.Hash], ln.ErrTruth = lnmodel.PayError, lnmodel.TruthInflight
	}
	var quoteID string
	var state nut05.State
	reqFrom := len(m.E.Reqs)
	err := m.call(h, "Melt", func() error {
		q, e := h.W.RequestMeltQuote(inv.Request, mintURL)
		if e != nil {
			return e
		}
		quoteID = q.Quote
		r, e := h.W.Melt(q.Quote)
		if e != nil {
			return e
		}
		state = r.State
		return nil
	})
	m.logf("%s melts %d at %s (ln=%s): state=%s err=%v", h.Name, amount, mintURL, plan, state, err)
	// inputs of the melt request as seen on the wire
	var inputs cashu.Proofs
	for _, r := range m.E.Reqs[reqFrom:] {
		if r.Method == "POST" && r.Path == "/v1/melt/bolt11" {
			var body struct {
				Inputs cashu.Proofs `json:"inputs"`
			}
			json.Unmarshal(r.Body, &body)
			inputs = body.Inputs
		}
	}
	mr := &meltRec{wallet: h.Name, mint: mintURL, quote: quoteID, hash: inv.Hash, state: "UNPAID"}
	if quoteID != "" {
		m.melts = append(m.melts, mr)
	}
	if err != nil {
		m.Count["melt_error"]++
		if len(inputs) > 0 {
			// the wallet leaves the inputs pending until the quote is checked
			for _, p := range inputs {
				m.pendExp[h.Name][p.Secret] = pend{p.Amount, quoteID}
			}
			mr.state = "PENDING"
		}
		return true
	}
	mr.state = state.String()
	switch state {
	case nut05.Pending:
		for _, p := range inputs {
			m.pendExp[h.Name][p.Secret] = pend{p.Amount, quoteID}
		}
		m.Count["melt_pending"]++
	case nut05.Paid:
		m.Count["melt_paid"]++
	case nut05.Unpaid:
		m.Count["melt_unpaid"]++
	}
	return true
}

func (m *Machine) opCheckMelt(t *rapid.T) bool {
	var c []*meltRec
	for _, r := range m.melts {
		if !m.retired[r.wallet] {
			c = append(c, r)
		}
	}
	if len(c) == 0 {
		return false
	}
	mr := c[rapid.IntRange(0, len(c)-1).Draw(t, "checkmelt_pick")]
	var h *wenv.WalletH
	for _, x := range m.live() {
		if x.Name == mr.wallet {
			h = x
		}
	}
	if h == nil {
		return false
	}
	var state nut05.State
	err := m.call(h, "CheckMeltQuoteState", func() error {
		r, e := h.W.CheckMeltQuoteState(mr.quote)
		if e == nil {
			state = r.State
		}
		return e
	})
	m.logf("%s checks melt quote at %s (was %s): %s err=%v", h.Name, mr.mint, mr.state, state, err)
	if err != nil {
		return true
	}
	if mr.state != "PAID" && (state == nut05.Paid || state == nut05.Unpaid) {
		for s, p := range m.pendExp[h.Name] {
			if p.quote == mr.quote {
				delete(m.pendExp[h.Name], s)
			}
		}
		mr.state = state.String()
		m.Count["melt_resolved_"+state.String()]++
	}
	return true
}

func (m *Machine) opResolve(t *rapid.T) bool {
	for _, mr := range m.melts {
		ln := m.E.MintByURL(mr.mint).LN
		if p := ln.Payment(mr.hash); p != nil && p.Truth == lnmodel.TruthInflight {
			ok := rapid.Bool().Draw(t, "resolve_success")
			ln.Resolve(mr.hash, ok)
			m.logf("lightning resolves a payment of %s at %s: success=%v", mr.wallet, mr.mint, ok)
			return true
		}
	}
	return false
}

func (m *Machine) mintStates(mintURL string, secrets []string) map[string]string {
	out := map[string]string{}
	if len(secrets) == 0 {
		return out
	}
	ys := make([]string, len(secrets))
	for i, s := range secrets {
		_, ys[i] = world.Y(s)
	}
	st, err := m.E.MintByURL(mintURL).Mint.ProofsStateCheck(ys)
	if err != nil {
		m.T.Fatalf("mint ProofsStateCheck failed: %v", err)
	}
	for i, s := range secrets {
		out[s] = st[i].State.String()
	}
	return out
}

// mintOfKeyset finds the mint URL owning a keyset id.
func (m *Machine) mintOfKeyset(id string) string {
	for _, w := range m.E.Mints {
		if _, ok := w.Keysets[id]; ok {
			return wenv.URL(w)
		}
		w.RefreshKeysets()
		if _, ok := w.Keysets[id]; ok {
			return wenv.URL(w)
		}
	}
	return ""
}

func (m *Machine) opReclaim(t *rapid.T) bool {
	h := m.pickWallet(t, "reclaim_wallet")
	// expected: pending proofs that are UNSPENT at their mint get reclaimed
	before := h.Inner().GetPendingProofs()
	byMint := map[string][]string{}
	for _, p := range before {
		byMint[m.mintOfKeyset(p.Id)] = append(byMint[m.mintOfKeyset(p.Id)], p.Secret)
	}
	states := map[string]string{}
	for mu, secs := range byMint {
		for s, st := range m.mintStates(mu, secs) {
			states[s] = st
		}
	}
	var got uint64
	err := m.call(h, "ReclaimUnspentProofs", func() error {
		var e error
		got, e = h.W.ReclaimUnspentProofs()
		return e
	})
	m.logf("%s reclaims unspent pending proofs: %d err=%v", h.Name, got, err)
	if err != nil {
		// the call works mint by mint: it may have reclaimed at one mint before failing at another
		m.adoptPending(h)
		return true
	}
	tr := map[string]bool{}
	for _, u := range trusted(h) {
		tr[u] = true
	}
	for _, p := range before {
		// the wallet only looks at pending proofs of mints it trusts
		if states[p.Secret] == "UNSPENT" && tr[m.mintOfKeyset(p.Id)] {
			delete(m.pendExp[h.Name], p.Secret)
		}
	}
	m.Count["reclaim"]++
	return true
}

func (m *Machine) opRemoveSpent(t *rapid.T) bool {
	h := m.pickWallet(t, "removespent_wallet")
	before := h.Inner().GetPendingProofs()
	byMint := map[string][]string{}
	for _, p := range before {
		byMint[m.mintOfKeyset(p.Id)] = append(byMint[m.mintOfKeyset(p.Id)], p.Secret)
	}
	states := map[string]string{}
	for mu, secs := range byMint {
		for s, st := range m.mintStates(mu, secs) {
			states[s] = st
		}
	}
	err := m.call(h, "RemoveSpentProofs", func() error { return h.W.RemoveSpentProofs() })
	m.logf("%s removes spent pending proofs: err=%v", h.Name, err)
	if err != nil {
		m.adoptPending(h)
		return true
	}
	tr := map[string]bool{}
	for _, u := range trusted(h) {
		tr[u] = true
	}
	for _, p := range before {
		if states[p.Secret] == "SPENT" && tr[m.mintOfKeyset(p.Id)] {
			delete(m.pendExp[h.Name], p.Secret)
		}
	}
	m.Count["removespent"]++
	return true
}

func (m *Machine) opMintSwap(t *rapid.T) bool {
	h := m.pickWallet(t, "swap_wallet")
	tm := trusted(h)
	if len(tm) < 2 {
		return false
	}
	from := tm[rapid.IntRange(0, len(tm)-1).Draw(t, "swap_from")]
	to := tm[0]
	if to == from {
		to = tm[1]
	}
	bal := m.balanceAt(h, from)
	if bal < 80 {
		return false
	}
	amount := rapid.Uint64Range(64, bal).Draw(t, "swap_amount")
	plan := rapid.SampledFrom([]string{"success", "success", "failed", "pending"}).Draw(t, "swap_ln")
	ln := m.E.MintByURL(from).LN
	ln.PayByHash = nil
	switch plan {
	case "success":
		ln.PayScript = []lnmodel.PayAnswer{lnmodel.PaySuccess}
	case "failed":
		ln.PayScript = []lnmodel.PayAnswer{lnmodel.PayFailed}
	case "pending":
		ln.PayScript = []lnmodel.PayAnswer{lnmodel.PayPending}
	}
	var got uint64
	err := m.call(h, "MintSwap", func() error {
		var e error
		got, e = h.W.MintSwap(amount, from, to)
		return e
	})
	ln.PayScript = nil
	m.Detail = "mintswap_ln_" + plan
	if err != nil {
		m.Detail += "_failed"
	}
	m.logf("%s swaps %d from %s to %s (ln=%s): got %d err=%v", h.Name, amount, from, to, plan, got, err)
	m.Count["mintswap_"+plan]++
	m.adoptPending(h)
	return true
}

func (m *Machine) opRotate(t *rapid.T) bool {
	w := m.E.Mints[rapid.IntRange(0, len(m.E.Mints)-1).Draw(t, "rotate_mint")]
	if len(w.KSOrder) >= 4 {
		return false
	}
	fee := rapid.SampledFrom(m.Opt.Fees).Draw(t, "rotate_fee")
	if _, err := w.Mint.RotateKeyset(fee); err != nil {
		m.T.Fatalf("rotate: %v", err)
	}
	w.RefreshKeysets()
	m.logf("%s rotates its keyset (fee %d)", wenv.URL(w), fee)
	m.Count["rotation"]++
	m.justRotated = true
	return true
}

func (m *Machine) opRestart(t *rapid.T) bool {
	h := m.pickWallet(t, "restart_wallet")
	if m.Opt.Owns["C19"] && rapid.IntRange(0, 3).Draw(t, "restart_under_other_spelling_first") == 0 {
		// the wallet is started once with its mint's URL in another spelling (a trailing slash, as host names are
		// case-insensitive; a configuration file or a token may have it) and then again as always: it has met its own mint under a second name
		alias := h.Default + "." // the fully qualified form of the same host name
		if rapid.Bool().Draw(t, "alias_upper_case") {
			alias = "http://" + strings.ToUpper(strings.TrimPrefix(h.Default, "http://"))
		}
		aerr := m.E.RestartAs(h, alias)
		m.logf("%s restarts with its mint written %s: err=%v", h.Name, alias, aerr)
		m.Count["restart_under_other_spelling"]++
	}
	err := m.E.Restart(h)
	m.logf("%s restarts: err=%v", h.Name, err)
	if err != nil {
		m.Fail("C17", "wallet_restart_failed", "%v", err)
		m.retired[h.Name] = true
	}
	m.Count["restart"]++
	return true
}

// join: somebody meets a mint for the first time in the middle of the history (after whatever rotations, fee changes
// and restarts it has been through): a new wallet starts with it as default mint, or an existing wallet that does
// not trust it yet adds it.
func (m *Machine) opJoin(t *rapid.T) bool {
	type cand struct {
		h *wenv.WalletH
		u string
	}
	var cands []cand
	for _, h := range m.live() {
		known := map[string]bool{}
		for _, u := range trusted(h) {
			known[u] = true
		}
		for _, mw := range m.E.Mints {
			if u := wenv.URL(mw); !known[u] {
				cands = append(cands, cand{h, u})
			}
		}
	}
	if len(m.E.Wallets) < m.Opt.Wallets+2 {
		for _, mw := range m.E.Mints {
			cands = append(cands, cand{nil, wenv.URL(mw)})
		}
	}
	if len(cands) == 0 {
		return false
	}
	c := cands[rapid.IntRange(0, len(cands)-1).Draw(t, "join_who")]
	if c.h == nil {
		h, err := m.E.NewWallet(fmt.Sprintf("w%d", len(m.E.Wallets)), c.u)
		m.logf("a new wallet starts with default mint %s: err=%v", c.u, err)
		if err != nil {
			m.Fail("C17", "new_wallet_cannot_start", "%v", err)
			return true
		}
		m.pendExp[h.Name] = map[string]pend{}
		m.Count["join_new_wallet"]++
		return true
	}
	err := m.call(c.h, "AddMint", func() error {
		_, e := c.h.W.AddMint(c.u)
		return e
	})
	m.logf("%s adds mint %s: err=%v", c.h.Name, c.u, err)
	if err != nil {
		m.Fail("C17", "add_mint_failed", "%v", err)
	}
	m.Count["join_add_mint"]++
	return true
}

// churn: send (almost) everything at the default mint to self and receive it again: many fresh outputs
func (m *Machine) opChurn(t *rapid.T) bool {
	h := m.pickWallet(t, "churn_wallet")
	mintURL := h.Default
	bal := m.balanceAt(h, mintURL)
	if bal < 40 {
		return false
	}
	var proofs cashu.Proofs
	err := m.call(h, "Send", func() error {
		var e error
		proofs, e = h.W.Send(bal*3/4, mintURL, false)
		return e
	})
	if err != nil {
		m.logf("%s churn send failed: %v", h.Name, err)
		return true
	}
	for _, p := range proofs {
		m.pendExp[h.Name][p.Secret] = pend{p.Amount, ""}
	}
	tk := &Token{Mint: mintURL, Proofs: proofs, From: h.Name, Kind: "plain"}
	m.addToken(tk)
	decoded, _ := cashu.DecodeToken(tk.Str)
	var got uint64
	err = m.call(h, "Receive", func() error {
		var e error
		got, e = h.W.Receive(decoded, false)
		return e
	})
	if err == nil {
		tk.Used = true
		m.call(h, "RemoveSpentProofs", func() error { return h.W.RemoveSpentProofs() })
		for _, p := range proofs {
			delete(m.pendExp[h.Name], p.Secret)
		}
	}
	m.logf("%s churns %d sat through itself: received %d err=%v", h.Name, proofs.Amount(), got, err)
	m.Count["churn"]++
	return true
}

// ---------------------------------------------------------------- restore (C19)

// seedOutputs derives (with the repository's derivation, cross-checked against the reference for the first
// counters) the deterministic outputs of a mnemonic for a keyset.
type seedOut struct {
	counter uint32
	secret  string
	B       string
}

func deriveOutputs(mnemonic, keysetID string, n uint32) ([]seedOut, error) {
	seed := ref.Bip39Seed(mnemonic, "")
	master, err := hdkeychain.NewMaster(seed, &chaincfg.MainNetParams)
	if err != nil {
		return nil, err
	}
	path, err := nut13.DeriveKeysetPath(master, keysetID)
	if err != nil {
		return nil, err
	}
	out := make([]seedOut, 0, n)
	for c := uint32(0); c < n; c++ {
		s, err := nut13.DeriveSecret(path, c)
		if err != nil {
			return nil, err
		}
		r, err := nut13.DeriveBlindingFactor(path, c)
		if err != nil {
			return nil, err
		}
		B, _, err := crypto.BlindMessage(s, r)
		if err != nil {
			return nil, err
		}
		if c < 2 {
			rs, rr, rerr := ref.Nut13(seed, keysetID, c)
			if rerr != nil || rs != s || hex.EncodeToString(ref.Scalar32(rr)) != hex.EncodeToString(r.Serialize()) {
				return nil, fmt.Errorf("derivation disagrees with the reference at counter %d", c)
			}
		}
		out = append(out, seedOut{c, s, hex.EncodeToString(B.SerializeCompressed())})
	}
	return out, nil
}

// expectedRestorable computes, independently of wallet.Restore, the value of the seed's deterministic outputs
// that are UNSPENT or PENDING at the mints, and the highest signed counter per keyset.
func (m *Machine) expectedRestorable(h *wenv.WalletH, mints []string) (uint64, map[string]int, error) {
	var total uint64
	maxSigned := map[string]int{}
	for _, mu := range mints {
		w := m.E.MintByURL(mu)
		w.RefreshKeysets()
		for _, id := range w.KSOrder {
			stored := h.Inner().GetKeysetCounter(id)
			outs, err := deriveOutputs(h.Mnemonic, id, stored+400)
			if err != nil {
				return 0, nil, err
			}
			maxSigned[id] = -1
			var secrets []string
			amounts := map[string]uint64{}
			for _, o := range outs {
				sig, err := w.Inner().GetBlindSignature(o.B)
				if err != nil {
					continue
				}
				if int(o.counter) > maxSigned[id] {
					maxSigned[id] = int(o.counter)
				}
				secrets = append(secrets, o.secret)
				amounts[o.secret] = sig.Amount
			}
			for s, st := range m.mintStates(mu, secrets) {
				if st == "UNSPENT" || st == "PENDING" {
					total += amounts[s]
				}
			}
		}
	}
	return total, maxSigned, nil
}

func (m *Machine) opRestore(t *rapid.T) bool {
	h := m.pickWallet(t, "restore_wallet")
	mints := trusted(h)
	want, maxSigned, err := m.expectedRestorable(h, mints)
	if err != nil {
		m.T.Fatalf("expectedRestorable: %v", err)
	}
	dir, err := os.MkdirTemp(world.ScratchBase(), "restored")
	if err != nil {
		m.T.Fatalf("mkdir: %v", err)
	}
	os.Remove(dir) // Restore wants to create it
	m.E.Cur = h.Name + "-restore"
	var amount uint64
	var rerr error
	func() {
		defer func() {
			if p := recover(); p != nil {
				rerr = fmt.Errorf("panic: %v", p)
			}
		}()
		amount, rerr = wallet.Restore(dir, h.Mnemonic, mints)
	}()
	if rerr != nil {
		m.logf("restore of %s failed: %v", h.Name, rerr)
		m.Fail("C19", "restore_failed", "%v", rerr)
		os.RemoveAll(dir)
		return true
	}
	nh, err := m.E.Adopt(h.Name+"r", dir, h.Default)
	if err != nil {
		m.Fail("C19", "restored_wallet_does_not_load", "%v", err)
		return true
	}
	got := nh.W.GetBalance() + nh.W.PendingBalance()
	wasRestored := strings.HasSuffix(h.Name, "r")
	m.logf("restore of %s (itself restored: %v) from its mnemonic at %v: Restore returned %d, restored wallet holds %d spendable + %d pending; mint-side unspent+pending of the seed's outputs: %d (highest signed counters %v)",
		h.Name, wasRestored, mints, amount, nh.W.GetBalance(), nh.W.PendingBalance(), want, maxSigned)
	m.Count["restore"]++
	if wasRestored {
		m.Count["restore_of_restored"]++
	}
	for id, c := range maxSigned {
		if c >= 300 {
			m.Count["restore_over_300_outputs"]++
		}
		_ = id
	}
	if got != want {
		kind := "restored_less_than_mint_side"
		if got > want {
			kind = "restored_more_than_mint_side"
		}
		m.Fail("C19", fmt.Sprintf("%s|source_itself_restored=%v", kind, wasRestored), "restored %d, mint-side value %d (difference %d)", got, want, int64(want)-int64(got))
	}
	// the restored wallet replaces the original (the original device is gone)
	m.retired[h.Name] = true
	h.W.Shutdown()
	h.W = nil
	m.pendExp[nh.Name] = map[string]pend{}
	for _, p := range nh.Inner().GetPendingProofs() {
		m.pendExp[nh.Name][p.Secret] = pend{p.Amount, ""}
	}
	// melts of the retired wallet can no longer be checked by it
	return true
}

// adoptPending takes the wallet's stored pending set as the expected one. Used after cross-mint operations
// (MintSwap, Receive with swap to the trusted mint) whose inputs the harness does not see as a token: proofs
// in flight between two mints are "locked in a melt and not yet reconciled". Loss or double counting is still
// caught by the conservation and disjointness invariants.
func (m *Machine) adoptPending(h *wenv.WalletH) {
	exp := map[string]pend{}
	for _, p := range h.Inner().GetPendingProofs() {
		if old, ok := m.pendExp[h.Name][p.Secret]; ok {
			exp[p.Secret] = old
		} else {
			exp[p.Secret] = pend{p.Amount, p.MeltQuoteId}
		}
	}
	m.pendExp[h.Name] = exp
}

// Exec runs a named operation (used by directed tests); returns false if its precondition did not hold.
func (m *Machine) Exec(t *rapid.T, op string) bool {
	m.T = t
	m.Detail = ""
	ok := m.exec(t, op)
	if ok {
		m.Count[op]++
		if m.Detail == "" {
			m.Detail = op
		}
		m.Invariants(m.Detail)
	}
	return ok
}

// MaxStoredCounter returns the highest stored keyset counter of the wallet over all mints.
func (m *Machine) MaxStoredCounter(h *wenv.WalletH) uint32 {
	var max uint32
	for _, w := range m.E.Mints {
		for _, id := range w.KSOrder {
			if c := h.Inner().GetKeysetCounter(id); c > max {
				max = c
			}
		}
	}
	return max
}

// Live returns the wallets that are in use.
func (m *Machine) Live() []*wenv.WalletH { return m.live() }

// ExpectedRestorable exposes the independent computation of the restorable value (C19 crash enumeration).
func (m *Machine) ExpectedRestorable(h *wenv.WalletH, mints []string) (uint64, map[string]int, error) {
	return m.expectedRestorable(h, mints)
}

// AddToken registers proofs handed out by a wallet as a token the harness holds.
func (m *Machine) AddToken(mint string, proofs cashu.Proofs, from string) *Token {
	tk := &Token{Mint: mint, Proofs: proofs, From: from, Kind: "plain", DLEQ: true}
	m.addToken(tk)
	return tk
}
