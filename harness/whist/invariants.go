package whist

import (
	"encoding/base64"
	"encoding/hex"
	"encoding/json"
	"fmt"
	"sort"
	"strings"

	"github.com/elnosh/gonuts/cashu"

	"verif/harness/rec"
	"verif/harness/wenv"
)

// Invariants runs after every step.
func (m *Machine) Invariants(op string) {
	m.scanWire(op)
	if m.Opt.Owns["C17"] {
		m.checkWallets(op)
		m.checkConservation(op)
	}
	if m.Opt.Owns["C19"] {
		m.checkCounters(op)
	}
}

// ---------------------------------------------------------------- C17

func (m *Machine) checkWallets(op string) {
	spendableIn := map[string]string{}
	for _, h := range m.live() {
		sp := h.Inner().GetProofs()
		var sum uint64
		byMint := map[string][]string{}
		secrets := map[string]bool{}
		for _, p := range sp {
			sum += p.Amount
			if secrets[p.Secret] {
				m.Fail("C17", "secret_stored_twice_in_one_wallet", "%s", p.Secret)
			}
			secrets[p.Secret] = true
			if other, ok := spendableIn[p.Secret]; ok {
				m.Fail("C17", "secret_spendable_in_two_wallets", "secret %s in %s and %s (after %s)", p.Secret[:12], other, h.Name, op)
			}
			spendableIn[p.Secret] = h.Name
			mu := m.mintOfKeyset(p.Id)
			byMint[mu] = append(byMint[mu], p.Secret)
		}
		if got := h.W.GetBalance(); got != sum {
			m.Fail("C17", "balance_differs_from_stored_proofs", "%s: GetBalance %d, stored spendable proofs sum to %d", h.Name, got, sum)
		}
		var byMints uint64
		for u, v := range h.W.GetBalanceByMints() {
			if otherSpelling(u) {
				continue // the same mint under its second name reports the same proofs: one mint, counted once
			}
			byMints += v
		}
		if byMints != sum {
			m.Fail("C17", "balance_by_mints_differs", "%s: sum of GetBalanceByMints %d, stored spendable %d (after %s)", h.Name, byMints, sum, op)
		}
		for mu, secs := range byMint {
			if mu == "" {
				m.Fail("C17", "spendable_proof_of_unknown_keyset", "%s holds proofs of a keyset no mint has", h.Name)
				continue
			}
			for s, st := range m.mintStates(mu, secs) {
				if st != "UNSPENT" {
					m.Fail("C17", "spendable_proof_is_"+st+"_at_mint|after="+opClass(op), "%s counts secret %s as spendable but %s reports %s (after %s)", h.Name, s[:12], mu, st, op)
				}
			}
		}
		// pending
		pendList := h.Inner().GetPendingProofs()
		var psum uint64
		pset := map[string]uint64{}
		for _, p := range pendList {
			psum += p.Amount
			pset[p.Secret] = p.Amount
			if secrets[p.Secret] {
				m.Fail("C17", "secret_both_spendable_and_pending", "%s: %s (after %s)", h.Name, p.Secret[:12], op)
			}
		}
		if got := h.W.PendingBalance(); got != psum {
			m.Fail("C17", "pending_balance_differs_from_stored", "%s: PendingBalance %d stored %d", h.Name, got, psum)
		}
		var want uint64
		exp := m.pendExp[h.Name]
		for _, p := range exp {
			want += p.amount
		}
		if psum != want || len(pset) != len(exp) {
			var missing, extra []string
			for s, e := range exp {
				if _, ok := pset[s]; !ok {
					st := "?"
					for _, w := range m.E.Mints {
						for k, v := range m.mintStates(wenv.URL(w), []string{s}) {
							_ = k
							if v != "UNSPENT" {
								st = v + "@" + wenv.URL(w)
							}
						}
					}
					missing = append(missing, fmt.Sprintf("%s(%d,quote=%q,mint_state=%s)", s[:8], e.amount, e.quote, st))
				}
			}
			for s := range pset {
				if _, ok := exp[s]; !ok {
					extra = append(extra, s[:10])
				}
			}
			sort.Strings(missing)
			sort.Strings(extra)
			kind := "pending_balance_too_low"
			if psum > want {
				kind = "pending_balance_too_high"
			}
			m.Fail("C17", kind+"|after="+opClass(op), "%s: PendingBalance %d, value handed out / locked and not reconciled %d (missing %v, unexpected %v) after %s", h.Name, psum, want, missing, extra, op)
			// resynchronise so that a known finding does not cascade
			m.pendExp[h.Name] = map[string]pend{}
			for _, p := range pendList {
				m.pendExp[h.Name][p.Secret] = pend{p.Amount, p.MeltQuoteId}
			}
		}
	}
}

func opClass(op string) string { return op }

// conservation per mint: value of all secrets held anywhere that are not SPENT at the mint = issued - redeemed
func (m *Machine) checkConservation(op string) {
	held := map[string]map[string]uint64{} // mint -> secret -> amount
	add := func(mu, secret string, amount uint64) {
		if held[mu] == nil {
			held[mu] = map[string]uint64{}
		}
		held[mu][secret] = amount
	}
	for _, h := range m.live() {
		for _, p := range h.Inner().GetProofs() {
			add(m.mintOfKeyset(p.Id), p.Secret, p.Amount)
		}
		for _, p := range h.Inner().GetPendingProofs() {
			add(m.mintOfKeyset(p.Id), p.Secret, p.Amount)
		}
	}
	for _, tk := range m.Tokens {
		for _, p := range tk.Proofs {
			add(m.mintOfKeyset(p.Id), p.Secret, p.Amount)
		}
	}
	for _, w := range m.E.Mints {
		mu := wenv.URL(w)
		var secrets []string
		for s := range held[mu] {
			secrets = append(secrets, s)
		}
		sort.Strings(secrets)
		var heldValue uint64
		for s, st := range m.mintStates(mu, secrets) {
			if st != "SPENT" {
				heldValue += held[mu][s]
			}
		}
		iss, _ := w.Inner().GetIssuedEcash()
		red, _ := w.Inner().GetRedeemedEcash()
		var outstanding uint64
		for _, v := range iss {
			outstanding += v
		}
		for _, v := range red {
			outstanding -= v
		}
		heldValue += uint64(m.gaps[mu])
		if heldValue != outstanding {
			kind := "value_lost"
			if heldValue > outstanding {
				kind = "value_counted_twice"
			}
			sig := fmt.Sprintf("%s|after=%s", kind, opClass(op))
			full := "C17|" + sig
			if m.Opt.Owns["C17"] && !rec.IsKnown(full) {
				m.Fail("C17", sig, "%s: unspent ecash outstanding at the mint %d, held by wallets and tokens %d (difference %d) after %s", mu, outstanding, heldValue, int64(outstanding)-int64(heldValue), op)
			}
			// after a known finding the baseline is shifted: remember the gap
			m.adoptGap(mu, int64(outstanding)-int64(heldValue))
		}
	}
}

// adoptGap makes a known, already reported loss part of the baseline by adding a phantom token.
func (m *Machine) adoptGap(mu string, gap int64) {
	if gap <= 0 {
		return
	}
	// find the unspent secrets at the mint that nobody holds is not possible from outside; instead keep a
	// running allowance per mint
	if m.gaps == nil {
		m.gaps = map[string]int64{}
	}
	m.gaps[mu] += gap
}

// ---------------------------------------------------------------- C08 / C19 wire scanning

type jsonStr struct {
	path string
	val  string
}

func walk(v any, path string, out *[]jsonStr, keys *[]string) {
	switch x := v.(type) {
	case map[string]any:
		for k, c := range x {
			*keys = append(*keys, path+"."+k)
			walk(c, path+"."+k, out, keys)
		}
	case []any:
		for _, c := range x {
			walk(c, path+"[]", out, keys)
		}
	case string:
		*out = append(*out, jsonStr{path, x})
	}
}

func (m *Machine) refreshKnownR() {
	for _, h := range m.E.Wallets {
		if h.Proxy == nil {
			continue
		}
		for _, p := range h.Proxy.Stored {
			if p.DLEQ != nil && p.DLEQ.R != "" {
				m.knownR[strings.ToLower(p.DLEQ.R)] = "stored by " + h.Name
			}
			m.outSecr[p.Secret] = h.Name
		}
	}
}

func (m *Machine) walletByName(name string) *wenv.WalletH {
	name = strings.TrimSuffix(name, "-restore")
	for _, h := range m.E.Wallets {
		if h.Name == name {
			return h
		}
	}
	return nil
}

func (m *Machine) scanWire(op string) {
	m.refreshKnownR()
	for ; m.reqSeen < len(m.E.Reqs); m.reqSeen++ {
		r := m.E.Reqs[m.reqSeen]
		endpoint := r.Path
		if i := strings.Index(endpoint, "?"); i >= 0 {
			endpoint = endpoint[:i]
		}
		if strings.Count(endpoint, "/") > 4 { // quote ids in the path
			endpoint = endpoint[:strings.LastIndex(endpoint, "/")] + "/{id}"
		}
		if r.Method != "POST" {
			m.scanRaw(op, r, endpoint, []byte(r.Path))
			continue
		}
		rec.Class("wire_" + endpoint)
		m.scanRaw(op, r, endpoint, r.Body)
		var doc any
		if json.Unmarshal(r.Body, &doc) != nil {
			continue
		}
		var strs []jsonStr
		var keys []string
		walk(doc, "", &strs, &keys)
		hasInputs := false
		inputDLEQ, inputDLEQR := false, false
		for _, k := range keys {
			switch {
			case k == ".inputs":
				hasInputs = true
			case k == ".inputs[].dleq":
				inputDLEQ = true
			case k == ".inputs[].dleq.r":
				inputDLEQR = true
			case strings.HasSuffix(k, ".dleq.r") || strings.HasSuffix(k, ".r"):
				m.Fail("C08", "r_field_in_request|endpoint="+endpoint, "request %s carries a field %s (flow %s): %s", endpoint, k, op, trunc(string(r.Body)))
			}
		}
		if hasInputs {
			rec.Class(fmt.Sprintf("wire_request_with_inputs_dleq=%v", inputDLEQ))
			wh := m.walletByName(r.Wallet)
			holdsR := false
			if wh != nil && wh.Proxy != nil {
				for _, p := range wh.Proxy.Stored {
					if p.DLEQ != nil && p.DLEQ.R != "" {
						holdsR = true
						break
					}
				}
			}
			if holdsR && m.Opt.Owns["C08"] {
				rec.NonTrivial(fmt.Sprintf("c08|%s|%s|dleq=%v|inputs=%d|wallets=%d|mints=%d", op, endpoint, inputDLEQ, strings.Count(string(r.Body), `"secret"`), len(m.E.Wallets), len(m.E.Mints)))
				m.Count["c08_nontrivial"]++
			}
		}
		if inputDLEQ {
			m.Fail("C08", fmt.Sprintf("dleq_on_input|endpoint=%s|with_r=%v|flow=%s", endpoint, inputDLEQR, op), "request %s by %s sends a DLEQ proof on an input (flow %s): the mint can link the proof to its signature: %s", endpoint, r.Wallet, op, trunc(string(r.Body)))
		}
		for _, s := range strs {
			lv := strings.ToLower(s.val)
			if origin, ok := m.knownR[lv]; ok && len(lv) == 64 {
				if !(inputDLEQ && s.path == ".inputs[].dleq.r") { // already reported above
					m.Fail("C08", "blinding_factor_in_request|endpoint="+endpoint+"|path="+s.path, "request %s contains blinding factor %s.. (%s) at %s (flow %s)", endpoint, lv[:10], origin, s.path, op)
				}
			}
			if owner, ok := m.outSecr[s.val]; ok {
				okPlace := s.path == ".inputs[].secret" && (endpoint == "/v1/swap" || endpoint == "/v1/melt/bolt11")
				if !okPlace {
					m.Fail("C08", "output_secret_outside_spend|endpoint="+endpoint+"|path="+s.path, "secret of an output of %s appears at %s of %s (flow %s)", owner, s.path, endpoint, op)
				}
			}
		}
		if endpoint == "/v1/restore" {
			for _, k := range keys {
				if !(k == ".outputs" || k == ".outputs[].B_" || k == ".outputs[].id" || k == ".outputs[].amount") {
					m.Fail("C08", "restore_request_carries_"+k, "%s", trunc(string(r.Body)))
				}
			}
		}
		if endpoint == "/v1/checkstate" {
			for _, k := range keys {
				if k != ".Ys" {
					m.Fail("C08", "checkstate_request_carries_"+k, "%s", trunc(string(r.Body)))
				}
			}
		}
		// C17: a swap hands the mint exactly its fee - anything beyond that is value nobody holds any more
		if endpoint == "/v1/swap" && r.Status == 200 && m.Opt.Owns["C17"] {
			m.checkSwapBurn(op, r)
		}
		// C19: outputs submitted for signing
		if endpoint == "/v1/swap" || endpoint == "/v1/mint/bolt11" || endpoint == "/v1/melt/bolt11" {
			m.scanOutputs(op, r, endpoint)
		}
	}
}

func (m *Machine) checkSwapBurn(op string, r wenv.Req) {
	var body struct {
		Inputs  cashu.Proofs          `json:"inputs"`
		Outputs cashu.BlindedMessages `json:"outputs"`
	}
	mw := m.E.MintByURL("http://" + r.Host)
	if mw == nil || json.Unmarshal(r.Body, &body) != nil || len(body.Inputs) == 0 {
		return
	}
	mw.RefreshKeysets()
	in, out := body.Inputs.Amount(), uint64(0)
	for _, o := range body.Outputs {
		out += o.Amount
	}
	fee := mw.FeeFor(body.Inputs)
	m.Count["swaps_checked_for_burn"]++
	if fee > 0 {
		m.Count["swaps_with_fee_checked_for_burn"]++
	}
	if in != out+fee {
		sig := "value_burned_in_swap|flow=" + opClass(op)
		if !rec.IsKnown("C17|" + sig) {
			m.Fail("C17", sig, "%s swaps inputs worth %d (mint fee for them %d) for outputs worth %d: %d sat are held by nobody afterwards (flow %s)", r.Wallet, in, fee, out, int64(in)-int64(out)-int64(fee), op)
		}
	}
}

// scanRaw searches the raw bytes for any known blinding factor in hex (any case), raw and base64 renderings.
func (m *Machine) scanRaw(op string, r wenv.Req, endpoint string, body []byte) {
	if len(body) == 0 || len(m.knownR) == 0 {
		return
	}
	lower := strings.ToLower(string(body))
	for rh, origin := range m.knownR {
		if len(rh) != 64 {
			continue
		}
		found := ""
		if strings.Contains(lower, rh) {
			found = "hex"
		} else {
			raw, _ := hex.DecodeString(rh)
			if strings.Contains(string(body), string(raw)) {
				found = "raw"
			} else if strings.Contains(string(body), base64.StdEncoding.EncodeToString(raw)) || strings.Contains(string(body), base64.RawURLEncoding.EncodeToString(raw)) {
				found = "base64"
			}
		}
		if found != "" {
			// structural reporting (dleq on input) has its own, more specific signature; this is the catch-all
			if strings.Contains(lower, `"dleq"`) && strings.Contains(lower, `"inputs"`) {
				continue
			}
			m.Fail("C08", "blinding_factor_bytes_in_request|endpoint="+endpoint+"|encoding="+found, "request %s %s contains blinding factor %s.. (%s) (flow %s)", r.Method, endpoint, rh[:10], origin, op)
		}
	}
}

func trunc(s string) string {
	if len(s) > 500 {
		return s[:500] + fmt.Sprintf("...(%d bytes)", len(s))
	}
	return s
}

func (m *Machine) scanOutputs(op string, r wenv.Req, endpoint string) {
	var body struct {
		Outputs cashu.BlindedMessages `json:"outputs"`
	}
	if json.Unmarshal(r.Body, &body) != nil || len(body.Outputs) == 0 {
		return
	}
	wh := m.walletByName(r.Wallet)
	if wh == nil {
		return
	}
	signed := m.signedB[wh.Mnemonic]
	if signed == nil {
		signed = map[string]bool{}
		m.signedB[wh.Mnemonic] = signed
	}
	if m.signedIn == nil {
		m.signedIn = map[string]string{}
	}
	cls := strings.TrimSuffix(strings.TrimSuffix(op, "_failed"), "_from_untrusted_mint")
	// the backup is the mnemonic: what a wallet asks a mint to sign in its counter-based flows is derived from it
	// (independent BIP-39 seed, reference-checked NUT-13) at some counter - else no restore will ever find it
	if (m.Opt.Owns["C19"] || m.Opt.Owns["C11"]) && (endpoint == "/v1/mint/bolt11" || (endpoint == "/v1/swap" && (cls == "send" || cls == "receive_plain" || cls == "churn" || cls == "reclaim"))) {
		for _, o := range body.Outputs {
			c := wh.Inner().GetKeysetCounter(o.Id)
			found := false
			for _, d := range m.derived(wh.Mnemonic, o.Id, max(c, m.MaxStoredCounter(wh))+64) {
				if d.B == o.B_ {
					found = true
					break
				}
			}
			m.Count["outputs_checked_against_mnemonic"]++
			if !found {
				m.Fail("C19", "output_not_derived_from_mnemonic|endpoint="+endpoint+"|flow="+cls, "%s submits output %s.. (keyset %s) for signing that is not the NUT-13 derivation of its mnemonic at any counter up to %d (flow %s)", r.Wallet, o.B_[:14], o.Id, max(c, m.MaxStoredCounter(wh))+64, op)
				m.Fail("C11", "output_not_derived_from_mnemonic|endpoint="+endpoint+"|flow="+cls, "%s submits output %s.. (keyset %s) for signing that is not the NUT-13 derivation of its mnemonic at any counter up to %d (flow %s)", r.Wallet, o.B_[:14], o.Id, max(c, m.MaxStoredCounter(wh))+64, op)
				break
			}
		}
	}
	for _, o := range body.Outputs {
		if signed[o.B_] {
			m.Fail("C19", "signed_output_submitted_again|endpoint="+endpoint+"|flow="+cls, "%s submits output %s.. for signing although a signature for it was already returned in %s (flow %s)", r.Wallet, o.B_[:14], m.signedIn[o.B_], op)
		}
	}
	if r.Status == 200 && endpoint != "/v1/melt/bolt11" {
		for _, o := range body.Outputs {
			signed[o.B_] = true
			m.signedIn[o.B_] = fmt.Sprintf("request #%d %s of flow %s (step %d)", r.Seq, endpoint, op, len(m.Trace))
		}
		m.Count["outputs_signed"] += len(body.Outputs)
	}
}

// checkCounters: after a fault-free step the stored counter of every keyset is past every signed counter.
func (m *Machine) checkCounters(op string) {
	for _, h := range m.live() {
		signed := m.signedB[h.Mnemonic]
		if len(signed) == 0 {
			continue
		}
		for _, w := range m.E.Mints {
			for _, id := range w.KSOrder {
				c := h.Inner().GetKeysetCounter(id)
				// look well past the stored counter: outputs derived from a counter that belongs to another keyset
				// of this wallet land far away from this keyset's own counter
				outs := m.derived(h.Mnemonic, id, max(c, m.MaxStoredCounter(h))+64)
				for _, o := range outs {
					if o.counter >= c && signed[o.B] {
						// edge-triggered: report a (seed, keyset) once, at the operation that caused it
						key := h.Mnemonic + "|" + id
						if m.counterFlagged == nil {
							m.counterFlagged = map[string]bool{}
						}
						if m.counterFlagged[key] {
							break
						}
						m.counterFlagged[key] = true
						cls := strings.TrimSuffix(strings.TrimSuffix(op, "_failed"), "_from_untrusted_mint")
						m.Fail("C19", "stored_counter_not_past_signed_counter|after="+cls, "%s keyset %s: stored counter %d but counter %d was already signed (after %s)", h.Name, id, c, o.counter, op)
						break
					}
				}
			}
		}
	}
}

type derivKey struct{ mnemonic, id string }

func (m *Machine) derived(mnemonic, id string, n uint32) []seedOut {
	if m.derivCache == nil {
		m.derivCache = map[derivKey][]seedOut{}
	}
	k := derivKey{mnemonic, id}
	have := m.derivCache[k]
	if uint32(len(have)) >= n {
		return have[:n]
	}
	all, err := deriveOutputs(mnemonic, id, n+64)
	if err != nil {
		m.T.Fatalf("deriveOutputs: %v", err)
	}
	m.derivCache[k] = all
	return all[:n]
}
