# Per-property check configuration consumed by ./check.
# kinds: rapid (sharded by seed, -rapid.checks split over shards), plain (ordinary go test,
# reads VERIF_TIER / VERIF_SEED / VERIF_SHARD / VERIF_NSHARDS), fuzz (native, thorough only).

def rapid(name, run, quick, thorough, qs=4, ts=16, **kw):
    u = {"name": name, "kind": "rapid", "run": run,
         "quick": {"checks": quick, "shards": qs}, "thorough": {"checks": thorough, "shards": ts}}
    for k, v in kw.items():
        if k in ("qsteps",):
            u["quick"]["steps"] = v
        elif k in ("tsteps",):
            u["thorough"]["steps"] = v
        elif k == "qtimeout":
            u["quick"]["timeout"] = v
        elif k == "ttimeout":
            u["thorough"]["timeout"] = v
        else:
            u[k] = v
    return u


def plain(name, run, qs=1, ts=1, **kw):
    u = {"name": name, "kind": "plain", "run": run, "quick": {"shards": qs}, "thorough": {"shards": ts}}
    for k, v in kw.items():
        if k == "qtimeout":
            u["quick"]["timeout"] = v
        elif k == "ttimeout":
            u["thorough"]["timeout"] = v
        else:
            u[k] = v
    return u


def fuzz(name, run, fuzztime="90s", parallel=16):
    return {"name": name, "kind": "fuzz", "run": run, "tiers": ["thorough"],
            "thorough": {"fuzztime": fuzztime, "parallel": parallel, "shards": 1, "timeout": 1200}}


CHECKS = {
    "C11": {
        "pkg": "./checks/c11",
        "level": "exploration",
        "rule": ("rapid generators: messages 0..1024 bytes (random, 32-byte integers, hex/JSON-like secrets) for hash_to_curve; "
                 "public-key maps of 1..64 keys with standard and arbitrary unsorted amounts for the keyset id; "
                 "(seed 16..64 B, 8-byte keyset id incl. high bit and multiples/neighbours of 2^31-1, counter in [0,2^31-1] biased to the edges) for NUT-13; "
                 "oracle = bit-for-bit equality with the independent math/big + HMAC-SHA512 reference pinned to the spec vectors. "
                 "non-trivial: h2c needing >=1 counter iteration; key set unsorted/non-standard or >10 keys; NUT-13 with id >= 2^31, counter >= 2^16 or a derived value with a leading zero byte; "
                 "distinct = hash of the input."),
        "technique": "property-based differential testing (rapid) against an independent spec-derived reference + native fuzzing",
        "level_text": ("Generated-input differential testing: every generated message / key set / (seed, id, counter) triple is run through gonuts and through an independent reference written from NUT-00/02/13 and BIP-32 with math/big and crypto/hmac; any bit difference fails. "
                       "Exploration is the right level: the functions are pure and total, so agreement on 10^4-10^5 inputs aimed at the edge regions (multi-iteration h2c, ids >= 2^63, id mod 2^31-1 neighbours, counters at 2^31-1, leading-zero derived keys) plus the spec vectors is what search can establish; it does not prove equality on all inputs."),
        "level_note": "Trusted: harness/ref (pinned to spec vectors in ref_test.go), Go crypto/sha256, crypto/hmac, math/big. Agreement shown only on generated inputs.",
        "assumptions": ["reference implementation in harness/ref is correct (pinned to NUT-00/02/13, BIP-32 TV1, BIP-340 vector 0)",
                        "agreement is established on the generated inputs only"],
        "units": [
            plain("refvectors", "^TestH2CSweep$"),
            rapid("h2c", "^TestH2C$", 3000, 120000),
            rapid("keysetid", "^TestKeysetID$", 400, 8000),
            rapid("nut13", "^TestNut13$", 1200, 60000),
            rapid("p2pkkey", "^TestP2PKKey$", 200, 4000, qs=1, ts=4),
            fuzz("fuzzh2c", "FuzzH2C", "120s"),
        ],
    },
}

CHECKS["C02"] = {
    "pkg": "./checks/c02",
    "level": "exploration",
    "technique": "model-based stateful property testing (rapid state machine) against an independent msat money ledger over an adversarial Lightning model",
    "rule": ("rapid state machine over a real mint on a fresh SQLite directory and the Lightning network model (backend charges the full fee limit): configuration drawn from fee ppk {0,1,100,999,1000,2500}, fee reserve policy {0, ceil 1%, const}, MPP on/off; "
             "operations fund / mint (exact, less, over by 1, duplicate output, unknown keyset, non-key amount) / swap (honest and adversarial: outputs over by 1, overflowing output sum, fee ignored, inflated input amount, inactive/unknown keyset outputs, duplicate and re-signed outputs, duplicate inputs) / melt quote (external sat, external msat precision, internal, MPP) / melt with LN outcome {success, pending, failed, transport error with truth none/inflight/succeeded} / underfunded melt / resolve / polls / checkstate / rotation / restart. "
             "oracle after every step: 1000*(issued - redeemed - locked-by-succeeded-payment) + outflow <= inflow in msat, plus local forms (swap outputs <= inputs - fee, mint outputs <= quote amount, melt inputs >= amount + fee_reserve + fee, fee limit handed to LN <= fee_reserve, msat paid <= 1000*quote amount). "
             "non-trivial: history with >=1 swap charging a fee > 0, or >=1 settled melt, or >=1 adversarial request that reached validation; distinct = hash of the operation trace."),
    "level_text": ("Random and adversarial operation histories are executed against the real mint (real SQLite, real signing) and an independent millisatoshi ledger fed only by responses and by the Lightning model's ground truth; the inequality and its four local forms are checked after every step and failures shrink to a minimal history. "
                   "Exploration is the right level for a property over all histories and configurations: it samples thousands of histories per run but cannot exclude a violation confined to a history shape the generator does not produce."),
    "level_note": "Trusted: the Lightning model (harness/lnmodel) as a faithful rendering of the lightning.Client contract with an adversarial fee policy; the client helper's unblinding; SQLite. Sequential histories only (concurrency is C01/C03).",
    "assumptions": ["Lightning backend modelled by harness/lnmodel (charges the full fee limit; answers scripted)", "sequential request histories; schedules are covered by C01/C03"],
    "units": [
        plain("regress", "^TestRegress"),
        rapid("ledger", "^TestLedger$", 480, 9600, qs=8, ts=16),
    ],
}

NOT_APPLICABLE = {}
HOOK_COMMITS = []
