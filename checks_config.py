# Per-property check configuration consumed by ./check.
# kinds: rapid (sharded by seed, -rapid.checks split over shards), plain (ordinary go test,
# reads VERIF_TIER / VERIF_SEED / VERIF_SHARD / VERIF_NSHARDS), fuzz (native, thorough only).

def rapid(name, run, quick, thorough, qs=4, ts=16, **kw):
    u = {"name": name, "kind": "rapid", "run": run,
         "quick": {"checks": quick, "shards": qs}, "thorough": {"checks": thorough, "shards": ts}}
    for k, v in kw.items():
        if k in ("qsteps",):
            u["quick"]["steps"] = v
        elif k in ("tsteps",):
            u["thorough"]["steps"] = v
        elif k == "qtimeout":
            u["quick"]["timeout"] = v
        elif k == "ttimeout":
            u["thorough"]["timeout"] = v
        else:
            u[k] = v
    return u


def plain(name, run, qs=1, ts=1, **kw):
    u = {"name": name, "kind": "plain", "run": run, "quick": {"shards": qs}, "thorough": {"shards": ts}}
    for k, v in kw.items():
        if k == "qtimeout":
            u["quick"]["timeout"] = v
        elif k == "ttimeout":
            u["thorough"]["timeout"] = v
        else:
            u[k] = v
    return u


def fuzz(name, run, fuzztime="90s", parallel=16):
    return {"name": name, "kind": "fuzz", "run": run, "tiers": ["thorough"],
            "thorough": {"fuzztime": fuzztime, "parallel": parallel, "shards": 1, "timeout": 1200}}


CHECKS = {
    "C11": {
        "pkg": "./checks/c11",
        "level": "exploration",
        "rule": ("rapid generators: messages 0..1024 bytes (random, 32-byte integers, hex/JSON-like secrets) for hash_to_curve; "
                 "public-key maps of 1..64 keys with standard and arbitrary unsorted amounts for the keyset id; "
                 "(seed 16..64 B, 8-byte keyset id incl. high bit and multiples/neighbours of 2^31-1, counter in [0,2^31-1] biased to the edges) for NUT-13; "
                 "oracle = bit-for-bit equality with the independent math/big + HMAC-SHA512 reference pinned to the spec vectors. "
                 "non-trivial: h2c needing >=1 counter iteration; key set unsorted/non-standard or >10 keys; NUT-13 with id >= 2^31, counter >= 2^16 or a derived value with a leading zero byte; "
                 "distinct = hash of the input. Wallet unit: wallet histories (mint, send, receive, reclaim, melt) against honest mints that rotate keysets and restart; every output a wallet submits for signing in its counter-based flows must be the reference NUT-13 derivation of its mnemonic at some counter of the named keyset; non-trivial = history with at least one output compared. Native fuzz units (thorough, coverage-instrumented build): the same generators and oracles with Go's native fuzzer mutating the byte stream rapid draws from (rapid.MakeFuzz), i.e. steered by coverage of the code under test."),
        "technique": "property-based differential testing (rapid) against an independent spec-derived reference + native fuzzing",
        "level_text": ("Generated-input differential testing: every generated message / key set / (seed, id, counter) triple is run through gonuts and through an independent reference written from NUT-00/02/13 and BIP-32 with math/big and crypto/hmac; any bit difference fails. "
                       "Exploration is the right level: the functions are pure and total, so agreement on 10^4-10^5 inputs aimed at the edge regions (multi-iteration h2c, ids >= 2^63, id mod 2^31-1 neighbours, counters at 2^31-1, leading-zero derived keys) plus the spec vectors is what search can establish; it does not prove equality on all inputs."),
        "level_note": "Trusted: harness/ref (pinned to spec vectors in ref_test.go), Go crypto/sha256, crypto/hmac, math/big. Agreement shown only on generated inputs.",
        "assumptions": ["reference implementation in harness/ref is correct (pinned to NUT-00/02/13, BIP-32 TV1, BIP-340 vector 0)",
                        "agreement is established on the generated inputs only"],
        "units": [
            plain("refvectors", "^TestH2CSweep$"),
            rapid("h2c", "^TestH2C$", 3000, 240000),
            rapid("keysetid", "^TestKeysetID$", 400, 20000),
            rapid("nut13", "^TestNut13$", 1200, 120000),
            rapid("p2pkkey", "^TestP2PKKey$", 200, 8000, qs=1, ts=4),
        rapid("wallet", "^TestWalletDerivation$", 32, 1600, qs=8, ts=16),
            fuzz("fuzzh2c", "FuzzH2C", "300s"),
            fuzz("fuzz_nut13", "FuzzNut13", "150s"),
            fuzz("fuzz_keysetid", "FuzzKeysetID", "150s"),
        ],
    },
}

CHECKS["C02"] = {
    "pkg": "./checks/c02",
    "level": "exploration",
    "technique": "model-based stateful property testing (rapid state machine) against an independent msat money ledger over an adversarial Lightning model",
    "rule": ("rapid state machine over a real mint on a fresh SQLite directory and the Lightning network model (backend charges the full fee limit): configuration drawn from fee ppk {0,1,100,999,1000,2500}, fee reserve policy {0, ceil 1%, const}, MPP on/off; "
             "operations fund / mint (exact, less, over by 1, duplicate output, unknown keyset, non-key amount) / swap (honest and adversarial: outputs over by 1, overflowing output sum, fee ignored, inflated input amount, inactive/unknown keyset outputs, duplicate and re-signed outputs, duplicate inputs) / melt quote (external sat, external msat precision, internal, MPP) / melt with LN outcome {success, pending, failed, transport error with truth none/inflight/succeeded} / underfunded melt / resolve / polls / checkstate / rotation / restart. "
             "oracle after every step: 1000*(issued - redeemed - locked-by-succeeded-payment) + outflow <= inflow in msat, plus local forms (swap outputs <= inputs - fee, mint outputs <= quote amount, melt inputs >= amount + fee_reserve + fee, fee limit handed to LN <= fee_reserve, msat paid <= 1000*quote amount). "
             "non-trivial: history with >=1 swap charging a fee > 0, or >=1 settled melt, or >=1 adversarial request that reached validation; distinct = hash of the operation trace. "
             "Also: mint / swap requests that meet a storage error at their k-th storage call followed by restore of their outputs and a retry (what restore hands out is booked as issued), restore probes after refused requests, mint requests on internally settled quotes. "
             "Schedule units (shared race harness): 2..3 concurrent swaps / melts / state checks / quote polls / mint requests sharing inputs or outputs, optionally after a melt left pending, under random (rapid) and enumerated (pre-emption bound 2 quick / 4 thorough) schedules at storage/LN-call granularity; oracle = the same inequality over ground truth once all requests have returned; non-trivial = >=1 context switch inside a request. "
             "Unit backend: the repository's Core Lightning adapter against an imitation of the node's REST interface that records invoice amounts as exact integers; mint quote amounts from small to 2^64-1 with emphasis on k*floor(2^64/1000), 2^53, 2^62, 2^63 +- 2000; oracle: an accepted quote means the node was asked for exactly 1000*amount msat and a PAID quote is not worth more than its invoice collected. Unit backend_lnd: the same for the LND adapter (amounts also around k*2^64/1000 for k up to 999): the invoice the node wrote for an accepted quote is for exactly 1000*amount msat."),
    "level_text": ("Random and adversarial operation histories are executed against the real mint (real SQLite, real signing) and an independent millisatoshi ledger fed only by responses and by the Lightning model's ground truth; the inequality and its four local forms are checked after every step and failures shrink to a minimal history. "
                   "Exploration is the right level for a property over all histories and configurations: it samples thousands of histories per run but cannot exclude a violation confined to a history shape the generator does not produce."),
    "level_note": "Trusted: the Lightning model (harness/lnmodel) as a faithful rendering of the lightning.Client contract with an adversarial fee policy; the client helper's unblinding; SQLite. Histories are sequential; the schedule units cover 2..3 concurrent requests at storage/LN-call granularity.",
    "assumptions": ["Lightning backend modelled by harness/lnmodel (charges the full fee limit; answers scripted)", "interleaving granularity of the schedule units = one storage or Lightning call",
                    "unit backend: the Core Lightning node is an in-process imitation of its REST interface (invoice / listinvoices); unit backend_lnd: the LND adapter runs on imitations of lnd's rpc clients whose AddInvoice converts sat to msat with lnd's own lnrpc.UnmarshallAmt and refuses more than 10 BTC"],
    "units": [
        plain("regress", "^TestRegress"),
        rapid("ledger", "^TestLedger$", 480, 8000, qs=8, ts=16),
        rapid("sched", "^TestSchedLedger$", 300, 4000, qs=6, ts=16),
        rapid("backend", "^TestBackendAmounts$", 200, 10000, qs=4, ts=16),
        rapid("backend_lnd", "^TestBackendAmountsLND$", 200, 10000, qs=4, ts=16),
        plain("schedenum", "^TestSchedLedgerEnum$", qs=16, ts=16, ttimeout=3300),
    ],
}

_WORLD_NOTE = "Trusted: the Lightning model (harness/lnmodel) as a rendering of the lightning.Client contract; the client helper (blinding/unblinding with dcrec secp256k1); SQLite's atomic commit. "

CHECKS["C01"] = {
    "pkg": "./checks/c01",
    "level": "exploration",
    "technique": "model-based stateful property testing (rapid) with a re-presentation grammar + harness-owned schedule exploration of concurrent requests",
    "rule": ("(a) rapid state machine over a real mint: fund / swap / melt with LN outcome {success, pending, failed, transport error} / resolve / restart / rotate plus the re-presentation grammar applied to spent and pending secrets "
             "(alone, with fresh proofs, twice identical, twice with changed witness / dleq, changed witness / dleq / amount / C, via swap or another melt quote, after restart) and duplicate-input variants on unspent proofs; "
             "oracle: per secret at most one successful operation accepted it (swap returned signatures; melt counts from the moment its inputs were locked), every re-presentation is refused, ProofsStateCheck of all known secrets equals the model after every step, SPENT absorbing across restart. "
             "non-trivial: history containing >=1 re-presentation of a spent/pending secret that reached the mint; distinct = hash of the trace. "
             "(b) schedules: see classes sched_* (two/three concurrent requests with shared inputs interleaved at storage/LN-call granularity by the cooperative scheduler; non-trivial = shared secret and >=1 context switch inside a request)."),
    "level_text": ("Generated histories and generated/enumerated schedules against the real mint with a reference model keyed by secret; any secret accepted twice, any state disagreement and any resurrected SPENT secret fails and shrinks. "
                   "Exploration: histories are sampled; pair schedules are enumerated up to a pre-emption bound in quick and completely in thorough, triples are sampled."),
    "level_note": _WORLD_NOTE + "Interleavings are explored at storage/LN-call granularity (each MintDB method is one SQLite statement/transaction on a single connection).",
    "assumptions": ["interleaving granularity = one storage or Lightning call", "Lightning backend modelled by harness/lnmodel"],
    "units": [
        rapid("seq", "^TestSeq$", 320, 4000, qs=6, ts=16),
        rapid("sched", "^TestSched$", 480, 8000, qs=6, ts=16),
        plain("schedenum", "^TestSchedEnum$", qs=16, ts=16, ttimeout=3300),
    ],
}

CHECKS["C03"] = {
    "pkg": "./checks/c03",
    "level": "exploration",
    "technique": "model-based stateful property testing (rapid) with a NUT-20 tampering grammar + harness-owned schedule exploration",
    "rule": ("(a) rapid state machine: mint quotes (locked/unlocked), pay, poll, deliver the asynchronous settlement notification (possibly late, after issuance), mint with exact / smaller / over-by-one / duplicate / unknown-keyset / non-key outputs, "
             "locked mints with the NUT-20 grammar {honest (reference signer), honest (library signer), none, non-hex, wrong length, other key, reordered, added, removed, replaced output, other quote id, outputs changed after signing}, internal settlement by melt, restart; "
             "oracle: issuances(q) <= payments(q) (external settlement 0/1 + internal settlements), issued amount <= quote amount, no PAID/ISSUED state without payment, locked quote issues only with a BIP-340-valid signature (independent verifier) over exactly the submitted outputs, honest signatures accepted. "
             "non-trivial: a mint attempt after an issuance, a late notification, or a tampered signature presented on a locked paid quote; distinct = hash of the trace. (b) schedules: classes sched_*."),
    "level_text": ("Generated histories against the real mint and watcher goroutine with a payment/issuance counter model; a second issuance for one payment, an issuance before payment or an accepted tampered NUT-20 signature fails and shrinks. Exploration: sampled histories, bounded schedule enumeration."),
    "level_note": _WORLD_NOTE + "The settlement notification is delivered by the harness (Recv blocks until then) and the step completes when the watcher goroutine has exited.",
    "assumptions": ["Lightning backend modelled by harness/lnmodel", "interleaving granularity = one storage or Lightning call"],
    "units": [
        rapid("seq", "^TestSeq$", 400, 6000, qs=6, ts=16),
        rapid("sched", "^TestSched$", 400, 6000, qs=6, ts=16),
        plain("schedenum", "^TestSchedEnum$", qs=16, ts=16, ttimeout=3300),
    ],
}

CHECKS["C09"] = {
    "pkg": "./checks/c09",
    "level": "exploration",
    "technique": "model-based stateful property testing (rapid) with independent BIP-32 / NUT-02 re-derivation of every keyset",
    "rule": ("rapid state machine mixing restart without rotation, restart with RotateKeyset and a drawn fee, runtime RotateKeyset(fee), fee in {0,1,100,999,1000,2500}, up to 5 keysets, interleaved with mint / swap / melt traffic using old and new keysets and adversarial outputs naming inactive / unknown keysets; "
             "oracle after every step: exactly one active keyset; every keyset ever seen still listed with the same id and fee; (once per keyset per mint instance) all 60 published keys equal the independent derivation m/0'/0'/idx'/i' from the stored seed and the id equals the reference NUT-02 id; signatures only on the active keyset; honest spends of old-keyset proofs succeed with fee = ceil(sum ppk/1000) per input keyset as an acceptance boundary (inputs-fee accepted, +1 refused). "
             "non-trivial: history with >=1 rotation followed by a successful spend of a proof from a non-active keyset; distinct = hash of the trace."),
    "level_text": "Generated rotation/restart histories against the real mint; keys and ids are recomputed outside the mint from the stored seed with the math/big + HMAC reference. Exploration over histories and fee configurations.",
    "level_note": _WORLD_NOTE + "Reference derivation in harness/ref (pinned to BIP-32 TV1 and the NUT-02 vector). Mint seeds come from a fixed pool of 6 so that reference keys can be cached.",
    "assumptions": ["reference derivation harness/ref correct", "mint seed pre-seeded into the database before first start (pool of 6)"],
    "units": [
        rapid("lifecycle", "^TestLifecycle$", 240, 6000, qs=8, ts=16),
    ],
}

CHECKS["C15"] = {
    "pkg": "./checks/c15",
    "level": "exploration",
    "technique": "model-based stateful property testing (rapid): checkstate / restore answers compared with a reference model of everything the mint did",
    "rule": ("rapid state machine (fund, swap, melt with all LN outcomes, delayed resolution, internal settlement, rotation, restart) with, at any point, checkstate queries of 1..40 entries mixing known Ys in every state, unknown-but-valid points, repeats and malformed strings, and restore queries of 1..14 entries mixing signed B_ (incl. with wrong amount/id fields in the request), never-signed points, repeats and malformed strings; "
             "oracle: i-th answer is for the i-th Y with the model state (unknown/malformed => UNSPENT) and the witness the spend carried; restore returns exactly the requested B_ the mint signed, in request order, with the amount, id, C_ and (e,s) first returned; identical after restart; one history in three sends these queries through the HTTP handler instead of the Go API. "
             "non-trivial: history with a checkstate query covering >=2 distinct states or a restore query with >=1 signed and >=1 unsigned entry; distinct = hash of the trace. "
             "Fault unit: one melt (LN outcome success / failed / pending then success / pending then failed / pay call errs with the payment made / not made) whose k-th storage call (k = 1..9, optionally every later call too) - of the melt request or of the poll that resolves the pending payment - returns an error; afterwards, on a working storage, two polls and a state query of the inputs; "
             "oracle relating the three reports about one melt: a proof reported PENDING is locked by a melt the mint itself reports in flight, the inputs of a quote reported PAID are SPENT, the inputs of an UNPAID quote whose payment was never made are not SPENT, all inputs of one melt are in one state; non-trivial = the fault fired; distinct = (plan, phase, failing call, k, from, fee)."),
    "level_text": "Generated histories and generated queries against the real mint; every answer is compared position by position with the reference model fed by responses and LN ground truth. Exploration over histories and queries.",
    "level_note": _WORLD_NOTE,
    "assumptions": ["Lightning backend modelled by harness/lnmodel", "empty query lists are C06's subject and are not generated here"],
    "units": [
        rapid("truth", "^TestTruth$", 400, 8000, qs=8, ts=16),
        rapid("fault", "^TestFaultStates$", 480, 9600, qs=4, ts=16),
    ],
}

CHECKS["C16"] = {
    "pkg": "./checks/c16",
    "level": "exploration",
    "technique": "model-based stateful property testing (rapid) with boundary-value request generation against big-integer limit arithmetic",
    "rule": ("rapid state machine with drawn limits (max balance, mint max, melt max each unset / small / larger) and boundary requests: mint quotes of mintMax, mintMax +- 1, maxBalance - balance +- 1, 2^63-1, 2^63, 2^64-1, 2^64 - balance (+0..2: uint64 wrap), melt quotes of meltMax, meltMax +- 1 sat with and without sub-sat msat; "
             "oracle after every step: IssuedEcash / RedeemedEcash per keyset equal the sums of signatures handed out / proofs consumed (model), TotalBalance = difference >= 0, info.nuts.4.disabled = (maxBalance set and balance >= maxBalance); a mint quote is refused iff amount > mintMax or balance + amount > maxBalance (big-integer arithmetic), a melt quote iff its sat amount > meltMax. "
             "non-trivial: history containing a request within +-1 of a configured boundary or >= 2^63, or a balance read after >=1 fee-charging swap and >=1 settled melt; distinct = hash of limits and trace. "
             "Schedule units (shared race harness): 2..3 concurrent swaps / mint requests / melts sharing inputs or outputs under random and enumerated schedules at storage/LN-call granularity; oracle: reported issued total = signatures really handed out, reported redeemed total = value of the proofs reported SPENT, balance non-negative; non-trivial = >=1 context switch."),
    "level_text": "Generated histories and limits against the real mint and its SQLite balance views; totals are recomputed from responses. Exploration over histories and limit configurations.",
    "level_note": _WORLD_NOTE + "Issued totals stay far below 2^62 (SQLite SUM is int64); amounts >= 2^63 are only requested, where refusal (by limit or by the Lightning backend, which cannot invoice them) is the expected answer.",
    "assumptions": ["Lightning backend refuses invoices above 2^40 sat like real backends", "totals < 2^62", "interleaving granularity of the schedule units = one storage or Lightning call"],
    "units": [
        rapid("balances", "^TestBalances$", 400, 8000, qs=8, ts=16),
        rapid("sched", "^TestSchedTotals$", 300, 4000, qs=6, ts=16),
        plain("schedenum", "^TestSchedTotalsEnum$", qs=16, ts=16, ttimeout=3300),
    ],
}

CHECKS["C04"] = {
    "pkg": "./checks/c04",
    "level": "exploration",
    "technique": "property-based mutation testing of genuine proofs against an independent verdict (math/big k*H(secret) from the re-derived mint keys)",
    "rule": ("rapid: a real mint with 1..3 keysets (rotations with fee in {0,100,1000}, optional restart) holding genuinely minted proofs; 3..8 trials per case: one proof and one mutation out of "
             "{none, amount -> other denomination / 0 / 3 / 2^60 / 2^64-1, id -> other known / unknown / non-hex / empty, C -> nibble flip / other proof's C / x not on curve / wrong length / non-hex / empty / zero bytes / upper-case, "
             "secret -> edit / other proof's secret / append, genuinely blind-signed secret of 513..2000 bytes, genuinely signed 512-byte secret, forged (random point, H(secret), published key as C)} presented to Swap or MeltTokens with outputs / quote sized to the claimed amount; "
             "oracle (two-sided): accepted iff len(secret) <= 512 and C == k*hash_to_curve(secret) for the key k of (claimed id, claimed amount) from the independent derivation of the mint's keys from its stored seed. "
             "non-trivial: a mutated or forged proof that passed the balance pre-check and reached proof verification; distinct = (mutation, target, keysets, amount, prefix of secret and C). HTTP unit: an honest swap is accepted through POST /v1/swap (in front of which a response cache sits), then 2..5 requests re-use its outputs with an input whose amount / secret / C / keyset is changed, a forged input, another genuine proof, or re-use its input with new outputs: each must be refused (and a genuine proof refused this way stays UNSPENT); non-trivial = every follow-up."),
    "level_text": "Generated single-field mutations and forgeries against the real Swap/MeltTokens, judged by an independent implementation of the acceptance condition; honest and harmlessly re-encoded proofs must be accepted, everything else refused.",
    "level_note": _WORLD_NOTE + "Verdict computed with harness/ref only (BIP-32 re-derivation of m/0'/0'/idx'/i', math/big secp256k1, own hash_to_curve).",
    "assumptions": ["reference derivation harness/ref correct", "NUT-10 locked secrets are C12/C13's subject and are not generated here"],
    "units": [
        rapid("genuine", "^TestGenuine$", 320, 32000, qs=8, ts=16),
        rapid("http", "^TestGenuineHTTP$", 240, 16000, qs=4, ts=16),
    ],
}

CHECKS["C06"] = {
    "pkg": "./checks/c06",
    "level": "exploration",
    "technique": "grammar-based request mutation fuzzing (rapid) at every state of a running history, with storage snapshot differencing and panic capture through the in-process handler; coverage-guided native fuzzing of request bodies (thorough)",
    "rule": ("rapid state machine (the C02 history machine) interleaved with probes: a valid request for swap / mint / melt / mint quote / melt quote / checkstate / restore is built from the current state and one mutation is applied - "
             "structural (drop / null / retype / garble a top-level field or a field of a list element with 19 garbage values incl. non-hex, odd-length hex, 10 kB string, unicode, negative / float / huge numbers, arrays, objects, bools; empty a list; empty / truncated / non-JSON / array / null body; wrong content type; wrong payment method) "
             "or semantic (outputs over by one, duplicate output identical / with changed witness / amount, unknown keyset, non-key amount, non-point B_, already signed B_, overflowing amounts, spent input, unknown quote, underfunded melt, duplicate input with changed witness, forged C), sent through the real HTTP handler in-process; "
             "plus the degenerate shapes as Go values on the exported API (nil/empty lists, zero requests, unknown ids). "
             "oracle: (1) no panic (a handler panic is visible because the handler runs in-process); (2) if the answer is not 200, the snapshot read through the inner storage handle (spent and pending rows of all known and referenced Ys, all quote rows, stored signatures of all known and referenced B_, issued/redeemed sums, keysets) is identical before and after, with LN-driven transitions adopted by polling before the first snapshot; (3) the honest request with the same inputs / the same paid quote then succeeds. "
             "non-trivial: the mutated request referenced >=1 unspent proof or a paid-unissued quote; distinct = (endpoint, mutation class, state size). "
             "Schedule units (shared race harness): 2..3 concurrent swaps / melts / mint requests / state checks sharing inputs or outputs under random and enumerated schedules at storage/LN-call granularity; oracle: whatever a swap or melt that was answered with an error brought along is still UNSPENT once all requests have returned, unless an accepted request used it; non-trivial = >=1 refused request and >=1 context switch. "
             "Native fuzz units (thorough, coverage-instrumented build): the fuzzer owns (endpoint, body); bodies are templates whose markers are replaced by resources of a fresh funded mint (unspent / spent proofs, fresh and already signed outputs, paid / unpaid mint quote, melt quote, Ys, keyset id, invoice), 40 seed requests (one unit starts from an empty corpus); oracle inside the target: no panic, and any answer other than 200 leaves the snapshot unchanged; an accepted swap / mint / melt retires the mint so that every saved input replays against the same state."),
    "level_text": "Generated malformed and invalid requests at generated states of the real mint; storage is compared row by row around every refused request and the refused resources are immediately reused honestly.",
    "level_note": _WORLD_NOTE + "Storage and Lightning faults are C07/C20's subject; here storage works.",
    "assumptions": ["snapshot covers the objects known to the model plus those referenced by the probe", "interleaving granularity of the schedule units = one storage or Lightning call"],
    "units": [
        plain("regress", "^TestRegress"),
        rapid("rejected", "^TestRejected$", 240, 8000, qs=8, ts=16),
        rapid("sched", "^TestSchedRefused$", 300, 4000, qs=6, ts=16),
        plain("schedenum", "^TestSchedRefusedEnum$", qs=16, ts=16, ttimeout=3300),
        fuzz("fuzz_requests", "FuzzRequests", "300s"),
        dict(fuzz("fuzz_requests_empty", "FuzzRequests", "180s"), env={"VERIF_FUZZ_CORPUS": "empty"}),
    ],
}

CHECKS["C05"] = {
    "pkg": "./checks/c05",
    "level": "fault_enumeration",
    "technique": "exhaustive enumeration of Lightning answer scripts executed on the real mint, judged by a reference automaton used as a validity predicate",
    "rule": ("every script = pay answer {success, pending, failed, transport error} followed by status-lookup answers {not-found, generic error, failed, pending, succeeded} with total length <= 4 (<= 5 in thorough), "
             "each lookup consumed by melt's own extra check (first answer after a failed / errored pay call) or by a GetMeltQuoteState poll or a ProofsStateCheck, in every order, followed by each of three follow-ups {none, swap of the inputs then repeat melt, repeat melt then swap}; "
             "every script is executed on the real mint (fresh inputs and quote per script) with the answers scripted in the Lightning model. "
             "oracle: reference automaton over (quote in UNPAID/PENDING/PAID, inputs in free/locked/spent) written from the statement as a set of allowed states after each step (both outcomes allowed where the statement only permits a release), "
             "checked after every step against the quote row, the proof rows, the responses, the number of lookups actually consumed and the preimage; a follow-up swap must succeed iff the inputs are free. "
             "non-trivial: script with >=1 status lookup consumed; distinct = the script. Poll-during-pay unit (the harness owns this one schedule): the melt's pay call is held at the Lightning model (no payment recorded yet), 1..3 polls (quote state / proof states) run to completion and a swap of the inputs is attempted, then the call is released with outcome success / failed / in flight; against the model directly and through the CLN and LND adapters; oracle: PENDING and swap refused during the hold, states following the outcome afterwards; non-trivial = every case. Unit via_http: the same scripts (one length shorter) with the melt, the quote polls and the state checks sent through the HTTP handler and the answers read from its JSON."),
    "level_text": ("The finite space of Lightning answer scripts named by the property is enumerated completely (exhaustive: true) and each member is run against the real MeltTokens / GetMeltQuoteState / ProofsStateCheck code; "
                   "fault enumeration is the right level because the quantifier is a finite set of fault sequences."),
    "level_note": _WORLD_NOTE + "Answers are free scripts (not required to be consistent with each other), as the property's quantifier states. Fee ppk 100 and a 1% fee reserve are fixed.",
    "assumptions": ["units via_cln / via_lnd: the node is an imitation (harness/clnfacade: REST answers; harness/lndfacade: rpc messages and grpc status errors) driven by the same Lightning model", "one input proof and one external invoice per script; fee ppk 100; fee reserve ceil(1%)"],
    "units": [
        plain("scripts", "^TestScripts$", qs=16, ts=16),
        plain("via_cln", "^TestScriptsViaCLN$", qs=16, ts=16),
        plain("via_lnd", "^TestScriptsViaLND$", qs=16, ts=16),
        plain("via_http", "^TestScriptsViaHTTP$", qs=16, ts=16),
        plain("bulk", "^TestScriptsBulk$", qs=16, ts=16),
        rapid("poll_during_pay", "^TestPollDuringPay$", 240, 7200, qs=4, ts=16),
        rapid("poll_after_pay", "^TestPollAfterPay$", 160, 4800, qs=4, ts=16),
    ],
}

CHECKS["C07"] = {
    "pkg": "./checks/c07",
    "level": "fault_enumeration",
    "technique": "exhaustive crash-point and storage-fault enumeration (fault injection at every storage / Lightning call boundary) with restart and an adversarial recovery follow-up judged by invariants over the history",
    "rule": ("operations: mint quote, mint, swap, melt quote, melt x LN outcome {success, pending->success, pending->failure, failed, transport error not sent, transport error but paid}, resolution of a pending melt by quote poll / proof-state check x {succeeded, failed}, internal settlement, runtime RotateKeyset. "
             "For each operation the un-faulted run on a fresh world lists its n storage / Lightning calls; then EVERY crash position k = 0..n (k = n: all effects done, response lost) and every single storage fault error@k / error-from@k is executed from an identical fresh world (quick: one set-up; thorough: 12 set-ups varying input count, fee ppk and other database content). "
             "After the fault the mint is restarted on the same directory and the follow-up runs: poll quotes, check states, RestoreSignatures of the operation's outputs, retry identical, retry with fresh outputs, re-spend the inputs, re-mint the quote. "
             "oracle: safety (money ledger of C02 over everything the client obtained, no model conflict C01/C03, LoadMint succeeds, keysets unchanged with one active), durability (all earlier signatures restorable, spent stays spent, acknowledged results kept), atomicity (client ends with inputs still spendable / quote still mintable / payment not made and inputs usable, XOR outputs obtained / payment made with quote PAID and inputs unusable). "
             "every faulted run is non-trivial; distinct = (operation, fault kind, position, set-up). All positions are always run; each violation is compared with known_findings.jsonl by signature (operation class, call position, symptom)."),
    "level_text": ("The finite set of fault positions of every mint operation is enumerated completely against the real code and real SQLite files, with a real restart (LoadMint on the same directory). "
                   "Fault enumeration is the right level: the quantifier is the set of call boundaries, which the storage proxy makes enumerable."),
    "level_note": _WORLD_NOTE + "A crash is modelled as process death between two storage / Lightning calls (torn SQLite commits are not modelled). Start-up itself runs un-faulted.",
    "assumptions": ["crash = death between two storage/LN calls; SQLite commits are atomic and durable", "storage faults hit the operation's own goroutine only"],
    "units": [
        plain("crashpoints", "^TestCrashPoints$", qs=16, ts=16, ttimeout=3000),
    ],
}

CHECKS["C14"] = {
    "pkg": "./checks/c14",
    "level": "exploration",
    "technique": "round-trip property testing (rapid), exhaustive short-string enumeration and native coverage-guided fuzzing of the token decoders with a totality oracle",
    "rule": ("round trip (rapid): proof lists of {0, 1, 2..6, 2..40, 40} proofs over 1..4 lower-case 16-hex keyset ids, amounts in [0, 2^63], secrets = 64-hex / arbitrary valid UTF-8 incl. quotes, backslashes, emoji, U+2028, <>& / NUT-10 JSON, witness absent or JSON, DLEQ absent / {e,s} / {e,s,r}, mint URLs incl. unicode and empty, includeDLEQ on/off, V3 and V4; "
             "oracle: Decode(Serialize(New(proofs))) (generic and version-specific decoder) has the same mint, unit 'sat' and the same proofs as a multiset grouped by keyset with order checked inside a keyset, incl. witness and (when requested and complete) DLEQ; Amount() = sum mod 2^64 = Proofs().Amount(); only the documented constructor error (V4 + includeDLEQ + DLEQ without r) is allowed. "
             "decoder totality: (rapid) 14 input families - truncations and single-byte mutations of valid tokens, wrong / swapped prefixes, short strings, prefix + base64 (url padded, raw url, std) of arbitrary JSON values and arbitrary CBOR items incl. wrong types, empty maps, nested items and huge declared lengths; (exhaustive) every string of length 0..7 over {c,a,s,h,u,A,B,e,=,-} and cashuA/cashuB + every string of length 0..3 over the base64url alphabet; (thorough) native fuzzing seeded and unseeded; "
             "oracle: DecodeToken / DecodeTokenV3 / DecodeTokenV4 return an error or a token on which Proofs, Mint, Amount, Serialize return without panic and whose re-serialisation decodes to the same proofs. "
             "non-trivial: round trip with >=2 keysets or a witness or DLEQ or a non-ASCII / JSON secret; decoder input that passed the prefix check; distinct = hash of the case. Native fuzz units (thorough, coverage-instrumented build): the same generators and oracles with Go's native fuzzer mutating the byte stream rapid draws from (rapid.MakeFuzz), i.e. steered by coverage of the code under test."),
    "level_text": "Generated proof sets and generated / enumerated / fuzzed strings against the real constructors and decoders; any lost or altered field, wrong amount or panic fails and shrinks to a minimal token or string.",
    "level_note": "Trusted: Go encoding/base64, encoding/json, fxamacker/cbor for building inputs. Hex fields are generated lower-case and strings valid UTF-8 (what the formats can carry).",
    "assumptions": ["hex fields lower-case; strings valid UTF-8; cross-keyset proof order is not promised by V4"],
    "units": [
        plain("regress", "^TestRegress"),
        plain("short_exhaustive", "^TestDecode(Short|Prefixed)Exhaustive$"),
        plain("scheme_exhaustive", "^TestDecodeSchemeExhaustive$"),
        rapid("roundtrip", "^TestRoundTrip$", 4000, 600000, qs=4, ts=16),
        rapid("decode", "^TestDecodeTotal$", 4000, 600000, qs=4, ts=16),
        fuzz("fuzz_seeded", "FuzzDecode", "300s"),
        dict(fuzz("fuzz_empty", "FuzzDecode", "300s"), env={"VERIF_FUZZ_CORPUS": "empty"}),
        fuzz("fuzz_roundtrip", "FuzzRoundTrip", "240s"),
    ],
}

CHECKS["C10"] = {
    "pkg": "./checks/c10",
    "level": "exploration",
    "technique": "property-based testing (rapid) of composed algebraic identities and single-field tampering against an independent math/big reference; stateful histories on a real mint for persisted signatures",
    "rule": ("(a) pure BDHKE: secrets = arbitrary bytes 0..512 (incl. empty, 512, non-UTF-8), blinding scalars uniform plus edges {1,2,n-1,n-2}, keys = the 60 keys of reference-derived keysets and random scalars; oracle: B_ = H(s)+rG, C_ = k*B_, Unblind(...) = k*H(s) computed by the reference only, same C for a second r, Verify true for (s,k) and false for another key of the keyset, a changed secret, C+G, -C, 2C, C_, Y. "
             "(b) DLEQ: GenerateDLEQ's proof accepted by crypto.VerifyDLEQ, nut12.VerifyBlindSignatureDLEQ and the reference verifier; reference prover with chosen nonces (uniform and edges) accepted by the implementation; wallet proof {e,s,r} accepted by VerifyProofDLEQ / VerifyProofsDLEQ; 16 blind-tuple and 15 proof single-field tampers (e, s, r, A -> other amount's key / other keyset / -A, B_, C_/C, secret, amount, swaps) each rejected by both entry points; wrong-key signature with a well-formed proof for the wrong key rejected; malformed hex / non-canonical encodings never panic and are rejected unless the verified value is unchanged. "
             "(c) histories on a real mint (fund, swap, rotation, restart, restore): every returned signature carries (e,s) accepted under the published key and under the reference-derived key, C_ = k*B_ by the reference, and RestoreSignatures before and after restart returns identical values that still verify. "
             "every case is a full pipeline (non-trivial); classes record edge scalars, secret class, tamper kind, persisted signatures; distinct = hash of the inputs. Native fuzz units (thorough, coverage-instrumented build): the same generators and oracles with Go's native fuzzer mutating the byte stream rapid draws from (rapid.MakeFuzz), i.e. steered by coverage of the code under test. Wallet unit: wallet histories (mint, send, locked sends, receive, melt, swap to another mint) against honest mints that rotate keysets, change fees and restart: no wallet operation may fail because the wallet calls a DLEQ proof invalid (every proof it meets is genuine); non-trivial = history in which signatures were received and verified."),
    "level_text": "Generated inputs through the real crypto / nut12 functions and the real mint, judged by identities recomputed with an independent reference; exploration over 10^3-10^5 cases aimed at edge scalars and every tamper kind.",
    "level_note": "Trusted: harness/ref (math/big secp256k1, NUT-12 prover/verifier pinned to the NUT-12 vectors). Value-preserving re-encodings (upper-case hex, r+n, uncompressed points, bytes appended to a 32-byte scalar which ParseDLEQ truncates) are recorded as observations, not as violations: the statement is about changed values.",
    "assumptions": ["reference implementation harness/ref correct", "hash values >= n and degenerate points are unreachable and skipped"],
    "units": [
        plain("vectors", "^TestSpecVectors$"),
        plain("regress", "^TestRegress"),
        rapid("bdhke", "^TestBDHKE$", 600, 60000, qs=4, ts=16),
        rapid("dleq", "^TestDLEQ$", 320, 20000, qs=8, ts=16),
        rapid("encoding", "^TestDLEQEncoding$", 1000, 100000, qs=2, ts=16),
        rapid("mintsigs", "^TestMintSignatures$", 48, 3000, qs=8, ts=16),
        rapid("http", "^TestMintSignaturesHTTP$", 64, 3000, qs=8, ts=16),
        rapid("wallet", "^TestWalletDLEQ$", 64, 3000, qs=8, ts=16),
        fuzz("fuzz_encoding", "FuzzDLEQEncoding", "150s"),
        fuzz("fuzz_bdhke", "FuzzBDHKE", "150s"),
    ],
}

_LOCK_NOTE = ("Trusted: harness/ref/locks.go (evaluator written from the statement); BIP-340 verification inside the oracle uses btcec's verifier cross-checked against the independent math/big verifier on every 8th call. "
              "Locktimes are now +- 1 day (never near now). The verdict is necessary-direction everywhere (accepted => condition met) and sufficient-direction only for clean witnesses (only valid signatures by distinct authorised keys, threshold met) and helper-produced witnesses; malformed tags only demand 'no panic'.")

CHECKS["C12"] = {
    "pkg": "./checks/c12",
    "level": "exploration",
    "technique": "property-based differential testing (rapid) of the NUT-11 verifier and of Mint.Swap/MeltTokens against an independent lock evaluator, with configuration-aware witness generation",
    "rule": ("direct: lock configurations (n_sigs absent/0..4, 0..3 co-signers, lock key listed again, locktime absent/past/future, 0..2 refund keys, sigflag absent/SIG_INPUTS/SIG_ALL, 10% malformed tags of 9 kinds) x witnesses (random lists over lock / co-signer / refund / foreign keys of valid signatures, second different valid signature by the same key, literal duplicates, signatures over a wrong message or the hex string, non-hex, truncated, empty strings; threshold attempts = subset of authorised keys padded with extra signatures of one key up to threshold +-1 in drawn order; refund-signed; witness shapes none / {} / garbage / array / null) on nut11.VerifyP2PKLockedProof; "
             "end to end: 1..3 really minted locked proofs (same or different conditions) among 0..3 plain proofs in a drawn order through Mint.Swap (outputs unsigned / helper-signed / wrong key / one unsigned / threshold-signed) and Mint.MeltTokens; "
             "oracle: independent evaluator - accepted => >= max(1,n_sigs) distinct authorised keys (by x coordinate) have a BIP-340-valid signature over sha256(secret) before locktime; after locktime anyone without refund keys else >= 1 refund-key signature; any SIG_ALL input => swap success only if all inputs are SIG_ALL with equal key set and threshold and every output carries enough valid signatures over sha256(bytes of B_) by listed keys, melt refused; clean and helper witnesses accepted. "
             "non-trivial: verifier reached with a well-formed lock; distinct = (config class, witness features / element list, input order). Native fuzz units (thorough, coverage-instrumented build): the same generators and oracles with Go's native fuzzer mutating the byte stream rapid draws from (rapid.MakeFuzz), i.e. steered by coverage of the code under test."),
    "level_text": "Generated lock configurations, witnesses and input orders against the real verifier and the real mint, judged by an evaluator written from the property statement; failures shrink to a minimal secret/witness pair.",
    "level_note": _LOCK_NOTE,
    "assumptions": ["locktime compared at +-1 day only", "lock secrets above 512 bytes are refused by the mint (C04) and carry no sufficiency claim"],
    "units": [
        plain("regress", "^TestRegress"),
        rapid("direct", "^TestDirect$", 4000, 400000, qs=4, ts=16),
        rapid("e2e", "^TestSwapMelt$", 600, 50000, qs=12, ts=16),
        rapid("wallet", "^TestWalletP2PK$", 120, 8000, qs=4, ts=16),
        fuzz("fuzz_direct", "FuzzDirect", "300s"),
    ],
}

CHECKS["C13"] = {
    "pkg": "./checks/c13",
    "level": "exploration",
    "technique": "property-based differential testing (rapid) of the NUT-14 verifier, the library's HTLC witness helpers and Mint.Swap against an independent lock evaluator",
    "rule": ("direct: HTLC configurations (hash = sha256 of a 0..40-byte preimage lower-case / upper-case / 63 / 65 chars / non-hex / empty; n_sigs absent/0..4; 0..3 listed keys; locktime absent/past/future; 0..2 refund keys; sigflag; 10% malformed tags) x witnesses (preimage right / wrong / non-hex / empty / upper-case x the C12 signature grammar and witness shapes) on nut14.VerifyHTLCProof; "
             "helpers: nut14.AddWitnessHTLC on the helper domain (signer listed, n_sigs absent/0/1, before locktime) must be accepted by the verifier; "
             "end to end: really minted HTLC proofs (1..2, plus 0..2 plain) through Mint.Swap with generated witnesses, and helper cases where AddWitnessHTLC and AddWitnessHTLCToOutputs (SIG_ALL) produce every witness and the mint must accept; "
             "oracle: accepted => preimage hex-decodes and its sha256 equals the 64-char lock value and >= n_sigs distinct listed keys signed (before locktime), refund rule after it; SIG_ALL => every output carries the preimage and enough signatures over sha256(bytes of B_); helper witnesses accepted. "
             "non-trivial: verifier reached with a well-formed lock; distinct = (config class, preimage kind, witness shape / elements, input order). Native fuzz units (thorough, coverage-instrumented build): the same generators and oracles with Go's native fuzzer mutating the byte stream rapid draws from (rapid.MakeFuzz), i.e. steered by coverage of the code under test."),
    "level_text": "Generated HTLC configurations and witnesses against the real verifier, helpers and mint, judged by the independent evaluator; the helper-produced witnesses are fed to the real Mint.Swap.",
    "level_note": _LOCK_NOTE + " The wallet-level ReceiveHTLC flow is exercised by the wallet history checks (C17/C08), not here.",
    "assumptions": ["locktime compared at +-1 day only", "an unparsable witness is read as carrying the empty preimage"],
    "units": [
        plain("regress", "^TestRegress"),
        rapid("direct", "^TestDirect$", 3000, 300000, qs=4, ts=16),
        rapid("helper_inputs", "^TestHelperInputs$", 600, 50000, qs=2, ts=8),
        rapid("e2e", "^TestSwap$", 360, 30000, qs=10, ts=16),
        rapid("wallet", "^TestWalletHTLC$", 120, 8000, qs=4, ts=16),
        fuzz("fuzz_direct", "FuzzDirect", "300s"),
    ],
}

_WALLET_NOTE = ("Trusted: the mints (their own properties are C01-C16), the Lightning model, the in-process HTTP router installed as http.DefaultTransport, bbolt. "
                "Wallet mnemonics, quote ids and locked-output nonces are random inside gonuts; the harness refers to them by position and no oracle depends on them. ")

CHECKS["C17"] = {
    "pkg": "./checks/c17",
    "level": "exploration",
    "technique": "model-based stateful property testing (rapid) of real wallets against real mints over an in-process HTTP transport, with mint-side state as oracle",
    "rule": ("rapid state machine over 2-3 real wallet.Wallet instances and 1-2 real mints (fee ppk in {0,100,1000}, LN fee reserve 0 or 1%): mint, send (offline selection and swap, with/without fees), send to pubkey (P2PK, optional SIG_ALL), HTLC send (n_sigs=1, receiver key listed), receive (same mint, other trusted mint, untrusted mint with swap to trusted), ReceiveHTLC, melt with LN outcome {success, pending, failed, transport error none/inflight}, CheckMeltQuoteState, LN resolution, reclaim, remove-spent, MintSwap with LN {success, failed, pending}, keyset rotation at a mint, wallet restart; tokens travel as serialised V4/V3 strings with and without DLEQ. "
             "oracle after every step, from the inner bbolt handles and the mints' own ProofsStateCheck and issued/redeemed sums: (1) GetBalance = sum of stored spendable proofs = sum of GetBalanceByMints and every spendable proof is UNSPENT at its mint; (2) no secret spendable and pending in one wallet, none spendable in two wallets; (3) PendingBalance = value of the proofs handed out by Send or locked in a melt / cross-mint swap and not yet reconciled (set equality by secret); (4) conservation per mint: value of all secrets held by wallets (spendable or pending) or in tokens the harness holds that are not SPENT at the mint = issued - redeemed there. "
             "non-trivial: history with a receive between different wallets and a melt, or a rotation followed by a send; distinct = hash of the trace."),
    "level_text": "Generated multi-wallet, multi-mint histories with generated Lightning outcomes against the real wallet and mint code; balances and conservation are recomputed from storage and from the mints after every step and failures shrink to a short history.",
    "level_note": _WALLET_NOTE + "Locked proofs handed out by SendToPubkey/HTLCLockedProofs are treated as tokens returned to the caller (the sender cannot reclaim them) and are not part of the expected pending balance.",
    "assumptions": ["honest mints; fault-free wallet storage and transport (wallet crashes are C19)", "expected pending set after cross-mint operations and partially failed reclaims is adopted from storage (loss / double counting is still caught by conservation and disjointness)"],
    "units": [
        rapid("history", "^TestHistory$", 192, 3000, qs=16, ts=16, qtimeout=1500, ttimeout=5000),
    ],
}

CHECKS["C08"] = {
    "pkg": "./checks/c08",
    "level": "exploration",
    "technique": "model-based stateful property testing (rapid) with inspection of every byte of every HTTP request the wallets send (taint search for known blinding factors + structural JSON rules)",
    "rule": ("the C17 wallet history machine (all flows: mint, send offline / via swap, P2PK and HTLC sends incl. SIG_ALL, receive same mint / trusted / untrusted with swap to trusted, ReceiveHTLC, melt incl. NUT-08 blank outputs with all LN outcomes, reclaim, remove-spent, MintSwap, restore) with tokens passed with and without DLEQ; every request recorded by the in-process transport is inspected: "
             "(1) no occurrence (hex any case, raw 32 bytes, base64) of any blinding factor known to the harness - from every proof the wallets ever stored (storage proxy), from every token returned to the caller; (2) no JSON key r, and no dleq object at all on an input (e and s identify the mint's signature); (3) secrets of wallet outputs appear only as inputs[].secret of /v1/swap and /v1/melt/bolt11; restore requests carry B_, id, amount only; checkstate requests carry Ys only. "
             "non-trivial: a request with a non-empty inputs list sent by a wallet whose stored proofs carry r; distinct = (flow, endpoint, DLEQ presence)."),
    "level_text": "Generated wallet histories; the transport hands every request body to the oracle, which searches it for every blinding factor the harness knows and applies structural rules.",
    "level_note": _WALLET_NOTE + "A re-encoding of r other than hex / raw / base64 would escape the byte search (the structural rules still catch dleq objects).",
    "assumptions": ["blinding factors known to the harness = those stored by the wallets or returned in tokens"],
    "units": [
        rapid("history", "^TestHistory$", 160, 3600, qs=16, ts=16, qtimeout=1500, ttimeout=5000),
    ],
}

CHECKS["C19"] = {
    "pkg": "./checks/c19",
    "level": "exploration",
    "technique": "model-based stateful property testing (rapid) with wire-level output tracking and an independent computation of the restorable value; wallet crash-point enumeration",
    "rule": ("(a) the wallet history machine with a churn action (send 3/4 of the balance to self and receive: many fresh outputs), restore (wallet.Restore of a wallet's mnemonic into an empty directory, the restored wallet then replaces the original and continues, so restore-of-a-restored-wallet occurs) and rotation; "
             "oracle: no output B_ is submitted for signing after a response carried a signature for it (per seed, from the transport log); after every step the stored counter of every keyset is past every signed counter (outputs re-derived per seed/keyset, cross-checked against the reference derivation); after every restore: restored spendable + pending = value of the seed's deterministic outputs (counters 0..stored+400 per keyset) that the mint signed and reports UNSPENT or PENDING, computed from the mint's tables and state check. "
             "non-trivial: history in which >=1 output was signed; classes record restores, restores of restored wallets, >300 outputs on a keyset; distinct = hash of the trace. (b) crash enumeration: classes crash_*."),
    "level_text": "Generated histories incl. restore chains against the real wallet and mint; counter discipline is read off the wire and storage, restore completeness is compared with an independent enumeration of the seed's outputs at the mint.",
    "level_note": _WALLET_NOTE + "Output derivation for the oracle uses the repository's nut13 code (fast) cross-checked against harness/ref for the first counters of every keyset; C11 establishes their equality in general.",
    "assumptions": ["restore scans are compared up to stored counter + 400"],
    "units": [
        rapid("history", "^TestHistory$", 96, 900, qs=12, ts=16, qtimeout=1500, ttimeout=5000),
        rapid("deep", "^TestDeep$", 12, 200, qs=12, ts=16, qtimeout=1500, ttimeout=5000),
        rapid("second_name", "^TestMintMetUnderSecondName$", 16, 400, qs=4, ts=8),
        {"name": "crash", "kind": "rapid", "run": "^TestCrash$", "quick": {"checks": 8, "shards": 8, "timeout": 1500}, "thorough": {"checks": 16, "shards": 16, "timeout": 3000}},
    ],
}

CHECKS["C18"] = {
    "pkg": "./checks/c18",
    "level": "exploration",
    "technique": "property-based testing (rapid) of Wallet.Send over constructed wallet contents with an independent fee computation and a real recipient redeeming the token",
    "rule": ("wallet contents are constructed, not searched for: the helper mints random multisets of 1..36 proofs of denominations 1..512 on 1..3 keysets of one mint (rotations; input_fee_ppk per keyset drawn from {0,100,250,500,1000,2000}) and stores them through the wallet's inner storage handle; amount drawn from [1, balance] with the small and the near-balance ends over-weighted; includeFees on/off. "
             "oracle on success: value of the returned proofs = amount, or amount + ceil(sum ppk of those very proofs / 1000) with fees; proofs pairwise distinct, UNSPENT at the mint, gone from the spendable set, balance reduced; a second real wallet Receives exactly these proofs and nets sent value - mint fee, = amount when fees were included. "
             "success is required whenever amount + fee(all proofs held) + fee(64 active-keyset inputs) <= balance (a deliberately conservative reading of the statement). "
             "non-trivial: a send that needed a swap, or wallet contents across >=2 keysets, with a fee > 0; distinct = (contents, amount, flags)."),
    "level_text": "Generated wallet contents, amounts and fee configurations against the real Wallet.Send, mint and a real recipient wallet; the fee the mint will charge is recomputed independently from the keyset table.",
    "level_note": _WALLET_NOTE + "Fee formula from harness/ref (NUT-02).",
    "assumptions": ["one mint per case; contents up to 36 proofs"],
    "units": [
        plain("regress", "^TestRegress"),
        rapid("send", "^TestSend$", 640, 30000, qs=8, ts=16, ttimeout=5000),
    ],
}

CHECKS["C20"] = {
    "pkg": "./checks/c20",
    "level": "exploration",
    "technique": "model-based stateful property testing (rapid) through the real HTTP handler with hand-built JSON, per-endpoint shape validators, injected refusal causes, storage/LN fault injection and cache replay / near-replay probes",
    "rule": ("rapid state machine driven ONLY through the in-process handler with bodies built from ordered key/value lists (never the repository's request types): fund (quote, pay, state poll, mint, re-mint), swap (ok and 12 refusal causes), mint refusals (9 causes), melt (paid / pending / unpaid and refusals, re-melt on paid and pending quotes, swap of pending inputs), reads (keysets, keys, keys/{id}, unknown keyset, info, checkstate, restore), keyset rotation, "
             "faults (a storage error carrying a marker string injected at storage call k = 0..7 of the request, single or from-then-on, or Lightning errors with markers, on swap / mint quote / mint / melt quote / checkstate / restore / quote state / info / melt), cache probes (byte-identical replay of every successful swap / mint; near replays: trailing space, query string, other path, GET, reordered keys, one hex digit changed). "
             "oracle: hand-written shape validators (status 200, Content-Type application/json, string states from the NUT enumerations, 66-hex points, 64-hex e/s, one signature per output with equal amounts, 60 keys ascending in the raw bytes, echo and order of Ys); refusals are status 400 with body exactly {detail: string, code: number} and code = the NUT code of the injected cause for the unambiguous causes "
             "(10002, 10003, 10004, 11001, 11002, 11003, 11005, 11006, 11007, 11008, 12001, 12002, 20001, 20002, 20005, 20006, 20008); faulted requests answer 200 or a well-formed 400 with the generic detail, never containing the marker, 'sqlite' or backend text; identical replay returns identical bytes with zero storage/LN calls by the request; every near replay executes and is answered on its own merits. "
             "non-trivial: a response to a request that reached mint logic; distinct = (endpoint, outcome class / cause / near-replay kind / fault position). Websocket unit (NUT-17): one quote is taken through UNPAID -> PAID -> ISSUED over HTTP while a real websocket client is subscribed to it from a drawn point on; every frame is hand-parsed: JSON-RPC 2.0 responses {status OK, subId} and notifications whose payload is the NUT-04 quote object (quote id, request, numeric expiry, state one of the strings UNPAID / PAID / ISSUED); a notification that does not arrive within 3 s is inconclusive, not a violation; non-trivial = both changes notified."),
    "level_text": "Generated request histories, refusal causes, fault positions and replays through the real router, middleware, handlers and JSON (un)marshalers; every response is validated by shape checkers written from the NUT documents.",
    "level_note": _WORLD_NOTE + "Websocket endpoint (/v1/ws) and cache expiry (TTL) are not exercised. Calls of the mint's background watcher goroutines are not attributed to a request.",
    "assumptions": ["handler served in-process via httptest (no sockets)", "cache TTL not exercised"],
    "units": [
        rapid("surface", "^TestSurface$", 320, 8000, qs=8, ts=16),
        rapid("websocket", "^TestWebsocket$", 48, 2000, qs=4, ts=16),
    ],
}

NOT_APPLICABLE = {}
HOOK_COMMITS = ["eca2adf", "812334f"]

# round 2: what was added to the generators and oracles (appended to the rule texts that go into MANIFEST / evidence)
_ROUND2 = {
    "C01": "Round 2: melts of a race may be new attempts on the quote of the failed pre-melt (other inputs); the quote poll / state check that finds the failure out races them (pairs and triples in the enumeration); a retry counts as accepting only if that request issued a pay call itself. Behind the CLN adapter the node imitation lists earlier failed attempts of a payment in front of the current one.",
    "C02": "Round 2: unit backend_lnd as described; schedule units share the retry-on-failed-quote generator of C01.",
    "C05": "Unit poll_after_pay: the pay call is held after the node has recorded the outcome; polls run meanwhile may adopt it or say PENDING, the melt itself must then answer PAID for a payment that succeeded and the states follow the outcome. Unit bulk: the same scripts with every proof-state check being part of a state check of 640 unrelated Ys (in front).",
    "C06": "Round 2 semantic mutations: inactive_keyset_output (an output at any position names a retired keyset), own_invoice_node_lookup_fails (a valid melt of the mint's own invoice whose one Lightning call fails once).",
    "C09": "Round 2: one history in three runs on a mint with configured limits (max balance / mint max / melt max).",
    "C10": "Round 2: the read-back through restore puts never-signed outputs in front of, among and behind the signed ones; wallet histories contain op join (a new wallet, or a newly added mint, in the middle of a history).",
    "C12": "Round 2: condition = kind, lock value, signers, threshold, locktime and refund keys (modes same_other_locktime / same_other_refund); canonical SIG_ALL cases include expired locks (refund key signs inputs and outputs with the helpers; no refund key: nothing is signed) and must be accepted; after the locktime the outputs need a refund-key signature and nothing else.",
    "C13": "Round 2: helper domain includes locks without listed keys (preimage only, also under SIG_ALL); two SIG_ALL inputs with different hashes must be refused; output signatures are required of an HTLC only when n_sigs is set.",
    "C14": "Round 2: decoder input family decorated_short (white space, URI schemes, quotes, BOM, NUL around short strings) and an exhaustive enumeration over \"cashu:AB \\n\"; round trips after another token was built from the same slice without DLEQ.",
    "C16": "Round 2: melt quotes for invoices at the top of the 64-bit msat range (multiples of 100 msat; the generator checks that the invoice says what was asked for).",
    "C18": "Round 2: sender_restored (the wallet directory was made by wallet.Restore), amount class at the exact bound balance - fee(all proofs); without fees included that bound is the success precondition.",
    "C20": "Round 2: op lockx (genuine proofs with well-formed and malformed NUT-10 locks presented without a usable witness: 200 or 400 {detail, code >= 10000}), swap variant dup_inputs_other_spelling (11007).",
}
for _k, _v in _ROUND2.items():
    CHECKS[_k]["rule"] = CHECKS[_k]["rule"] + " " + _v
