# Per-property check configuration consumed by ./check.
# kinds: rapid (sharded by seed, -rapid.checks split over shards), plain (ordinary go test,
# reads VERIF_TIER / VERIF_SEED / VERIF_SHARD / VERIF_NSHARDS), fuzz (native, thorough only).

def rapid(name, run, quick, thorough, qs=4, ts=16, **kw):
    u = {"name": name, "kind": "rapid", "run": run,
         "quick": {"checks": quick, "shards": qs}, "thorough": {"checks": thorough, "shards": ts}}
    for k, v in kw.items():
        if k in ("qsteps",):
            u["quick"]["steps"] = v
        elif k in ("tsteps",):
            u["thorough"]["steps"] = v
        elif k == "qtimeout":
            u["quick"]["timeout"] = v
        elif k == "ttimeout":
            u["thorough"]["timeout"] = v
        else:
            u[k] = v
    return u


def plain(name, run, qs=1, ts=1, **kw):
    u = {"name": name, "kind": "plain", "run": run, "quick": {"shards": qs}, "thorough": {"shards": ts}}
    for k, v in kw.items():
        if k == "qtimeout":
            u["quick"]["timeout"] = v
        elif k == "ttimeout":
            u["thorough"]["timeout"] = v
        else:
            u[k] = v
    return u


def fuzz(name, run, fuzztime="90s", parallel=16):
    return {"name": name, "kind": "fuzz", "run": run, "tiers": ["thorough"],
            "thorough": {"fuzztime": fuzztime, "parallel": parallel, "shards": 1, "timeout": 1200}}


CHECKS = {
    "C11": {
        "pkg": "./checks/c11",
        "level": "exploration",
        "rule": ("rapid generators: messages 0..1024 bytes (random, 32-byte integers, hex/JSON-like secrets) for hash_to_curve; "
                 "public-key maps of 1..64 keys with standard and arbitrary unsorted amounts for the keyset id; "
                 "(seed 16..64 B, 8-byte keyset id incl. high bit and multiples/neighbours of 2^31-1, counter in [0,2^31-1] biased to the edges) for NUT-13; "
                 "oracle = bit-for-bit equality with the independent math/big + HMAC-SHA512 reference pinned to the spec vectors. "
                 "non-trivial: h2c needing >=1 counter iteration; key set unsorted/non-standard or >10 keys; NUT-13 with id >= 2^31, counter >= 2^16 or a derived value with a leading zero byte; "
                 "distinct = hash of the input."),
        "technique": "property-based differential testing (rapid) against an independent spec-derived reference + native fuzzing",
        "level_text": ("Generated-input differential testing: every generated message / key set / (seed, id, counter) triple is run through gonuts and through an independent reference written from NUT-00/02/13 and BIP-32 with math/big and crypto/hmac; any bit difference fails. "
                       "Exploration is the right level: the functions are pure and total, so agreement on 10^4-10^5 inputs aimed at the edge regions (multi-iteration h2c, ids >= 2^63, id mod 2^31-1 neighbours, counters at 2^31-1, leading-zero derived keys) plus the spec vectors is what search can establish; it does not prove equality on all inputs."),
        "level_note": "Trusted: harness/ref (pinned to spec vectors in ref_test.go), Go crypto/sha256, crypto/hmac, math/big. Agreement shown only on generated inputs.",
        "assumptions": ["reference implementation in harness/ref is correct (pinned to NUT-00/02/13, BIP-32 TV1, BIP-340 vector 0)",
                        "agreement is established on the generated inputs only"],
        "units": [
            plain("refvectors", "^TestH2CSweep$"),
            rapid("h2c", "^TestH2C$", 3000, 120000),
            rapid("keysetid", "^TestKeysetID$", 400, 8000),
            rapid("nut13", "^TestNut13$", 1200, 60000),
            rapid("p2pkkey", "^TestP2PKKey$", 200, 4000, qs=1, ts=4),
            fuzz("fuzzh2c", "FuzzH2C", "120s"),
        ],
    },
}

NOT_APPLICABLE = {}
HOOK_COMMITS = []
